(* C15/Properties.v — the property theorems, nothing else.  Each is closed by [exact lemma] and
   followed by Print Assumptions (captured into the evidence by the check driver).
   Property C15: OTLP exporter -> OTLP receiver preserves data and the meaning of failures.
   The tables shouldRetry / isRetryableStatusCode / GetHTTPStatusCodeFromStatus / the gRPC codes are
   re-translated from the Go source and NewStatusFromMsgAndHTTPCode re-dumped on every run, so
   every theorem below is re-proved against what the code says now. *)
From Verif Require Import Common.Base.
From Verif Require Import Generated.C15Recv Generated.C15GrpcExp Generated.C15HttpExp Generated.C15StatusUtil.
From Verif Require Import Generated.C15Shutdown Generated.C15ServerTimeouts Generated.C15DecodersGraph Generated.C15RecvHttpGraph Generated.C15ErrorsGraph.
From Verif Require Import C15.Model C15.Harness C15.Proofs C15.Obligations C15.PropCheck C15.Link.
Local Open Scope Z_scope.

(* ---- clause 1: the data arrives equal to what was sent, for every signal / encoding / compression.
   P = payloads of any signal, comp = any compression offered by the pair; the codec (C08) and the
   compression (C16) enter through their round-trip contract.  With >= 1 item and an accepting
   consumer the sink holds exactly the sent payload and the sender sees Success. *)
Theorem hop_delivers : forall (P B comp : Type) (item_count : P -> N)
    (encode : transport -> comp -> P -> B) (decode : transport -> comp -> B -> option P),
  (forall t k p, decode t k (encode t k p) = Some p) ->
  forall t k a p, a <> AuthFail -> (0 < item_count p)%N ->
    hop_payload P B comp item_count encode decode t k a p Accept = ([p], Success).
Proof. exact hop_delivers_l. Qed.

(* (Until /repo commit 3d5efdb0d the JSON decoder dropped LogRecord.event_name and
   ExponentialHistogramDataPoint.zero_threshold, so the contract failed over HTTP/JSON and this file carried
   hop_delivers_json_partial / _refuted; the decoders are repaired, the hop harness now requires sink bytes =
   sent bytes on all three transports — including payloads that set those two fields — and the single
   statement above stands for gRPC, HTTP/protobuf and HTTP/JSON alike.) *)

(* ... and whatever the consumer answers, what it was handed is the sent payload, exactly once *)
Theorem hop_sink_is_sent_payload : forall (P B comp : Type) (item_count : P -> N)
    (encode : transport -> comp -> P -> B) (decode : transport -> comp -> B -> option P),
  (forall t k p, decode t k (encode t k p) = Some p) ->
  forall t k a p o, a <> AuthFail -> (0 < item_count p)%N ->
    fst (hop_payload P B comp item_count encode decode t k a p o) = [p].
Proof. exact hop_sink_called_l. Qed.

(* ---- last clause: requests with no items are acknowledged without invoking the consumer *)
Theorem empty_request_acknowledged : forall (P B comp : Type) (item_count : P -> N)
    (encode : transport -> comp -> P -> B) (decode : transport -> comp -> B -> option P),
  (forall t k p, decode t k (encode t k p) = Some p) ->
  forall t k a p o, a <> AuthFail -> item_count p = 0%N ->
    hop_payload P B comp item_count encode decode t k a p o = ([], Success).
Proof. exact hop_empty_l. Qed.

Theorem empty_request_hop : forall t a o, a <> AuthFail -> hop t a 0 o = mkHop false Success None.
Proof. exact hop_empty. Qed.

(* ---- clause 2: the sender sees success iff the consumer accepted — for EVERY consumer outcome, errors whose
   explicit gRPC status says OK included (full statement since /repo b16584117 repaired GetStatusFromError;
   before: success_iff_accepted_partial / _refuted, finding C15-OKSTATUS) *)
Theorem success_iff_accepted : forall t a n o, a <> AuthFail -> (0 < n)%N ->
  (h_verdict (hop t a n o) = Success <-> o = Accept).
Proof. exact success_iff_accepted_l. Qed.

(* ... also when the export overlaps the receiver's Shutdown: a request that is inside the consumer when
   Shutdown starts is drained (same result as without the shutdown), a request sent after the shutdown never
   reaches the consumer and fails as retryable; in every phase success <-> the consumer was handed the data
   and accepted it *)
Theorem receiver_stop_calls :
  receiver_stop_call Grpc = GrpcGracefulStop /\ receiver_stop_call HttpPb = HttpShutdown /\
  receiver_stop_call HttpJson = HttpShutdown.
Proof. exact receiver_stop_calls_l. Qed.

(* for every library behaviour in which http.Server.Shutdown and grpc.Server.GracefulStop drain (their
   documented semantics; validated on the implementation by the kind-10 scenarios), on all three transports: *)
Theorem shutdown_drains_inflight : forall lib_drains : stop_call -> bool,
  lib_drains HttpShutdown = true -> lib_drains GrpcGracefulStop = true ->
  forall t a n o, hop_at_lib lib_drains InFlightAtShutdown t a n o = hop t a n o.
Proof. exact shutdown_drains_l. Qed.

Theorem after_shutdown_not_consumed_retryable : forall (lib_drains : stop_call -> bool) t a n o,
  h_called (hop_at_lib lib_drains AfterShutdown t a n o) = false /\
  h_verdict (hop_at_lib lib_drains AfterShutdown t a n o) = Retryable.
Proof. exact after_shutdown_l. Qed.

Theorem success_iff_consumer_accepted : forall lib_drains : stop_call -> bool,
  lib_drains HttpShutdown = true -> lib_drains GrpcGracefulStop = true ->
  forall ph t a n o, a <> AuthFail -> (0 < n)%N ->
  (h_verdict (hop_at_lib lib_drains ph t a n o) = Success <->
   (h_called (hop_at_lib lib_drains ph t a n o) = true /\ o = Accept)).
Proof. exact success_iff_consumer_accepted_l. Qed.

(* the documented semantics is such a behaviour (so the three theorems above apply to [hop_at]) ... *)
Theorem documented_library_semantics_drains :
  documented_lib HttpShutdown = true /\ documented_lib GrpcGracefulStop = true.
Proof. exact documented_lib_drains. Qed.

(* ... and the hypotheses are needed: were the call made on the server of transport t one that does not drain
   (Close / Stop), a request accepted by the consumer during the shutdown would be reported as a failure *)
Theorem non_draining_stop_breaks_success_iff_accepted : forall (lib_drains : stop_call -> bool) t a n,
  a <> AuthFail -> (0 < n)%N -> lib_drains (receiver_stop_call t) = false ->
  h_called (hop_at_lib lib_drains InFlightAtShutdown t a n Accept) = true /\
  h_verdict (hop_at_lib lib_drains InFlightAtShutdown t a n Accept) = Retryable.
Proof. exact cut_breaks_success_iff_accepted_l. Qed.

(* ... and when the consumer is slow: confighttp.ToServer hands each configured timeout to the http.Server field of
   the same name (dumped from the current code), so a consumer that answers within write_timeout (or with none
   configured) is reported exactly as a fast one, whatever read_timeout is; beyond write_timeout the response
   cannot be written any more (inherent to the configuration: accepted data is then reported as a retryable failure) *)
Theorem to_server_copies_timeouts : forall cfg, to_server cfg = cfg.
Proof. exact to_server_identity_l. Qed.

Theorem slow_consumer_within_write_timeout : forall cfg d t a n o,
  to_write cfg <= 0 \/ d < to_write cfg -> hop_slow cfg d t a n o = hop t a n o.
Proof. exact slow_consumer_within_write_timeout_l. Qed.

Theorem slow_consumer_beyond_write_timeout : forall cfg d t a n, t <> Grpc -> a <> AuthFail -> (0 < n)%N ->
  0 < to_write cfg <= d ->
  hop_slow cfg d t a n Accept = mkHop true Retryable None.
Proof. exact slow_consumer_beyond_write_timeout_l. Qed.

(* ---- "any supported compression" with an explicit compression_algorithms list on the receiver: a compression the
   receiver lists (wherever it stands in the list, and for "deflate" whether or not "zlib" is listed too) behaves exactly
   like the default configuration, so every theorem about [hop] applies; one it does not list is refused as a client
   error, never consumed, permanent for the sender.  The enabled-decoder table is dumped from httpContentDecompressor for
   every subset of the names in two orders and the model is proved equal to it (decoders_model_matches_code) *)
Theorem offered_compression_delivers : forall algs comp t a n o,
  t = Grpc \/ server_accepts algs comp = true -> hop_cfg algs comp t a n o = hop t a n o.
Proof. exact offered_compression_delivers_l. Qed.

Theorem unlisted_compression_refused : forall algs comp t a n o, t <> Grpc -> server_accepts algs comp = false ->
  h_called (hop_cfg algs comp t a n o) = false /\
  h_verdict (hop_cfg algs comp t a n o) = Permanent /\
  (a <> AuthFail -> h_err_code (hop_cfg algs comp t a n o) = Some codes_InvalidArgument).
Proof. exact unlisted_compression_refused_l. Qed.

Theorem server_accepts_iff_listed : forall algs name, 0 <= name <= 6 -> (server_accepts algs name = true <-> In name algs).
Proof. exact server_accepts_listed. Qed.

Theorem decoders_model_matches_code : forallb check_case decoders_graph = true.
Proof. exact decoders_model_matches_code_l. Qed.

Theorem decoders_graph_complete : (length decoders_graph = 1736)%nat.
Proof. exact decoders_graph_complete_l. Qed.

(* ---- the same over HISTORIES: any finite sequence of sends (any mix of transports, authenticator states, item
   counts, consumer outcomes) through one receiver.  The sink receives exactly the sends that are authenticated and
   have items, in order; every send gets the verdict of its own hop, so success iff ITS consumer call accepted *)
Theorem history_sink_and_verdicts : forall h i,
  fst (run_history h i) = delivered_indices h i /\
  snd (run_history h i) = map (fun s => let '(t, a, n, o) := s in h_verdict (hop t a n o)) h.
Proof. exact history_l. Qed.

Theorem history_success_iff_accepted : forall h i k t a n o,
  nth_error h k = Some (t, a, n, o) -> a <> AuthFail -> (0 < n)%N ->
  (nth_error (snd (run_history h i)) k = Some Success <-> o = Accept).
Proof. exact history_success_l. Qed.

(* the consumer is invoked iff the request is authenticated and has items (every transport, every outcome) *)
Theorem consumer_called_iff : forall t a n o,
  h_called (hop t a n o) = negb (auth_fails a) && negb (n =? 0)%N.
Proof. exact hop_called_iff. Qed.

(* ---- clause 3: how a consumer error is reported: an explicit gRPC status => that status (code and
   RetryInfo); any other permanent error => Internal; any other error => Unavailable *)
Theorem status_mapping : forall o, o <> Accept ->
  match from_error o with
  | Some (c, ri) => get_status_from_error o = if c =? 0 then Some (default_status o) else Some (c, ri)
  | None => get_status_from_error o = Some (default_status o)
  end.
Proof. exact status_mapping_l. Qed.

(* the same, clause by clause *)
Theorem status_mapping_explicit : forall o c ri, from_error o = Some (c, ri) -> c <> 0 ->
  get_status_from_error o = Some (c, ri).
Proof. exact Proofs.status_mapping_explicit. Qed.

(* any other permanent error => Internal, any other error => Unavailable ... *)
Theorem status_mapping_other : forall o, from_error o = None ->
  get_status_from_error o = Some (if is_permanent o then codes_Internal else codes_Unavailable, None).
Proof. exact Proofs.status_mapping_other. Qed.

(* ... which the specification's table calls non-retryable resp. retryable *)
Theorem status_mapping_classes :
  (forall b, spec_grpc_retryable codes_Internal b = false) /\
  (forall b, spec_grpc_retryable codes_Unavailable b = true).
Proof. exact (conj internal_not_retryable unavailable_retryable). Qed.

(* on the wire: gRPC carries the status itself; HTTP carries GetHTTPStatusCodeFromStatus of its code,
   the code in the body, and Retry-After = whole seconds of the RetryInfo delay on 429 / 503 *)
Theorem status_on_the_wire : forall t a n o c ri, a <> AuthFail -> (0 < n)%N -> o <> Accept ->
  get_status_from_error o = Some (c, ri) ->
  recv_grpc a (Some n) o = (true, Some (c, ri)) /\
  (t <> Grpc ->
   recv_http (exporter_request t a n) o =
     (true, mkResp (GetHTTPStatusCodeFromStatus c) (http_retry_after (GetHTTPStatusCodeFromStatus c) ri) (Some c))).
Proof. exact status_on_the_wire_l. Qed.

(* the HTTP status chosen for a code is retryable (HTTP table) iff the code is retryable (gRPC table),
   except ResourceExhausted without RetryInfo; it is never a 2xx *)
Theorem http_status_consistent_with_grpc_table : forall c b,
  spec_http_retryable (GetHTTPStatusCodeFromStatus c) = spec_grpc_retryable c b || ((c =? 8) && negb b) /\
  is_2xx (GetHTTPStatusCodeFromStatus c) = false.
Proof. exact (fun c b => conj (http_status_of_code_consistent c b) (http_status_of_code_not_2xx c)). Qed.

(* ---- clause 4: the sending exporters classify exactly as the OTLP specification's tables prescribe *)
Theorem exporter_matches_spec :
  (forall c ri, c <> 0 ->
     class_of (process_error (Some (c, ri))) = if spec_grpc_retryable c (has_ri ri) then CRetryable else CPermanent) /\
  (forall st h b, is_2xx st = false ->
     class_of (http_export st h b) = if spec_http_retryable st then CRetryable else CPermanent).
Proof. exact (conj grpc_exporter_class http_exporter_class). Qed.

Theorem exporter_matches_spec_grpc : forall c ri, c <> 0 ->
  class_of (process_error (Some (c, ri))) = if spec_grpc_retryable c (has_ri ri) then CRetryable else CPermanent.
Proof. exact grpc_exporter_class. Qed.

Theorem exporter_matches_spec_grpc_table : forall c has_retry_info,
  shouldRetry c (negb has_retry_info) = spec_grpc_retryable c has_retry_info.
Proof. exact shouldRetry_is_spec. Qed.

Theorem exporter_matches_spec_http : forall st h b, is_2xx st = false ->
  class_of (http_export st h b) = if spec_http_retryable st then CRetryable else CPermanent.
Proof. exact http_exporter_class. Qed.

Theorem exporter_matches_spec_http_table : forall st, isRetryableStatusCode st = spec_http_retryable st.
Proof. exact isRetryable_is_spec. Qed.

Theorem exporter_success : (forall ri, process_error (Some (0, ri)) = Success) /\ process_error None = Success /\
  (forall st h, is_2xx st = true -> http_export st h true = Success).
Proof. exact exporter_success_l. Qed.

(* requested throttling delay honoured *)
Theorem exporter_honours_throttle_grpc : forall c d, d <> 0 -> spec_grpc_retryable c true = true ->
  process_error (Some (c, Some d)) = Throttle d.
Proof. exact grpc_exporter_throttle. Qed.

Theorem exporter_honours_throttle_http : forall st s b, is_throttle_status st = true ->
  http_export st (RASecs s) b = Throttle (s * second).
Proof. exact http_exporter_throttle. Qed.

(* the gRPC code inside the error the HTTP exporter returns means the same as the HTTP status did *)
Theorem http_exporter_error_code_consistent : forall st, is_2xx st = false ->
  spec_grpc_retryable (NewStatusFromMsgAndHTTPCode st) true = spec_http_retryable st.
Proof. exact http_err_code_consistent. Qed.

(* ---- "so a failure means the same thing on both sides of the hop" *)
Theorem meaning_commutes_permanent : forall t a n, a <> AuthFail -> (0 < n)%N ->
  class_of (h_verdict (hop t a n PermanentErr)) = CPermanent.
Proof. exact permanent_stays_permanent. Qed.

Theorem meaning_commutes_transient : forall t a n, a <> AuthFail -> (0 < n)%N ->
  class_of (h_verdict (hop t a n PlainErr)) = CRetryable.
Proof. exact plain_stays_retryable. Qed.

(* every failing outcome: the sender's class is the specification's class of the reported status on
   gRPC; the two HTTP encodings agree; HTTP agrees with gRPC except exactly where the two
   specification tables differ (ResourceExhausted without RetryInfo: permanent over gRPC, retryable
   over HTTP 429) *)
Theorem meaning_commutes : forall a n o, a <> AuthFail -> (0 < n)%N -> o <> Accept ->
  exists c ri, get_status_from_error o = Some (c, ri) /\ c <> 0 /\
    class_of (h_verdict (hop Grpc a n o)) = spec_class_grpc c ri /\
    class_of (h_verdict (hop HttpPb a n o)) = class_of (h_verdict (hop HttpJson a n o)) /\
    (tables_differ c ri = false ->
       class_of (h_verdict (hop HttpPb a n o)) = class_of (h_verdict (hop Grpc a n o))) /\
    (tables_differ c ri = true ->
       class_of (h_verdict (hop Grpc a n o)) = CPermanent /\ class_of (h_verdict (hop HttpPb a n o)) = CRetryable).
Proof. exact meaning_commutes_l. Qed.

(* the error handed back to the caller of the exporter carries the consumer's status code on gRPC, and on
   HTTP the code statusutil derives from the HTTP status, which the gRPC table classifies like the HTTP
   table classified the status *)
Theorem error_code_through_hop : forall t a n o c ri, a <> AuthFail -> (0 < n)%N -> o <> Accept ->
  get_status_from_error o = Some (c, ri) -> c <> 0 ->
  (t = Grpc -> h_err_code (hop t a n o) = Some c) /\
  (t <> Grpc ->
     h_err_code (hop t a n o) = Some (NewStatusFromMsgAndHTTPCode (GetHTTPStatusCodeFromStatus c)) /\
     spec_grpc_retryable (NewStatusFromMsgAndHTTPCode (GetHTTPStatusCodeFromStatus c)) true =
       spec_http_retryable (GetHTTPStatusCodeFromStatus c)).
Proof. exact error_code_through_hop_l. Qed.

(* the throttling delay survives the hop: exactly on gRPC, in whole seconds on HTTP; no delay is invented *)
Theorem throttle_through_hop_grpc : forall a n o c d, a <> AuthFail -> (0 < n)%N -> o <> Accept ->
  get_status_from_error o = Some (c, Some d) -> spec_grpc_retryable c true = true -> d <> 0 ->
  h_verdict (hop Grpc a n o) = Throttle d.
Proof. exact hop_throttle_grpc. Qed.

Theorem throttle_through_hop_http : forall t a n o c d, t <> Grpc -> a <> AuthFail -> (0 < n)%N -> o <> Accept ->
  get_status_from_error o = Some (c, Some d) -> spec_grpc_retryable c true = true ->
  h_verdict (hop t a n o) = Throttle (Z.quot d second * second).
Proof. exact hop_throttle_http. Qed.

Theorem no_throttle_without_retry_info : forall t a n o c, a <> AuthFail -> (0 < n)%N -> o <> Accept ->
  get_status_from_error o = Some (c, None) -> c <> 0 ->
  delay_of (h_verdict (hop t a n o)) = 0 /\ (forall d, h_verdict (hop t a n o) <> Throttle d).
Proof. exact hop_no_throttle_without_retry_info. Qed.

(* ---- clause 5: malformed / unsupported media type / wrong method / unauthenticated requests never
   reach the consumer (full strength, HTTP and gRPC) ... *)
Theorem client_errors_never_reach_consumer : forall rq o, client_error rq = true -> fst (recv_http rq o) = false.
Proof. exact client_error_not_called. Qed.

Theorem client_errors_never_reach_consumer_grpc : forall a n o,
  fst (recv_grpc AuthFail (Some n) o) = false /\ fst (recv_grpc a None o) = false.
Proof. exact (fun a n o => conj eq_refl eq_refl). Qed.

(* ... and are answered with the protocol's client-error statuses (401 / 400 / 405 / 415 / 400 in the order the
   server checks), without Retry-After, whatever the request's Content-Type (full statement since the fallback
   error handler was repaired, /repo 158674155; before: client_error_status_partial / _refuted, finding
   C15-CLIENTERR-500) *)
Theorem client_error_status : forall rq o, client_error rq = true ->
  rs_status (snd (recv_http rq o)) = expected_client_status rq /\
  400 <= rs_status (snd (recv_http rq o)) <= 499 /\
  rs_retry_after (snd (recv_http rq o)) = None.
Proof. exact Proofs.client_error_status. Qed.

(* a request whose body read ends early (compressed stream without its trailer, fewer bytes than Content-Length) is
   rejected with the client-error status and never decoded, even when the prefix that arrived would decode *)
Theorem truncated_body_rejected : forall a p c b o,
  fst (recv_http (mkReq a EncTruncated p c b) o) = false /\
  rs_status (snd (recv_http (mkReq a EncTruncated p c b) o)) = expected_client_status (mkReq a EncTruncated p c b) /\
  400 <= rs_status (snd (recv_http (mkReq a EncTruncated p c b) o)) <= 499.
Proof. exact truncated_body_rejected_l. Qed.

(* the classification is total and the client-error theorems are not vacuous for real traffic: what the OTLP/HTTP
   exporter sends is never a client error, and a request that is not a client error is handled — the consumer is
   called iff there are items, and the answer is 200 iff there were no items or the consumer accepted *)
Theorem exporter_requests_are_well_formed : forall t a n, a <> AuthFail -> client_error (exporter_request t a n) = false.
Proof. exact well_formed_not_client_error. Qed.

Theorem well_formed_request_handled : forall rq o, client_error rq = false ->
  exists n, r_body rq = Some n /\
    fst (recv_http rq o) = negb (n =? 0)%N /\
    (rs_status (snd (recv_http rq o)) = 200 <-> ((n = 0)%N \/ o = Accept)).
Proof. exact well_formed_request_handled_l. Qed.

(* gRPC: refused credentials => Unauthenticated; a malformed body => Internal, not InvalidArgument
   (finding C15-GRPC-MALFORMED-INTERNAL); both permanent for the sender *)
Theorem client_error_status_grpc : forall a n o,
  snd (recv_grpc AuthFail (Some n) o) = Some (codes_Unauthenticated, None) /\
  snd (recv_grpc a None o) = Some (codes_Internal, None) /\
  process_error (Some (codes_Unauthenticated, None)) = Permanent /\
  process_error (Some (codes_Internal, None)) = Permanent.
Proof. exact (fun a n o => conj eq_refl (conj eq_refl grpc_client_errors_permanent)). Qed.

Theorem grpc_malformed_invalid_argument_refuted : exists a o,
  snd (recv_grpc a None o) <> Some (codes_InvalidArgument, None) /\
  snd (recv_grpc a None o) = Some (codes_Internal, None).
Proof. exact grpc_malformed_invalid_argument_refuted_l. Qed.

(* whatever the answer, the sending exporter treats a client error as permanent (it is not resent) *)
Theorem client_error_is_permanent_for_sender : forall rq o h b, client_error rq = true ->
  http_export (rs_status (snd (recv_http rq o))) h b = Permanent.
Proof. exact client_error_permanent_for_sender. Qed.

(* with an authenticator that accepts, or none configured, the hop behaves identically *)
Theorem authenticator_transparent : forall t n o, hop t AuthOK n o = hop t NoAuth n o.
Proof. exact authenticator_transparent_l. Qed.

Theorem unauthenticated_hop : forall t n o, hop t AuthFail n o = mkHop false Permanent (Some codes_Unauthenticated).
Proof. exact hop_auth_fail. Qed.

(* ---- the model against the CURRENT code, as obligations (C15/Obligations.v): every line of the graphs of
   writeStatusResponse / readContentType / errorHandler / writeError and of GetStatusFromError /
   GetHTTPStatusCodeFromStatus, dumped by running the functions of the current tree on their finite domains,
   agrees with the hand-written model function; the graphs have their full size *)
Theorem recvhttp_model_matches_code : forallb check_dump recvhttp_graph = true.
Proof. exact recvhttp_model_matches_code_l. Qed.

Theorem recvhttp_graph_complete :
  (1000 <=? count_kind 1 recvhttp_graph = true)%nat /\ (count_kind 2 recvhttp_graph = 6)%nat /\
  (count_kind 3 recvhttp_graph = 1500)%nat /\ (100 <=? count_kind 4 recvhttp_graph = true)%nat.
Proof. exact recvhttp_graph_complete_l. Qed.

Theorem errors_model_matches_code : forallb check_case errors_graph = true.
Proof. exact errors_model_matches_code_l. Qed.

Theorem errors_graph_complete : (700 <=? length errors_graph = true)%nat.
Proof. exact errors_graph_complete_l. Qed.

(* ---- the decidable clause checker the driver runs over every observed case is exactly the Prop-level clause *)
Theorem clause_checker_sound : forall c, prop_ok c = true <-> Clause c.
Proof. exact prop_ok_sound. Qed.

(* ---- ... and what the MODEL produces always passes that checker (C15/Link.v): for every kind of case, on the
   observation built from the model's own run exactly as Harness.model_out builds it, for ALL inputs.  So the checker
   never demands more than the model delivers, and its verdicts and the theorems above are about the same clauses. *)
Theorem model_hop_passes_checker : forall t a n o,
  decide (hop_form (tz_of t) (az_of a) (Z.of_N n) o (hop_obs (hop t a n o))) = true.
Proof. exact model_hop_passes_checker_l. Qed.

(* the same on the raw case the driver evaluates (inputs encoded as the harness encodes them) *)
Theorem model_hop_case_passes_checker : forall t a n o sg cp ls lv kb obs0 m, encodable o ->
  model_out (hop_case t a n o sg cp ls lv kb obs0) = Some m ->
  prop_ok (hop_case t a n o sg cp ls lv kb m) = true.
Proof. exact model_hop_case_passes_checker_l. Qed.

Theorem model_shutdown_passes_checker : forall ph t n o,
  decide (shutdown_form (tz_of t) (pz_of ph) (Z.of_N n) o (hop_obs (hop_at ph t NoAuth n o))) = true.
Proof. exact model_shutdown_passes_checker_l. Qed.

(* guards: a non-negative write timeout; items > 0 (beyond write_timeout the checker only asks that the consumer got the
   data, which needs a consumer call) *)
Theorem model_slow_consumer_passes_checker : forall t read_ms write_ms hold_ms n o, 0 <= write_ms -> (0 < n)%N ->
  decide (slow_form (tz_of t) write_ms hold_ms (Z.of_N n) o
            (hop_obs (hop_slow (mkTO (read_ms * 1000000) 0 (write_ms * 1000000) 0) (hold_ms * 1000000) t NoAuth n o))) = true.
Proof. exact model_slow_consumer_passes_checker_l. Qed.

Theorem model_cfg_hop_passes_checker : forall algs comp t n o,
  decide (cfg_form algs comp (tz_of t) (Z.of_N n) o (hop_obs (hop_cfg algs comp t NoAuth n o))) = true.
Proof. exact model_cfg_hop_passes_checker_l. Qed.

Theorem model_raw_http_passes_checker : forall a e p c b o,
  decide (raw_http_form (az_of a) (ez_of e) (b2z p) (cz_of c) (bz_of b) o
            (http_obs (recv_http (mkReq a e p c b) o))) = true.
Proof. exact model_raw_http_passes_checker_l. Qed.

Theorem model_raw_grpc_passes_checker : forall a b o,
  decide (raw_grpc_form (az_of a) (bz_of b) o (grpc_obs (recv_grpc a b o))) = true.
Proof. exact model_raw_grpc_passes_checker_l. Qed.

Theorem model_status_passes_checker : forall o,
  decide (status_form o (gstatus_obs (get_status_from_error o))) = true.
Proof. exact model_status_passes_checker_l. Qed.

Theorem model_process_error_passes_checker : forall c ri,
  decide (process_form c ri (verdict_obs (process_error (Some (c, ri))))) = true.
Proof. exact model_process_error_passes_checker_l. Qed.

Theorem model_http_export_passes_checker : forall st h b,
  decide (export_form st h b (verdict_obs (http_export st h b))) = true.
Proof. exact model_http_export_passes_checker_l. Qed.

Print Assumptions model_hop_passes_checker.
Print Assumptions model_hop_case_passes_checker.
Print Assumptions model_shutdown_passes_checker.
Print Assumptions model_slow_consumer_passes_checker.
Print Assumptions model_cfg_hop_passes_checker.
Print Assumptions model_raw_http_passes_checker.
Print Assumptions model_raw_grpc_passes_checker.
Print Assumptions model_status_passes_checker.
Print Assumptions model_process_error_passes_checker.
Print Assumptions model_http_export_passes_checker.
Print Assumptions clause_checker_sound.
Print Assumptions recvhttp_model_matches_code.
Print Assumptions recvhttp_graph_complete.
Print Assumptions errors_model_matches_code.
Print Assumptions errors_graph_complete.
Print Assumptions hop_delivers.
Print Assumptions hop_sink_is_sent_payload.
Print Assumptions empty_request_acknowledged.
Print Assumptions empty_request_hop.
Print Assumptions success_iff_accepted.
Print Assumptions receiver_stop_calls.
Print Assumptions documented_library_semantics_drains.
Print Assumptions non_draining_stop_breaks_success_iff_accepted.
Print Assumptions shutdown_drains_inflight.
Print Assumptions after_shutdown_not_consumed_retryable.
Print Assumptions success_iff_consumer_accepted.
Print Assumptions truncated_body_rejected.
Print Assumptions to_server_copies_timeouts.
Print Assumptions slow_consumer_within_write_timeout.
Print Assumptions slow_consumer_beyond_write_timeout.
Print Assumptions offered_compression_delivers.
Print Assumptions unlisted_compression_refused.
Print Assumptions server_accepts_iff_listed.
Print Assumptions decoders_model_matches_code.
Print Assumptions decoders_graph_complete.
Print Assumptions history_sink_and_verdicts.
Print Assumptions history_success_iff_accepted.
Print Assumptions consumer_called_iff.
Print Assumptions exporter_requests_are_well_formed.
Print Assumptions well_formed_request_handled.
Print Assumptions status_mapping.
Print Assumptions status_mapping_explicit.
Print Assumptions status_mapping_other.
Print Assumptions status_mapping_classes.
Print Assumptions status_on_the_wire.
Print Assumptions http_status_consistent_with_grpc_table.
Print Assumptions exporter_matches_spec.
Print Assumptions exporter_matches_spec_grpc.
Print Assumptions exporter_matches_spec_grpc_table.
Print Assumptions exporter_matches_spec_http.
Print Assumptions exporter_matches_spec_http_table.
Print Assumptions exporter_success.
Print Assumptions exporter_honours_throttle_grpc.
Print Assumptions exporter_honours_throttle_http.
Print Assumptions http_exporter_error_code_consistent.
Print Assumptions meaning_commutes_permanent.
Print Assumptions meaning_commutes_transient.
Print Assumptions meaning_commutes.
Print Assumptions error_code_through_hop.
Print Assumptions throttle_through_hop_grpc.
Print Assumptions throttle_through_hop_http.
Print Assumptions no_throttle_without_retry_info.
Print Assumptions client_errors_never_reach_consumer.
Print Assumptions client_errors_never_reach_consumer_grpc.
Print Assumptions client_error_status.
Print Assumptions client_error_status_grpc.
Print Assumptions grpc_malformed_invalid_argument_refuted.
Print Assumptions client_error_is_permanent_for_sender.
Print Assumptions authenticator_transparent.
Print Assumptions unauthenticated_hop.
