(* C15/Obligations.v — the hand-written model functions against what the CURRENT Go code does, as named
   proof obligations (in addition to the correspondence run):
   - Generated/C15RecvHttpGraph.v: the whole graphs of writeStatusResponse, readContentType, errorHandler and
     writeError (receiver/otlpreceiver/otlphttp.go), dumped by running them (harness/C15/recvhttp_dump_test.go);
   - Generated/C15ErrorsGraph.v: the whole graph of internal/errors.GetStatusFromError and
     GetHTTPStatusCodeFromStatus (harness/C15/errors_test.go);
   - Generated/C15Shutdown.v: the stop calls made by otlpReceiver.Shutdown.
   These functions are outside translator T1's subset (see props/C15/NOTES.md); an edit of the Go source changes
   the generated graph and breaks the obligation by name. *)
From Verif Require Import Common.Base.
From Verif Require Import Generated.C15Recv Generated.C15GrpcExp Generated.C15HttpExp Generated.C15StatusUtil Generated.C15Shutdown.
From Verif Require Import Generated.C15RecvHttpGraph Generated.C15ErrorsGraph.
From Verif Require Import C15.Model C15.Harness.
Local Open Scope Z_scope.

Definition resp_obs (r : response) : list Z :=
  [rs_status r;
   match rs_retry_after r with Some _ => 1 | None => 0 end;
   match rs_retry_after r with Some s => s | None => 0 end;
   opt_code (rs_body_code r)].

Definition ri_flag (has_ri d : Z) : option Z := if has_ri =? 0 then None else Some d.

(* model output for one line of the dumped graph *)
Definition dump_model (c : nat * (list Z * list Z)) : option (list Z) :=
  match fst c, fst (snd c) with
  | 1%nat, [st; has_ri; d] => Some (firstn 3 (resp_obs (write_status_response st (14, ri_flag has_ri d))))
  | 2%nat, [post; cls] => Some [read_content_type (negb (post =? 0)) (ct_of_z cls)]
  | 3%nat, [cls; st] =>
      let r := error_handler (ct_of_z cls) st in Some [rs_status r; opt_code (rs_body_code r)]
  | 4%nat, [ct; code; def; has_ri; d] =>
      Some (resp_obs (write_error (if code =? (-1) then None else Some (code, ri_flag has_ri d)) def))
  | _, _ => None
  end.

Definition check_dump (c : nat * (list Z * list Z)) : bool :=
  match dump_model c with
  | Some m => zlist_eqb m (snd (snd c))
  | None => false
  end.

(* how many lines of each kind the dump must at least contain (a dump that silently shrank is not a proof) *)
Definition count_kind (k : nat) (l : list (nat * (list Z * list Z))) : nat :=
  length (filter (fun c => Nat.eqb (fst c) k) l).

Lemma recvhttp_graph_complete_l :
  (1000 <=? count_kind 1 recvhttp_graph = true)%nat /\ (count_kind 2 recvhttp_graph = 6)%nat /\
  (count_kind 3 recvhttp_graph = 1500)%nat /\ (100 <=? count_kind 4 recvhttp_graph = true)%nat.
Proof. vm_compute. repeat split. Qed.

Lemma recvhttp_model_matches_code_l : forallb check_dump recvhttp_graph = true.
Proof. vm_compute. reflexivity. Qed.

Lemma errors_graph_complete_l : (700 <=? length errors_graph = true)%nat.
Proof. vm_compute. reflexivity. Qed.

Lemma errors_model_matches_code_l : forallb check_case errors_graph = true.
Proof. vm_compute. reflexivity. Qed.
