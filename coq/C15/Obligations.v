(* C15/Obligations.v — the hand-written model functions against what the CURRENT Go code does, as named
   proof obligations (in addition to the correspondence run):
   - Generated/C15RecvHttpGraph.v: the whole graphs of writeStatusResponse, readContentType, errorHandler and
     writeError (receiver/otlpreceiver/otlphttp.go), dumped by running them (harness/C15/recvhttp_dump_test.go);
   - Generated/C15ErrorsGraph.v: the whole graph of internal/errors.GetStatusFromError and
     GetHTTPStatusCodeFromStatus (harness/C15/errors_test.go);
   - Generated/C15Shutdown.v: the stop calls made by otlpReceiver.Shutdown.
   These functions are outside translator T1's subset (see props/C15/NOTES.md); an edit of the Go source changes
   the generated graph and breaks the obligation by name. *)
From Verif Require Import Common.Base.
From Verif Require Import Generated.C15Recv Generated.C15GrpcExp Generated.C15HttpExp Generated.C15StatusUtil Generated.C15Shutdown.
From Verif Require Import Generated.C15RecvHttpGraph Generated.C15ErrorsGraph.
From Verif Require Import C15.Model C15.Harness C15.PropCheck.
Local Open Scope Z_scope.

Lemma recvhttp_graph_complete_l :
  (1000 <=? count_kind 1 recvhttp_graph = true)%nat /\ (count_kind 2 recvhttp_graph = 6)%nat /\
  (count_kind 3 recvhttp_graph = 1500)%nat /\ (100 <=? count_kind 4 recvhttp_graph = true)%nat.
Proof. vm_compute. repeat split. Qed.

Lemma recvhttp_model_matches_code_l : forallb check_dump recvhttp_graph = true.
Proof. vm_compute. reflexivity. Qed.

Lemma errors_graph_complete_l : (700 <=? length errors_graph = true)%nat.
Proof. vm_compute. reflexivity. Qed.

Lemma errors_model_matches_code_l : forallb check_case errors_graph = true.
Proof. vm_compute. reflexivity. Qed.

(* the enabled-decoder table of httpContentDecompressor for every subset of the compression names, in two orders *)
Lemma decoders_graph_complete_l : (length decoders_graph = 1736)%nat.
Proof. vm_compute. reflexivity. Qed.

Lemma decoders_model_matches_code_l : forallb check_case decoders_graph = true.
Proof. vm_compute. reflexivity. Qed.
