(* C15/Link.v — the clause checker linked back to the model: what the MODEL produces always passes the checker.
   For every kind of correspondence case, [observe] = the same wire form Harness.model_out builds from the model's run
   (hop_obs, gstatus_obs, verdict_obs, http_obs, grpc_obs), the inputs are encoded as the harness encodes them
   (tz_of / az_of / ez_of / cz_of / bz_of / pz_of are right inverses of Harness.transport_of / auth_of / enc_of / ct_of_z /
   body_of), and decide (the checker's formula for that kind) = true is proved for ALL inputs under exactly the guards
   noted at each theorem.  Consequences: the checker never demands more than the model delivers (no false alarm on a
   case where implementation = model), and the checker's verdicts and the theorems of Properties.v speak about the
   same clauses. *)
From Verif Require Import Common.Base.
From Verif Require Import Generated.C15Recv Generated.C15GrpcExp Generated.C15HttpExp Generated.C15StatusUtil.
From Verif Require Import C15.Model C15.PropCheck C15.Proofs.
Local Open Scope Z_scope.

Definition tz_of (t : transport) : Z := match t with Grpc => 0 | HttpPb => 1 | HttpJson => 2 end.
Definition az_of (a : auth) : Z := match a with NoAuth => 0 | AuthOK => 1 | AuthFail => 2 end.
Definition hop_obs (h : hop_result) : list Z :=
  [b2z (h_called h)] ++ verdict_obs (h_verdict h) ++ [opt_code (h_err_code h); b2z (h_called h); 1].

(* a failing outcome enters the hop only through the status GetStatusFromError makes of it *)
Lemma hop_depends_on_wire : forall t a n o1 o2, o1 <> Accept -> o2 <> Accept ->
  get_status_from_error o1 = get_status_from_error o2 -> hop t a n o1 = hop t a n o2.
Proof.
  intros t a n o1 o2 H1 H2 E.
  assert (X : export n o1 = export n o2).
  { unfold export. destruct (n =? 0)%N; [reflexivity|]. destruct o1; try congruence; destruct o2; try congruence; rewrite E; reflexivity. }
  unfold hop, recv_grpc, recv_http, exporter_request. cbn [r_auth r_enc r_post r_ct r_body].
  destruct t; rewrite ?X; reflexivity.
Qed.

(* the canonical outcome with the same meaning: what the checker looks at (is_accept, explicit_status, wrapped_permanent) and
   what the hop looks at (the wire status) are both preserved *)
Definition canon (o : outcome) : outcome :=
  match o with
  | Accept => Accept
  | _ => match explicit_status o with
         | Some (c, ri) => StatusErr c ri WNone
         | None => if wrapped_permanent o then PermanentErr else PlainErr
         end
  end.

Lemma canon_wire : forall o, get_status_from_error (canon o) = get_status_from_error o.
Proof.
  intros o. destruct o as [| | |c ri w|[c|] ri w]; try reflexivity; unfold canon, explicit_status.
  - destruct (Z.eqb_spec c 0) as [->|Hc]; [destruct w; reflexivity|].
    unfold get_status_from_error, from_error, status_err. cbn [fst].
    replace (c =? codes_OK) with false by (symmetry; apply Z.eqb_neq; exact Hc). reflexivity.
  - destruct (Z.eqb_spec c 0) as [->|Hc]; [destruct w; reflexivity|].
    unfold get_status_from_error, from_error, status_err. cbn [fst].
    replace (c =? codes_OK) with false by (symmetry; apply Z.eqb_neq; exact Hc). reflexivity.
  - destruct w; reflexivity.
Qed.

Lemma canon_accept : forall o, canon o = Accept <-> o = Accept.
Proof.
  intros o. split; [|intros ->; reflexivity].
  destruct o as [| | |c ri w|[c|] ri w]; try reflexivity; unfold canon, explicit_status; intros H;
    repeat match type of H with context [if ?b then _ else _] => destruct b end; discriminate.
Qed.

Lemma canon_checker_view : forall o,
  is_accept (canon o) = is_accept o /\ explicit_status (canon o) = explicit_status o /\
  (explicit_status o = None -> wrapped_permanent (canon o) = wrapped_permanent o).
Proof.
  intros o. destruct o as [| | |c ri w|[c|] ri w]; try (repeat split; reflexivity); unfold canon, explicit_status.
  - destruct (Z.eqb_spec c 0) as [->|Hc]; [destruct w; repeat split; reflexivity|].
    cbn. replace (c =? 0) with false by (symmetry; apply Z.eqb_neq; exact Hc). repeat split; try reflexivity. discriminate.
  - destruct (Z.eqb_spec c 0) as [->|Hc]; [destruct w; repeat split; reflexivity|].
    cbn. replace (c =? 0) with false by (symmetry; apply Z.eqb_neq; exact Hc). repeat split; try reflexivity. discriminate.
  - destruct w; repeat split; reflexivity.
Qed.

Lemma canon_text_retryable : forall http o, text_retryable http (canon o) = text_retryable http o.
Proof.
  intros http o. destruct (canon_checker_view o) as (_ & E & W). unfold text_retryable. rewrite E.
  destruct (explicit_status o) as [[c ri]|]; [reflexivity|]. rewrite W; reflexivity.
Qed.

Lemma hop_form_canon : forall t a n o obs, hop_form t a n (canon o) obs = hop_form t a n o obs.
Proof.
  intros t a n o obs. destruct (canon_checker_view o) as (A & E & _). unfold hop_form.
  destruct obs as [|x1 [|x2 [|x3 [|x4 [|x5 [|x6 [|]]]]]]]; try reflexivity.
  rewrite A, E, !canon_text_retryable. reflexivity.
Qed.

Lemma hop_canon : forall t a n o, hop t a n (canon o) = hop t a n o.
Proof.
  intros t a n o. destruct (outcome_eq_Accept_dec o) as [->|H]; [reflexivity|].
  apply hop_depends_on_wire; [rewrite canon_accept; exact H|exact H|apply canon_wire].
Qed.

Lemma canon_shape : forall o,
  canon o = Accept \/ canon o = PlainErr \/ canon o = PermanentErr \/
  exists c ri, c <> 0 /\ canon o = StatusErr c ri WNone.
Proof.
  intros o. destruct o as [| | |c ri w|[c|] ri w]; unfold canon, explicit_status; auto.
  - destruct (Z.eqb_spec c 0) as [->|Hc]; [destruct w; cbn; auto|]. right; right; right. exists c, ri. split; [exact Hc|reflexivity].
  - destruct (Z.eqb_spec c 0) as [->|Hc]; [destruct w; cbn; auto|]. right; right; right. exists c, ri. split; [exact Hc|reflexivity].
  - destruct w; cbn; auto.
Qed.

Lemma grpc_http_class_eq : forall c h,
  spec_grpc_retryable c h || ((c =? 8) && negb h) = spec_grpc_retryable c h || (c =? 8).
Proof. intros c h. unfold_tables. by_cases c [8]; kill_eqb; destruct h; reflexivity. Qed.

Lemma status_hop_grpc_passes : forall a p c ri, a <> AuthFail -> c <> 0 ->
  decide (hop_form 0 (az_of a) (Z.pos p) (StatusErr c ri WNone) (hop_obs (hop Grpc a (Npos p) (StatusErr c ri WNone)))) = true.
Proof.
  intros a p c ri Ha Hc.
  assert (Hw : get_status_from_error (StatusErr c ri WNone) = Some (c, ri)) by (apply status_mapping_explicit; [reflexivity|exact Hc]).
  rewrite (hop_grpc_eq a (Npos p) (StatusErr c ri WNone)) by (try discriminate; try reflexivity; assumption).
  rewrite Hw, process_error_spec by exact Hc.
  replace (c =? codes_OK) with false by (symmetry; apply Z.eqb_neq; exact Hc).
  assert (Ha2 : az_of a =? 2 = false) by (destruct a; try congruence; reflexivity).
  unfold hop_form, hop_obs, text_retryable, explicit_status. cbn [h_called h_verdict h_err_code b2z opt_code app].
  replace (c =? 0) with false by (symmetry; apply Z.eqb_neq; exact Hc).
  rewrite Ha2. cbn [Z.eqb negb andb orb]. rewrite orb_false_r.
  destruct ri as [d|]; cbn [has_ri].
  - destruct (spec_grpc_retryable c true); [destruct (Z.eqb_spec d 0) as [->|Hd]|]; cbn; rewrite ?Z.eqb_refl; reflexivity.
  - destruct (spec_grpc_retryable c false); cbn; rewrite ?Z.eqb_refl; reflexivity.
Qed.

Lemma status_hop_http_passes : forall t a p c ri, t <> Grpc -> a <> AuthFail -> c <> 0 ->
  decide (hop_form (tz_of t) (az_of a) (Z.pos p) (StatusErr c ri WNone) (hop_obs (hop t a (Npos p) (StatusErr c ri WNone)))) = true.
Proof.
  intros t a p c ri Ht Ha Hc.
  assert (Hw : get_status_from_error (StatusErr c ri WNone) = Some (c, ri)) by (apply status_mapping_explicit; [reflexivity|exact Hc]).
  rewrite (hop_http_eq t a (Npos p) (StatusErr c ri WNone) c ri) by (try discriminate; try reflexivity; assumption).
  rewrite http_export_spec, http_status_of_code_not_2xx.
  rewrite (http_status_of_code_consistent c (has_ri ri)), grpc_http_class_eq, http_status_throttle_iff.
  unfold http_retry_after. rewrite http_status_throttle_iff.
  assert (Ha2 : az_of a =? 2 = false) by (destruct a; try congruence; reflexivity).
  assert (Ht0 : tz_of t =? 0 = false) by (destruct t; try congruence; reflexivity).
  unfold hop_form, hop_obs, text_retryable, explicit_status. cbn [h_called h_verdict h_err_code b2z app].
  replace (c =? 0) with false by (symmetry; apply Z.eqb_neq; exact Hc).
  rewrite Ha2, Ht0. cbn [Z.eqb negb andb orb].
  destruct ri as [d|]; cbn [has_ri option_map].
  - (* with RetryInfo: ResourceExhausted is in the gRPC table *)
    assert (E8 : spec_grpc_retryable c true || (c =? 8) = spec_grpc_retryable c true).
    { unfold_tables. by_cases c [8]; kill_eqb; rewrite ?orb_false_r; reflexivity. }
    rewrite E8. destruct (spec_grpc_retryable c true); cbn; rewrite ?Ht0, ?Ha2, ?Z.eqb_refl; reflexivity.
  - destruct (spec_grpc_retryable c true); destruct (spec_grpc_retryable c false || (c =? 8)); cbn; rewrite ?Ht0, ?Ha2; reflexivity.
Qed.

(* ---- the model's hop passes the clause checker, for every transport, authenticator state, item count and outcome ---- *)
Theorem model_hop_passes_checker_l : forall t a n o,
  decide (hop_form (tz_of t) (az_of a) (Z.of_N n) o (hop_obs (hop t a n o))) = true.
Proof.
  intros t a n o. rewrite <- (hop_canon t a n o), <- (hop_form_canon _ _ _ o).
  destruct a.
  2: { rewrite authenticator_transparent_l. change (az_of AuthOK) with 1.
       (* AuthOK behaves as NoAuth and the checker only asks a =? 2 *)
       assert (F : forall obs, hop_form (tz_of t) 1 (Z.of_N n) (canon o) obs = hop_form (tz_of t) 0 (Z.of_N n) (canon o) obs) by reflexivity.
       rewrite F. change 0 with (az_of NoAuth) at 1.
       destruct n as [|p]; [destruct t; vm_compute; reflexivity|].
       destruct (canon_shape o) as [E|[E|[E|(c & ri & Hc & E)]]]; rewrite E; try (destruct t; vm_compute; reflexivity).
       destruct t; [apply status_hop_grpc_passes|apply status_hop_http_passes|apply status_hop_http_passes]; try discriminate; assumption. }
  - destruct n as [|p]; [destruct t; vm_compute; reflexivity|].
    destruct (canon_shape o) as [E|[E|[E|(c & ri & Hc & E)]]]; rewrite E; try (destruct t; vm_compute; reflexivity).
    destruct t; [apply status_hop_grpc_passes|apply status_hop_http_passes|apply status_hop_http_passes]; try discriminate; assumption.
  - rewrite hop_auth_fail. destruct t; vm_compute; reflexivity.
Qed.

(* ---- kind 0: GetStatusFromError ---- *)

Lemma status_form_canon : forall o obs, o <> Accept -> status_form (canon o) obs = status_form o obs.
Proof.
  intros o obs Ho. destruct (canon_checker_view o) as (A & E & W). unfold status_form.
  rewrite A, E. destruct (explicit_status o) as [[c [d|]]|]; try reflexivity. rewrite W; reflexivity.
Qed.

Theorem model_status_passes_checker_l : forall o,
  decide (status_form o (gstatus_obs (get_status_from_error o))) = true.
Proof.
  intros o. destruct (outcome_eq_Accept_dec o) as [->|Ho]; [vm_compute; reflexivity|].
  rewrite <- canon_wire, <- (status_form_canon o _ Ho).
  destruct (canon_shape o) as [E|[E|[E|(c & ri & Hc & E)]]]; rewrite E; try (vm_compute; reflexivity).
  rewrite (status_mapping_explicit (StatusErr c ri WNone) c ri) by (try reflexivity; assumption).
  unfold status_form, explicit_status. replace (c =? 0) with false by (symmetry; apply Z.eqb_neq; exact Hc).
  destruct ri as [d|]; cbn; rewrite ?Z.eqb_refl; reflexivity.
Qed.

(* ---- kind 3: processError ---- *)

Theorem model_process_error_passes_checker_l : forall c ri,
  decide (process_form c ri (verdict_obs (process_error (Some (c, ri))))) = true.
Proof.
  intros c ri. unfold process_form. change (has_ri' ri) with (has_ri ri). destruct (Z.eqb_spec c 0) as [->|Hc]; [reflexivity|].
  rewrite process_error_spec by exact Hc.
  destruct (spec_grpc_retryable c (has_ri ri)); [|reflexivity].
  destruct ri as [d|]; [|reflexivity]. destruct (Z.eqb_spec d 0) as [->|Hd]; cbn; rewrite ?Z.eqb_refl; reflexivity.
Qed.

(* ---- kind 9: a raw gRPC frame ---- *)
Definition grpc_obs (r : bool * option gstatus) : list Z :=
  match snd r with
  | None => [b2z (fst r); 0; 0; 0]
  | Some (c, None) => [b2z (fst r); c; 0; 0]
  | Some (c, Some d) => [b2z (fst r); c; 1; d]
  end.
Definition bz_of (b : option N) : Z := match b with None => -1 | Some n => Z.of_N n end.

Lemma raw_grpc_form_canon : forall a b o obs, raw_grpc_form a b (canon o) obs = raw_grpc_form a b o obs.
Proof.
  intros a b o obs. destruct (canon_checker_view o) as (A & E & W). unfold raw_grpc_form.
  destruct obs as [|x1 [|x2 [|x3 [|x4 [|]]]]]; try reflexivity.
  rewrite A, E. destruct (explicit_status o) as [[c [d|]]|]; try reflexivity. rewrite W; reflexivity.
Qed.

Lemma recv_grpc_canon : forall a b o, recv_grpc a b (canon o) = recv_grpc a b o.
Proof.
  intros a b o. destruct (outcome_eq_Accept_dec o) as [->|H]; [reflexivity|].
  unfold recv_grpc. destruct b as [n|]; [|reflexivity]. destruct a; try reflexivity;
    unfold export; destruct (n =? 0)%N; try reflexivity;
    (assert (H2 : canon o <> Accept) by (rewrite canon_accept; exact H));
    (destruct (canon o) eqn:EC; try congruence; destruct o; try congruence; rewrite <- EC, canon_wire; reflexivity).
Qed.

Theorem model_raw_grpc_passes_checker_l : forall a b o,
  decide (raw_grpc_form (az_of a) (bz_of b) o (grpc_obs (recv_grpc a b o))) = true.
Proof.
  intros a b o. rewrite <- recv_grpc_canon, <- (raw_grpc_form_canon _ _ o).
  destruct b as [[|p]|]; [destruct a; vm_compute; reflexivity| |destruct a; vm_compute; reflexivity].
  destruct a; [|rewrite (ltac:(reflexivity) : recv_grpc AuthOK (Some (Npos p)) (canon o) = recv_grpc NoAuth (Some (Npos p)) (canon o))|vm_compute; reflexivity].
  - destruct (canon_shape o) as [E|[E|[E|(c & ri & Hc & E)]]]; rewrite E; try (vm_compute; reflexivity).
    unfold recv_grpc. rewrite (export_nonempty (Npos p) (StatusErr c ri WNone)) by (try reflexivity; discriminate).
    rewrite (status_mapping_explicit (StatusErr c ri WNone) c ri) by (try reflexivity; assumption).
    unfold raw_grpc_form, grpc_obs, explicit_status. cbn [fst snd b2z bz_of az_of].
    replace (c =? 0) with false by (symmetry; apply Z.eqb_neq; exact Hc).
    destruct ri as [d|]; cbn; rewrite ?Z.eqb_refl; replace (c =? 0) with false by (symmetry; apply Z.eqb_neq; exact Hc); reflexivity.
  - destruct (canon_shape o) as [E|[E|[E|(c & ri & Hc & E)]]]; rewrite E; try (vm_compute; reflexivity).
    unfold recv_grpc. rewrite (export_nonempty (Npos p) (StatusErr c ri WNone)) by (try reflexivity; discriminate).
    rewrite (status_mapping_explicit (StatusErr c ri WNone) c ri) by (try reflexivity; assumption).
    unfold raw_grpc_form, grpc_obs, explicit_status. cbn [fst snd b2z bz_of az_of].
    replace (c =? 0) with false by (symmetry; apply Z.eqb_neq; exact Hc).
    destruct ri as [d|]; cbn; rewrite ?Z.eqb_refl; replace (c =? 0) with false by (symmetry; apply Z.eqb_neq; exact Hc); reflexivity.
Qed.

(* ---- kind 7: a raw HTTP request ---- *)
Definition ez_of (e : cenc) : Z :=
  match e with EncGood => 0 | EncBadEager => 1 | EncBadLazy => 2 | EncUnsupported => 3 | EncTruncated => 4 end.
Definition cz_of (c : ctype) : Z := match c with CtPb => 0 | CtJson => 1 | CtOther => 2 end.
Definition http_obs (r : bool * response) : list Z :=
  [b2z (fst r); rs_status (snd r);
   match rs_retry_after (snd r) with Some _ => 1 | None => 0 end;
   match rs_retry_after (snd r) with Some s => s | None => 0 end;
   opt_code (rs_body_code (snd r))].

Lemma raw_http_form_canon : forall a e p c b o obs,
  raw_http_form a e p c b (canon o) obs = raw_http_form a e p c b o obs.
Proof.
  intros a e p c b o obs. destruct (canon_checker_view o) as (A & E & W). unfold raw_http_form.
  destruct obs as [|x1 [|x2 [|x3 [|x4 [|x5 [|]]]]]]; try reflexivity.
  rewrite A, E, canon_text_retryable. reflexivity.
Qed.

Lemma recv_http_canon : forall rq o, recv_http rq (canon o) = recv_http rq o.
Proof.
  intros rq o. destruct (outcome_eq_Accept_dec o) as [->|H]; [reflexivity|].
  assert (X : forall n, export n (canon o) = export n o).
  { intros n. unfold export. destruct (n =? 0)%N; [reflexivity|].
    assert (H2 : canon o <> Accept) by (rewrite canon_accept; exact H).
    destruct (canon o) eqn:EC; try congruence; destruct o; try congruence; rewrite <- EC, canon_wire; reflexivity. }
  unfold recv_http. destruct (r_body rq) as [n|]; [rewrite X|]; reflexivity.
Qed.

Theorem model_raw_http_passes_checker_l : forall a e p c b o,
  decide (raw_http_form (az_of a) (ez_of e) (b2z p) (cz_of c) (bz_of b) o
            (http_obs (recv_http (mkReq a e p c b) o))) = true.
Proof.
  intros a e p c b o. rewrite <- recv_http_canon, <- (raw_http_form_canon _ _ _ _ _ o).
  destruct (client_error (mkReq a e p c b)) eqn:CE.
  - (* refused: the whole request space is finite *)
    destruct a, e, p, c, b as [[|q]|]; cbn in CE; try discriminate; vm_compute; reflexivity.
  - destruct a, e, p, c, b as [[|q]|]; cbn in CE; try discriminate; try (vm_compute; reflexivity);
      (destruct (canon_shape o) as [E|[E|[E|(c0 & ri & Hc & E)]]]; rewrite E; try (vm_compute; reflexivity));
      unfold recv_http; cbn [r_auth r_enc r_post r_ct r_body read_content_type negb];
      rewrite (export_nonempty (Npos q) (StatusErr c0 ri WNone)) by (try reflexivity; discriminate);
      rewrite (status_mapping_explicit (StatusErr c0 ri WNone) c0 ri) by (try reflexivity; assumption);
      unfold raw_http_form, http_obs, write_error, write_status_response, text_retryable, explicit_status;
      cbn [fst snd b2z bz_of az_of ez_of cz_of rs_status rs_retry_after rs_body_code];
      replace (c0 =? 0) with false by (symmetry; apply Z.eqb_neq; exact Hc);
      unfold_tables; clear E;
      by_cases c0 [1; 3; 4; 7; 8; 10; 11; 12; 14; 15; 16]; kill_eqb; destruct ri; cbn; reflexivity.
Qed.

(* ---- kind 6: the otlphttp exporter ---- *)

Theorem model_http_export_passes_checker_l : forall st h b,
  decide (export_form st h b (verdict_obs (http_export st h b))) = true.
Proof.
  intros st h b. rewrite http_export_spec. unfold export_form, is_2xx, is_throttle_status.
  destruct ((200 <=? st) && (st <=? 299)); [destruct b; reflexivity|].
  unfold spec_http_retryable.
  destruct (st =? 429) eqn:E1; destruct (st =? 502) eqn:E2; destruct (st =? 503) eqn:E3; destruct (st =? 504) eqn:E4;
    destruct h; cbn; rewrite ?E1, ?E3, ?Z.eqb_refl; reflexivity.
Qed.

Lemma hop_obs_shape : forall x, exists a b c d e f, hop_obs x = [a; b; c; d; e; f].
Proof. intros x. unfold hop_obs. destruct (h_verdict x); cbn; repeat eexists. Qed.

(* ---- kind 10: a hop relative to the receiver's Shutdown ---- *)
Definition pz_of (ph : phase) : Z := match ph with Running => 0 | InFlightAtShutdown => 1 | AfterShutdown => 2 end.

Theorem model_shutdown_passes_checker_l : forall ph t n o,
  decide (shutdown_form (tz_of t) (pz_of ph) (Z.of_N n) o (hop_obs (hop_at ph t NoAuth n o))) = true.
Proof.
  intros ph t n o. destruct ph.
  - change (hop_at Running t NoAuth n o) with (hop t NoAuth n o).
    destruct (hop_obs_shape (hop t NoAuth n o)) as (a1 & a2 & a3 & a4 & a5 & a6 & S). unfold shutdown_form. rewrite S.
    cbn [pz_of Z.eqb]. rewrite <- S. apply (model_hop_passes_checker_l t NoAuth n o).
  - unfold hop_at. rewrite (shutdown_drains_l documented_lib) by reflexivity.
    destruct (hop_obs_shape (hop t NoAuth n o)) as (a1 & a2 & a3 & a4 & a5 & a6 & S). unfold shutdown_form. rewrite S.
    cbn [pz_of Z.eqb]. rewrite <- S. apply (model_hop_passes_checker_l t NoAuth n o).
  - destruct t; vm_compute; reflexivity.
Qed.

(* ---- kind 11: a slow consumer and the HTTP server's write timeout (milliseconds, as in the case) ---- *)

Theorem model_slow_consumer_passes_checker_l : forall t read_ms write_ms hold_ms n o, 0 <= write_ms -> (0 < n)%N ->
  decide (slow_form (tz_of t) write_ms hold_ms (Z.of_N n) o
            (hop_obs (hop_slow (mkTO (read_ms * 1000000) 0 (write_ms * 1000000) 0) (hold_ms * 1000000) t NoAuth n o))) = true.
Proof.
  intros t r w h n o Hw Hn. unfold hop_slow. rewrite to_server_identity_l. unfold response_deliverable. cbn [to_write].
  assert (E : (w * 1000000 <=? 0) || (h * 1000000 <? w * 1000000) = (w =? 0) || (h <? w)).
  { destruct (Z.eqb_spec w 0) as [->|Hw0]; [reflexivity|].
    replace (w * 1000000 <=? 0) with false by (symmetry; apply Z.leb_gt; lia). cbn [orb].
    destruct (Z.ltb_spec h w); [apply Z.ltb_lt|apply Z.ltb_ge]; lia. }
  assert (C : h_called (hop t NoAuth n o) = true).
  { rewrite hop_called_iff. cbn. apply negb_true_iff. apply N.eqb_neq. lia. }
  pose proof hop_obs_shape as Shape.
  destruct t.
  - destruct (Shape (hop Grpc NoAuth n o)) as (a1 & a2 & a3 & a4 & a5 & a6 & S). unfold slow_form. rewrite S.
    destruct ((w =? 0) || (h <? w)); [rewrite <- S; apply (model_hop_passes_checker_l Grpc NoAuth n o)|].
    (* gRPC has no such timeout: the checker's weaker demand follows from the full clauses *)
    pose proof (model_hop_passes_checker_l Grpc NoAuth n o) as M. rewrite S in M.
    unfold hop_obs in S. rewrite C in S. destruct (h_verdict (hop Grpc NoAuth n o)); cbn in S; inversion S; subst; reflexivity.
  - rewrite E, C. cbn [negb]. rewrite orb_false_r.
    destruct (hop_obs_shape (hop HttpPb NoAuth n o)) as (a1 & a2 & a3 & a4 & a5 & a6 & S).
    destruct ((w =? 0) || (h <? w)) eqn:D.
    + unfold slow_form. rewrite S, D, <- S. apply (model_hop_passes_checker_l HttpPb NoAuth n o).
    + unfold slow_form, hop_obs. cbn. rewrite D. reflexivity.
  - rewrite E, C. cbn [negb]. rewrite orb_false_r.
    destruct (hop_obs_shape (hop HttpJson NoAuth n o)) as (a1 & a2 & a3 & a4 & a5 & a6 & S).
    destruct ((w =? 0) || (h <? w)) eqn:D.
    + unfold slow_form. rewrite S, D, <- S. apply (model_hop_passes_checker_l HttpJson NoAuth n o).
    + unfold slow_form, hop_obs. cbn. rewrite D. reflexivity.
Qed.

(* ---- the raw case, as the driver sees it: the kind-8 case built by the harness encoders from (t, a, n, o) ---- *)
Definition enc_wrap (w : wrap) : Z := match w with WNone => 0 | WPermanent => 1 | WFmt => 2 end.
Definition enc_ri (ri : option Z) : Z * Z := match ri with Some d => (1, d) | None => (0, 0) end.
Definition enc_outcome (o : outcome) : list Z :=
  match o with
  | Accept => [0; 0; 0; 0; 0] | PlainErr => [1; 0; 0; 0; 0] | PermanentErr => [2; 0; 0; 0; 0]
  | StatusErr c ri w => [3; c; fst (enc_ri ri); snd (enc_ri ri); enc_wrap w]
  | CustomStatus (Some c) ri w => [4; c; fst (enc_ri ri); snd (enc_ri ri); enc_wrap w]
  | CustomStatus None _ w => [4; -1; 0; 0; enc_wrap w]
  end.

(* outcomes the wire form can express: a foreign status with code -1 is the encoding of "nil status"; a nil status carries no RetryInfo *)
Definition encodable (o : outcome) : Prop :=
  match o with CustomStatus (Some c) _ _ => c <> -1 | CustomStatus None ri _ => ri = None | _ => True end.

Lemma outcome_of_enc : forall o, encodable o ->
  match enc_outcome o with [k; c; r; d; w] => outcome_of k c r d w = Some o | _ => False end.
Proof.
  intros o H. destruct o as [| | |c ri w|[c|] ri w]; cbn in *; try reflexivity.
  - destruct ri; destruct w; reflexivity.
  - unfold outcome_of. cbn. replace (c =? -1) with false by (symmetry; apply Z.eqb_neq; exact H).
    destruct ri; destruct w; reflexivity.
  - subst ri. destruct w; reflexivity.
Qed.

Definition hop_case (t : transport) (a : auth) (n : N) (o : outcome) (signal comp lossy level kib : Z) (obs : list Z)
    : nat * (list Z * list Z) :=
  (8%nat, ([tz_of t; az_of a; Z.of_N n] ++ enc_outcome o ++ [signal; comp; lossy; level; kib], obs)).

Theorem model_hop_case_passes_checker_l : forall t a n o sg cp ls lv kb obs0 m, encodable o ->
  model_out (hop_case t a n o sg cp ls lv kb obs0) = Some m ->
  prop_ok (hop_case t a n o sg cp ls lv kb m) = true.
Proof.
  intros t a n o sg cp ls lv kb obs0 m He Hm. pose proof (outcome_of_enc o He) as HO.
  unfold hop_case, model_out, prop_ok, clause_of_case in *.
  destruct (enc_outcome o) as [|k [|c [|r [|d [|w [|]]]]]]; try contradiction.
  cbn [app] in *. rewrite HO in *. cbn [option_map] in Hm.
  assert (T : transport_of (tz_of t) = t) by (destruct t; reflexivity).
  assert (A : auth_of (az_of a) = a) by (destruct a; reflexivity).
  rewrite T, A, N2Z.id in Hm. inversion Hm; subst m.
  apply (model_hop_passes_checker_l t a n o).
Qed.

(* ---- kind 13: a hop to a receiver with an explicit compression_algorithms list ---- *)
Theorem model_cfg_hop_passes_checker_l : forall algs comp t n o,
  decide (cfg_form algs comp (tz_of t) (Z.of_N n) o (hop_obs (hop_cfg algs comp t NoAuth n o))) = true.
Proof.
  intros algs comp t n o.
  assert (O : offered algs comp = server_accepts algs comp) by reflexivity.
  destruct t.
  - change (hop_cfg algs comp Grpc NoAuth n o) with (hop Grpc NoAuth n o).
    destruct (hop_obs_shape (hop Grpc NoAuth n o)) as (a1 & a2 & a3 & a4 & a5 & a6 & S). unfold cfg_form. rewrite S.
    cbn [tz_of Z.eqb orb]. rewrite <- S. apply (model_hop_passes_checker_l Grpc NoAuth n o).
  - unfold hop_cfg. destruct (server_accepts algs comp) eqn:A.
    + destruct (hop_obs_shape (hop HttpPb NoAuth n o)) as (a1 & a2 & a3 & a4 & a5 & a6 & S). unfold cfg_form. change (offered algs comp) with (server_accepts algs comp). rewrite S, A.
      cbn [tz_of Z.eqb orb]. rewrite <- S. apply (model_hop_passes_checker_l HttpPb NoAuth n o).
    + unfold cfg_form, hop_obs. change (offered algs comp) with (server_accepts algs comp). cbn. rewrite A. reflexivity.
  - unfold hop_cfg. destruct (server_accepts algs comp) eqn:A.
    + destruct (hop_obs_shape (hop HttpJson NoAuth n o)) as (a1 & a2 & a3 & a4 & a5 & a6 & S). unfold cfg_form. change (offered algs comp) with (server_accepts algs comp). rewrite S, A.
      cbn [tz_of Z.eqb orb]. rewrite <- S. apply (model_hop_passes_checker_l HttpJson NoAuth n o).
    + unfold cfg_form, hop_obs. change (offered algs comp) with (server_accepts algs comp). cbn. rewrite A. reflexivity.
Qed.
