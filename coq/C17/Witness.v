(* C17/Witness.v — non-vacuity of the hypotheses of the theorems and concrete evaluations. *)
From Verif Require Import Common.Base C17.Model C17.Proofs2 C17.Proofs3 C17.Harness C17.Clauses C17.ProofsL.
From Coq Require Import String.
Open Scope string_scope.

(* the former F10 witness: a two-record scope cut in the middle — both parts now carry the resource,
   the scope and BOTH schema URLs (before the repair 9eada89cd the first part had URL 0 twice) *)
Example ex_split_logs_keeps_urls :
  split_logs 1 [((1, 7), [((2, 8), [10; 11])])]%N
  = ([((1, 7), [((2, 8), [10])])]%N, [((1, 7), [((2, 8), [11])])]%N).
Proof. vm_compute. reflexivity. Qed.

(* a sum metric cut in the middle keeps name, description, unit, metadata, temporality, monotonicity *)
Example ex_split_metric_keeps_identity :
  split_metrics 2 [((1, 7), [((2, 8), [(MI 3 4 5 6 (MSum 2 true), [10; 11; 12])])])]%N
  = ([((1, 7), [((2, 8), [(MI 3 4 5 6 (MSum 2 true), [10; 11])])])]%N,
     [((1, 7), [((2, 8), [(MI 3 4 5 6 (MSum 2 true), [12])])])]%N).
Proof. vm_compute. reflexivity. Qed.

(* a cut that crosses a resource and a scope boundary *)
Example ex_split_cross :
  items3 (fst (split_logs 3 [((1, 0), [((2, 0), [10; 11]); ((3, 1), [12; 13])]); ((4, 2), [((5, 0), [14])])]%N))
  = [(10, ((1, 0), (2, 0))); (11, ((1, 0), (2, 0))); (12, ((1, 0), (3, 1)))]%N.
Proof. vm_compute. reflexivity. Qed.

(* ---- a run with two metadata keys, limit 2, size 3, max 4, a timer ---------------------------------- *)
Definition cfgW : cfg := Cfg 100 3 4 ["Tenant"; "k2"] 2.
Definition pl (r : N) (ids : list N) : payload3 N := [((r, 1%N), [((2%N, 3%N), ids)])].
Definition mdA : metadata := [("tenant", [1%N])].
Definition mdB : metadata := [("TENANT", [2%N]); ("K2", [5%N; 6%N])].
Definition mdC : metadata := [("tenant", [3%N])].

Definition ls1W : list (label (R := res3 N)) :=
  [LConsume 0 mdA (pl 1 [10; 11]%N); LConsume 1 mdB (pl 2 [20]%N); LConsume 2 mdC (pl 3 [30]%N);  (* refused: 3rd tuple *)
   LRecv 3 0; LRecv 3 1;
   LConsume 4 mdA (pl 1 [12; 13; 14; 15; 16]%N);    (* 7 pending >= 3: emits 4, keeps 3 >= 3: emits 3 *)
   LRecv 5 0;
   LConsumeStale 6 mdB (pl 2 [21]%N);                (* refused although the tuple has a shard *)
   LTimer 101 1; LTimer 105 0;                        (* shard 1 flushes [20] at its deadline 101; shard 0 has nothing pending *)
   LConsume 110 mdB (pl 2 [22]%N)].
Definition ls2W : list (label (R := res3 N)) := [LSeen 120 0; LSeen 121 1; LRecv 122 1].

Definition runW := logs_run cfgW 0 (ls1W ++ ls2W).

(* the hypotheses of bp_conserves hold for this run ... *)
Example ex_conserves_hyps :
  validate cfgW = 0%N
  /\ Forall (fun l => is_seen l = false) ls1W /\ Forall (fun l => is_consume l = false) ls2W
  /\ Forall (fun s => s_done s = true) (fst runW).
Proof. repeat split; repeat constructor. Qed.

(* ... the results of the five Consume calls, and what was emitted under which tuple *)
Example ex_run_results : snd runW = [0; 0; 1; 0; 1; 0]%N.
Proof. vm_compute. reflexivity. Qed.

Example ex_run_emitted :
  map (fun s => (s_md s, map (fun o => (fst o, map fst (items3 (snd o)))) (s_out s))) (fst runW)
  = [([[1]; []]%N, [(5%Z, [10; 11; 12; 13]%N); (5%Z, [14; 15; 16]%N)]);
     ([[2]; [5; 6]]%N, [(101%Z, [20]%N); (121%Z, [22]%N)])].
Proof. vm_compute. reflexivity. Qed.

(* has_timer holds for cfgW (hypothesis of bp_size_trigger_now / bp_timeout) *)
Example ex_has_timer : has_timer cfgW = true /\ mks cfgW <> [] /\ c_limit cfgW <> 0.
Proof. repeat split; vm_compute; discriminate. Qed.

(* Config.Validate: the four classes *)
Example ex_validate :
  validate (Cfg 1 5 4 [] 0) = 1%N /\ validate (Cfg 1 5 0 ["A"; "b"; "a"] 0) = 2%N /\
  validate (Cfg (-1) 5 5 ["A"] 0) = 3%N /\ validate (Cfg 0 0 0 [] 0) = 0%N.
Proof. vm_compute. auto. Qed.

(* without validation (max < size) the last send of the shutdown drain leaves items behind: conservation
   really needs Validate *)
Example ex_unvalidated_loses :
  let r := logs_run (Cfg 100 5 2 [] 0) 0 [LConsume 0 [] (pl 1 [1; 2; 3; 4]%N); LSeen 1 0] in
  map (fun s => (s_done s, b_n (s_batch s), map (fun o => map fst (items3 (snd o))) (s_out s))) (fst r)
  = [(true, 2, [[1; 2]%N])].
Proof. vm_compute. reflexivity. Qed.

(* the run above is timely (hypothesis of bp_timeout): stamps never decrease, no live deadline is passed *)
Example ex_timely : timely_from (@count3 N) (@split_logs N) cfgW (bp_init cfgW 0, []) 0 (ls1W ++ ls2W).
Proof. apply timelyb_sound. vm_compute. reflexivity. Qed.

(* a run that is NOT timely (shard 0's deadline 100 is passed without its timer firing) keeps an item pending
   beyond the timeout: the hypothesis is needed *)
Example ex_untimely_pending :
  let r := logs_run cfgW 0 [LConsume 0 mdA (pl 1 [10]%N); LRecv 1 0; LRecv 250 0] in
  map (fun s => (b_n (s_batch s), s_out s)) (fst r) = [(1, [])].
Proof. vm_compute. reflexivity. Qed.

(* the link theorem is not vacuous: a linkable run case with keys, a limit, refusals, a timer firing and several
   batches; the checker accepts the model's own observation, and REJECTS the same observation with one item's scope
   schema URL changed (so it is not the constant 0 either) *)
Definition vW : vcase :=
  CRun3 0 (HC 100 false 3 4 ["Tenant"; "k2"] 2)
    [SConsume mdA (pl 1 [10; 11]%N); SConsume mdB (pl 2 [20]%N); SConsume mdC (pl 3 [30]%N);
     SConsume mdA (pl 1 [12; 13; 14; 15; 16]%N); STimer; SConsume mdB (pl 2 [22]%N)]
    ([], []).
Example ex_linkable : linkable vW /\ prop_viol (model_out vW) = 0.
Proof. split; [simpl; exact I|vm_compute; reflexivity]. Qed.
Example ex_model_out_vW :
  match model_out vW with CRun3 _ _ _ obs => fst obs = [0; 0; 1; 0; 0]%N /\ List.length (snd obs) = 2 | _ => False end.
Proof. vm_compute. auto. Qed.
Example ex_checker_rejects :
  prop_viol (CRun3 0 (HC 100 false 3 4 [] 0) [SConsume [] (pl 1 [10]%N)]
               ([0%N], [([], [[((1, 1), [((2, 9), [10])])]%N])])) = 1.
Proof. vm_compute. reflexivity. Qed.
