(* C17/ProofsL.v — the LINK between the decidable clause checker (Clauses.v) and the model: what the model itself
   produces for a script (Harness.run_script, the function the correspondence run compares the implementation with)
   always passes the checker.  So a verdict "clause violated" of the checker is a statement about the same thing the
   theorems of Properties.v are about, and the checker never demands more than the model delivers. *)
From Verif Require Import Common.Base C17.Model C17.Proofs1 C17.Proofs2 C17.Harness C17.Clauses C17.ProofsC.
From Coq Require Import Permutation.

Lemma upd_nth_app_here {A} (f : A -> A) (pre : list A) a r :
  upd_nth (length pre) f (pre ++ a :: r) = pre ++ f a :: r.
Proof. induction pre as [|x pre IH]; simpl; [reflexivity|]. rewrite IH. reflexivity. Qed.

Lemma nth_error_app_here {A} (pre : list A) a r : nth_error (pre ++ a :: r) (length pre) = Some a.
Proof. induction pre; simpl; auto. Qed.

Lemma bool_eq_of_iff (a b : bool) : (a = true <-> b = true) -> a = b.
Proof. destruct a, b; intros [H1 H2]; auto; try (symmetry; apply H1; reflexivity); try (apply H2; reflexivity). Qed.

Section Link.
  Context {R X : Type}.
  Variable count : list R -> nat.
  Variable split : nat -> list R -> list R * list R.
  Variable items : list R -> list X.
  Variable xeqb : X -> X -> bool.
  Variable c : cfg.
  Hypothesis H_nil : items [] = [].
  Hypothesis H_app : forall a b, items (a ++ b) = items a ++ items b.
  Hypothesis H_cnt : forall p, count p = length (items p).
  Hypothesis H_split : forall n p, n < count p ->
    items (fst (split n p)) ++ items (snd (split n p)) = items p /\ count (fst (split n p)) = n.
  Hypothesis xeqb_spec : forall x y, xeqb x y = true <-> x = y.

  Local Notation shard := (@shard R).
  Local Notation bp := (@bp R).
  Local Notation label := (@label R).
  Local Notation step := (bp_step count split c).
  Local Notation sstep := (script_step count split c).
  Local Notation Good := (Good count items c).

  Definition quietl (l : label) : Prop := is_seen l = false /\ is_consume l = false.

  Lemma consumes_quiet (L : list label) : Forall (fun l => is_consume l = false) L -> consumes L = [].
  Proof.
    induction 1 as [|l L Hl _ IH]; [reflexivity|]. unfold consumes in *. simpl. rewrite IH.
    destruct l; simpl in *; try discriminate; reflexivity.
  Qed.

  (* applying g to every shard = one label per shard *)
  Lemma map_labels (g : shard -> shard) (P : label -> Prop) :
    (forall s i, exists l, P l /\ forall st res, nth_error st i = Some s -> step (st, res) l = (upd_nth i g st, res)) ->
    forall res rest pre, exists L, Forall P L /\ fold_left step L (pre ++ rest, res) = (pre ++ map g rest, res).
  Proof.
    intros Hl res. induction rest as [|a r IH]; intros pre.
    - exists []. split; [constructor|]. reflexivity.
    - destruct (Hl a (length pre)) as (l & Pl & Hs).
      destruct (IH (pre ++ [g a])) as (L & PL & HL).
      exists (l :: L). split; [constructor; assumption|]. simpl.
      rewrite (Hs _ res (nth_error_app_here pre a r)), upd_nth_app_here.
      rewrite <- app_assoc in HL. simpl in HL. rewrite HL, <- app_assoc. reflexivity.
  Qed.

  Lemma recv_labels (x : bp * list N) : exists L, Forall quietl L /\
    fold_left step L x = (map (sh_recv count split c 0) (fst x), snd x).
  Proof.
    destruct x as [st res]. destruct (map_labels (sh_recv count split c 0) quietl) with (res := res) (rest := st) (pre := @nil shard)
      as (L & PL & HL).
    - intros s i. exists (LRecv 0 i). split; [split; reflexivity|]. intros; reflexivity.
    - exists L. auto.
  Qed.

  Lemma upd_nth_ext_at {A} (f g : A -> A) : forall l i x, nth_error l i = Some x -> f x = g x ->
    upd_nth i f l = upd_nth i g l.
  Proof. induction l as [|y l IH]; intros [|i] x H E; simpl in *; try discriminate; [congruence|erewrite IH; eauto]. Qed.

  Lemma timer_labels (x : bp * list N) : exists L, Forall quietl L /\
    fold_left step L x = (map (fun s => sh_timer split c (s_deadline s) s) (fst x), snd x).
  Proof.
    destruct x as [st res].
    destruct (map_labels (fun s => sh_timer split c (s_deadline s) s) quietl) with (res := res) (rest := st) (pre := @nil shard)
      as (L & PL & HL).
    - intros s i. exists (LTimer (s_deadline s) i). split; [split; reflexivity|]. intros st0 res0 Hn. simpl.
      f_equal. eapply upd_nth_ext_at; eauto.
    - exists L. auto.
  Qed.

  Lemma seen_labels (x : bp * list N) : exists L, Forall (fun l => is_consume l = false) L /\
    fold_left step L x = (map (sh_seen count split c 0) (fst x), snd x).
  Proof.
    destruct x as [st res].
    destruct (map_labels (sh_seen count split c 0) (fun l => is_consume l = false)) with (res := res) (rest := st) (pre := @nil shard)
      as (L & PL & HL).
    - intros s i. exists (LSeen 0 i). split; [reflexivity|]. intros; reflexivity.
    - exists L. auto.
  Qed.

  Fixpoint no_shutdown (ops : list (sop (list R))) : Prop :=
    match ops with [] => True | SShutdown :: _ => False | _ :: r => no_shutdown r end.

  (* a script without a Shutdown in the middle is a label sequence without LSeen whose Consume calls are the script's *)
  Lemma script_labels : forall ops x, no_shutdown ops -> exists L,
    fold_left sstep ops x = fold_left step L x /\ Forall (fun l => is_seen l = false) L
    /\ consumes L = map snd (calls true ops).
  Proof.
    induction ops as [|o ops IH]; intros x Hn.
    - exists []. repeat split; constructor.
    - destruct o as [md p| |]; simpl in Hn; [| |contradiction].
      + destruct (recv_labels (step x (LConsume 0 md p))) as (Lr & Pr & Hr).
        destruct (IH (sstep x (SConsume md p)) Hn) as (L & HL & PL & CL).
        exists (LConsume 0 md p :: Lr ++ L). split; [|split].
        * change (fold_left sstep (SConsume md p :: ops) x) with (fold_left sstep ops (sstep x (SConsume md p))).
          rewrite HL.
          change (fold_left step (LConsume 0 md p :: Lr ++ L) x) with (fold_left step (Lr ++ L) (step x (LConsume 0 md p))).
          rewrite fold_left_app, Hr. reflexivity.
        * constructor; [reflexivity|]. apply Forall_app. split; [|exact PL].
          eapply Forall_impl; [|exact Pr]. intros l [A _]. exact A.
        * simpl. rewrite <- CL. unfold consumes. simpl. rewrite flat_map_app. fold (consumes Lr) (consumes L).
          rewrite (consumes_quiet Lr); [reflexivity|]. eapply Forall_impl; [|exact Pr]. intros l [_ B]. exact B.
      + destruct (timer_labels x) as (Lt & Pt & Ht).
        destruct (IH (sstep x STimer) Hn) as (L & HL & PL & CL).
        exists (Lt ++ L). split; [|split].
        * change (fold_left sstep (STimer :: ops) x) with (fold_left sstep ops (sstep x STimer)).
          rewrite HL, fold_left_app, Ht. reflexivity.
        * apply Forall_app. split; [|exact PL]. eapply Forall_impl; [|exact Pt]. intros l [A _]. exact A.
        * simpl. rewrite <- CL. unfold consumes. rewrite flat_map_app. fold (consumes Lt) (consumes L).
          rewrite (consumes_quiet Lt); [reflexivity|]. eapply Forall_impl; [|exact Pt]. intros l [_ B]. exact B.
  Qed.

  (* ---- the results follow the refusal rule ------------------------------------------------------------------ *)
  Lemma find_tuple_in t : forall (st : bp),
    (match find_shard (aset_of t) st with Some _ => true | None => false end) = tuple_in t (map (@s_md R) st).
  Proof.
    induction st as [|s st IH]; simpl; [reflexivity|].
    assert (E : aset_eqb (aset_of (s_md s)) (aset_of t) = tuple_eqb' t (s_md s)).
    { apply bool_eq_of_iff. rewrite aset_of_eqb, tuple_eqb'_spec. split; congruence. }
    rewrite E. unfold tuple_in in *. simpl. destruct (tuple_eqb' t (s_md s)); simpl; [reflexivity|].
    rewrite <- IH. destruct (find_shard (aset_of t) st); reflexivity.
  Qed.

  Definition KnownInv (st : bp) (known : list (list (list N))) : Prop :=
    Forall Good st /\ (mks c <> [] -> map (@s_md R) st = known).

  Lemma known_map g (st : bp) known : (forall s, Good s -> Good (g s) /\ s_md (g s) = s_md s) ->
    KnownInv st known -> KnownInv (map g st) known.
  Proof.
    intros Hg [HG HK]. split.
    - apply Forall_forall. intros s' Hs'. apply in_map_iff in Hs'. destruct Hs' as (s & <- & Hs).
      rewrite Forall_forall in HG. apply (Hg s (HG s Hs)).
    - intros Hk. rewrite <- (HK Hk), map_map. apply map_ext_in. intros s Hs.
      rewrite Forall_forall in HG. apply (Hg s (HG s Hs)).
  Qed.

  Lemma consume_known now md p (st : bp) known : KnownInv st known -> Shape c st ->
    exists e known', snd (bp_consume c now md p st) = e
      /\ KnownInv (fst (bp_consume c now md p st)) known' /\ Shape c (fst (bp_consume c now md p st))
      /\ (forall r, expected c known ((true, (md, p)) :: r) = e :: expected c known' r).
  Proof.
    intros [HG HK] HS.
    assert (EG : forall s, Good s -> Good (sh_enqueue s p)).
    { intros s Hs. apply (@enqueue_good _ _ count items c s p Hs). }
    assert (NG : forall vals, Good (sh_enqueue (new_shard c now vals) p)).
    { intros vals. apply EG. apply (@new_shard_good _ _ count items c H_nil H_cnt). }
    unfold bp_consume. cbn [expected]. destruct (mks c) as [|k ks] eqn:Ek.
    - exists 0%N, known. cbn [fst snd]. split; [reflexivity|].
      destruct (@single_spec _ _ count items c md p st HG HS Ek) as (A & B & _).
      split; [split; [exact A|intros H; rewrite Ek in H; contradiction]|]. split; [exact B|]. intros r. reflexivity.
    - assert (HK' : map (@s_md R) st = known) by (apply HK; discriminate).
      assert (HSh : forall st' : bp, Shape c st') by (intros st' H; rewrite Ek in H; discriminate).
      pose proof (find_tuple_in (md_values c md) st) as FT. rewrite HK' in FT. rewrite <- FT.
      destruct (find_shard (aset_of (md_values c md)) st) as [i|] eqn:Ef; cbn [fst snd].
      + exists 0%N, known. split; [reflexivity|]. split; [|split; [apply HSh|intros r; reflexivity]].
        split; [apply Forall_upd_nth; auto|]. intros _. rewrite <- HK'. apply map_md_upd_nth.
        apply Forall_forall. intros; reflexivity.
      + unfold bp_consume_locked. rewrite Ef.
        assert (Hlen : length known = length st) by (rewrite <- HK'; apply map_length). rewrite Hlen.
        destruct (negb (Nat.eqb (c_limit c) 0) && Nat.leb (c_limit c) (length st)); cbn [fst snd].
        * exists 1%N, known. split; [reflexivity|]. split; [split; [exact HG|intros _; exact HK']|].
          split; [apply HSh|intros r; reflexivity].
        * exists 0%N, (known ++ [md_values c md]). split; [reflexivity|].
          split; [|split; [apply HSh|intros r; reflexivity]].
          split; [apply Forall_app; split; [exact HG|constructor; [apply NG|constructor]]|].
          intros _. rewrite map_app, HK'. reflexivity.
  Qed.

  Lemma script_results : forall ops x known, no_shutdown ops -> KnownInv (fst x) known -> Shape c (fst x) ->
    snd (fold_left sstep ops x) = snd x ++ expected c known (calls true ops).
  Proof.
    induction ops as [|o ops IH]; intros x known Hn HK HS.
    - simpl. rewrite app_nil_r. reflexivity.
    - destruct o as [md p| |]; simpl in Hn; [| |contradiction].
      + destruct (consume_known 0 md p (fst x) known HK HS) as (e & known' & He & HK' & HS' & Hexp).
        cbn [calls]. rewrite (Hexp (calls true ops)).
        set (x1 := step x (LConsume 0 md p)).
        assert (E1 : x1 = (fst (bp_consume c 0 md p (fst x)), snd x ++ [e])).
        { unfold x1. simpl. destruct (bp_consume c 0 md p (fst x)) as [st' e'] eqn:E. simpl in He. subst e'. reflexivity. }
        change (fold_left sstep (SConsume md p :: ops) x)
          with (fold_left sstep ops (map (sh_recv count split c 0) (fst x1), snd x1)).
        rewrite (IH (map (sh_recv count split c 0) (fst x1), snd x1) known' Hn).
        * cbn [fst snd]. rewrite E1. cbn [fst snd]. rewrite <- app_assoc. reflexivity.
        * cbn [fst snd]. rewrite E1. cbn [fst snd]. apply known_map; [|exact HK'].
          intros s Hs. destruct (@recv_spec _ _ count split items c H_nil H_app H_cnt H_split 0 s Hs) as (A & B & _). auto.
        * cbn [fst snd]. rewrite E1. cbn [fst snd]. destruct HK' as [HG' _].
          intros Ek. destruct (HS' Ek) as (s & Es & Hm). rewrite Es. simpl. eexists. split; [reflexivity|].
          rewrite Es in HG'. inversion HG'; subst.
          destruct (@recv_spec _ _ count split items c H_nil H_app H_cnt H_split 0 s H1) as (_ & B & _). congruence.
      + cbn [calls].
        change (fold_left sstep (STimer :: ops) x) with (fold_left sstep ops (sstep x STimer)).
        rewrite (IH (sstep x STimer) known Hn).
        * reflexivity.
        * simpl. apply known_map; [|exact HK]. intros s Hs.
          destruct (@timer_spec _ _ count split items c H_nil H_cnt H_split (s_deadline s) s Hs) as (A & B & _). auto.
        * simpl. destruct HK as [HG _]. intros Ek. destruct (HS Ek) as (s & Es & Hm). rewrite Es. simpl.
          eexists. split; [reflexivity|]. rewrite Es in HG. inversion HG; subst.
          destruct (@timer_spec _ _ count split items c H_nil H_cnt H_split (s_deadline s) s H1) as (_ & B & _). congruence.
  Qed.

  (* ---- assembling the three clauses ----------------------------------------------------------------------------- *)
  Lemma sh_seen_done (s : shard) : s_done (sh_seen count split c 0 s) = true.
  Proof. unfold sh_seen. destruct (s_done s) eqn:E; [exact E|reflexivity]. Qed.

  Lemma calls_true : forall ops, no_shutdown ops -> Forall (fun bc => fst bc = true) (calls true ops).
  Proof.
    induction ops as [|o ops IH]; intros H; simpl; [constructor|].
    destruct o; simpl in H; [constructor; [reflexivity|auto]|auto|contradiction].
  Qed.

  Lemma accepted_before_all : forall (cs : list (bool * (metadata * list R))) res,
    Forall (fun bc => fst bc = true) cs ->
    accepted_before items c cs res
    = flat_map (fun mp => map (pair (md_values c (fst mp))) (items (snd mp)))
               (map snd (filter (fun x => N.eqb (fst x) 0) (combine res (map snd cs)))).
  Proof.
    unfold accepted_before. induction cs as [|[b mp] cs IH]; intros res H.
    - destruct res; reflexivity.
    - destruct res as [|r res]; [reflexivity|]. inversion H; subst. simpl in H2. subst b. simpl.
      destruct (N.eqb r 0); simpl; rewrite IH; auto.
  Qed.

  Lemma flat_items_map_snd (l : list (Z * list R)) :
    flat_map items (map snd l) = flat_map (fun o => items (snd o)) l.
  Proof. induction l; simpl; congruence. Qed.

  Lemma emitted_obs_shards (sts : bp) :
    emitted_obs items (map (fun s => (s_md s, map snd (s_out s)))
                           (filter (fun s => negb (Nat.eqb (length (s_out s)) 0)) sts))
    = emitted_tagged items sts.
  Proof.
    unfold emitted_obs, emitted_tagged, tag, outs. induction sts as [|s sts IH]; [reflexivity|]. cbn [filter flat_map].
    destruct (Nat.eqb_spec (length (s_out s)) 0) as [E|E]; cbn [negb map flat_map].
    - rewrite IH. destruct (s_out s); [reflexivity|discriminate].
    - rewrite IH. cbn [fst snd]. rewrite flat_items_map_snd. reflexivity.
  Qed.

  Theorem model_passes_run ops : no_shutdown ops ->
    run_viol count items xeqb c ops (run_script count split c ops) = 0.
  Proof.
    intros Hn. apply (run_viol_sound count items xeqb xeqb_spec c). intros Hv.
    unfold run_script.
    set (x := fold_left sstep ops (bp_init c 0, [])).
    destruct (script_labels ops (bp_init c 0, []) Hn) as (L & HL & PL & CL). fold x in HL.
    destruct (seen_labels x) as (Ls & PLs & HLs).
    assert (Hrun : bp_run count split c 0 (L ++ Ls) = (map (sh_seen count split c 0) (fst x), snd x)).
    { unfold bp_run. rewrite fold_left_app, <- HL. exact HLs. }
    assert (Hcons : consumes (L ++ Ls) = map snd (calls true ops)).
    { unfold consumes. rewrite flat_map_app. fold (consumes L) (consumes Ls). rewrite CL, (consumes_quiet Ls PLs), app_nil_r. reflexivity. }
    cbn [fst snd]. split; [|split].
    - (* the results *)
      assert (HK0 : KnownInv (fst (bp_init (R := R) c 0, @nil N)) []).
      { split.
        - eapply Forall_impl; [|apply (@init_live _ _ count items c H_nil H_cnt 0)]. intros s [A _]. exact A.
        - intros Hk. simpl. unfold bp_init. destruct (mks c); [contradiction|reflexivity]. }
      assert (HS0 : Shape c (fst (bp_init (R := R) c 0, @nil N))).
      { destruct (@init_inv _ _ count items c H_nil H_cnt 0) as (_ & A & _). exact A. }
      unfold x. rewrite (script_results ops (bp_init c 0, []) [] Hn HK0 HS0). reflexivity.
    - (* the size bound *)
      apply Forall_forall. intros req Hr. unfold all_reqs in Hr. apply in_flat_map in Hr.
      destruct Hr as ([t reqs] & Hg & Hin). apply in_map_iff in Hg. destruct Hg as (s & Es & Hs). inversion Es; subst.
      apply filter_In in Hs. destruct Hs as [Hs _]. simpl in Hin. apply in_map_iff in Hin. destruct Hin as (o & <- & Ho).
      apply (@max_size_g _ _ count split items c H_nil H_app H_cnt H_split 0 (L ++ Ls) s o); [rewrite Hrun; exact Hs|exact Ho].
    - (* conservation with identity and tuples *)
      rewrite emitted_obs_shards, (accepted_before_all _ _ (calls_true ops Hn)), <- Hcons.
      pose proof (@conserves_g _ _ count split items c H_nil H_app H_cnt H_split 0 L Ls) as C.
      cbn zeta in C. rewrite Hrun in C. cbn [fst snd] in C. apply C.
      + unfold max_valid. unfold validate in Hv.
        destruct (Nat.ltb_spec 0 (c_max c)); simpl in Hv; [|lia].
        destruct (Nat.ltb_spec (c_max c) (c_size c)); simpl in Hv; [discriminate|lia].
      + exact PL.
      + exact PLs.
      + apply Forall_forall. intros s Hs. apply in_map_iff in Hs. destruct Hs as (s0 & <- & _). apply sh_seen_done.
  Qed.
End Link.

(* ---- the splits ---------------------------------------------------------------------------------------------- *)
Lemma model_passes_split3 size (src : payload3 N) :
  split_viol (@count3 N) (@items3 N) item3_eqb size src (fst (split_logs size src)) (snd (split_logs size src)) = 0.
Proof.
  apply (split_viol_sound _ _ _ item3_eqb_spec). unfold SplitClause.
  destruct (Nat.le_gt_cases (count3 src) size) as [H|H].
  - rewrite (split_logs_fits src H). simpl. repeat split; auto; lia.
  - destruct (split_logs_cuts src H) as (A & B). repeat split; auto; lia.
Qed.

Lemma model_passes_split4 size (src : payload4 N) :
  split_viol (@count4 N) (@items4 N) item4_eqb size src (fst (split_metrics size src)) (snd (split_metrics size src)) = 0.
Proof.
  apply (split_viol_sound _ _ _ item4_eqb_spec). unfold SplitClause.
  destruct (Nat.le_gt_cases (count4 src) size) as [H|H].
  - rewrite (split_metrics_fits src H). simpl. repeat split; auto; lia.
  - destruct (split_metrics_cuts src H) as (A & B). repeat split; auto; lia.
Qed.

(* the cases for which the link is proved: splits, Validate, processor runs without a Shutdown in the middle of
   the script (the guard of bp_conserves: nothing is consumed after shutdown began) *)
Definition linkable (v : vcase) : Prop :=
  match v with
  | CRun3 _ _ script _ => no_shutdown script
  | CRun4 _ script _ => no_shutdown script
  | CBounded3 _ _ _ _ _ | CBounded4 _ _ _ _ => False
  | _ => True
  end.

Theorem checker_accepts_model_l : forall v, linkable v -> prop_viol (model_out v) = 0.
Proof.
  intros v Hl. destruct v as [sig size src d k|size src d k|sig hc script obs|hc script obs| | |hc obs]; simpl in Hl; try contradiction.
  - unfold model_out. destruct (split3_of sig (N.to_nat size) src) as [d' k'] eqn:E. simpl.
    assert (E' : split_logs (N.to_nat size) src = (d', k')) by (destruct sig; exact E).
    pose proof (model_passes_split3 (N.to_nat size) src) as H. rewrite E' in H. exact H.
  - unfold model_out. destruct (split_metrics (N.to_nat size) src) as [d' k'] eqn:E. simpl.
    pose proof (model_passes_split4 (N.to_nat size) src) as H. rewrite E in H. exact H.
  - simpl. assert (Es : split3_of sig = @split_logs N) by (destruct sig; reflexivity). rewrite Es.
    apply (model_passes_run (@count3 N) (@split_logs N) (@items3 N) item3_eqb (cfg_of hc) eq_refl (@items3_app N)
             (@count3_items N) (fun n p H => split_logs_cuts p H) item3_eqb_spec script Hl).
  - simpl.
    apply (model_passes_run (@count4 N) (@split_metrics N) (@items4 N) item4_eqb (cfg_of hc) eq_refl (@items4_app N)
             (@count4_items N) (fun n p H => split_metrics_cuts p H) item4_eqb_spec script Hl).
  - reflexivity.
Qed.
