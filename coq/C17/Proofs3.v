(* C17/Proofs3.v — the three signals satisfy the split contract; the generic theorems of Proofs2.v
   restated over [split_ok]; Config.Validate; the refusal rule of consume. *)
From Verif Require Import Common.Base C17.Model C17.Bounded C17.Proofs1 C17.Proofs2 C17.ProofsB.
From Coq Require Import Permutation.

(* what the batch processor needs from a signal's count / split / item enumeration *)
Definition split_ok {R X : Type} (count : list R -> nat) (split : nat -> list R -> list R * list R)
           (items : list R -> list X) : Prop :=
  items [] = []
  /\ (forall a b, items (a ++ b) = items a ++ items b)
  /\ (forall p, count p = length (items p))
  /\ (forall n p, n < count p ->
        items (fst (split n p)) ++ items (snd (split n p)) = items p /\ count (fst (split n p)) = n)
  /\ (forall n p, count p <= n -> split n p = (p, p)).

Lemma split_ok_logs I : split_ok (@count3 I) (@split_logs I) (@items3 I).
Proof.
  split; [reflexivity|]. split; [apply items3_app|]. split; [apply count3_items|].
  split; [intros n p H; apply split_logs_cuts; exact H|intros n p H; apply split_logs_fits; exact H].
Qed.

Lemma split_ok_traces I : split_ok (@count3 I) (@split_traces I) (@items3 I).
Proof. exact (split_ok_logs I). Qed.

Lemma split_ok_metrics I : split_ok (@count4 I) (@split_metrics I) (@items4 I).
Proof.
  split; [reflexivity|]. split; [apply items4_app|]. split; [apply count4_items|].
  split; [intros n p H; apply split_metrics_cuts; exact H|intros n p H; apply split_metrics_fits; exact H].
Qed.

(* count of the returned part in both cases: min k (count p) *)
Lemma split_count_min {R X} count split (items : list R -> list X) : split_ok count split items ->
  forall n p, count (fst (split n p)) = Nat.min n (count p).
Proof.
  intros (_ & _ & _ & Hc & Hf) n p. destruct (Nat.le_gt_cases (count p) n) as [H|H].
  - rewrite (Hf n p H). simpl. lia.
  - destruct (Hc n p H) as (_ & E). lia.
Qed.

Lemma validate_max_valid c : validate c = 0%N -> max_valid c.
Proof.
  unfold validate, max_valid. destruct (Nat.ltb_spec 0 (c_max c)); simpl; [|lia].
  destruct (Nat.ltb_spec (c_max c) (c_size c)); simpl; [discriminate|lia].
Qed.

Section Wrap.
  Context {R X : Type}.
  Variable count : list R -> nat.
  Variable split : nat -> list R -> list R * list R.
  Variable items : list R -> list X.
  Hypothesis OK : split_ok count split items.
  Variable c : cfg.

  Lemma conserves_l t0 ls1 ls2 : validate c = 0%N ->
    Forall (fun l => is_seen l = false) ls1 -> Forall (fun l => is_consume l = false) ls2 ->
    let x := bp_run count split c t0 (ls1 ++ ls2) in
    Forall (fun s => s_done s = true) (fst x) ->
    Permutation (emitted_tagged items (fst x)) (accepted_tagged items c (ls1 ++ ls2) (snd x)).
  Proof.
    destruct OK as (A & B & C & D & _). intros V. apply conserves_g; auto. apply validate_max_valid; exact V.
  Qed.

  Lemma conserves_anytime_l t0 ls :
    let x := bp_run count split c t0 ls in
    Permutation (held_tagged items (fst x)) (accepted_tagged items c ls (snd x)).
  Proof. destruct OK as (A & B & C & D & _). apply conserves_anytime_g; auto. Qed.

  Lemma fifo_l t0 ls s : In s (fst (bp_run count split c t0 ls)) ->
    outs items s ++ pend items s = ins items s.
  Proof. destruct OK as (A & B & C & D & _). apply fifo_g; auto. Qed.

  Lemma max_size_l t0 ls s o : In s (fst (bp_run count split c t0 ls)) -> In o (s_out s) ->
    0 < c_max c -> count (snd o) <= c_max c.
  Proof. destruct OK as (A & B & C & D & _). apply max_size_g with (items := items); auto. Qed.

  Lemma size_trigger_l t0 ls s : In s (fst (bp_run count split c t0 ls)) ->
    b_n (s_batch s) = count (b_data (s_batch s)) /\
    (if has_timer c then count (b_data (s_batch s)) < c_size c else count (b_data (s_batch s)) = 0).
  Proof. destruct OK as (A & B & C & D & _). apply size_trigger_g with (items := items); auto. Qed.

  (* the step that makes send_batch_size items pending emits at once (same label, same time stamp) *)
  Lemma size_trigger_now_l t0 ls s now p : In s (fst (bp_run count split c t0 ls)) ->
    has_timer c = true -> c_size c <= b_n (s_batch s) + count p ->
    exists req rest, s_out (process_item count split c now s p) = s_out s ++ (now, req) :: rest.
  Proof.
    destruct OK as (A & B & C & D & _). intros Hs Ht Hsz.
    destruct (@run_inv _ _ count split items c A B C D t0 ls) as (HG & _). rewrite Forall_forall in HG.
    destruct (HG s Hs) as [HI _].
    destruct (@process_item_spec _ _ count split items c A B C D now s p HI) as (_ & _ & _ & _ & _ & _ & added & O & F & _ & _ & N).
    specialize (N Ht Hsz). destruct added as [|[t req] rest]; [contradiction|].
    apply Forall_inv in F. simpl in F. rewrite F in O. exists req, rest. exact O.
  Qed.

  Lemma isolation_l t0 ls s o x :
    let r := bp_run count split c t0 ls in
    In s (fst r) -> In o (s_out s) -> In x (items (snd o)) ->
    exists md p, In (md, p) (accepted ls (snd r)) /\ In x (items p) /\ md_values c md = s_md s.
  Proof. destruct OK as (A & B & C & D & _). apply isolation_g; auto. Qed.

  Lemma cardinality_bound_l t0 ls : mks c <> [] -> c_limit c <> 0 ->
    length (fst (bp_run count split c t0 ls)) <= c_limit c.
  Proof. destruct OK as (A & B & C & D & _). apply cardinality_bound_g with (items := items); auto. Qed.
End Wrap.


Lemma validate_timeout_nonneg c : validate c = 0%N -> (0 <= c_timeout c)%Z.
Proof.
  unfold validate. destruct (Nat.ltb 0 (c_max c) && Nat.ltb (c_max c) (c_size c)); [discriminate|].
  destruct (has_dup (map lower (c_keys c))); [discriminate|].
  destruct (Z.ltb_spec (c_timeout c) 0); [discriminate|lia].
Qed.

Lemma timeout_l {R X : Type} count split (items : list R -> list X) : split_ok count split items ->
  forall c t0 ls s e, validate c = 0%N -> has_timer c = true ->
  timely_from count split c (bp_init c t0, []) t0 ls ->
  In s (fst (bp_run count split c t0 ls)) -> In e (cum count 0 (s_in s)) ->
  snd e <= emb count (s_out s) (fst e + c_timeout c)
  \/ (s_done s = false /\ (end_time t0 ls <= fst e + c_timeout c)%Z).
Proof.
  intros (A & B & C & D & _) c t0 ls s e V Ht. apply (@timeout_g R X count split items c); auto.
  - apply validate_max_valid; exact V.
  - apply validate_timeout_nonneg; exact V.
Qed.


Section Wrap2.
  Context {R X : Type}.
  Variable count : list R -> nat.
  Variable split : nat -> list R -> list R * list R.
  Variable items : list R -> list X.
  Hypothesis OK : split_ok count split items.
  Variable c : cfg.

  Lemma accounting_l t0 ls : validate c = 0%N ->
    let x := bp_run count split c t0 ls in
    Forall (fun s => s_done s = true) (fst x) ->
    Permutation (left_tagged items (fst x)) (accepted_tagged items c ls (snd x)).
  Proof. destruct OK as (A & B & C & D & _). intros V. apply accounting_g; auto. apply validate_max_valid; exact V. Qed.


  Lemma isolation_unique_l t0 ls s o x md p :
    let r := bp_run count split c t0 ls in
    NoDup (map snd (accepted_tagged items c ls (snd r))) ->
    In s (fst r) -> In o (s_out s) -> In x (items (snd o)) ->
    In (md, p) (accepted ls (snd r)) -> In x (items p) -> md_values c md = s_md s.
  Proof. destruct OK as (A & B & C & D & _). apply isolation_unique_g; auto. Qed.

  Lemma groups_distinct_l t0 ls : NoDup (map (@s_md R) (fst (bp_run count split c t0 ls))).
  Proof. destruct OK as (A & B & C & D & _). apply groups_distinct_g with (items := items); auto. Qed.

  Lemma refines_l cap t0 bl :
    b_st (brun count split c cap t0 bl) = bp_run count split c t0 (b_trace (brun count split c cap t0 bl)).
  Proof. exact (refines_g count split c cap t0 bl). Qed.

  Lemma progress_l cap t0 bl now i s md p ws' :
    let b := brun count split c cap t0 bl in
    nth_error (fst (b_st b)) i = Some s -> s_done s = false -> s_chan s <> [] ->
    pop_waiter i (b_wait b) = Some ((md, p), ws') -> target c md (fst (b_st b)) = Some i ->
    let b' := bstep count split c cap b (BRecv now i) in
    b_wait b' = ws' /\ snd (b_st b') = snd (b_st b) ++ [0%N]
    /\ exists s', nth_error (fst (b_st b')) i = Some s' /\ In p (s_chan s') /\ s_done s' = false.
  Proof.
    destruct OK as (A & B & C & D & _). intros b. apply (@progress_g R X count split items c cap A B C D t0).
    apply refines_g.
  Qed.
End Wrap2.

Lemma done_frozen_l {R} count split c now (s : shard (R := R)) : s_done s = true ->
  sh_recv count split c now s = s /\ sh_timer split c now s = s /\ sh_seen count split c now s = s.
Proof. intros Hd. unfold sh_recv, sh_timer, sh_seen. rewrite Hd. auto. Qed.

(* the refusal rule of consume, by computation on the code of the model (any state) *)
Lemma consume_refusal {R} c now md (p : list R) st :
  let r := bp_consume c now md p st in
  (snd r = 1%N <-> (mks c <> [] /\ c_limit c <> 0 /\ c_limit c <= length st
                    /\ find_shard (aset_of (md_values c md)) st = None))
  /\ (snd r = 1%N -> fst r = st) /\ (snd r = 0%N \/ snd r = 1%N).
Proof.
  unfold bp_consume, bp_consume_locked. destruct (mks c) as [|k ks] eqn:Ek; simpl.
  - split; [split; [discriminate|intros (H & _); contradiction]|]. split; [discriminate|auto].
  - destruct (find_shard (aset_of (md_values c md)) st) eqn:Ef; simpl.
    + split; [split; [discriminate|intros (_ & _ & _ & H); discriminate]|]. split; [discriminate|auto].
    + destruct (Nat.eqb_spec (c_limit c) 0) as [Hl|Hl]; simpl.
      * split; [split; [discriminate|intros (_ & H & _); contradiction]|]. split; [discriminate|auto].
      * destruct (Nat.leb_spec (c_limit c) (length st)) as [Hle|Hgt]; simpl.
        -- split; [split; [intros _; repeat split; auto; discriminate|reflexivity]|]. split; auto.
        -- split; [split; [discriminate|intros (_ & _ & H & _); lia]|]. split; [discriminate|auto].
Qed.

(* a Consume whose Load missed earlier can be refused although its tuple has a shard by now *)
Lemma stale_refusal {R} c now md (p : list R) st :
  mks c <> [] -> c_limit c <> 0 -> c_limit c <= length st ->
  bp_consume_stale c now md p st = (st, 1%N).
Proof.
  intros Hk Hl Hle. unfold bp_consume_stale, bp_consume_locked. destruct (mks c); [contradiction|].
  destruct (Nat.eqb_spec (c_limit c) 0); [contradiction|]. destruct (Nat.leb_spec (c_limit c) (length st)); [reflexivity|lia].
Qed.

(* a Consume whose Load missed earlier, but whose group has a shard by the time it holds the lock, joins that
   shard: nothing is created, nothing is counted (LoadOrStore, not Store) *)
Lemma stale_joins {R} c now md (p : list R) st i :
  mks c <> [] -> find_shard (aset_of (md_values c md)) st = Some i ->
  (c_limit c = 0 \/ length st < c_limit c) ->
  bp_consume_stale c now md p st = (upd_nth i (fun s => sh_enqueue s p) st, 0%N).
Proof.
  intros Hk Hf Hl. unfold bp_consume_stale, bp_consume_locked. destruct (mks c); [contradiction|].
  rewrite Hf. destruct (Nat.eqb_spec (c_limit c) 0); simpl; [reflexivity|].
  destruct (Nat.leb_spec (c_limit c) (length st)); [lia|reflexivity].
Qed.
