(* C17/ProofsC.v — soundness and completeness of the decidable clause checker of Clauses.v. *)
From Verif Require Import Common.Base C17.Model C17.Harness C17.Clauses.
From Coq Require Import Permutation.

Section PermB.
  Context {A : Type}.
  Variable eqb : A -> A -> bool.
  Hypothesis eqb_spec : forall x y, eqb x y = true <-> x = y.

  Lemma remove1_some x : forall l r, remove1 eqb x l = Some r -> Permutation l (x :: r).
  Proof.
    induction l as [|y l IH]; intros r H; simpl in H; [discriminate|].
    destruct (eqb x y) eqn:E.
    - apply eqb_spec in E. inversion H; subst. reflexivity.
    - destruct (remove1 eqb x l) as [r'|] eqn:E'; [|discriminate]. inversion H; subst.
      rewrite (IH r' eq_refl). apply perm_swap.
  Qed.

  Lemma remove1_in x : forall l, In x l -> exists r, remove1 eqb x l = Some r.
  Proof.
    induction l as [|y l IH]; intros H; [destruct H|]. simpl.
    destruct (eqb x y) eqn:E; [eexists; reflexivity|].
    destruct H as [->|H]; [assert (eqb x x = true) by (apply eqb_spec; reflexivity); congruence|].
    destruct (IH H) as (r & ->). eexists; reflexivity.
  Qed.

  Lemma perm_b_spec : forall l1 l2, perm_b eqb l1 l2 = true <-> Permutation l1 l2.
  Proof.
    induction l1 as [|x r IH]; intros l2; simpl.
    - destruct l2; split; intros H; auto; try discriminate. apply Permutation_nil in H. discriminate.
    - split.
      + destruct (remove1 eqb x l2) as [l2'|] eqn:E; [|discriminate]. intros H. apply IH in H.
        rewrite (remove1_some x l2 l2' E). constructor. exact H.
      + intros H. assert (Hin : In x l2) by (apply (Permutation_in _ H); left; reflexivity).
        destruct (remove1_in x l2 Hin) as (l2' & E). rewrite E. apply IH.
        apply (Permutation_cons_inv (a := x)). rewrite H. apply (remove1_some x l2 l2' E).
  Qed.
End PermB.

Lemma pair_eqb_spec {A B} (ea : A -> A -> bool) (eb : B -> B -> bool) :
  (forall x y, ea x y = true <-> x = y) -> (forall x y, eb x y = true <-> x = y) ->
  forall x y, pair_eqb ea eb x y = true <-> x = y.
Proof.
  intros Ha Hb [a b] [a' b']. unfold pair_eqb. simpl. rewrite andb_true_iff, Ha, Hb.
  split; [intros [-> ->]; reflexivity|intros H; inversion H; auto].
Qed.

Lemma ctx_eqb_spec x y : ctx_eqb x y = true <-> x = y.
Proof. exact (pair_eqb_spec N.eqb N.eqb N.eqb_eq N.eqb_eq x y). Qed.

Lemma mkind_eqb_spec x y : mkind_eqb x y = true <-> x = y.
Proof.
  destruct x, y; simpl; try (split; [discriminate|intros H; discriminate H]); try (split; reflexivity).
  - rewrite andb_true_iff, N.eqb_eq, Bool.eqb_true_iff. split; [intros [-> ->]; reflexivity|intros H; inversion H; auto].
  - rewrite N.eqb_eq. split; [intros ->; reflexivity|intros H; inversion H; auto].
  - rewrite N.eqb_eq. split; [intros ->; reflexivity|intros H; inversion H; auto].
Qed.

Lemma mident_eqb_spec x y : mident_eqb x y = true <-> x = y.
Proof.
  destruct x as [n d u m k], y as [n' d' u' m' k']. simpl.
  rewrite !andb_true_iff, !N.eqb_eq, mkind_eqb_spec.
  split; [intros ((((-> & ->) & ->) & ->) & ->); reflexivity|intros H; inversion H; auto].
Qed.

Lemma item3_eqb_spec x y : item3_eqb x y = true <-> x = y.
Proof. exact (pair_eqb_spec _ _ N.eqb_eq (pair_eqb_spec _ _ ctx_eqb_spec ctx_eqb_spec) x y). Qed.
Lemma item4_eqb_spec x y : item4_eqb x y = true <-> x = y.
Proof.
  exact (pair_eqb_spec _ _ N.eqb_eq (pair_eqb_spec _ _ (pair_eqb_spec _ _ ctx_eqb_spec ctx_eqb_spec) mident_eqb_spec) x y).
Qed.
Lemma tuple_eqb'_spec x y : tuple_eqb' x y = true <-> x = y.
Proof. exact (list_eqb_spec _ (list_eqb_spec _ N.eqb_eq) x y). Qed.

(* ---- the Prop-level clauses over an observation ------------------------------------------------------------ *)
Section RunClauses.
  Context {R X : Type}.
  Variable count : list R -> nat.
  Variable items : list R -> list X.
  Variable xeqb : X -> X -> bool.
  Hypothesis xeqb_spec : forall x y, xeqb x y = true <-> x = y.
  Variable c : cfg.

  (* for a validated configuration: the Consume results follow the refusal rule; no exported request exceeds
     send_batch_max_size; the exported items, each with the metadata tuple of its export context, are exactly the
     items of the calls accepted before Shutdown, each with the values of the configured keys it arrived with *)
  Definition RunClause (ops : list (sop (list R))) (obs : run_obs (list R)) : Prop :=
    validate c = 0%N ->
    fst obs = expected c (@nil (list (list N))) (calls true ops)
    /\ Forall (fun req => 0 < c_max c -> count req <= c_max c) (all_reqs (snd obs))
    /\ Permutation (emitted_obs items (snd obs)) (accepted_before items c (calls true ops) (fst obs)).

  Lemma run_viol_sound ops obs : run_viol count items xeqb c ops obs = 0 <-> RunClause ops obs.
  Proof.
    unfold run_viol, RunClause. destruct (N.eqb_spec (validate c) 0) as [Hv|Hv]; simpl; [|split; [intros _ H; contradiction|reflexivity]].
    assert (Hc : card_b c ops obs = true <-> fst obs = expected c [] (calls true ops))
      by (unfold card_b; apply (list_eqb_spec _ N.eqb_eq)).
    assert (Hm : max_b count c obs = true <-> Forall (fun req => 0 < c_max c -> count req <= c_max c) (all_reqs (snd obs))).
    { unfold max_b. rewrite forallb_forall, Forall_forall. split; intros H req Hr; specialize (H req Hr).
      - intros Hp. apply orb_true_iff in H. destruct H as [H|H]; [apply Nat.eqb_eq in H; lia|apply Nat.leb_le in H; exact H].
      - destruct (Nat.eqb_spec (c_max c) 0); simpl; [reflexivity|]. apply Nat.leb_le. apply H. lia. }
    assert (Hp : conserv_b items xeqb c ops obs = true <->
                 Permutation (emitted_obs items (snd obs)) (accepted_before items c (calls true ops) (fst obs))).
    { unfold conserv_b. apply perm_b_spec. apply pair_eqb_spec; [exact tuple_eqb'_spec|exact xeqb_spec]. }
    destruct (card_b c ops obs); simpl.
    - destruct (max_b count c obs); simpl.
      + destruct (conserv_b items xeqb c ops obs); simpl.
        * split; [intros _ _|reflexivity]. repeat split; [apply Hc|apply Hm|apply Hp]; reflexivity.
        * split; [discriminate|]. intros H. destruct (H Hv) as (_ & _ & H3). apply Hp in H3. discriminate.
      + split; [discriminate|]. intros H. destruct (H Hv) as (_ & H2 & _). apply Hm in H2. discriminate.
    - split; [discriminate|]. intros H. destruct (H Hv) as (H1 & _). apply Hc in H1. discriminate.
  Qed.

  Definition SplitClause (size : nat) (src d k : list R) : Prop :=
    count d = Nat.min size (count src)
    /\ (size < count src -> items d ++ items k = items src)
    /\ (count src <= size -> items d = items src).

  Lemma split_viol_sound size src d k : split_viol count items xeqb size src d k = 0 <-> SplitClause size src d k.
  Proof.
    unfold split_viol, SplitClause.
    destruct (Nat.eqb_spec (count d) (Nat.min size (count src))) as [E|E]; simpl.
    - destruct (Nat.ltb_spec size (count src)) as [L|L].
      + destruct (list_eqb xeqb (items d ++ items k) (items src)) eqn:El.
        * apply (list_eqb_spec _ xeqb_spec) in El. split; [intros _|reflexivity]. repeat split; auto. lia.
        * split; [discriminate|]. intros (_ & H & _). apply (list_eqb_spec _ xeqb_spec) in H; [congruence|exact L].
      + destruct (list_eqb xeqb (items d) (items src)) eqn:El.
        * apply (list_eqb_spec _ xeqb_spec) in El. split; [intros _|reflexivity]. repeat split; auto. lia.
        * split; [discriminate|]. intros (_ & _ & H). apply (list_eqb_spec _ xeqb_spec) in H; [congruence|exact L].
    - split; [discriminate|]. intros (H & _). contradiction.
  Qed.
End RunClauses.
