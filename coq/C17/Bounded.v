(* C17/Bounded.v — the newItem channel with its real capacity (make(chan T, runtime.NumCPU())) and the
   producers blocked on it.  Executable definitions only.

   A Consume call whose target shard's channel is full does not return: the producer waits in the channel's
   FIFO send queue.  Go's channel semantics: a receive from a full buffered channel with waiting senders takes
   the head of the buffer and moves the first waiting sender's value to the tail, releasing that sender — the
   Consume call returns nil at that moment.  The shutdown branch's drain loop (select with default) therefore
   also takes the items of every producer that is waiting when it runs.

   The bounded system is defined ON TOP of the unbounded one of Model.v: every bounded step performs zero or more
   steps of [bp_step], and the history variable [b_trace] records them — an [LConsume] label is appended exactly
   when a Consume call gets past its channel send (returns nil) or is refused.  Hence (ProofsB.bb_refines) the
   shard states of a bounded run are those of the unbounded run of its trace, and every theorem of Properties.v
   about all unbounded runs speaks about all bounded runs, "accepted" being the calls that have returned. *)
From Verif Require Import Common.Base C17.Model.

Set Implicit Arguments.

Section Bounded.
  Context {R : Type}.
  Variable count : list R -> nat.
  Variable split : nat -> list R -> list R * list R.
  Variable c : cfg.
  Variable cap : nat.                       (* runtime.NumCPU() *)

  Definition waiter := (nat * (metadata * list R))%type.      (* shard index, the blocked call *)

  Record bstate := BS {
    b_st : bp (R := R) * list N;           (* the shards and the results of the calls that have returned *)
    b_wait : list waiter;                  (* blocked producers, oldest first (per shard: the send queue) *)
    b_trace : list (label (R := R))        (* history: the unbounded steps performed so far *)
  }.

  Inductive blabel :=
  | BConsume (now : Z) (md : metadata) (p : list R)
  | BConsumeStale (now : Z) (md : metadata) (p : list R)
  | BRecv (now : Z) (i : nat)
  | BTimer (now : Z) (i : nat)
  | BSeen (now : Z) (i : nat).

  Definition do_step (b : bstate) (l : label) : bstate :=
    BS (bp_step count split c (b_st b) l) (b_wait b) (b_trace b ++ [l]).

  (* the shard a call will send to, if it exists already *)
  Definition target (md : metadata) (st : bp (R := R)) : option nat :=
    match mks c with [] => Some 0 | _ => find_shard (aset_of (md_values c md)) st end.

  Definition chan_len (st : bp (R := R)) (i : nat) : nat :=
    match nth_error st i with Some s => length (s_chan s) | None => 0 end.
  Definition live (st : bp (R := R)) (i : nat) : bool :=
    match nth_error st i with Some s => negb (s_done s) | None => false end.

  Fixpoint pop_waiter (i : nat) (ws : list waiter) : option ((metadata * list R) * list waiter) :=
    match ws with
    | [] => None
    | (j, w) :: r => if Nat.eqb j i then Some (w, r)
                     else match pop_waiter i r with Some (w', r') => Some (w', (j, w) :: r') | None => None end
    end.

  (* the channel send of a Consume call *)
  Definition b_send (b : bstate) (l : label) (md : metadata) (p : list R) : bstate :=
    match target md (fst (b_st b)) with
    | Some i => if Nat.leb cap (chan_len (fst (b_st b)) i)
                then BS (b_st b) (b_wait b ++ [(i, (md, p))]) (b_trace b)     (* blocks *)
                else do_step b l
    | None => do_step b l                       (* no shard yet: refusal, or a new shard with an empty channel *)
    end.

  (* one receive by shard i's goroutine: processItem, then the first waiting sender gets the freed slot *)
  Definition b_recv (now : Z) (i : nat) (b : bstate) : bstate :=
    let took := live (fst (b_st b)) i && negb (Nat.eqb (chan_len (fst (b_st b)) i) 0) in
    let b1 := do_step b (LRecv now i) in
    if took then
      match pop_waiter i (b_wait b1) with
      | Some ((md, p), ws') => do_step (BS (b_st b1) ws' (b_trace b1)) (LConsume now md p)
      | None => b1
      end
    else b1.

  (* the DONE loop of the shutdown branch: receive until the channel is empty *)
  Fixpoint b_drain (fuel : nat) (now : Z) (i : nat) (b : bstate) : bstate :=
    match fuel with
    | 0 => b
    | S f => if Nat.eqb (chan_len (fst (b_st b)) i) 0 then b else b_drain f now i (b_recv now i b)
    end.

  Definition bstep (b : bstate) (l : blabel) : bstate :=
    match l with
    | BConsume now md p => b_send b (LConsume now md p) md p
    | BConsumeStale now md p =>
        (* the locked section comes first: at the limit the call is refused before any send *)
        match mks c with
        | [] => b_send b (LConsumeStale now md p) md p
        | _ => if negb (Nat.eqb (c_limit c) 0) && Nat.leb (c_limit c) (length (fst (b_st b)))
               then do_step b (LConsumeStale now md p)
               else b_send b (LConsumeStale now md p) md p
        end
    | BRecv now i => b_recv now i b
    | BTimer now i => do_step b (LTimer now i)
    | BSeen now i =>
        if live (fst (b_st b)) i
        then do_step (b_drain (chan_len (fst (b_st b)) i + length (b_wait b) + 1) now i b) (LSeen now i)
        else do_step b (LSeen now i)
    end.

  Definition b_init (t0 : Z) : bstate := BS (bp_init c t0, []) [] [].
  Definition brun (t0 : Z) (bl : list blabel) : bstate := fold_left bstep bl (b_init t0).
End Bounded.
