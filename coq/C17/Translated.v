(* C17/Translated.v — obligations tying hand-written definitions of Model.v to what translator T1 reads from the
   CURRENT Go source (coq/Generated/C17Batch.v is regenerated on every check run). *)
From Verif Require Import Common.Base C17.Model Generated.C17Batch.

(* the model's metric kinds are the pmetric.MetricType constants *)
Definition kind_code (k : mkind) : Z :=
  match k with
  | MEmpty => MetricTypeEmpty | MGauge => MetricTypeGauge | MSum _ _ => MetricTypeSum
  | MHistogram _ => MetricTypeHistogram | MExpHistogram _ => MetricTypeExponentialHistogram
  | MSummary => MetricTypeSummary
  end.

Lemma metric_types_distinct :
  NoDup [MetricTypeEmpty; MetricTypeGauge; MetricTypeSum; MetricTypeHistogram;
         MetricTypeExponentialHistogram; MetricTypeSummary].
Proof.
  repeat (constructor; [simpl; intros H; repeat (destruct H as [H|H]; [discriminate H|]); exact H|]). constructor.
Qed.

(* metricDPC (Go) = metric_count (model): the length of the data-point slice of the metric's own type, 0 for a
   metric without type; the slices of the other types are irrelevant *)
Lemma metricDPC_is_metric_count {I} (m : metric I) (s e h u g : Z) :
  let L := Z.of_nat (length (snd m)) in
  (mi_kind (fst m) = MSummary -> s = L) ->
  ((exists t, mi_kind (fst m) = MExpHistogram t) -> e = L) ->
  ((exists t, mi_kind (fst m) = MHistogram t) -> h = L) ->
  ((exists t b, mi_kind (fst m) = MSum t b) -> u = L) ->
  (mi_kind (fst m) = MGauge -> g = L) ->
  metricDPC (kind_code (mi_kind (fst m))) s e h u g = Z.of_nat (metric_count m).
Proof.
  destruct m as [[name desc unit meta kind] pts]. unfold metric_count, mpoints. simpl.
  intros Hs He Hh Hu Hg. destruct kind; simpl.
  - reflexivity.
  - apply Hg. reflexivity.
  - apply Hu. eauto.
  - apply Hh. eauto.
  - apply He. eauto.
  - apply Hs. reflexivity.
Qed.

(* itemCount of the three batch adapters is the counter kept beside the data (b_n of the model) *)
Lemma itemCount_is_counter (n : Z) :
  batchLogs_itemCount n = n /\ batchTraces_itemCount n = n /\ batchMetrics_itemCount n = n.
Proof. repeat split. Qed.

(* hasTimer = "a timer was created"; the model's has_timer is the condition under which startLoop creates it *)
Lemma hasTimer_is_timer_created (isnil : bool) : shard_hasTimer isnil = negb isnil.
Proof. reflexivity. Qed.

(* without metadata keys there is exactly one shard *)
Lemma single_shard_cardinality {R} c t0 : mks c = [] ->
  Z.of_nat (length (bp_init (R := R) c t0)) = singleShard_cardinality.
Proof. intros H. unfold bp_init. rewrite H. reflexivity. Qed.
