(* C17/Properties.v — the property theorems of the batch processor, nothing else.
   Vocabulary (definitions in Model.v / Proofs2.v, all executable or plain list expressions):
     bp_run count split c t0 ls     final (shards, results of the Consume calls) after the labels ls;
                                    a label is one atomic section: LConsume / LConsumeStale (a producer's
                                    call), LRecv / LTimer / LSeen (the three select branches of shard i)
     emitted_tagged / held_tagged   every item (with resource, scope, both schema URLs, metric identity)
                                    paired with the metadata tuple of the export context it was sent under;
                                    held = emitted ++ pending in a batch ++ waiting in a channel
     accepted_tagged                every item of every Consume that returned nil, paired with the values
                                    of the configured keys in the producer's client metadata
     split_ok count split items     the contract of a signal's split (proved for the three real splits)
   The theorems are generic in the signal and hold for logs_run / traces_run / metrics_run through
   split_n_spec_logs / _traces / _metrics. *)
From Verif Require Import Common.Base C17.Model C17.Bounded C17.Proofs1 C17.Proofs2 C17.ProofsB C17.Proofs3 Generated.C17Batch C17.Translated C17.Harness C17.Clauses C17.ProofsC C17.ProofsL.
From Coq Require Import Permutation.

(* ---- split_n_spec: the three count-based splits ------------------------------------------------------
   returned part a, rest b of split k p:  count a = min k (count p);  when k < count p the items of a
   followed by the items of b are the items of p, in order, each with its full context (resource, scope,
   both schema URLs, for metrics the whole metric identity incl. metadata — the repaired F10);
   when count p <= k the source itself is returned. *)
Theorem split_n_spec_logs : forall I, split_ok (@count3 I) (@split_logs I) (@items3 I).
Proof. exact split_ok_logs. Qed.
Theorem split_n_spec_traces : forall I, split_ok (@count3 I) (@split_traces I) (@items3 I).
Proof. exact split_ok_traces. Qed.
Theorem split_n_spec_metrics : forall I, split_ok (@count4 I) (@split_metrics I) (@items4 I).
Proof. exact split_ok_metrics. Qed.

Theorem split_n_spec : forall R X count split (items : list R -> list X), split_ok count split items ->
  forall k p, count (fst (split k p)) = Nat.min k (count p).
Proof. exact (@split_count_min). Qed.

(* ---- conservation -------------------------------------------------------------------------------------
   Every label sequence ls1 ++ ls2 in which no shard notices the shutdown during ls1 and no Consume happens
   during ls2 (everything was accepted before shutdown began), for every validated configuration: once all
   shards have returned, the emitted items are exactly the accepted items — as multisets of (metadata tuple,
   item with full context): nothing lost, nothing twice, nothing invented, identity kept. *)
Theorem bp_conserves : forall R X count split (items : list R -> list X), split_ok count split items ->
  forall c t0 ls1 ls2, validate c = 0%N ->
  Forall (fun l => is_seen l = false) ls1 -> Forall (fun l => is_consume l = false) ls2 ->
  let x := bp_run count split c t0 (ls1 ++ ls2) in
  Forall (fun s => s_done s = true) (fst x) ->
  Permutation (emitted_tagged items (fst x)) (accepted_tagged items c (ls1 ++ ls2) (snd x)).
Proof. exact (@conserves_l). Qed.

(* ... and at every moment of every run (any configuration, any schedule, also during and after shutdown):
   emitted ++ pending ++ waiting = accepted; so what has been emitted so far is a sub-multiset of what was
   accepted (exactly once, nothing invented) *)
Theorem bp_conserves_anytime : forall R X count split (items : list R -> list X), split_ok count split items ->
  forall c t0 ls,
  let x := bp_run count split c t0 ls in
  Permutation (held_tagged items (fst x)) (accepted_tagged items c ls (snd x)).
Proof. exact (@conserves_anytime_l). Qed.

(* within one shard the order of arrival is the order of emission *)
Theorem bp_fifo : forall R X count split (items : list R -> list X), split_ok count split items ->
  forall c t0 ls s, In s (fst (bp_run count split c t0 ls)) ->
  outs items s ++ pend items s = ins items s.
Proof. exact (@fifo_l). Qed.

(* ---- size bound ---------------------------------------------------------------------------------------- *)
Theorem bp_max_size : forall R X count split (items : list R -> list X), split_ok count split items ->
  forall c t0 ls s o, In s (fst (bp_run count split c t0 ls)) -> In o (s_out s) ->
  0 < c_max c -> count (snd o) <= c_max c.
Proof. exact (@max_size_l). Qed.

(* ---- size trigger: after every step fewer than send_batch_size items are pending in every shard (none at
   all when there is no timer); the counter kept beside the batch is the real count ------------------------ *)
Theorem bp_size_trigger : forall R X count split (items : list R -> list X), split_ok count split items ->
  forall c t0 ls s, In s (fst (bp_run count split c t0 ls)) ->
  b_n (s_batch s) = count (b_data (s_batch s)) /\
  (if has_timer c then count (b_data (s_batch s)) < c_size c else count (b_data (s_batch s)) = 0).
Proof. exact (@size_trigger_l). Qed.

(* ... and the arrival that completes send_batch_size pending items is answered by an export in the same step *)
Theorem bp_size_trigger_now : forall R X count split (items : list R -> list X), split_ok count split items ->
  forall c t0 ls s now p, In s (fst (bp_run count split c t0 ls)) ->
  has_timer c = true -> c_size c <= b_n (s_batch s) + count p ->
  exists req rest, s_out (process_item count split c now s p) = s_out s ++ (now, req) :: rest.
Proof. exact (@size_trigger_now_l). Qed.

(* ---- timely flush (logical time) ---------------------------------------------------------------------------
   timely_from: the labels' time stamps never decrease and never pass the deadline of a live shard's timer
   (a timer fires, and its branch runs, exactly at its deadline; LTimer is a no-op before the deadline).
   For every validated configuration with a timer, every timely run, every shard and every arrival the shard
   took from its channel at time t — n items taken in up to and including it —: the exports made up to
   t + timeout contain at least n items (by bp_fifo: all items of this and of every earlier arrival), or the
   shard is still live and t + timeout has not come yet.  Hence nothing stays pending beyond the timeout. *)
Theorem bp_timeout : forall R X count split (items : list R -> list X), split_ok count split items ->
  forall c t0 ls s e, validate c = 0%N -> has_timer c = true ->
  timely_from count split c (bp_init c t0, []) t0 ls ->
  In s (fst (bp_run count split c t0 ls)) -> In e (cum count 0 (s_in s)) ->
  snd e <= emb count (s_out s) (fst e + c_timeout c)
  \/ (s_done s = false /\ (end_time t0 ls <= fst e + c_timeout c)%Z).
Proof. exact (@timeout_l). Qed.

(* ---- metadata isolation: every item of every emitted batch arrived with exactly the tuple of values that
   the batch's export context carries (s_md s) — so items that arrived with different tuples are never in one
   batch (bp_conserves states the same for multisets) ---------------------------------------------------------- *)
Theorem bp_metadata_isolation : forall R X count split (items : list R -> list X), split_ok count split items ->
  forall c t0 ls s o x,
  let r := bp_run count split c t0 ls in
  In s (fst r) -> In o (s_out s) -> In x (items (snd o)) ->
  exists md p, In (md, p) (accepted ls (snd r)) /\ In x (items p) /\ md_values c md = s_md s.
Proof. exact (@isolation_l). Qed.


(* "never placed in the same batch", literally: when all accepted items are pairwise different, EVERY accepted call
   containing an item of an emitted batch arrived with exactly the tuple the batch was exported with *)
Theorem bp_metadata_isolation_unique : forall R X count split (items : list R -> list X), split_ok count split items ->
  forall c t0 ls s o x md p,
  let r := bp_run count split c t0 ls in
  NoDup (map snd (accepted_tagged items c ls (snd r))) ->
  In s (fst r) -> In o (s_out s) -> In x (items (snd o)) ->
  In (md, p) (accepted ls (snd r)) -> In x (items p) -> md_values c md = s_md s.
Proof. exact (@isolation_unique_l). Qed.

(* ---- cardinality limit ----------------------------------------------------------------------------------- *)
Theorem bp_cardinality_bound : forall R X count split (items : list R -> list X), split_ok count split items ->
  forall c t0 ls, mks c <> [] -> c_limit c <> 0 ->
  length (fst (bp_run count split c t0 ls)) <= c_limit c.
Proof. exact (@cardinality_bound_l). Qed.

(* a Consume (as one atomic step) is refused — class 1 = errTooManyBatchers, a permanent error — exactly when
   keys are configured, the limit is set and reached, and the tuple has no shard; it then changes nothing *)
Theorem bp_cardinality : forall R c now md (p : list R) st,
  let r := bp_consume c now md p st in
  (snd r = 1%N <-> (mks c <> [] /\ c_limit c <> 0 /\ c_limit c <= length st
                    /\ find_shard (aset_of (md_values c md)) st = None))
  /\ (snd r = 1%N -> fst r = st) /\ (snd r = 0%N \/ snd r = 1%N).
Proof. exact (@consume_refusal). Qed.

(* schedule-dependent: a producer whose lock-free Load missed before another producer created the shard is
   refused at the limit although its tuple has a shard by now (no loss: the producer gets the error) *)
Theorem bp_cardinality_stale_refusal : forall R c now md (p : list R) st,
  mks c <> [] -> c_limit c <> 0 -> c_limit c <= length st ->
  bp_consume_stale c now md p st = (st, 1%N).
Proof. exact (@stale_refusal). Qed.



(* concurrent first arrivals of one group: the late one (stale Load miss) joins the shard the early one created —
   no second shard, the state's length (= the count held against the cardinality limit) is unchanged *)
Theorem bp_stale_joins_existing : forall R c now md (p : list R) st i,
  mks c <> [] -> find_shard (aset_of (md_values c md)) st = Some i ->
  (c_limit c = 0 \/ length st < c_limit c) ->
  bp_consume_stale c now md p st = (upd_nth i (fun s => sh_enqueue s p) st, 0%N).
Proof. exact (@stale_joins). Qed.

(* ---- Consume concurrent with or after Shutdown (outside "accepted before shutdown began", stated for the record)
   Any schedule whatsoever, validated configuration: once every shard has returned, what was accepted (Consume
   returned nil) is exactly what was emitted plus what sits in the channels of the returned shards — a payload
   sent to a shard that has already returned is accepted (nil) while the buffer has room, and is never emitted
   (bp_done_frozen); nothing is emitted twice or invented in any case (bp_conserves_anytime). *)
Theorem bp_shutdown_accounting : forall R X count split (items : list R -> list X), split_ok count split items ->
  forall c t0 ls, validate c = 0%N ->
  let x := bp_run count split c t0 ls in
  Forall (fun s => s_done s = true) (fst x) ->
  Permutation (left_tagged items (fst x)) (accepted_tagged items c ls (snd x)).
Proof. exact (@accounting_l). Qed.

Theorem bp_done_frozen : forall R count split c now (s : shard (R := R)), s_done s = true ->
  sh_recv count split c now s = s /\ sh_timer split c now s = s /\ sh_seen count split c now s = s.
Proof. exact (@done_frozen_l). Qed.

(* one shard per tuple of values: the groups are pairwise distinct in every reachable state *)
Theorem bp_groups_distinct : forall R X count split (items : list R -> list X), split_ok count split items ->
  forall c t0 ls, NoDup (map (@s_md R) (fst (bp_run count split c t0 ls))).
Proof. exact (@groups_distinct_l). Qed.

(* ---- the bounded newItem channel (capacity cap = runtime.NumCPU()) with blocked producers (Bounded.v) -------
   bb_refines: the shards and the results of a bounded run are those of the unbounded run of its trace, in which
   a Consume label stands exactly where the call got past its channel send (returned) — so every theorem above
   about all unbounded runs holds of all bounded runs, "accepted" being the calls that have returned; a blocked
   producer still holds its payload (it is neither accepted nor in the processor). *)
Theorem bb_refines : forall R count split c cap t0 (bl : list (blabel (R := R))),
  b_st (brun count split c cap t0 bl) = bp_run count split c t0 (b_trace (brun count split c cap t0 bl)).
Proof. exact (@refines_l). Qed.

(* no deadlock with a live shard: the next receive of shard i releases the producer that has waited longest on
   it: its Consume returns nil and its payload is in the channel *)
Theorem bb_progress : forall R X count split (items : list R -> list X), split_ok count split items ->
  forall c cap t0 bl now i s md p ws',
  let b := brun count split c cap t0 bl in
  nth_error (fst (b_st b)) i = Some s -> s_done s = false -> s_chan s <> [] ->
  pop_waiter i (b_wait b) = Some ((md, p), ws') -> target c md (fst (b_st b)) = Some i ->
  let b' := bstep count split c cap b (BRecv now i) in
  b_wait b' = ws' /\ snd (b_st b') = snd (b_st b) ++ [0%N]
  /\ exists s', nth_error (fst (b_st b')) i = Some s' /\ In p (s_chan s') /\ s_done s' = false.
Proof. exact (@progress_l). Qed.


(* ---- translator obligations (T1 re-reads the Go source on every run: coq/Generated/C17Batch.v) ------------------ *)
Theorem t1_metricDPC_is_metric_count : forall I (m : metric I) (s e h u g : Z),
  let L := Z.of_nat (length (snd m)) in
  (mi_kind (fst m) = MSummary -> s = L) ->
  ((exists t, mi_kind (fst m) = MExpHistogram t) -> e = L) ->
  ((exists t, mi_kind (fst m) = MHistogram t) -> h = L) ->
  ((exists t b, mi_kind (fst m) = MSum t b) -> u = L) ->
  (mi_kind (fst m) = MGauge -> g = L) ->
  metricDPC (kind_code (mi_kind (fst m))) s e h u g = Z.of_nat (metric_count m).
Proof. exact (@metricDPC_is_metric_count). Qed.

Theorem t1_metric_types_distinct :
  NoDup [MetricTypeEmpty; MetricTypeGauge; MetricTypeSum; MetricTypeHistogram;
         MetricTypeExponentialHistogram; MetricTypeSummary].
Proof. exact metric_types_distinct. Qed.

Theorem t1_itemCount_hasTimer_cardinality :
  (forall n, batchLogs_itemCount n = n /\ batchTraces_itemCount n = n /\ batchMetrics_itemCount n = n)
  /\ (forall isnil, shard_hasTimer isnil = negb isnil)
  /\ (forall R c t0, mks c = [] -> Z.of_nat (length (bp_init (R := R) c t0)) = singleShard_cardinality).
Proof. exact (conj itemCount_is_counter (conj hasTimer_is_timer_created (@single_shard_cardinality))). Qed.


(* ---- the decidable clause checker run over every observed case (Clauses.v) is sound and complete --------------
   run_viol / split_viol inspect only the OBSERVATION (script + what the implementation did): 0 iff, for a validated
   configuration, the Consume results follow the refusal rule, no exported request exceeds send_batch_max_size and the
   exported items with their export-context tuples are a permutation of the items accepted before Shutdown with the
   tuples they arrived with (conservation + identity + isolation). *)
Theorem clause_checker_run_sound : forall R X count (items : list R -> list X) xeqb,
  (forall x y, xeqb x y = true <-> x = y) ->
  forall c ops obs, run_viol count items xeqb c ops obs = 0 <-> RunClause count items c ops obs.
Proof. exact (@run_viol_sound). Qed.

Theorem clause_checker_split_sound : forall R X count (items : list R -> list X) xeqb,
  (forall x y, xeqb x y = true <-> x = y) ->
  forall size src d k, split_viol count items xeqb size src d k = 0 <-> SplitClause count items size src d k.
Proof. exact (@split_viol_sound). Qed.

Theorem clause_checker_item_equalities :
  (forall x y, item3_eqb x y = true <-> x = y) /\ (forall x y, item4_eqb x y = true <-> x = y).
Proof. exact (conj item3_eqb_spec item4_eqb_spec). Qed.


(* ---- the link: what the MODEL produces always passes the clause checker -----------------------------------------
   model_out v is the observed-case record built from the model's own run (Harness.run_script: every Consume of the
   script followed by every shard taking what is in its channel, timer firings at the deadlines, Shutdown at the end)
   exactly as the harness builds it from the implementation's run.  For every split case, every Validate case and every
   processor run whose script has no Shutdown in the middle (the guard of bp_conserves), of all three signals, every
   configuration, every payload and metadata: the checker finds no violated clause.  So the checker never demands more
   than the model delivers (no false alarm on a faithful implementation), and by clause_checker_*_sound the model's runs
   satisfy the Prop-level clauses.  Not covered: scripts with Consume calls after Shutdown and the blocked-producer
   scripts (the CBounded cases), see NOTES.md. *)
Theorem checker_accepts_model : forall v, linkable v -> prop_viol (model_out v) = 0.
Proof. exact checker_accepts_model_l. Qed.

(* the same, generically in the signal *)
Theorem checker_accepts_model_run : forall R X count split (items : list R -> list X) xeqb c,
  items [] = [] -> (forall a b, items (a ++ b) = items a ++ items b) -> (forall p, count p = length (items p)) ->
  (forall n p, n < count p -> items (fst (split n p)) ++ items (snd (split n p)) = items p /\ count (fst (split n p)) = n) ->
  (forall x y, xeqb x y = true <-> x = y) ->
  forall ops, no_shutdown ops -> run_viol count items xeqb c ops (run_script count split c ops) = 0.
Proof. exact (@model_passes_run). Qed.

Print Assumptions split_n_spec_logs.
Print Assumptions split_n_spec_traces.
Print Assumptions split_n_spec_metrics.
Print Assumptions split_n_spec.
Print Assumptions bp_conserves.
Print Assumptions bp_conserves_anytime.
Print Assumptions bp_fifo.
Print Assumptions bp_max_size.
Print Assumptions bp_size_trigger.
Print Assumptions bp_size_trigger_now.
Print Assumptions bp_timeout.
Print Assumptions bp_metadata_isolation.
Print Assumptions bp_cardinality_bound.
Print Assumptions bp_cardinality.
Print Assumptions bp_cardinality_stale_refusal.
Print Assumptions bp_shutdown_accounting.
Print Assumptions bp_done_frozen.
Print Assumptions bp_groups_distinct.
Print Assumptions bb_refines.
Print Assumptions bb_progress.
Print Assumptions t1_metricDPC_is_metric_count.
Print Assumptions t1_metric_types_distinct.
Print Assumptions t1_itemCount_hasTimer_cardinality.
Print Assumptions clause_checker_run_sound.
Print Assumptions clause_checker_split_sound.
Print Assumptions clause_checker_item_equalities.
Print Assumptions bp_metadata_isolation_unique.
Print Assumptions bp_stale_joins_existing.
Print Assumptions checker_accepts_model.
Print Assumptions checker_accepts_model_run.
