(* C17/ProofsB.v — the bounded channel: refinement of the unbounded system, progress of blocked producers. *)
From Verif Require Import Common.Base C17.Model C17.Bounded C17.Proofs2.
From Coq Require Import Permutation.

Lemma nth_error_upd_nth {A} (f : A -> A) : forall l i x, nth_error l i = Some x ->
  nth_error (upd_nth i f l) i = Some (f x).
Proof. induction l as [|y l IH]; intros [|i] x H; simpl in *; try discriminate; [congruence|auto]. Qed.

Lemma find_shard_md_ext {R} a : forall (st st' : bp (R := R)),
  map (@s_md R) st = map (@s_md R) st' -> find_shard a st = find_shard a st'.
Proof.
  induction st as [|s st IH]; intros [|s' st'] H; simpl in *; try discriminate; auto.
  inversion H as [[E1 E2]]. rewrite E1, (IH st' E2). reflexivity.
Qed.

Section B.
  Context {R X : Type}.
  Variable count : list R -> nat.
  Variable split : nat -> list R -> list R * list R.
  Variable items : list R -> list X.
  Variable c : cfg.
  Variable cap : nat.
  Hypothesis H_nil : items [] = [].
  Hypothesis H_app : forall a b, items (a ++ b) = items a ++ items b.
  Hypothesis H_cnt : forall p, count p = length (items p).
  Hypothesis H_split : forall n p, n < count p ->
    items (fst (split n p)) ++ items (snd (split n p)) = items p /\ count (fst (split n p)) = n.
  Variable t0 : Z.

  Local Notation bstate := (@bstate R).
  Definition Ref (b : bstate) : Prop := b_st b = bp_run count split c t0 (b_trace b).

  Lemma ref_do_step b l : Ref b -> Ref (do_step count split c b l).
  Proof. unfold Ref, do_step, bp_run. simpl. intros ->. rewrite fold_left_app. reflexivity. Qed.

  Lemma ref_set_wait b ws : Ref b -> Ref (BS (b_st b) ws (b_trace b)).
  Proof. exact (fun H => H). Qed.

  Lemma ref_send b l md p : Ref b -> Ref (b_send count split c cap b l md p).
  Proof.
    intros H. unfold b_send. destruct (target c md (fst (b_st b))); [|apply ref_do_step; exact H].
    destruct (Nat.leb cap (chan_len (fst (b_st b)) n)); [exact H|apply ref_do_step; exact H].
  Qed.

  Lemma ref_recv now i b : Ref b -> Ref (b_recv count split c now i b).
  Proof.
    intros H. unfold b_recv.
    destruct (live (fst (b_st b)) i && negb (Nat.eqb (chan_len (fst (b_st b)) i) 0)); [|apply ref_do_step; exact H].
    destruct (pop_waiter i (b_wait (do_step count split c b (LRecv now i)))) as [[[md p] ws']|].
    - apply ref_do_step. apply ref_set_wait. apply ref_do_step. exact H.
    - apply ref_do_step. exact H.
  Qed.

  Lemma ref_drain now i : forall fuel b, Ref b -> Ref (b_drain count split c fuel now i b).
  Proof.
    induction fuel as [|f IH]; intros b H; simpl; [exact H|].
    destruct (Nat.eqb (chan_len (fst (b_st b)) i) 0); [exact H|]. apply IH, ref_recv, H.
  Qed.

  Lemma ref_bstep b l : Ref b -> Ref (bstep count split c cap b l).
  Proof.
    intros H. destruct l as [now md p|now md p|now i|now i|now i]; simpl.
    - apply ref_send; exact H.
    - destruct (mks c); [apply ref_send; exact H|].
      destruct (negb (Nat.eqb (c_limit c) 0) && Nat.leb (c_limit c) (length (fst (b_st b))));
        [apply ref_do_step|apply ref_send]; exact H.
    - apply ref_recv; exact H.
    - apply ref_do_step; exact H.
    - destruct (live (fst (b_st b)) i); apply ref_do_step; [apply ref_drain|]; exact H.
  Qed.

  (* the shards of a bounded run are the shards of the unbounded run of its trace *)
  Lemma refines_g bl : Ref (brun count split c cap t0 bl).
  Proof.
    unfold brun. assert (H0 : Ref (b_init c t0)) by reflexivity. revert H0. generalize (b_init (R := R) c t0).
    induction bl as [|l bl IH]; intros b H; simpl; [exact H|]. apply IH, ref_bstep, H.
  Qed.

  (* no deadlock with a live shard: a producer blocked on shard i is released by shard i's next receive;
     its call returns nil and its payload is in the channel *)
  Lemma progress_g b now i s md p ws' : Ref b ->
    nth_error (fst (b_st b)) i = Some s -> s_done s = false -> s_chan s <> [] ->
    pop_waiter i (b_wait b) = Some ((md, p), ws') -> target c md (fst (b_st b)) = Some i ->
    let b' := bstep count split c cap b (BRecv now i) in
    b_wait b' = ws' /\ snd (b_st b') = snd (b_st b) ++ [0%N]
    /\ exists s', nth_error (fst (b_st b')) i = Some s' /\ In p (s_chan s') /\ s_done s' = false.
  Proof.
    intros HR Hn Hd Hc Hp Ht. simpl. unfold b_recv.
    assert (Htook : live (fst (b_st b)) i && negb (Nat.eqb (chan_len (fst (b_st b)) i) 0) = true).
    { unfold live, chan_len. rewrite Hn, Hd. simpl. destruct (s_chan s); [contradiction|reflexivity]. }
    rewrite Htook. unfold do_step at 2. simpl. rewrite Hp. unfold do_step. simpl.
    destruct (@run_inv _ _ count split items c H_nil H_app H_cnt H_split t0 (b_trace b)) as (HG & _).
    rewrite <- HR in HG.
    set (x := b_st b) in *. set (f := sh_recv count split c now).
    assert (Hmd : map (@s_md R) (upd_nth i f (fst x)) = map (@s_md R) (fst x)).
    { apply map_md_upd_nth. eapply Forall_impl; [|exact HG]. intros s0 Hs0.
      apply (@quiet_recv _ _ count split items c H_nil H_app H_cnt H_split now s0 Hs0). }
    assert (Ht1 : target c md (upd_nth i f (fst x)) = Some i).
    { unfold target in *. destruct (mks c); [exact Ht|]. rewrite (find_shard_md_ext _ _ _ Hmd). exact Ht. }
    assert (Hn1 : nth_error (upd_nth i f (fst x)) i = Some (f s)) by (apply nth_error_upd_nth; exact Hn).
    rewrite Forall_forall in HG. pose proof (HG s (nth_error_In _ _ Hn)) as HGs.
    destruct (@recv_spec _ _ count split items c H_nil H_app H_cnt H_split now s HGs) as (_ & _ & _ & Hdn & _).
    unfold bp_consume. unfold target in Ht1. destruct (mks c) as [|k ks] eqn:Ek.
    - inversion Ht1; subst i. cbn [fst snd b_st b_wait]. repeat split; auto.
      exists (sh_enqueue (f s) p). split; [exact (nth_error_upd_nth (fun s0 => sh_enqueue s0 p) _ _ _ Hn1)|].
      split; [simpl; apply in_or_app; right; left; reflexivity|]. simpl. fold f in Hdn. congruence.
    - rewrite Ht1. cbn [fst snd b_st b_wait]. repeat split; auto.
      exists (sh_enqueue (f s) p). split; [exact (nth_error_upd_nth (fun s0 => sh_enqueue s0 p) _ _ _ Hn1)|].
      split; [simpl; apply in_or_app; right; left; reflexivity|]. simpl. fold f in Hdn. congruence.
  Qed.
End B.
