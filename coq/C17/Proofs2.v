(* C17/Proofs2.v — one shard: what add / split / sendItems / processItem / the three select branches
   preserve.  Generic in the signal: [count], [split] and [items] are section variables constrained by
   the facts proved for the three concrete splits in Proofs1.v. *)
From Verif Require Import Common.Base C17.Model.
Set Implicit Arguments.

From Coq Require Import Permutation.

(* ---- list helpers -------------------------------------------------------------------------------- *)
Lemma upd_nth_length {A} n (f : A -> A) l : length (upd_nth n f l) = length l.
Proof. revert n. induction l as [|x l IH]; intros [|n]; simpl; auto. Qed.

Lemma Forall_upd_nth {A} (P : A -> Prop) n f l :
  (forall x, P x -> P (f x)) -> Forall P l -> Forall P (upd_nth n f l).
Proof.
  intros Hf. revert n. induction l as [|x l IH]; intros [|n] H; simpl; auto; inversion H; subst; constructor; auto.
Qed.

Lemma flat_map_upd_nth_same {A B} (g : A -> list B) n f l :
  Forall (fun x => g (f x) = g x) l -> flat_map g (upd_nth n f l) = flat_map g l.
Proof.
  revert n. induction l as [|x l IH]; intros [|n] H; simpl; auto; inversion H; subst.
  - rewrite H2. reflexivity.
  - rewrite IH; auto.
Qed.

Lemma flat_map_upd_nth_add {A B} (g : A -> list B) n f l x extra :
  nth_error l n = Some x -> g (f x) = g x ++ extra ->
  Permutation (flat_map g (upd_nth n f l)) (flat_map g l ++ extra).
Proof.
  revert n. induction l as [|y l IH]; intros [|n] Hn Hg; simpl in *; try discriminate.
  - inversion Hn; subst. rewrite Hg, <- !app_assoc. apply Permutation_app_head, Permutation_app_comm.
  - rewrite <- app_assoc. apply Permutation_app_head. apply IH; auto.
Qed.

Lemma combine_app {A B} (l1 : list A) (l1' : list B) l2 l2' : length l1 = length l1' ->
  combine (l1 ++ l2) (l1' ++ l2') = combine l1 l1' ++ combine l2 l2'.
Proof.
  revert l1'. induction l1 as [|a l1 IH]; intros [|b l1'] H; simpl in *; try discriminate; auto.
  f_equal. apply IH. lia.
Qed.

Lemma NoDup_app_snoc {A} (l : list A) x : NoDup l -> ~ In x l -> NoDup (l ++ [x]).
Proof.
  induction l as [|a l IH]; intros Hn Hx; simpl; [repeat constructor; intros []|].
  inversion Hn; subst. constructor.
  - intros Hin. apply in_app_or in Hin. destruct Hin as [Hin|[->|[]]]; [contradiction|]. apply Hx. left. reflexivity.
  - apply IH; auto. intros H. apply Hx. right. exact H.
Qed.

Lemma flat_map_ext_Forall {A B} (f g : A -> list B) l :
  Forall (fun x => f x = g x) l -> flat_map f l = flat_map g l.
Proof. induction 1; simpl; congruence. Qed.

(* ---- attribute sets: equal sets <-> equal value tuples ---------------------------------------------- *)
Lemma attr_of_inj a b : attr_of a = attr_of b -> a = b.
Proof.
  destruct a as [|v [|v' a]]; destruct b as [|w [|w' b]]; simpl; intros H; inversion H; auto.
Qed.

Lemma attr_eqb_eq a b : attr_eqb a b = true <-> a = b.
Proof.
  destruct a, b; simpl; try (split; [discriminate|intros H; inversion H]).
  - rewrite N.eqb_eq. split; [intros ->; reflexivity|intros H; inversion H; reflexivity].
  - unfold N_list_eqb. rewrite (list_eqb_spec N.eqb N.eqb_eq). split; [intros ->; reflexivity|intros H; inversion H; reflexivity].
Qed.

Lemma aset_of_eqb v w : aset_eqb (aset_of v) (aset_of w) = true <-> v = w.
Proof.
  unfold aset_eqb, aset_of. rewrite (list_eqb_spec attr_eqb attr_eqb_eq). split; [|intros ->; reflexivity].
  revert w. induction v as [|a v IH]; intros [|b w] H; simpl in *; try discriminate; auto.
  inversion H. f_equal; [apply attr_of_inj; assumption|apply IH; assumption].
Qed.

Section Generic.
  Context {R X : Type}.
  Variable count : list R -> nat.
  Variable split : nat -> list R -> list R * list R.
  Variable items : list R -> list X.
  Variable c : cfg.
  Hypothesis H_nil : items [] = [].
  Hypothesis H_app : forall a b, items (a ++ b) = items a ++ items b.
  Hypothesis H_cnt : forall p, count p = length (items p).
  Hypothesis H_split : forall n p, n < count p ->
    items (fst (split n p)) ++ items (snd (split n p)) = items p /\ count (fst (split n p)) = n.

  Local Notation shard := (@shard R).
  Local Notation batch := (@batch R).

  Definition outs (s : shard) : list X := flat_map (fun o => items (snd o)) (s_out s).
  Definition ins (s : shard) : list X := flat_map (fun o => items (snd o)) (s_in s).
  Definition chan_items (s : shard) : list X := flat_map items (s_chan s).
  Definition pend (s : shard) : list X := items (b_data (s_batch s)).
  Definition taken (s : shard) : list X := ins s ++ chan_items s.

  Definition max_ok (o : Z * list R) : Prop := 0 < c_max c -> count (snd o) <= c_max c.

  Record Inv (s : shard) : Prop := {
    inv_n : b_n (s_batch s) = count (b_data (s_batch s));
    inv_flow : outs s ++ pend s = ins s;
    inv_max : Forall max_ok (s_out s)
  }.

  (* the size trigger: what is pending once a step of the shard is over *)
  Definition Trig (s : shard) : Prop :=
    if has_timer c then b_n (s_batch s) < c_size c else b_n (s_batch s) = 0.

  Definition same5 (s s' : shard) : Prop :=
    s_md s' = s_md s /\ s_chan s' = s_chan s /\ s_in s' = s_in s /\ s_deadline s' = s_deadline s /\ s_done s' = s_done s.

  Lemma count_nil : count [] = 0.
  Proof. rewrite H_cnt, H_nil. reflexivity. Qed.

  Lemma count0_items p : count p = 0 -> items p = [].
  Proof. rewrite H_cnt. destruct (items p); simpl; [reflexivity|discriminate]. Qed.

  (* ---- batch.split ------------------------------------------------------------------------------ *)
  Lemma b_split_spec (b : batch) sent req b' : b_n b = count (b_data b) ->
    b_split split c b = (sent, req, b') ->
    items req ++ items (b_data b') = items (b_data b)
    /\ b_n b' = count (b_data b')
    /\ b_n b' = b_n b - count req
    /\ ((0 < c_max c /\ c_max c < b_n b /\ count req = c_max c) \/
        ((c_max c = 0 \/ b_n b <= c_max c) /\ count req = b_n b /\ b_n b' = 0)).
  Proof.
    intros Hn E. unfold b_split in E.
    destruct (Nat.ltb_spec 0 (c_max c)) as [Hm|Hm]; simpl in E.
    - destruct (Nat.ltb_spec (c_max c) (b_n b)) as [Hlt|Hge].
      + destruct (split (c_max c) (b_data b)) as [d k] eqn:Es. inversion E; subst sent req b'. simpl.
        destruct (@H_split (c_max c) (b_data b)) as (A & B); [lia|]. rewrite Es in A, B. simpl in A, B.
        assert (count k = b_n b - c_max c).
        { rewrite Hn. rewrite (H_cnt (b_data b)), <- A, app_length, <- !H_cnt. lia. }
        repeat split; try assumption; try lia; try (left; lia).
      + inversion E; subst sent req b'. simpl. rewrite H_nil, app_nil_r, count_nil.
        repeat split; try lia; try (right; lia).
    - inversion E; subst sent req b'. simpl. rewrite H_nil, app_nil_r, count_nil.
      repeat split; try lia; try (right; lia).
  Qed.

  (* ---- sendItems -------------------------------------------------------------------------------- *)
  Lemma send_items_spec now (s : shard) : Inv s ->
    let s' := send_items split c now s in
    Inv s' /\ same5 s s'
    /\ (exists req, s_out s' = s_out s ++ [(now, req)] /\
        b_n (s_batch s') = b_n (s_batch s) - count req /\
        ((0 < c_max c /\ c_max c < b_n (s_batch s) /\ count req = c_max c) \/
         ((c_max c = 0 \/ b_n (s_batch s) <= c_max c) /\ count req = b_n (s_batch s) /\ b_n (s_batch s') = 0))).
  Proof.
    intros [Hn Hf Hm]. unfold send_items.
    destruct (b_split split c (s_batch s)) as [[sent req] b'] eqn:E.
    destruct (b_split_spec _ Hn E) as (A & B & C & D). simpl.
    split; [|split; [unfold same5; simpl; auto|]].
    - constructor; simpl.
      + exact B.
      + unfold outs, pend, ins in *. simpl. rewrite flat_map_app. simpl. rewrite app_nil_r, <- app_assoc, A. exact Hf.
      + apply Forall_app. split; [exact Hm|]. constructor; [|constructor]. unfold max_ok. simpl. lia.
    - exists req. repeat split; auto.
  Qed.

  (* ---- the loop of processItem ------------------------------------------------------------------ *)
  Definition loop_cond (s : shard) : bool :=
    Nat.ltb 0 (b_n (s_batch s)) && (negb (has_timer c) || Nat.leb (c_size c) (b_n (s_batch s))).

  Lemma loop_cond_false_trig s : loop_cond s = false -> Trig s.
  Proof.
    unfold loop_cond, Trig, has_timer. intros H.
    destruct (Z.eqb (c_timeout c) 0); simpl in *;
      destruct (Nat.eqb_spec (c_size c) 0); simpl in *;
      destruct (Nat.ltb_spec 0 (b_n (s_batch s))); simpl in *; try lia; try discriminate.
    destruct (Nat.leb_spec (c_size c) (b_n (s_batch s))); [discriminate|lia].
  Qed.

  Lemma trig_loop_cond s : Trig s -> loop_cond s = false.
  Proof.
    unfold loop_cond, Trig. destruct (has_timer c); simpl; intros H.
    - destruct (Nat.leb_spec (c_size c) (b_n (s_batch s))); [lia|]. apply andb_false_r.
    - rewrite H. reflexivity.
  Qed.

  Lemma send_loop_spec : forall fuel now (s : shard), Inv s -> b_n (s_batch s) < fuel ->
    let s' := fst (send_loop split c fuel now s) in
    Inv s' /\ same5 s s' /\ Trig s'
    /\ snd (send_loop split c fuel now s) = loop_cond s
    /\ exists added, s_out s' = s_out s ++ added /\ Forall (fun o => fst o = now) added
       /\ (loop_cond s = true -> added <> [] /\
           ((0 < c_max c /\ c_max c < b_n (s_batch s) /\ b_n (s_batch s') <= b_n (s_batch s) - c_max c)
            \/ b_n (s_batch s') = 0))
       /\ (loop_cond s = false -> added = []).
  Proof.
    induction fuel as [|f IH]; intros now s HI Hlt; [lia|].
    simpl. fold (loop_cond s). destruct (loop_cond s) eqn:Ec; simpl.
    - destruct (send_items_spec now HI) as (HI1 & S1 & req & O1 & N1 & D1).
      assert (Hpos : 0 < b_n (s_batch s)).
      { unfold loop_cond in Ec. apply andb_true_iff in Ec. destruct Ec as [Ec _]. apply Nat.ltb_lt in Ec. exact Ec. }
      assert (Hlt1 : b_n (s_batch (send_items split c now s)) < f) by lia.
      destruct (IH now _ HI1 Hlt1) as (HI2 & S2 & T2 & _ & added & O2 & F2 & _ & _).
      split; [exact HI2|]. split.
      { unfold same5 in *. intuition congruence. }
      split; [exact T2|]. split; [reflexivity|].
      exists ((now, req) :: added). split; [rewrite O2, O1, <- app_assoc; reflexivity|].
      split; [constructor; auto|]. split; [|discriminate].
      intros _. split; [discriminate|].
      assert (Hmono : b_n (s_batch (fst (send_loop split c f now (send_items split c now s))))
                      <= b_n (s_batch (send_items split c now s))).
      { clear - IH HI1 Hlt1 H_nil H_app H_cnt H_split.
        destruct (IH now _ HI1 Hlt1) as (_ & _ & _ & _ & added & _ & _ & Ht & Hf).
        destruct (loop_cond (send_items split c now s)) eqn:E2.
        - destruct (Ht eq_refl) as (_ & [D|D]); lia.
        - (* no further send: the state is unchanged *)
          destruct f; simpl; [lia|]. fold (loop_cond (send_items split c now s)). rewrite E2. simpl. lia. }
      destruct D1 as [D1|D1]; [left|right]; lia.
    - split; [exact HI|]. split; [unfold same5; auto|]. split; [apply loop_cond_false_trig; exact Ec|].
      split; [reflexivity|]. exists []. rewrite app_nil_r. repeat split; auto; discriminate.
  Qed.

  Lemma send_loop_false fuel now (s : shard) : loop_cond s = false -> send_loop split c fuel now s = (s, false).
  Proof. intros E. destruct fuel; simpl; [reflexivity|]. fold (loop_cond s). rewrite E. reflexivity. Qed.

  (* ---- batch.add -------------------------------------------------------------------------------- *)
  Lemma b_add_spec (b : batch) p : b_n b = count (b_data b) ->
    b_n (b_add count b p) = count (b_data (b_add count b p))
    /\ items (b_data (b_add count b p)) = items (b_data b) ++ items p
    /\ b_n (b_add count b p) = b_n b + count p.
  Proof.
    intros Hn. unfold b_add. destruct (Nat.eqb_spec (count p) 0) as [E|E].
    - rewrite (count0_items E), app_nil_r. repeat split; auto; lia.
    - simpl. rewrite H_app. repeat split; auto. rewrite !H_cnt, H_app, app_length, <- !H_cnt. lia.
  Qed.

  (* ---- processItem ------------------------------------------------------------------------------ *)
  Lemma process_item_spec now (s : shard) p : Inv s ->
    let s' := process_item count split c now s p in
    Inv s' /\ Trig s'
    /\ s_md s' = s_md s /\ s_chan s' = s_chan s /\ s_done s' = s_done s
    /\ s_in s' = s_in s ++ [(now, p)]
    /\ exists added, s_out s' = s_out s ++ added /\ Forall (fun o => fst o = now) added
       /\ (added = [] -> s_deadline s' = s_deadline s /\ b_n (s_batch s') = b_n (s_batch s) + count p)
       /\ (added <> [] -> (has_timer c = true -> s_deadline s' = (now + c_timeout c)%Z) /\
            ((0 < c_max c /\ c_max c < b_n (s_batch s) + count p /\
              b_n (s_batch s') <= b_n (s_batch s) + count p - c_max c) \/ b_n (s_batch s') = 0))
       /\ (has_timer c = true -> c_size c <= b_n (s_batch s) + count p -> added <> []).
  Proof.
    intros [Hn Hf Hm]. unfold process_item.
    set (s1 := Shard (s_md s) (s_chan s) (b_add count (s_batch s) p) (s_deadline s) (s_done s) (s_in s ++ [(now, p)]) (s_out s)).
    destruct (b_add_spec (s_batch s) p Hn) as (A1 & A2 & A3).
    assert (HI1 : Inv s1).
    { constructor; simpl; auto. unfold outs, pend, ins in *. simpl. rewrite A2, flat_map_app. simpl.
      rewrite app_nil_r, app_assoc, Hf. reflexivity. }
    assert (Hb1 : b_n (s_batch s1) = b_n (s_batch s) + count p) by exact A3.
    destruct (loop_cond s1) eqn:Ec.
    - pose proof (send_loop_spec now HI1 (Nat.lt_succ_diag_r _)) as Hspec.
      destruct (send_loop split c (S (b_n (s_batch s1))) now s1) as [s2 sent] eqn:EL.
      cbn [fst snd] in Hspec. destruct Hspec as (HI2 & S2 & T2 & Hs & added & O2 & F2 & Ht & _).
      destruct S2 as (M2 & C2 & I2 & D2 & Dn2). rewrite Ec in Hs. subst sent.
      destruct (Ht Ec) as (Hne & Hres). rewrite Hb1 in Hres.
      destruct (has_timer c) eqn:Eh; cbn [andb].
      + split. { destruct HI2; constructor; auto. } split. { exact T2. }
        repeat split; auto. exists added. split; [exact O2|]. split; [exact F2|].
        split; [intros; contradiction|]. split; [|auto].
        intros _. split; [reflexivity|]. exact Hres.
      + split; [exact HI2|]. split; [exact T2|]. repeat split; auto. exists added.
        split; [exact O2|]. split; [exact F2|]. split; [intros; contradiction|]. split; [|intros; discriminate].
        intros _. split; [discriminate|]. exact Hres.
    - rewrite (send_loop_false _ now _ Ec). cbn [andb].
      split; [exact HI1|]. split; [apply loop_cond_false_trig; exact Ec|]. repeat split; auto. exists []. rewrite app_nil_r.
      split; [reflexivity|]. split; [constructor|]. split; [intros _; split; [reflexivity|exact Hb1]|].
      split; [intros H; contradiction|].
      intros Eh Hsz. exfalso. unfold loop_cond in Ec. rewrite Eh, Hb1 in Ec. simpl in Ec.
      destruct (Nat.leb_spec (c_size c) (b_n (s_batch s) + count p)); [|lia].
      destruct (Nat.ltb_spec 0 (b_n (s_batch s) + count p)); [discriminate|].
      unfold has_timer in Eh. destruct (Nat.eqb_spec (c_size c) 0); [rewrite andb_false_r in Eh; discriminate|lia].
  Qed.

  (* ---- the select branches of startLoop ---------------------------------------------------------- *)
  Definition Good (s : shard) : Prop := Inv s /\ Trig s.

  Lemma ins_snoc (s s' : shard) t p : s_in s' = s_in s ++ [(t, p)] -> ins s' = ins s ++ items p.
  Proof. unfold ins. intros ->. rewrite flat_map_app. simpl. rewrite app_nil_r. reflexivity. Qed.

  Lemma Inv_ext (s s' : shard) :
    Inv s -> s_batch s' = s_batch s -> s_in s' = s_in s -> s_out s' = s_out s -> Inv s'.
  Proof.
    intros [A B C] Eb Ei Eo. constructor; unfold outs, pend, ins in *; rewrite ?Eb, ?Ei, ?Eo; auto.
  Qed.

  Lemma Trig_ext (s s' : shard) : Trig s -> s_batch s' = s_batch s -> Trig s'.
  Proof. unfold Trig. intros H ->. auto. Qed.

  Lemma new_shard_good now md : Good (new_shard c now md).
  Proof.
    split.
    - constructor; simpl; [symmetry; apply count_nil| |constructor].
      unfold outs, pend, ins. simpl. exact H_nil.
    - unfold Trig, new_shard, has_timer. simpl.
      destruct (Z.eqb (c_timeout c) 0); simpl; auto. destruct (Nat.eqb_spec (c_size c) 0); simpl; lia.
  Qed.

  Lemma enqueue_good (s : shard) p : Good s -> Good (sh_enqueue s p).
  Proof. intros [A B]. split; [apply (@Inv_ext _ _ A)|apply (@Trig_ext _ _ B)]; reflexivity. Qed.

  Lemma enqueue_taken (s : shard) p : taken (sh_enqueue s p) = taken s ++ items p.
  Proof.
    unfold taken, chan_items, ins, sh_enqueue. simpl. rewrite flat_map_app. simpl.
    rewrite app_nil_r, app_assoc. reflexivity.
  Qed.

  Lemma recv_spec now (s : shard) : Good s ->
    let s' := sh_recv count split c now s in
    Good s' /\ s_md s' = s_md s /\ taken s' = taken s /\ s_done s' = s_done s
    /\ (s_done s = true -> s' = s).
  Proof.
    intros [HI HT]. unfold sh_recv. destruct (s_done s) eqn:Ed.
    - split; [split; assumption|repeat split; auto].
    - destruct (s_chan s) as [|p r] eqn:Ec.
      + split; [split; assumption|repeat split; auto].
      + assert (HI0 : Inv (set_chan r s)) by (apply (@Inv_ext _ _ HI); reflexivity).
        destruct (process_item_spec now p HI0) as (A & B & C & D & E & F & _).
        simpl in C, D, E, F. split; [split; assumption|]. split; [exact C|].
        split; [|split; [rewrite E; exact Ed|discriminate]].
        unfold taken. rewrite (@ins_snoc s _ _ _ F). unfold chan_items. rewrite D, Ec. simpl.
        unfold ins at 1. simpl. fold (ins s). rewrite app_assoc. reflexivity.
  Qed.

  Lemma timer_spec now (s : shard) : Good s ->
    let s' := sh_timer split c now s in
    Good s' /\ s_md s' = s_md s /\ taken s' = taken s /\ s_done s' = s_done s
    /\ (s_done s = true -> s' = s).
  Proof.
    intros [HI HT]. unfold sh_timer.
    destruct (s_done s || negb (has_timer c) || Z.ltb now (s_deadline s)) eqn:Eg.
    - split; [split; assumption|repeat split; auto].
    - apply orb_false_iff in Eg. destruct Eg as [Eg _]. apply orb_false_iff in Eg. destruct Eg as [Ed Eh].
      destruct (Nat.ltb 0 (b_n (s_batch s))).
      + destruct (send_items_spec now HI) as (A & (S1 & S2 & S3 & S4 & S5) & req & O & N1 & _).
        split; [split|].
        * apply (@Inv_ext _ _ A); reflexivity.
        * unfold Trig in *. simpl. destruct (has_timer c); lia.
        * simpl. split; [exact S1|]. split; [|split; [rewrite S5; reflexivity|rewrite Ed; discriminate]].
          unfold taken, ins, chan_items. simpl. rewrite S2, S3. reflexivity.
      + split; [split; [apply (@Inv_ext _ _ HI); reflexivity|apply (@Trig_ext _ _ HT); reflexivity]|].
        simpl. repeat split; auto. rewrite Ed. discriminate.
  Qed.

  Lemma fold_process_spec now : forall ps (s : shard), Good s ->
    let s' := fold_left (process_item count split c now) ps s in
    Good s' /\ s_md s' = s_md s /\ s_chan s' = s_chan s /\ s_done s' = s_done s
    /\ ins s' = ins s ++ flat_map items ps.
  Proof.
    induction ps as [|p r IH]; intros s [HI HT]; simpl.
    - rewrite app_nil_r. split; [split; assumption|repeat split; auto].
    - destruct (process_item_spec now p HI) as (A & B & C & D & E & F & _).
      destruct (IH _ (conj A B)) as (G1 & G2 & G3 & G4 & G5).
      split; [exact G1|]. split; [congruence|]. split; [congruence|]. split; [congruence|].
      rewrite G5, (@ins_snoc _ _ _ _ F), <- app_assoc. reflexivity.
  Qed.

  (* the configuration clause that Validate enforces *)
  Definition max_valid : Prop := c_max c = 0 \/ c_size c <= c_max c.

  Lemma seen_spec now (s : shard) : Good s ->
    let s' := sh_seen count split c now s in
    Good s' /\ s_md s' = s_md s /\ taken s' = taken s
    /\ (s_done s = true -> s' = s)
    /\ (s_done s = false -> s_done s' = true /\ s_chan s' = [] /\ (max_valid -> b_n (s_batch s') = 0)).
  Proof.
    intros [HI HT]. unfold sh_seen. destruct (s_done s) eqn:Ed.
    - split; [split; assumption|repeat split; auto; intros; discriminate].
    - assert (HG0 : Good (set_chan [] s)).
      { split; [apply (@Inv_ext _ _ HI); reflexivity|apply (@Trig_ext _ _ HT); reflexivity]. }
      destruct (fold_process_spec now (s_chan s) HG0) as ((HI1 & HT1) & M1 & C1 & D1 & I1).
      set (s1 := fold_left (process_item count split c now) (s_chan s) (set_chan [] s)) in *.
      simpl in M1, C1, D1. change (ins (set_chan [] s)) with (ins s) in I1.
      destruct (Nat.ltb_spec 0 (b_n (s_batch s1))) as [Hpos|Hz].
      + destruct (send_items_spec now HI1) as (A & (S1 & S2 & S3 & S4 & S5) & req & O & N1 & D).
        split; [split|].
        * apply (@Inv_ext _ _ A); reflexivity.
        * unfold Trig in *. simpl. destruct (has_timer c); lia.
        * simpl. split; [congruence|]. split.
          { unfold taken, ins, chan_items. simpl. rewrite S2, S3, C1. fold (ins s1). rewrite I1. simpl. rewrite app_nil_r. reflexivity. }
          split; [discriminate|]. intros _. split; [reflexivity|]. split; [congruence|].
          intros Hv. unfold Trig in HT1. unfold max_valid in Hv. destruct (has_timer c); [|lia].
          destruct D as [D|D]; lia.
      + split; [split; [apply (@Inv_ext _ _ HI1); reflexivity|apply (@Trig_ext _ _ HT1); reflexivity]|].
        simpl. split; [congruence|]. split.
        { unfold taken, chan_items. simpl. change (ins (set_done s1)) with (ins s1). rewrite C1, I1. simpl. rewrite app_nil_r. reflexivity. }
        split; [discriminate|]. intros _. split; [reflexivity|]. split; [exact C1|]. intros _. lia.
  Qed.

  (* ============================================================================================ *)
  (* the processor: shards by metadata                                                            *)
  (* ============================================================================================ *)
  Local Notation bp := (@bp R).
  Local Notation label := (@label R).

  Definition tag (s : shard) (l : list X) : list (list (list N) * X) := map (pair (s_md s)) l.
  Definition all_tagged (st : bp) := flat_map (fun s => tag s (taken s)) st.
  Definition emitted_tagged (st : bp) := flat_map (fun s => tag s (outs s)) st.
  Definition held_tagged (st : bp) := flat_map (fun s => tag s (outs s ++ pend s ++ chan_items s)) st.

  Definition consumes (ls : list label) : list (metadata * list R) :=
    flat_map (fun l => match l with LConsume _ md p | LConsumeStale _ md p => [(md, p)] | _ => [] end) ls.
  Definition accepted (ls : list label) (res : list N) : list (metadata * list R) :=
    map snd (filter (fun x => N.eqb (fst x) 0) (combine res (consumes ls))).
  Definition accepted_tagged (ls : list label) (res : list N) : list (list (list N) * X) :=
    flat_map (fun mp => map (pair (md_values c (fst mp))) (items (snd mp))) (accepted ls res).

  Definition Shape (st : bp) : Prop := mks c = [] -> exists s, st = [s] /\ s_md s = [].

  Lemma find_shard_some a : forall (st : bp) i, find_shard a st = Some i ->
    exists s, nth_error st i = Some s /\ aset_eqb (aset_of (s_md s)) a = true.
  Proof.
    induction st as [|s st IH]; intros i H; simpl in H; [discriminate|].
    destruct (aset_eqb (aset_of (s_md s)) a) eqn:E.
    - inversion H; subst. exists s. auto.
    - destruct (find_shard a st) as [j|] eqn:Ef; simpl in H; [|discriminate]. inversion H; subst.
      destruct (IH j eq_refl) as (s' & A & B). exists s'. auto.
  Qed.

  Lemma find_shard_none a : forall (st : bp), find_shard a st = None ->
    Forall (fun s => aset_eqb (aset_of (s_md s)) a = false) st.
  Proof.
    induction st as [|s st IH]; intros H; simpl in H; constructor.
    - destruct (aset_eqb (aset_of (s_md s)) a); [discriminate|reflexivity].
    - apply IH. destruct (aset_eqb (aset_of (s_md s)) a); [discriminate|].
      destruct (find_shard a st); [discriminate|reflexivity].
  Qed.

  Lemma enqueue_at (st : bp) i s p : Forall Good st -> nth_error st i = Some s ->
    Forall Good (upd_nth i (fun s => sh_enqueue s p) st)
    /\ Permutation (all_tagged (upd_nth i (fun s => sh_enqueue s p) st)) (all_tagged st ++ map (pair (s_md s)) (items p)).
  Proof.
    intros HG Hn. split.
    - apply Forall_upd_nth; auto. intros x. apply enqueue_good.
    - unfold all_tagged. eapply flat_map_upd_nth_add; eauto. unfold tag. rewrite enqueue_taken, map_app. reflexivity.
  Qed.

  (* the locked section of multiShardBatcher.consume *)
  Lemma locked_spec now vals p (st st' : bp) e : Forall Good st ->
    bp_consume_locked c now vals p st = (st', e) ->
    (e = 1%N /\ st' = st /\ c_limit c <> 0 /\ c_limit c <= length st) \/
    (e = 0%N /\ Forall Good st'
     /\ Permutation (all_tagged st') (all_tagged st ++ map (pair vals) (items p))
     /\ length st <= length st'
     /\ (c_limit c <> 0 -> length st' <= c_limit c)).
  Proof.
    intros HG E. unfold bp_consume_locked in E.
    destruct (Nat.eqb_spec (c_limit c) 0) as [Hl|Hl]; simpl in E.
    - destruct (find_shard (aset_of vals) st) as [i|] eqn:Ef; inversion E; subst; right.
      + destruct (find_shard_some _ _ Ef) as (s & Hn & Ha). apply aset_of_eqb in Ha.
        destruct (@enqueue_at _ _ _ p HG Hn) as (A & B). rewrite Ha in B.
        repeat split; auto; try contradiction. rewrite upd_nth_length. lia.
      + split; [reflexivity|]. split.
        { apply Forall_app. split; auto. constructor; [|constructor]. apply enqueue_good, new_shard_good. }
        split.
        { unfold all_tagged. rewrite flat_map_app. simpl. rewrite app_nil_r. apply Permutation_app_head.
          unfold tag. rewrite enqueue_taken. simpl. unfold taken, ins, chan_items. simpl. reflexivity. }
        split; [rewrite app_length; lia|contradiction].
    - destruct (Nat.leb_spec (c_limit c) (length st)) as [Hle|Hgt]; simpl in E.
      + inversion E; subst. left. auto.
      + destruct (find_shard (aset_of vals) st) as [i|] eqn:Ef; inversion E; subst; right.
        * destruct (find_shard_some _ _ Ef) as (s & Hn & Ha). apply aset_of_eqb in Ha.
          destruct (@enqueue_at _ _ _ p HG Hn) as (A & B). rewrite Ha in B.
          repeat split; auto; rewrite upd_nth_length; lia.
        * split; [reflexivity|]. split.
          { apply Forall_app. split; auto. constructor; [|constructor]. apply enqueue_good, new_shard_good. }
          split.
          { unfold all_tagged. rewrite flat_map_app. simpl. rewrite app_nil_r. apply Permutation_app_head.
            unfold tag. rewrite enqueue_taken. simpl. unfold taken, ins, chan_items. simpl. reflexivity. }
          split; rewrite app_length; simpl; lia.
  Qed.

  Lemma single_spec md p (st : bp) : Forall Good st -> Shape st -> mks c = [] ->
    let st' := upd_nth 0 (fun s => sh_enqueue s p) st in
    Forall Good st' /\ Shape st'
    /\ Permutation (all_tagged st') (all_tagged st ++ map (pair (md_values c md)) (items p))
    /\ length st' = length st.
  Proof.
    intros HG HS Ek. destruct (HS Ek) as (s & -> & Hm). simpl.
    split; [inversion HG; subst; constructor; auto; apply enqueue_good; auto|].
    split; [intros _; eexists; split; [reflexivity|exact Hm]|].
    split; [|reflexivity].
    unfold all_tagged, tag. simpl. rewrite !app_nil_r, enqueue_taken, map_app. simpl.
    unfold md_values. rewrite Ek, Hm. simpl. reflexivity.
  Qed.

  Definition accept_post md p (st st' : bp) : Prop :=
    Forall Good st' /\ Shape st'
    /\ Permutation (all_tagged st') (all_tagged st ++ map (pair (md_values c md)) (items p))
    /\ length st <= length st'
    /\ (mks c <> [] -> c_limit c <> 0 -> length st <= c_limit c -> length st' <= c_limit c).

  Lemma shape_multi (st : bp) : mks c <> [] -> Shape st.
  Proof. intros H E. contradiction. Qed.

  (* Consume as one atomic step *)
  Lemma consume_spec now md p (st st' : bp) e : Forall Good st -> Shape st ->
    bp_consume c now md p st = (st', e) ->
    (e = 1%N /\ st' = st /\ mks c <> [] /\ c_limit c <> 0 /\ c_limit c <= length st
     /\ find_shard (aset_of (md_values c md)) st = None) \/
    (e = 0%N /\ accept_post md p st st').
  Proof.
    intros HG HS E. unfold bp_consume in E. destruct (mks c) as [|k ks] eqn:Ek.
    - inversion E; subst. right. split; [reflexivity|].
      destruct (single_spec md p HG HS Ek) as (A & B & C & D). unfold accept_post. repeat split; auto; try lia.
      + apply Nat.eq_le_incl; symmetry; exact D.
      + intros H; rewrite Ek in H; contradiction.
    - assert (Hne : mks c <> []) by (rewrite Ek; discriminate).
      destruct (find_shard (aset_of (md_values c md)) st) as [i|] eqn:Ef.
      + inversion E; subst. right. split; [reflexivity|].
        destruct (find_shard_some _ _ Ef) as (s & Hn & Ha). apply aset_of_eqb in Ha.
        destruct (@enqueue_at _ _ _ p HG Hn) as (A & B). rewrite Ha in B.
        unfold accept_post. split; [exact A|]. split; [apply shape_multi; rewrite Ek; discriminate|].
        split; [exact B|]. rewrite upd_nth_length. split; [lia|]. intros _ _ Hl. exact Hl.
      + destruct (locked_spec _ _ _ HG E) as [(A & B & C & D)|(A & B & C & D & F)].
        * left. repeat split; auto. discriminate.
        * right. split; [exact A|]. unfold accept_post. repeat split; auto. apply shape_multi. rewrite Ek; discriminate.
  Qed.

  (* the same call when its Load missed earlier *)
  Lemma stale_spec now md p (st st' : bp) e : Forall Good st -> Shape st ->
    bp_consume_stale c now md p st = (st', e) ->
    (e = 1%N /\ st' = st /\ mks c <> [] /\ c_limit c <> 0 /\ c_limit c <= length st) \/
    (e = 0%N /\ accept_post md p st st').
  Proof.
    intros HG HS E. unfold bp_consume_stale in E. destruct (mks c) as [|k ks] eqn:Ek.
    - inversion E; subst. right. split; [reflexivity|].
      destruct (single_spec md p HG HS Ek) as (A & B & C & D). unfold accept_post. repeat split; auto; try lia.
      + apply Nat.eq_le_incl; symmetry; exact D.
      + intros H; rewrite Ek in H; contradiction.
    - destruct (locked_spec _ _ _ HG E) as [(A & B & C & D)|(A & B & C & D & F)].
      + left. repeat split; auto. discriminate.
      + right. split; [exact A|]. unfold accept_post. repeat split; auto. apply shape_multi. rewrite Ek; discriminate.
  Qed.

  (* the three select branches change neither a shard's metadata nor what it has taken in *)
  Definition quiet (f : shard -> shard) : Prop :=
    forall s, Good s -> Good (f s) /\ s_md (f s) = s_md s /\ taken (f s) = taken s.

  Lemma quiet_recv now : quiet (sh_recv count split c now).
  Proof. intros s H. destruct (recv_spec now H) as (A & B & C & _). auto. Qed.
  Lemma quiet_timer now : quiet (sh_timer split c now).
  Proof. intros s H. destruct (timer_spec now H) as (A & B & C & _). auto. Qed.
  Lemma quiet_seen now : quiet (sh_seen count split c now).
  Proof. intros s H. destruct (seen_spec now H) as (A & B & C & _). auto. Qed.

  Lemma quiet_at f i (st : bp) : quiet f -> Forall Good st -> Shape st ->
    Forall Good (upd_nth i f st) /\ Shape (upd_nth i f st) /\ all_tagged (upd_nth i f st) = all_tagged st
    /\ length (upd_nth i f st) = length st.
  Proof.
    intros Q HG HS. split; [apply Forall_upd_nth; auto; intros x Hx; apply (Q x Hx)|]. split.
    - intros Ek. destruct (HS Ek) as (s & -> & Hm). inversion HG; subst.
      destruct (Q s H1) as (_ & Hmd & _).
      destruct i as [|i]; simpl.
      + eexists; split; [reflexivity|congruence].
      + exists s. split; [destruct i; reflexivity|exact Hm].
    - split; [|apply upd_nth_length]. unfold all_tagged. apply flat_map_upd_nth_same.
      eapply Forall_impl; [|exact HG]. intros x Hx. destruct (Q x Hx) as (_ & A & B). unfold tag. rewrite A, B. reflexivity.
  Qed.

  Definition RunInv (ls : list label) (x : bp * list N) : Prop :=
    Forall Good (fst x) /\ Shape (fst x) /\ length (snd x) = length (consumes ls)
    /\ Permutation (all_tagged (fst x)) (accepted_tagged ls (snd x))
    /\ (mks c <> [] -> c_limit c <> 0 -> length (fst x) <= c_limit c).

  Lemma accepted_tagged_snoc ls l res e md p :
    consumes (ls ++ [l]) = consumes ls ++ [(md, p)] -> length res = length (consumes ls) ->
    accepted_tagged (ls ++ [l]) (res ++ [e])
    = accepted_tagged ls res ++ (if N.eqb e 0 then map (pair (md_values c md)) (items p) else []).
  Proof.
    intros Hc Hl. unfold accepted_tagged, accepted. rewrite Hc, combine_app by exact Hl.
    rewrite filter_app, map_app, flat_map_app. f_equal. simpl. destruct (N.eqb e 0); simpl; [rewrite app_nil_r|]; reflexivity.
  Qed.

  Lemma accepted_tagged_quiet ls l res : consumes (ls ++ [l]) = consumes ls ->
    accepted_tagged (ls ++ [l]) res = accepted_tagged ls res.
  Proof. intros Hc. unfold accepted_tagged, accepted. rewrite Hc. reflexivity. Qed.

  Lemma consumes_snoc ls l : consumes (ls ++ [l]) = consumes ls ++ consumes [l].
  Proof. unfold consumes. apply flat_map_app. Qed.

  Lemma step_consume_inv ls l (x : bp * list N) md p st' e :
    consumes [l] = [(md, p)] -> RunInv ls x ->
    ((e = 1%N /\ st' = fst x) \/ (e = 0%N /\ accept_post md p (fst x) st')) ->
    RunInv (ls ++ [l]) (st', snd x ++ [e]).
  Proof.
    intros Hc (HG & HS & HL & HP & HB) Hcase.
    assert (Hc' : consumes (ls ++ [l]) = consumes ls ++ [(md, p)]) by (rewrite consumes_snoc, Hc; reflexivity).
    unfold RunInv. simpl. rewrite (@accepted_tagged_snoc ls l (snd x) e md p Hc' HL), Hc', !app_length. simpl.
    destruct Hcase as [(-> & ->)|(-> & A & B & C & D & F)]; simpl.
    - rewrite app_nil_r. repeat split; auto; lia.
    - repeat split; auto; try lia. rewrite C. apply Permutation_app_tail. exact HP.
  Qed.

  Lemma step_quiet_inv ls l (x : bp * list N) f i :
    consumes [l] = [] -> quiet f -> RunInv ls x -> RunInv (ls ++ [l]) (upd_nth i f (fst x), snd x).
  Proof.
    intros Hc Q (HG & HS & HL & HP & HB).
    assert (Hc' : consumes (ls ++ [l]) = consumes ls) by (rewrite consumes_snoc, Hc, app_nil_r; reflexivity).
    destruct (quiet_at i Q HG HS) as (A & B & C & D).
    unfold RunInv. simpl. rewrite (@accepted_tagged_quiet ls l (snd x) Hc'), Hc', C, D. repeat split; auto.
  Qed.

  Lemma step_inv ls (x : bp * list N) l : RunInv ls x -> RunInv (ls ++ [l]) (bp_step count split c x l).
  Proof.
    intros H. pose proof H as (HG & HS & _). destruct l as [now md p|now md p|now i|now i|now i]; simpl.
    - destruct (bp_consume c now md p (fst x)) as [st' e] eqn:E.
      apply (@step_consume_inv ls (LConsume now md p) x md p st' e eq_refl H).
      destruct (consume_spec _ _ _ HG HS E) as [(A & B & _)|(A & B)]; [left|right]; auto.
    - destruct (bp_consume_stale c now md p (fst x)) as [st' e] eqn:E.
      apply (@step_consume_inv ls (LConsumeStale now md p) x md p st' e eq_refl H).
      destruct (stale_spec _ _ _ HG HS E) as [(A & B & _)|(A & B)]; [left|right]; auto.
    - apply step_quiet_inv; auto. apply quiet_recv.
    - apply step_quiet_inv; auto. apply quiet_timer.
    - apply step_quiet_inv; auto. apply quiet_seen.
  Qed.

  Lemma init_inv t0 : RunInv [] (bp_init c t0, []).
  Proof.
    unfold RunInv, bp_init, Shape. simpl. destruct (mks c) as [|k ks] eqn:Ek.
    - split; [constructor; [apply new_shard_good|constructor]|].
      split; [intros _; exists (new_shard c t0 []); split; reflexivity|]. split; [reflexivity|].
      split; [unfold all_tagged, accepted_tagged; simpl; constructor|]. intros H; contradiction.
    - split; [constructor|]. split; [intros H; discriminate|]. split; [reflexivity|].
      split; [constructor|]. simpl. lia.
  Qed.

  Lemma run_inv t0 ls : RunInv ls (bp_run count split c t0 ls).
  Proof.
    unfold bp_run. induction ls as [|l ls IH] using rev_ind.
    - apply init_inv.
    - rewrite fold_left_app. simpl. apply step_inv. exact IH.
  Qed.

  (* ---- predicates on shards along a run -------------------------------------------------------- *)
  Definition step_pres (P : shard -> Prop) (l : label) : Prop :=
    match l with
    | LConsume now _ p | LConsumeStale now _ p =>
        (forall vals, P (sh_enqueue (new_shard c now vals) p)) /\ (forall s, P s -> P (sh_enqueue s p))
    | LRecv now _ => forall s, P s -> P (sh_recv count split c now s)
    | LTimer now _ => forall s, P s -> P (sh_timer split c now s)
    | LSeen now _ => forall s, P s -> P (sh_seen count split c now s)
    end.

  Lemma locked_forall (P : shard -> Prop) now vals p (st : bp) :
    (forall vals, P (sh_enqueue (new_shard c now vals) p)) -> (forall s, P s -> P (sh_enqueue s p)) ->
    Forall P st -> Forall P (fst (bp_consume_locked c now vals p st)).
  Proof.
    intros H1 H2 HF. unfold bp_consume_locked.
    destruct (negb (Nat.eqb (c_limit c) 0) && Nat.leb (c_limit c) (length st)); simpl; auto.
    destruct (find_shard (aset_of vals) st); simpl.
    - apply Forall_upd_nth; auto.
    - apply Forall_app. split; auto.
  Qed.

  Lemma step_forall (P : shard -> Prop) (x : bp * list N) l :
    step_pres P l -> Forall P (fst x) -> Forall P (fst (bp_step count split c x l)).
  Proof.
    intros HS HF. destruct l as [now md p|now md p|now i|now i|now i]; simpl in *.
    - destruct HS as (H1 & H2).
      destruct (bp_consume c now md p (fst x)) as [st' e] eqn:E. simpl.
      change st' with (fst (st', e)). rewrite <- E. unfold bp_consume.
      destruct (mks c); cbn [fst]; [apply Forall_upd_nth; auto|].
      destruct (find_shard (aset_of (md_values c md)) (fst x)); cbn [fst]; [apply Forall_upd_nth; auto|].
      apply locked_forall; auto.
    - destruct HS as (H1 & H2).
      destruct (bp_consume_stale c now md p (fst x)) as [st' e] eqn:E. simpl.
      change st' with (fst (st', e)). rewrite <- E. unfold bp_consume_stale.
      destruct (mks c); cbn [fst]; [apply Forall_upd_nth; auto|]. apply locked_forall; auto.
    - apply Forall_upd_nth; auto.
    - apply Forall_upd_nth; auto.
    - apply Forall_upd_nth; auto.
  Qed.

  Lemma steps_forall (P : shard -> Prop) ls : forall (x : bp * list N),
    Forall (step_pres P) ls -> Forall P (fst x) -> Forall P (fst (fold_left (bp_step count split c) ls x)).
  Proof.
    induction ls as [|l ls IH]; intros x HS HF; simpl; auto.
    inversion HS; subst. apply IH; auto. apply step_forall; auto.
  Qed.

  Definition is_seen (l : label) : bool := match l with LSeen _ _ => true | _ => false end.
  Definition is_consume (l : label) : bool :=
    match l with LConsume _ _ _ | LConsumeStale _ _ _ => true | _ => false end.

  Definition Clean (s : shard) : Prop := s_done s = true -> s_chan s = [] /\ b_n (s_batch s) = 0.

  Lemma pres_live l : is_seen l = false -> step_pres (fun s => Good s /\ s_done s = false) l.
  Proof.
    destruct l as [now md p|now md p|now i|now i|now i]; simpl; intros Hs; try discriminate.
    - split; [intros vals; split; [apply enqueue_good, new_shard_good|reflexivity]|].
      intros s [A B]. split; [apply enqueue_good; exact A|exact B].
    - split; [intros vals; split; [apply enqueue_good, new_shard_good|reflexivity]|].
      intros s [A B]. split; [apply enqueue_good; exact A|exact B].
    - intros s [A B]. destruct (recv_spec now A) as (G & _ & _ & D & _). split; [exact G|congruence].
    - intros s [A B]. destruct (timer_spec now A) as (G & _ & _ & D & _). split; [exact G|congruence].
  Qed.

  Lemma pres_clean l : max_valid -> is_consume l = false -> step_pres (fun s => Good s /\ Clean s) l.
  Proof.
    intros Hv. destruct l as [now md p|now md p|now i|now i|now i]; simpl; intros Hs; try discriminate.
    - intros s [A B]. destruct (recv_spec now A) as (G & _ & _ & D & F). split; [exact G|].
      destruct (s_done s) eqn:Ed; [rewrite (F eq_refl); exact B|]. intros H. congruence.
    - intros s [A B]. destruct (timer_spec now A) as (G & _ & _ & D & F). split; [exact G|].
      destruct (s_done s) eqn:Ed; [rewrite (F eq_refl); exact B|]. intros H. congruence.
    - intros s [A B]. destruct (seen_spec now A) as (G & _ & _ & F & F'). split; [exact G|].
      destruct (s_done s) eqn:Ed; [rewrite (F eq_refl); exact B|].
      destruct (F' eq_refl) as (D1 & D2 & D3). intros _. split; [exact D2|exact (D3 Hv)].
  Qed.

  Lemma pres_good l : step_pres Good l.
  Proof.
    destruct l as [now md p|now md p|now i|now i|now i]; simpl.
    - split; [intros; apply enqueue_good, new_shard_good|intros; apply enqueue_good; auto].
    - split; [intros; apply enqueue_good, new_shard_good|intros; apply enqueue_good; auto].
    - intros s A. apply (recv_spec now A).
    - intros s A. apply (timer_spec now A).
    - intros s A. apply (seen_spec now A).
  Qed.

  Lemma init_live t0 : Forall (fun s : shard => Good s /\ s_done s = false) (bp_init c t0).
  Proof.
    unfold bp_init. destruct (mks c); constructor; [|constructor]. split; [apply new_shard_good|reflexivity].
  Qed.

  (* ============================================================================================ *)
  (* the generic theorems                                                                         *)
  (* ============================================================================================ *)
  Lemma all_tagged_held (st : bp) : Forall Good st -> all_tagged st = held_tagged st.
  Proof.
    intros HG. unfold all_tagged, held_tagged. apply flat_map_ext_Forall.
    eapply Forall_impl; [|exact HG]. intros s [[_ Hf _] _]. unfold taken. rewrite <- Hf, <- app_assoc. reflexivity.
  Qed.

  (* at every moment: emitted + pending in a batch + waiting in a channel = accepted (with the tuple) *)
  Lemma conserves_anytime_g t0 ls :
    let x := bp_run count split c t0 ls in
    Permutation (held_tagged (fst x)) (accepted_tagged ls (snd x)).
  Proof.
    simpl. destruct (run_inv t0 ls) as (HG & _ & _ & HP & _). rewrite <- (all_tagged_held HG). exact HP.
  Qed.

  (* when shutdown has returned *)
  Lemma conserves_g t0 ls1 ls2 : max_valid ->
    Forall (fun l => is_seen l = false) ls1 -> Forall (fun l => is_consume l = false) ls2 ->
    let x := bp_run count split c t0 (ls1 ++ ls2) in
    Forall (fun s => s_done s = true) (fst x) ->
    Permutation (emitted_tagged (fst x)) (accepted_tagged (ls1 ++ ls2) (snd x)).
  Proof.
    intros Hv H1 H2 x Hd.
    assert (HC : Forall (fun s => Good s /\ Clean s) (fst x)).
    { unfold x, bp_run. rewrite fold_left_app. apply steps_forall.
      - eapply Forall_impl; [|exact H2]. intros l Hl. apply pres_clean; auto.
      - eapply Forall_impl; [|apply (@steps_forall (fun s => Good s /\ s_done s = false) ls1 (bp_init c t0, []))].
        + intros s [A B]. split; [exact A|]. intros H. congruence.
        + eapply Forall_impl; [|exact H1]. intros l Hl. apply pres_live; auto.
        + apply init_live. }
    destruct (run_inv t0 (ls1 ++ ls2)) as (HG & _ & _ & HP & _). fold x in HG, HP.
    rewrite <- HP. unfold emitted_tagged, all_tagged.
    assert (E : Forall (fun s => tag s (outs s) = tag s (taken s)) (fst x)).
    { rewrite Forall_forall in *. intros s Hs. destruct (HC s Hs) as ([[Hn Hf _] _] & Hcl).
      destruct (Hcl (Hd s Hs)) as (E1 & E2). f_equal. unfold taken, chan_items. rewrite E1. simpl.
      rewrite app_nil_r, <- Hf. unfold pend. rewrite (@count0_items (b_data (s_batch s))), app_nil_r by congruence.
      reflexivity. }
    rewrite (flat_map_ext_Forall _ _ E). reflexivity.
  Qed.

  Lemma max_size_g t0 ls s o : In s (fst (bp_run count split c t0 ls)) -> In o (s_out s) ->
    0 < c_max c -> count (snd o) <= c_max c.
  Proof.
    intros Hs Ho. destruct (run_inv t0 ls) as (HG & _). rewrite Forall_forall in HG.
    destruct (HG s Hs) as [[_ _ Hm] _]. rewrite Forall_forall in Hm. exact (Hm o Ho).
  Qed.

  Lemma size_trigger_g t0 ls s : In s (fst (bp_run count split c t0 ls)) ->
    b_n (s_batch s) = count (b_data (s_batch s)) /\
    (if has_timer c then count (b_data (s_batch s)) < c_size c else count (b_data (s_batch s)) = 0).
  Proof.
    intros Hs. destruct (run_inv t0 ls) as (HG & _). rewrite Forall_forall in HG.
    destruct (HG s Hs) as [[Hn _ _] Ht]. split; [exact Hn|]. unfold Trig in Ht. rewrite <- Hn. exact Ht.
  Qed.

  Lemma fifo_g t0 ls s : In s (fst (bp_run count split c t0 ls)) -> outs s ++ pend s = ins s.
  Proof.
    intros Hs. destruct (run_inv t0 ls) as (HG & _). rewrite Forall_forall in HG.
    destruct (HG s Hs) as [[_ Hf _] _]. exact Hf.
  Qed.

  (* every item of every emitted batch arrived with exactly the tuple the batch is exported with *)
  Lemma isolation_g t0 ls s o x :
    let r := bp_run count split c t0 ls in
    In s (fst r) -> In o (s_out s) -> In x (items (snd o)) ->
    exists md p, In (md, p) (accepted ls (snd r)) /\ In x (items p) /\ md_values c md = s_md s.
  Proof.
    intros r Hs Ho Hx. destruct (run_inv t0 ls) as (HG & _ & _ & HP & _). fold r in HG, HP.
    assert (Hin : In (s_md s, x) (all_tagged (fst r))).
    { unfold all_tagged. apply in_flat_map. exists s. split; [exact Hs|]. unfold tag. apply in_map.
      rewrite Forall_forall in HG. destruct (HG s Hs) as [[_ Hf _] _]. unfold taken. rewrite <- Hf.
      apply in_or_app. left. apply in_or_app. left. unfold outs. apply in_flat_map. exists o. auto. }
    apply (Permutation_in _ HP) in Hin. unfold accepted_tagged in Hin. apply in_flat_map in Hin.
    destruct Hin as ([md p] & Ha & Hm). apply in_map_iff in Hm. destruct Hm as (y & Ey & Hy). simpl in *.
    inversion Ey; subst. exists md, p. auto.
  Qed.


  (* "never in the same batch", literally: when the accepted items are pairwise different, EVERY accepted call that
     contains an item of an emitted batch arrived with the tuple the batch was exported with *)
  Lemma nodup_snd_fun {A B} (l : list (A * B)) a b x :
    NoDup (map snd l) -> In (a, x) l -> In (b, x) l -> a = b.
  Proof.
    induction l as [|[a0 x0] l IH]; intros Hn Ha Hb; [destruct Ha|]. simpl in Hn. inversion Hn; subst.
    destruct Ha as [Ha|Ha]; destruct Hb as [Hb|Hb].
    - congruence.
    - inversion Ha; subst. exfalso. apply H1. change x with (snd (b, x)). apply in_map. exact Hb.
    - inversion Hb; subst. exfalso. apply H1. change x with (snd (a, x)). apply in_map. exact Ha.
    - apply IH; auto.
  Qed.

  Lemma isolation_unique_g t0 ls s o x md p :
    let r := bp_run count split c t0 ls in
    NoDup (map snd (accepted_tagged ls (snd r))) ->
    In s (fst r) -> In o (s_out s) -> In x (items (snd o)) ->
    In (md, p) (accepted ls (snd r)) -> In x (items p) -> md_values c md = s_md s.
  Proof.
    intros r Hn Hs Ho Hx Ha Hxp. destruct (run_inv t0 ls) as (HG & _ & _ & HP & _). fold r in HG, HP.
    assert (Hin : In (s_md s, x) (all_tagged (fst r))).
    { unfold all_tagged. apply in_flat_map. exists s. split; [exact Hs|]. unfold tag. apply in_map.
      rewrite Forall_forall in HG. destruct (HG s Hs) as [[_ Hf _] _]. unfold taken. rewrite <- Hf.
      apply in_or_app. left. apply in_or_app. left. unfold outs. apply in_flat_map. exists o. auto. }
    apply (Permutation_in _ HP) in Hin.
    assert (Hin2 : In (md_values c md, x) (accepted_tagged ls (snd r))).
    { unfold accepted_tagged. apply in_flat_map. exists (md, p). split; [exact Ha|]. simpl. apply in_map. exact Hxp. }
    exact (nodup_snd_fun _ _ _ _ Hn Hin2 Hin).
  Qed.

  Lemma cardinality_bound_g t0 ls : mks c <> [] -> c_limit c <> 0 ->
    length (fst (bp_run count split c t0 ls)) <= c_limit c.
  Proof. intros H1 H2. destruct (run_inv t0 ls) as (_ & _ & _ & _ & HB). auto. Qed.

  Lemma distinct_step (st : bp) : True.
  Proof. exact I. Qed.



  (* ---- one shard per tuple: the groups are pairwise distinct ---------------------------------------------- *)
  Lemma map_md_upd_nth f i (st : bp) : Forall (fun s => s_md (f s) = s_md s) st ->
    map (@s_md R) (upd_nth i f st) = map (@s_md R) st.
  Proof.
    revert i. induction st as [|x st IH]; intros [|i] H; simpl; auto; inversion H; subst; simpl.
    - rewrite H2. reflexivity.
    - rewrite IH; auto.
  Qed.

  Lemma find_none_notin vals (st : bp) : find_shard (aset_of vals) st = None -> ~ In vals (map (@s_md R) st).
  Proof.
    intros Hf Hin. apply find_shard_none in Hf. rewrite Forall_forall in Hf. apply in_map_iff in Hin.
    destruct Hin as (s & E & Hs). specialize (Hf s Hs). rewrite E in Hf.
    assert (aset_eqb (aset_of vals) (aset_of vals) = true) by (apply aset_of_eqb; reflexivity). congruence.
  Qed.

  Lemma locked_md now vals p (st : bp) :
    map (@s_md R) (fst (bp_consume_locked c now vals p st)) = map (@s_md R) st
    \/ (map (@s_md R) (fst (bp_consume_locked c now vals p st)) = map (@s_md R) st ++ [vals]
        /\ ~ In vals (map (@s_md R) st)).
  Proof.
    unfold bp_consume_locked.
    destruct (negb (Nat.eqb (c_limit c) 0) && Nat.leb (c_limit c) (length st)); simpl; auto.
    destruct (find_shard (aset_of vals) st) eqn:Ef; simpl.
    - left. apply map_md_upd_nth. apply Forall_forall. intros; reflexivity.
    - right. split; [rewrite map_app; reflexivity|apply find_none_notin; exact Ef].
  Qed.

  Lemma step_md (x : bp * list N) l : Forall Good (fst x) ->
    map (@s_md R) (fst (bp_step count split c x l)) = map (@s_md R) (fst x)
    \/ exists vals, map (@s_md R) (fst (bp_step count split c x l)) = map (@s_md R) (fst x) ++ [vals]
                    /\ ~ In vals (map (@s_md R) (fst x)).
  Proof.
    intros HG.
    assert (Hq : forall f i, quiet f -> map (@s_md R) (upd_nth i f (fst x)) = map (@s_md R) (fst x)).
    { intros f i Q. apply map_md_upd_nth. eapply Forall_impl; [|exact HG]. intros s Hs. apply (Q s Hs). }
    assert (He : forall i p, map (@s_md R) (upd_nth i (fun s => sh_enqueue s p) (fst x)) = map (@s_md R) (fst x)).
    { intros i p. apply map_md_upd_nth. apply Forall_forall. intros; reflexivity. }
    destruct l as [now md p|now md p|now i|now i|now i]; simpl.
    - destruct (bp_consume c now md p (fst x)) as [st' e] eqn:E. simpl.
      change st' with (fst (st', e)). rewrite <- E. unfold bp_consume.
      destruct (mks c); cbn [fst]; [left; apply He|].
      destruct (find_shard (aset_of (md_values c md)) (fst x)); cbn [fst]; [left; apply He|].
      destruct (locked_md now (md_values c md) p (fst x)) as [H|H]; [left; exact H|right; eexists; exact H].
    - destruct (bp_consume_stale c now md p (fst x)) as [st' e] eqn:E. simpl.
      change st' with (fst (st', e)). rewrite <- E. unfold bp_consume_stale.
      destruct (mks c); cbn [fst]; [left; apply He|].
      destruct (locked_md now (md_values c md) p (fst x)) as [H|H]; [left; exact H|right; eexists; exact H].
    - left. apply Hq, quiet_recv.
    - left. apply Hq, quiet_timer.
    - left. apply Hq, quiet_seen.
  Qed.

  Lemma groups_distinct_g t0 ls : NoDup (map (@s_md R) (fst (bp_run count split c t0 ls))).
  Proof.
    induction ls as [|l ls IH] using rev_ind.
    - unfold bp_run, bp_init. simpl. destruct (mks c); simpl; repeat constructor. intros [].
    - destruct (run_inv t0 ls) as (HG & _). unfold bp_run in *. rewrite fold_left_app. simpl.
      destruct (step_md _ l HG) as [H|(vals & H & Hn)]; rewrite H; [exact IH|].
      apply NoDup_app_snoc; auto.
  Qed.

  Lemma find_own (st : bp) : NoDup (map (@s_md R) st) -> forall i s, nth_error st i = Some s ->
    find_shard (aset_of (s_md s)) st = Some i.
  Proof.
    induction st as [|x st IH]; intros Hn [|i] s Hs; simpl in *; try discriminate.
    - inversion Hs; subst. assert (E : aset_eqb (aset_of (s_md s)) (aset_of (s_md s)) = true) by (apply aset_of_eqb; reflexivity).
      rewrite E. reflexivity.
    - inversion Hn; subst. destruct (aset_eqb (aset_of (s_md x)) (aset_of (s_md s))) eqn:E.
      + apply aset_of_eqb in E. exfalso. apply H1. rewrite E. apply in_map. eapply nth_error_In; eauto.
      + rewrite (IH H2 i s Hs). reflexivity.
  Qed.

  (* ---- shutdown with producers still calling: what is not emitted sits in channels of returned shards ---- *)
  Definition Flushed (s : shard) : Prop := s_done s = true -> b_n (s_batch s) = 0.
  Definition left_tagged (st : bp) := flat_map (fun s => tag s (outs s ++ chan_items s)) st.

  Lemma pres_flushed l : max_valid -> step_pres (fun s => Good s /\ Flushed s) l.
  Proof.
    intros Hv. destruct l as [now md p|now md p|now i|now i|now i]; simpl.
    - split; [intros vals; split; [apply enqueue_good, new_shard_good|intros H; discriminate]|].
      intros s [A B]. split; [apply enqueue_good; exact A|exact B].
    - split; [intros vals; split; [apply enqueue_good, new_shard_good|intros H; discriminate]|].
      intros s [A B]. split; [apply enqueue_good; exact A|exact B].
    - intros s [A B]. destruct (recv_spec now A) as (G & _ & _ & D & F). split; [exact G|].
      destruct (s_done s) eqn:Ed; [rewrite (F eq_refl); exact B|]. intros H. congruence.
    - intros s [A B]. destruct (timer_spec now A) as (G & _ & _ & D & F). split; [exact G|].
      destruct (s_done s) eqn:Ed; [rewrite (F eq_refl); exact B|]. intros H. congruence.
    - intros s [A B]. destruct (seen_spec now A) as (G & _ & _ & F & F'). split; [exact G|].
      destruct (s_done s) eqn:Ed; [rewrite (F eq_refl); exact B|].
      destruct (F' eq_refl) as (D1 & D2 & D3). intros _. exact (D3 Hv).
  Qed.

  Lemma accounting_g t0 ls : max_valid ->
    let x := bp_run count split c t0 ls in
    Forall (fun s => s_done s = true) (fst x) ->
    Permutation (left_tagged (fst x)) (accepted_tagged ls (snd x)).
  Proof.
    intros Hv x Hd.
    assert (HC : Forall (fun s => Good s /\ Flushed s) (fst x)).
    { unfold x, bp_run. apply steps_forall.
      - apply Forall_forall. intros l _. apply pres_flushed; exact Hv.
      - eapply Forall_impl; [|apply init_live]. intros s [A B]. split; [exact A|]. intros H. congruence. }
    destruct (run_inv t0 ls) as (HG & _ & _ & HP & _). fold x in HG, HP.
    rewrite <- HP. unfold left_tagged, all_tagged.
    assert (E : Forall (fun s => tag s (outs s ++ chan_items s) = tag s (taken s)) (fst x)).
    { rewrite Forall_forall in *. intros s Hs. destruct (HC s Hs) as ([[Hn Hf _] _] & Hcl).
      f_equal. unfold taken. rewrite <- Hf. unfold pend.
      rewrite (@count0_items (b_data (s_batch s))), app_nil_r by (rewrite <- Hn; exact (Hcl (Hd s Hs))). reflexivity. }
    rewrite (flat_map_ext_Forall _ _ E). reflexivity.
  Qed.

  (* a returned shard never emits again and never takes from its channel again *)
  Lemma done_frozen_g now (s : shard) : s_done s = true ->
    sh_recv count split c now s = s /\ sh_timer split c now s = s /\ sh_seen count split c now s = s.
  Proof. intros Hd. unfold sh_recv, sh_timer, sh_seen. rewrite Hd. auto. Qed.

  (* ============================================================================================ *)
  (* timely flush (logical time)                                                                  *)
  (* ============================================================================================ *)
  Definition tot (l : list (Z * list R)) : nat := list_sum (map (fun o => count (snd o)) l).
  Definition emb (l : list (Z * list R)) (T : Z) : nat := tot (filter (fun o => Z.leb (fst o) T) l).
  (* the arrivals of a shard with the running total of items taken in: (time, total up to and including it) *)
  Fixpoint cum (acc : nat) (l : list (Z * list R)) : list (Z * nat) :=
    match l with [] => [] | o :: r => (fst o, acc + count (snd o)) :: cum (acc + count (snd o)) r end.

  Definition eok (out : list (Z * list R)) (done : bool) (dl : Z) (e : Z * nat) : Prop :=
    snd e <= emb out (fst e + c_timeout c) \/ (done = false /\ (dl <= fst e + c_timeout c)%Z).

  Record TInv (now : Z) (s : shard) : Prop := {
    t_good : Good s;
    t_past : Forall (fun o => (fst o <= now)%Z) (s_out s);
    t_dl : s_done s = false -> (now <= s_deadline s <= now + c_timeout c)%Z;
    t_entries : Forall (eok (s_out s) (s_done s) (s_deadline s)) (cum 0 (s_in s))
  }.

  Lemma tot_app l1 l2 : tot (l1 ++ l2) = tot l1 + tot l2.
  Proof. unfold tot. rewrite map_app. induction (map (fun o => count (snd o)) l1); simpl; lia. Qed.

  Lemma tot_len l : tot l = length (flat_map (fun o => items (snd o)) l).
  Proof. induction l as [|o l IH]; simpl; auto. unfold tot in *. simpl. rewrite app_length, IH, H_cnt. reflexivity. Qed.

  Lemma tot_flow (s : shard) : Inv s -> tot (s_in s) = tot (s_out s) + b_n (s_batch s).
  Proof.
    intros [Hn Hf _]. rewrite !tot_len. fold (ins s) (outs s). rewrite <- Hf, app_length, Hn, H_cnt. reflexivity.
  Qed.

  Lemma emb_app l1 l2 T : emb (l1 ++ l2) T = emb l1 T + emb l2 T.
  Proof. unfold emb. rewrite filter_app, tot_app. reflexivity. Qed.

  Lemma emb_all l T : Forall (fun o => (fst o <= T)%Z) l -> emb l T = tot l.
  Proof.
    unfold emb. induction 1 as [|o l Ho _ IH]; simpl; auto.
    destruct (Z.leb_spec (fst o) T); [|lia]. unfold tot in *. simpl. rewrite IH. reflexivity.
  Qed.

  Lemma cum_snoc l : forall acc o, cum acc (l ++ [o]) = cum acc l ++ [(fst o, acc + tot l + count (snd o))].
  Proof.
    induction l as [|x l IH]; intros acc o; simpl.
    - unfold tot. simpl. rewrite Nat.add_0_r. reflexivity.
    - rewrite IH. unfold tot. simpl. repeat (f_equal; try lia).
  Qed.

  Lemma cum_bound l : forall acc, Forall (fun e => snd e <= acc + tot l) (cum acc l).
  Proof.
    induction l as [|x l IH]; intros acc; simpl; constructor.
    - unfold tot. simpl. lia.
    - eapply Forall_impl; [|apply IH]. unfold tot. simpl. intros e He. lia.
  Qed.

  Lemma eok_mono out added done dl e : eok out done dl e -> eok (out ++ added) done dl e.
  Proof. unfold eok. intros [H|H]; [left; rewrite emb_app; lia|right; exact H]. Qed.

  (* a flush point: everything that had arrived is out, all exports are in the past *)
  Lemma eok_flush out out' done dl done' dl' now e : eok out done dl e ->
    (done = false -> (now <= dl)%Z) -> (exists added, out' = out ++ added) ->
    Forall (fun o => (fst o <= now)%Z) out' -> snd e <= tot out' -> eok out' done' dl' e.
  Proof.
    unfold eok. intros [H|(Hd & H)] Hdl (added & ->) Hpast Hn; left.
    - rewrite emb_app. lia.
    - rewrite emb_all; [exact Hn|]. eapply Forall_impl; [|exact Hpast]. simpl. intros o Ho. specialize (Hdl Hd). lia.
  Qed.

  Section Timed.
    Hypothesis Htimer : has_timer c = true.
    Hypothesis Hvalid : max_valid.
    Hypothesis Htpos : (0 <= c_timeout c)%Z.

    Lemma TInv_advance now now' (s : shard) : TInv now s -> (now <= now')%Z ->
      (s_done s = false -> (now' <= s_deadline s)%Z) -> TInv now' s.
    Proof.
      intros [G P D E] Hle Hdl. constructor; auto.
      - eapply Forall_impl; [|exact P]. simpl. intros; lia.
      - intros Hd. specialize (D Hd). specialize (Hdl Hd). lia.
    Qed.

    Lemma TInv_ext now (s s' : shard) : TInv now s ->
      s_batch s' = s_batch s -> s_in s' = s_in s -> s_out s' = s_out s -> s_deadline s' = s_deadline s ->
      s_done s' = s_done s -> TInv now s'.
    Proof.
      intros [[GI GT] P D E] Eb Ei Eo Ed En. constructor; rewrite ?Eo, ?Ed, ?En, ?Ei; auto.
      split; [apply (@Inv_ext _ _ GI)|apply (@Trig_ext _ _ GT)]; auto.
    Qed.

    Lemma TInv_new now vals p : TInv now (sh_enqueue (new_shard c now vals) p).
    Proof.
      constructor; simpl; [apply enqueue_good, new_shard_good|constructor| |constructor]. intros _. lia.
    Qed.

    Lemma TInv_process now (s : shard) p : TInv now s -> s_done s = false ->
      TInv now (process_item count split c now s p).
    Proof.
      intros [[GI GT] P D E] Hd. specialize (D Hd).
      destruct (process_item_spec now p GI) as (A1 & A2 & A3 & A4 & A5 & A6 & added & O & F & Fe & Fn & _).
      set (s' := process_item count split c now s p) in *.
      pose proof (tot_flow GI) as TF. pose proof (tot_flow A1) as TF'.
      rewrite A6, O, !tot_app in TF'. unfold tot at 2 in TF'. simpl in TF'.
      assert (Hpast' : Forall (fun o => (fst o <= now)%Z) (s_out s')).
      { rewrite O. apply Forall_app. split; [exact P|]. eapply Forall_impl; [|exact F]. simpl. intros; lia. }
      constructor; [split; assumption|exact Hpast'| |].
      - rewrite A5. intros _. destruct added as [|a added].
        + destruct (Fe eq_refl) as (Ed & _). rewrite Ed. exact D.
        + destruct (Fn ltac:(discriminate)) as (Ed & _). rewrite (Ed Htimer). lia.
      - rewrite A6, cum_snoc, A5. simpl. apply Forall_app. split.
        + destruct added as [|a added].
          * destruct (Fe eq_refl) as (Ed & _). rewrite O, app_nil_r, Ed. exact E.
          * destruct (Fn ltac:(discriminate)) as (_ & Hres).
            assert (Hb : b_n (s_batch s') <= count p).
            { unfold Trig in GT. rewrite Htimer in GT. unfold max_valid in Hvalid. destruct Hres as [Hres|Hres]; lia. }
            pose proof (cum_bound (s_in s) 0) as CB. rewrite Forall_forall in E, CB. apply Forall_forall. intros e He.
            apply (@eok_flush (s_out s) (s_out s') (s_done s) (s_deadline s) _ _ now e (E e He)).
            -- intros _. lia.
            -- exists (a :: added). exact O.
            -- exact Hpast'.
            -- specialize (CB e He). rewrite O, tot_app. simpl in CB. lia.
        + constructor; [|constructor]. right. split; [exact Hd|]. simpl. destruct added as [|a added].
          * destruct (Fe eq_refl) as (Ed & _). rewrite Ed. lia.
          * destruct (Fn ltac:(discriminate)) as (Ed & _). rewrite (Ed Htimer). lia.
    Qed.

    Lemma TInv_recv now (s : shard) : TInv now s -> TInv now (sh_recv count split c now s).
    Proof.
      intros H. unfold sh_recv. destruct (s_done s) eqn:Ed; [exact H|]. destruct (s_chan s) as [|p r]; [exact H|].
      apply TInv_process; [|exact Ed]. apply (@TInv_ext now s); auto.
    Qed.

    (* one send when fewer than send_batch_size items are pending takes everything (validated config) *)
    Lemma send_all now (s : shard) : Good s ->
      let s' := send_items split c now s in
      b_n (s_batch s') = 0 /\ Inv s' /\ same5 s s' /\ exists req, s_out s' = s_out s ++ [(now, req)].
    Proof.
      intros [GI GT]. destruct (send_items_spec now GI) as (A & S5 & req & O & N1 & D). simpl.
      split; [|split; [exact A|split; [exact S5|exists req; exact O]]].
      unfold Trig in GT. rewrite Htimer in GT. unfold max_valid in Hvalid. destruct D as [D|D]; lia.
    Qed.

    Lemma TInv_flush now (s s' : shard) done' dl' : TInv now s -> s_done s = false ->
      Inv s' -> b_n (s_batch s') = 0 -> s_in s' = s_in s -> (exists added, s_out s' = s_out s ++ added) ->
      Forall (fun o => (fst o <= now)%Z) (s_out s') ->
      Forall (eok (s_out s') done' dl') (cum 0 (s_in s')).
    Proof.
      intros [[GI GT] P D E] Hd A Hz Ei Ho Hp. specialize (D Hd).
      pose proof (tot_flow A) as TF. rewrite Hz, Nat.add_0_r in TF. rewrite Ei in *.
      pose proof (cum_bound (s_in s) 0) as CB. rewrite Forall_forall in E, CB. apply Forall_forall. intros e He.
      apply (@eok_flush (s_out s) (s_out s') (s_done s) (s_deadline s) done' dl' now e (E e He)); auto.
      - intros _. lia.
      - specialize (CB e He). simpl in CB. lia.
    Qed.

    Lemma TInv_timer now (s : shard) : TInv now s -> TInv now (sh_timer split c now s).
    Proof.
      intros H. unfold sh_timer.
      destruct (s_done s || negb (has_timer c) || Z.ltb now (s_deadline s)) eqn:Eg; [exact H|].
      apply orb_false_iff in Eg. destruct Eg as [Eg El]. apply orb_false_iff in Eg. destruct Eg as [Ed _].
      pose proof H as [[GI GT] P D E].
      destruct (Nat.ltb_spec 0 (b_n (s_batch s))) as [Hpos|Hz].
      - destruct (send_all now (conj GI GT)) as (Z0 & A & (S1 & S2 & S3 & S4 & S5) & req & O).
        set (s1 := send_items split c now s) in *.
        assert (Hp : Forall (fun o => (fst o <= now)%Z) (s_out s1)).
        { rewrite O. apply Forall_app. split; [exact P|]. constructor; [simpl; lia|constructor]. }
        constructor; simpl.
        + split; [apply (@Inv_ext _ _ A); reflexivity|]. unfold Trig. simpl. rewrite Htimer, Z0.
          unfold has_timer in Htimer. destruct (Nat.eqb_spec (c_size c) 0); [rewrite andb_false_r in Htimer; discriminate|lia].
        + exact Hp.
        + intros _. lia.
        + apply (@TInv_flush now s s1); auto. exists [(now, req)]. exact O.
      - constructor; simpl.
        + split; [apply (@Inv_ext _ _ GI); reflexivity|apply (@Trig_ext _ _ GT); reflexivity].
        + exact P.
        + intros _. lia.
        + apply (@TInv_flush now s s); auto; [lia|exists []; rewrite app_nil_r; reflexivity].
    Qed.

    Lemma TInv_fold now : forall ps (s : shard), TInv now s -> s_done s = false ->
      TInv now (fold_left (process_item count split c now) ps s)
      /\ s_done (fold_left (process_item count split c now) ps s) = false.
    Proof.
      induction ps as [|p r IH]; intros s H Hd; simpl; [auto|].
      pose proof H as [[GI GT] _ _ _].
      destruct (process_item_spec now p GI) as (_ & _ & _ & _ & A5 & _).
      apply IH; [apply TInv_process; assumption|congruence].
    Qed.

    Lemma TInv_seen now (s : shard) : TInv now s -> TInv now (sh_seen count split c now s).
    Proof.
      intros H. unfold sh_seen. destruct (s_done s) eqn:Ed; [exact H|].
      assert (H0 : TInv now (set_chan [] s)) by (apply (@TInv_ext now s); auto).
      destruct (TInv_fold (s_chan s) H0 Ed) as (H1 & Hd1).
      set (s1 := fold_left (process_item count split c now) (s_chan s) (set_chan [] s)) in *.
      pose proof H1 as [[GI GT] P D E].
      destruct (Nat.ltb_spec 0 (b_n (s_batch s1))) as [Hpos|Hz].
      - destruct (send_all now (conj GI GT)) as (Z0 & A & (S1 & S2 & S3 & S4 & S5) & req & O).
        set (s2 := send_items split c now s1) in *.
        assert (Hp : Forall (fun o => (fst o <= now)%Z) (s_out s2)).
        { rewrite O. apply Forall_app. split; [exact P|]. constructor; [simpl; lia|constructor]. }
        constructor; simpl.
        + split; [apply (@Inv_ext _ _ A); reflexivity|]. unfold Trig. simpl. rewrite Htimer, Z0.
          unfold has_timer in Htimer. destruct (Nat.eqb_spec (c_size c) 0); [rewrite andb_false_r in Htimer; discriminate|lia].
        + exact Hp.
        + discriminate.
        + apply (@TInv_flush now s1 s2); auto. exists [(now, req)]. exact O.
      - constructor; simpl.
        + split; [apply (@Inv_ext _ _ GI); reflexivity|apply (@Trig_ext _ _ GT); reflexivity].
        + exact P.
        + discriminate.
        + apply (@TInv_flush now s1 s1); auto; [lia|exists []; rewrite app_nil_r; reflexivity].
    Qed.

    Definition label_time (l : label) : Z :=
      match l with LConsume now _ _ | LConsumeStale now _ _ | LRecv now _ | LTimer now _ | LSeen now _ => now end.

    (* timely schedules: the clock never goes back and never passes the deadline of a live shard's timer
       (the timer fires, and its branch runs, exactly at the deadline) *)
    Fixpoint timely_from (x : bp * list N) (last : Z) (ls : list label) : Prop :=
      match ls with
      | [] => True
      | l :: r => (last <= label_time l)%Z
                  /\ Forall (fun s => s_done s = false -> (label_time l <= s_deadline s)%Z) (fst x)
                  /\ timely_from (bp_step count split c x l) (label_time l) r
      end.


    (* boolean version, for witnesses *)
    Fixpoint timelyb (x : bp * list N) (last : Z) (ls : list label) : bool :=
      match ls with
      | [] => true
      | l :: r => Z.leb last (label_time l)
                  && forallb (fun s => s_done s || Z.leb (label_time l) (s_deadline s)) (fst x)
                  && timelyb (bp_step count split c x l) (label_time l) r
      end.

    Lemma timelyb_sound : forall ls x last, timelyb x last ls = true -> timely_from x last ls.
    Proof.
      induction ls as [|l r IH]; intros x last H; simpl in *; [exact I|].
      apply andb_true_iff in H. destruct H as [H H3]. apply andb_true_iff in H. destruct H as [H1 H2].
      split; [apply Z.leb_le; exact H1|]. split; [|apply IH; exact H3].
      rewrite forallb_forall in H2. apply Forall_forall. intros s Hs Hd. specialize (H2 s Hs).
      rewrite Hd in H2. simpl in H2. apply Z.leb_le. exact H2.
    Qed.

    Fixpoint end_time (last : Z) (ls : list label) : Z :=
      match ls with [] => last | l :: r => end_time (label_time l) r end.

    Lemma pres_TInv l : step_pres (TInv (label_time l)) l.
    Proof.
      destruct l as [now md p|now md p|now i|now i|now i]; simpl.
      - split; [intros; apply TInv_new|]. intros s H. apply (@TInv_ext now s); auto.
      - split; [intros; apply TInv_new|]. intros s H. apply (@TInv_ext now s); auto.
      - intros s H. apply TInv_recv; exact H.
      - intros s H. apply TInv_timer; exact H.
      - intros s H. apply TInv_seen; exact H.
    Qed.

    Lemma timely_inv : forall ls (x : bp * list N) last, Forall (TInv last) (fst x) -> timely_from x last ls ->
      Forall (TInv (end_time last ls)) (fst (fold_left (bp_step count split c) ls x)).
    Proof.
      induction ls as [|l ls IH]; intros x last HF HT; simpl; [exact HF|].
      destruct HT as (Hle & Hdl & HT). apply IH; [|exact HT].
      apply step_forall; [apply pres_TInv|].
      rewrite Forall_forall in *. intros s Hs. apply (@TInv_advance last); auto.
    Qed.

    Lemma init_TInv t0 : Forall (TInv t0) (bp_init c t0).
    Proof.
      unfold bp_init. destruct (mks c); constructor; [|constructor].
      constructor; simpl; [apply new_shard_good|constructor| |constructor]. intros _. lia.
    Qed.

    (* every arrival (t, n = items taken in up to and including it) of every shard: by t + timeout at least n
       items have been exported (all of them, by FIFO), or t + timeout has not come yet *)
    Lemma timeout_g t0 ls s e : timely_from (bp_init c t0, []) t0 ls ->
      In s (fst (bp_run count split c t0 ls)) -> In e (cum 0 (s_in s)) ->
      snd e <= emb (s_out s) (fst e + c_timeout c)
      \/ (s_done s = false /\ (end_time t0 ls <= fst e + c_timeout c)%Z).
    Proof.
      intros HT Hs He. pose proof (@timely_inv ls (bp_init c t0, []) t0 (init_TInv t0) HT) as HF.
      rewrite Forall_forall in HF. destruct (HF s Hs) as [_ _ D E]. rewrite Forall_forall in E.
      destruct (E e He) as [H|(Hd & H)]; [left; exact H|right]. split; [exact Hd|]. specialize (D Hd). lia.
    Qed.
  End Timed.
End Generic.
