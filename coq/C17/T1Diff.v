(* C17/T1Diff.v — for the failing-input search: the arguments on which a T1-generated function differs from the
   hand-written model (finite domain, evaluated by vm_compute).  Definitions only; imports no proof. *)
From Verif Require Import Common.Base C17.Model Generated.C17Batch.

Definition kinds : list (Z * mkind) :=
  [(MetricTypeEmpty, MEmpty); (MetricTypeGauge, MGauge); (MetricTypeSum, MSum 1 true);
   (MetricTypeHistogram, MHistogram 1); (MetricTypeExponentialHistogram, MExpHistogram 1); (MetricTypeSummary, MSummary)].

(* metric types (as pmetric.MetricType numbers) on which the generated metricDPC and the model's metric_count differ *)
Definition dpc_diff : list Z :=
  map fst (filter (fun ck => negb (Z.eqb (metricDPC (fst ck) 7 7 7 7 7)
                                          (Z.of_nat (metric_count (I := N) (MI 1 1 1 1 (snd ck), repeat 0%N 7)))))
                  kinds).
