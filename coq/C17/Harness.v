(* C17/Harness.v — comparison of the model with what the Go harness recorded from the real
   batch processor.  Imports only Model.v (so the correspondence still runs when a proof breaks). *)
From Verif Require Export Common.Base C17.Model C17.Bounded.
From Coq Require String.

(* ---- script of a processor run (single producer) ------------------------------------------------
   SConsume md p : one Consume call with client metadata md; the shard processes the item
                   before the next script step (per shard this is the only possible order).
   STimer        : every live shard's timer fires once (the harness waits for the flush). *)
Inductive sop (P : Type) := SConsume (md : metadata) (p : P) | STimer | SShutdown.
Arguments SConsume {P}.
Arguments STimer {P}.
Arguments SShutdown {P}.

(* script of a run with blocked producers (bounded channel): BoC = a Consume call (returns or blocks),
   BoR i / BoS i = shard i receives once / notices the shutdown, BoCheck = observe (calls returned, producers blocked) *)
Inductive bop (P : Type) := BoC (md : metadata) (p : P) | BoR (i : N) | BoS (i : N) | BoCheck.
Arguments BoC {P}.
Arguments BoR {P}.
Arguments BoS {P}.
Arguments BoCheck {P}.

(* observation of a run: the class of each Consume result, and for every export-context value tuple
   (in creation order of the shards; shards that exported nothing do not show) its requests in order *)
Definition run_obs (P : Type) := (list N * list (list (list N) * list P))%type.
Definition bobs (P : Type) := (list (N * N) * run_obs P)%type.

(* wire form of a configuration: every number is an [N] (the case terms are printed inside one
   [( ... )%N]); the timeout is (magnitude, negative?) in logical units *)
Inductive hcfg := HC (timeout : N) (neg : bool) (size max : N) (keys : list str) (limit : N).
Definition cfg_of (h : hcfg) : cfg :=
  let 'HC t neg sz mx ks lim := h in
  Cfg (if neg then Z.opp (Z.of_N t) else Z.of_N t) (N.to_nat sz) (N.to_nat mx) ks (N.to_nat lim).

Inductive vcase :=
| CSplit3 (sig size : N) (src d k : payload3 N)      (* sig 0 = logs, 1 = traces; d = returned, k = src afterwards *)
| CSplit4 (size : N) (src d k : payload4 N)
| CRun3 (sig : N) (c : hcfg) (script : list (sop (payload3 N))) (obs : run_obs (payload3 N))
| CRun4 (c : hcfg) (script : list (sop (payload4 N))) (obs : run_obs (payload4 N))
| CBounded3 (sig : N) (c : hcfg) (cap : N) (script : list (bop (payload3 N))) (obs : bobs (payload3 N))
| CBounded4 (c : hcfg) (cap : N) (script : list (bop (payload4 N))) (obs : bobs (payload4 N))
| CValidate (c : hcfg) (obs : N).

(* ---- equality on payloads ---------------------------------------------------------------------- *)
Definition ctx_eqb (a b : ctx) : bool := N.eqb (fst a) (fst b) && N.eqb (snd a) (snd b).
Definition scope3_eqb (a b : scope3 N) := ctx_eqb (fst a) (fst b) && list_eqb N.eqb (snd a) (snd b).
Definition res3_eqb (a b : res3 N) := ctx_eqb (fst a) (fst b) && list_eqb scope3_eqb (snd a) (snd b).
Definition payload3_eqb : payload3 N -> payload3 N -> bool := list_eqb res3_eqb.

Definition mkind_eqb (a b : mkind) : bool :=
  match a, b with
  | MEmpty, MEmpty | MGauge, MGauge | MSummary, MSummary => true
  | MSum t m, MSum t' m' => N.eqb t t' && Bool.eqb m m'
  | MHistogram t, MHistogram t' => N.eqb t t'
  | MExpHistogram t, MExpHistogram t' => N.eqb t t'
  | _, _ => false
  end.
Definition mident_eqb (a b : mident) : bool :=
  let 'MI n d u m k := a in let 'MI n' d' u' m' k' := b in
  N.eqb n n' && N.eqb d d' && N.eqb u u' && N.eqb m m' && mkind_eqb k k'.
Definition metric_eqb (a b : metric N) := mident_eqb (fst a) (fst b) && list_eqb N.eqb (snd a) (snd b).
Definition scope4_eqb (a b : scope4 N) := ctx_eqb (fst a) (fst b) && list_eqb metric_eqb (snd a) (snd b).
Definition res4_eqb (a b : res4 N) := ctx_eqb (fst a) (fst b) && list_eqb scope4_eqb (snd a) (snd b).
Definition payload4_eqb : payload4 N -> payload4 N -> bool := list_eqb res4_eqb.

(* ---- running a script on the model ------------------------------------------------------------- *)
Section Run.
  Context {R : Type}.
  Variable count : list R -> nat.
  Variable split : nat -> list R -> list R * list R.
  Variable c : cfg.

  Definition script_step (st : bp (R:=R) * list N) (o : sop (list R)) : bp * list N :=
    match o with
    | SConsume md p =>
        let st1 := bp_step count split c st (LConsume 0 md p) in
        (map (sh_recv count split c 0) (fst st1), snd st1)
    | STimer => (map (fun s => sh_timer split c (s_deadline s) s) (fst st), snd st)   (* time advances to each deadline *)
    | SShutdown => (map (sh_seen count split c 0) (fst st), snd st)     (* Shutdown returns: every shard has drained *)
    end.

  Definition run_script (ops : list (sop (list R))) : run_obs (list R) :=
    let st := fold_left script_step ops (bp_init c 0, []) in
    let shards := map (sh_seen count split c 0) (fst st) in      (* Shutdown: every shard drains *)
    (snd st,
     map (fun s => (s_md s, map snd (s_out s)))
         (filter (fun s => negb (Nat.eqb (length (s_out s)) 0)) shards)).

  Definition shards_obs (shards : bp (R:=R)) : list (list (list N) * list (list R)) :=
    map (fun s => (s_md s, map snd (s_out s)))
        (filter (fun s => negb (Nat.eqb (length (s_out s)) 0)) shards).

  (* bounded channel of capacity cap *)
  Definition bscript_step (cap : nat) (acc : bstate (R:=R) * list (N * N)) (o : bop (list R)) :=
    let '(b, chk) := acc in
    match o with
    | BoC md p => (bstep count split c cap b (BConsume 0 md p), chk)
    | BoR i => (bstep count split c cap b (BRecv 0 (N.to_nat i)), chk)
    | BoS i => (bstep count split c cap b (BSeen 0 (N.to_nat i)), chk)
    | BoCheck => (b, chk ++ [(N.of_nat (length (snd (b_st b))), N.of_nat (length (b_wait b)))])
    end.

  Definition run_bscript (cap : nat) (ops : list (bop (list R))) : bobs (list R) :=
    let '(b, chk) := fold_left (bscript_step cap) ops (b_init c 0, []) in
    (chk, (snd (b_st b), shards_obs (fst (b_st b)))).
End Run.

(* the groups are compared as a set keyed by the tuple (the order in which shards first export is a
   scheduling accident); the model's tuples are pairwise distinct *)
Definition tuple_eqb := list_eqb (list_eqb N.eqb).
Definition obs_eqb {P} (peqb : P -> P -> bool) (a b : run_obs P) : bool :=
  list_eqb N.eqb (fst a) (fst b) &&
  Nat.eqb (length (snd a)) (length (snd b)) &&
  forallb (fun x => existsb (fun y => tuple_eqb (fst x) (fst y) && list_eqb peqb (snd x) (snd y)) (snd b)) (snd a) &&
  forallb (fun y => existsb (fun x => tuple_eqb (fst x) (fst y)) (snd a)) (snd b).

Definition split3_of (sig : N) := match sig with 0%N => @split_logs N | _ => @split_traces N end.

Definition model_out (v : vcase) : vcase :=
  match v with
  | CSplit3 sig size src _ _ => let '(d, k) := split3_of sig (N.to_nat size) src in CSplit3 sig size src d k
  | CSplit4 size src _ _ => let '(d, k) := split_metrics (N.to_nat size) src in CSplit4 size src d k
  | CRun3 sig c script _ => CRun3 sig c script (run_script (@count3 N) (split3_of sig) (cfg_of c) script)
  | CRun4 c script _ => CRun4 c script (run_script (@count4 N) (@split_metrics N) (cfg_of c) script)
  | CBounded3 sig c cap script _ =>
      CBounded3 sig c cap script (run_bscript (@count3 N) (split3_of sig) (cfg_of c) (N.to_nat cap) script)
  | CBounded4 c cap script _ =>
      CBounded4 c cap script (run_bscript (@count4 N) (@split_metrics N) (cfg_of c) (N.to_nat cap) script)
  | CValidate c _ => CValidate c (validate (cfg_of c))
  end.

Definition chk_eqb (a b : list (N * N)) : bool :=
  list_eqb (fun x y => N.eqb (fst x) (fst y) && N.eqb (snd x) (snd y)) a b.

Definition check_case (v : vcase) : bool :=
  match v, model_out v with
  | CSplit3 _ _ _ d k, CSplit3 _ _ _ d' k' => payload3_eqb d d' && payload3_eqb k k'
  | CSplit4 _ _ d k, CSplit4 _ _ d' k' => payload4_eqb d d' && payload4_eqb k k'
  | CRun3 _ _ _ o, CRun3 _ _ _ o' => obs_eqb payload3_eqb o o'
  | CRun4 _ _ o, CRun4 _ _ o' => obs_eqb payload4_eqb o o'
  | CBounded3 _ _ _ _ o, CBounded3 _ _ _ _ o' => chk_eqb (fst o) (fst o') && obs_eqb payload3_eqb (snd o) (snd o')
  | CBounded4 _ _ _ o, CBounded4 _ _ _ o' => chk_eqb (fst o) (fst o') && obs_eqb payload4_eqb (snd o) (snd o')
  | CValidate _ o, CValidate _ o' => N.eqb o o'
  | _, _ => false
  end.
