(* C17/Clauses.v — a DECIDABLE checker of the property's clauses over the OBSERVED behaviour of the implementation
   (a correspondence case: inputs + what the real code did).  It uses no step function of the model: only the
   enumeration of items with their identity, the reading of the configured keys' values from client metadata and
   arithmetic.  ProofsC.v proves prop_viol c = 0 <-> the Prop-level clauses.  Definitions only. *)
From Verif Require Export Common.Base C17.Harness.

(* ---- boolean multiset equality ------------------------------------------------------------------------------ *)
Section Perm.
  Context {A : Type}.
  Variable eqb : A -> A -> bool.
  Fixpoint remove1 (x : A) (l : list A) : option (list A) :=
    match l with
    | [] => None
    | y :: r => if eqb x y then Some r else match remove1 x r with Some r' => Some (y :: r') | None => None end
    end.
  Fixpoint perm_b (l1 l2 : list A) : bool :=
    match l1 with
    | [] => match l2 with [] => true | _ => false end
    | x :: r => match remove1 x l2 with Some l2' => perm_b r l2' | None => false end
    end.
End Perm.

Definition pair_eqb {A B} (ea : A -> A -> bool) (eb : B -> B -> bool) (x y : A * B) : bool :=
  ea (fst x) (fst y) && eb (snd x) (snd y).

Definition item3_eqb : item3 N -> item3 N -> bool := pair_eqb N.eqb (pair_eqb ctx_eqb ctx_eqb).
Definition item4_eqb : item4 N -> item4 N -> bool := pair_eqb N.eqb (pair_eqb (pair_eqb ctx_eqb ctx_eqb) mident_eqb).
Definition tuple_eqb' : list (list N) -> list (list N) -> bool := list_eqb (list_eqb N.eqb).

Section Run.
  Context {R X : Type}.
  Variable count : list R -> nat.
  Variable items : list R -> list X.
  Variable xeqb : X -> X -> bool.
  Variable c : cfg.

  (* the Consume calls of a script, with "before Shutdown?" *)
  Fixpoint calls (before : bool) (ops : list (sop (list R))) : list (bool * (metadata * list R)) :=
    match ops with
    | [] => []
    | SConsume md p :: r => (before, (md, p)) :: calls before r
    | STimer :: r => calls before r
    | SShutdown :: r => calls false r
    end.

  Definition tuple_in (t : list (list N)) (l : list (list (list N))) : bool := existsb (tuple_eqb' t) l.

  (* the refusal rule, as a specification: a call is refused iff keys are configured, the limit is set, its tuple
     is new and the limit is reached *)
  Fixpoint expected (known : list (list (list N))) (cs : list (bool * (metadata * list R))) : list N :=
    match cs with
    | [] => []
    | (_, (md, _)) :: r =>
        let t := md_values c md in
        match mks c with
        | [] => 0%N :: expected known r
        | _ => if tuple_in t known then 0%N :: expected known r
               else if negb (Nat.eqb (c_limit c) 0) && Nat.leb (c_limit c) (length known) then 1%N :: expected known r
               else 0%N :: expected (known ++ [t]) r
        end
    end.

  Definition accepted_before (cs : list (bool * (metadata * list R))) (res : list N) : list (list (list N) * X) :=
    flat_map (fun rc => if N.eqb (fst rc) 0 && fst (snd rc)
                        then map (pair (md_values c (fst (snd (snd rc))))) (items (snd (snd (snd rc)))) else [])
             (combine res cs).

  Definition emitted_obs (gs : list (list (list N) * list (list R))) : list (list (list N) * X) :=
    flat_map (fun g => map (pair (fst g)) (flat_map items (snd g))) gs.
  Definition all_reqs (gs : list (list (list N) * list (list R))) : list (list R) := flat_map snd gs.

  Definition conserv_b (ops : list (sop (list R))) (obs : run_obs (list R)) : bool :=
    perm_b (pair_eqb tuple_eqb' xeqb) (emitted_obs (snd obs)) (accepted_before (calls true ops) (fst obs)).
  Definition max_b (obs : run_obs (list R)) : bool :=
    forallb (fun req => Nat.eqb (c_max c) 0 || Nat.leb (count req) (c_max c)) (all_reqs (snd obs)).
  Definition card_b (ops : list (sop (list R))) (obs : run_obs (list R)) : bool :=
    list_eqb N.eqb (fst obs) (expected [] (calls true ops)).

  (* 0 = every clause holds, 1 = conservation / isolation, 2 = size bound, 3 = cardinality rule *)
  Definition run_viol (ops : list (sop (list R))) (obs : run_obs (list R)) : nat :=
    if negb (N.eqb (validate c) 0) then 0
    else if negb (card_b ops obs) then 3
    else if negb (max_b obs) then 2
    else if negb (conserv_b ops obs) then 1 else 0.

  (* blocked-producer runs: every call of the script has returned at the end *)
  Definition bcalls (ops : list (bop (list R))) : list (metadata * list R) :=
    flat_map (fun o => match o with BoC md p => [(md, p)] | _ => [] end) ops.
  Definition bounded_viol (ops : list (bop (list R))) (obs : bobs (list R)) : nat :=
    if negb (N.eqb (validate c) 0) then 0
    else if negb (Nat.eqb (length (fst (snd obs))) (length (bcalls ops))) then 0   (* some producer never returned: not judged here *)
    else if negb (max_b (snd obs)) then 2
    else if negb (perm_b (pair_eqb tuple_eqb' xeqb) (emitted_obs (snd (snd obs)))
                    (flat_map (fun mp => map (pair (md_values c (fst mp))) (items (snd mp))) (bcalls ops))) then 1
    else 0.
End Run.

Section Split.
  Context {R X : Type}.
  Variable count : list R -> nat.
  Variable items : list R -> list X.
  Variable xeqb : X -> X -> bool.
  (* 4 = the split clause fails *)
  Definition split_viol (size : nat) (src d k : list R) : nat :=
    if Nat.eqb (count d) (Nat.min size (count src))
       && (if Nat.ltb size (count src) then list_eqb xeqb (items d ++ items k) (items src)
           else list_eqb xeqb (items d) (items src))
    then 0 else 4.
End Split.

Definition prop_viol (v : vcase) : nat :=
  match v with
  | CSplit3 _ size src d k => split_viol (@count3 N) (@items3 N) item3_eqb (N.to_nat size) src d k
  | CSplit4 size src d k => split_viol (@count4 N) (@items4 N) item4_eqb (N.to_nat size) src d k
  | CRun3 _ c script obs => run_viol (@count3 N) (@items3 N) item3_eqb (cfg_of c) script obs
  | CRun4 c script obs => run_viol (@count4 N) (@items4 N) item4_eqb (cfg_of c) script obs
  | CBounded3 _ c _ script obs => bounded_viol (@count3 N) (@items3 N) item3_eqb (cfg_of c) script obs
  | CBounded4 c _ script obs => bounded_viol (@count4 N) (@items4 N) item4_eqb (cfg_of c) script obs
  | CValidate _ _ => 0
  end.
Definition prop_ok (v : vcase) : bool := Nat.eqb (prop_viol v) 0.

(* one pass over the cases: agreement with the model AND the clauses on the observation *)
Definition check_both (v : vcase) : bool := check_case v && prop_ok v.
