(* C17/Proofs1.v — the three count-based splits: what splitLogs / splitTraces / splitMetrics return
   and leave behind, item by item and with every item's full context. *)
From Verif Require Import Common.Base C17.Model.
Set Implicit Arguments.

Lemma list_sum_app' l1 l2 : list_sum (l1 ++ l2) = list_sum l1 + list_sum l2.
Proof. induction l1; simpl; lia. Qed.

Lemma length_flat_map {A B} (f : A -> list B) l :
  length (flat_map f l) = list_sum (map (fun x => length (f x)) l).
Proof. induction l; simpl; auto. rewrite app_length. lia. Qed.

Lemma min_full size c : Nat.min size (size + c) = size.
Proof. lia. Qed.

(* ============================================================================================ *)
Section Split3.
  Context {I : Type}.

  Lemma split_recs_full size (rs : list I) : split_recs size size rs = ([], rs, size).
  Proof. induction rs as [|x xs IH]; simpl; auto. rewrite Nat.eqb_refl, IH. reflexivity. Qed.

  Lemma split_recs_spec size : forall (rs : list I) total m k t, total <= size ->
    split_recs size total rs = (m, k, t) ->
    m ++ k = rs /\ t = total + length m /\ t = Nat.min size (total + length rs).
  Proof.
    induction rs as [|x xs IH]; intros total m k t Hle E; simpl in E.
    - inversion E; subst. simpl. repeat split; lia.
    - destruct (Nat.eqb_spec total size) as [->|Hne].
      + rewrite split_recs_full in E. inversion E; subst. simpl. repeat split; lia.
      + destruct (split_recs size (S total) xs) as [[m' k'] t'] eqn:E'.
        inversion E; subst. destruct (IH (S total) m' k t ltac:(lia) E') as (A & B & C).
        simpl. subst xs. repeat split; simpl; try lia.
  Qed.

  Lemma scope3_count_items (rc : ctx) (s : scope3 I) : length (items_scope3 rc s) = scope3_count s.
  Proof. unfold items_scope3, scope3_count. apply map_length. Qed.

  Lemma res3_count_items (r : res3 I) : length (items_res3 r) = res3_count r.
  Proof.
    unfold items_res3, res3_count. rewrite length_flat_map. f_equal. apply map_ext.
    intros s. apply scope3_count_items.
  Qed.

  Lemma count3_items (p : payload3 I) : count3 p = length (items3 p).
  Proof.
    unfold items3, count3. rewrite length_flat_map. f_equal. apply map_ext. intros r.
    symmetry. apply res3_count_items.
  Qed.

  Lemma split_scopes3_full size (ss : list (scope3 I)) : split_scopes3 size size ss = ([], ss, size).
  Proof. induction ss as [|x xs IH]; simpl; auto. rewrite Nat.eqb_refl, IH. reflexivity. Qed.

  Lemma split_scopes3_spec rc size : forall (ss : list (scope3 I)) total d k t, total <= size ->
    split_scopes3 size total ss = (d, k, t) ->
    flat_map (items_scope3 rc) d ++ flat_map (items_scope3 rc) k = flat_map (items_scope3 rc) ss
    /\ t = total + list_sum (map scope3_count d)
    /\ t = Nat.min size (total + list_sum (map scope3_count ss)).
  Proof.
    induction ss as [|s rest IH]; intros total d k t Hle E; simpl in E.
    - inversion E; subst. simpl. repeat split; lia.
    - destruct (Nat.eqb_spec total size) as [->|Hne].
      + rewrite split_scopes3_full in E. inversion E; subst. simpl. repeat split; lia.
      + destruct (Nat.leb_spec (scope3_count s + total) size) as [Hfit|Hcut].
        * destruct (split_scopes3 size (total + scope3_count s) rest) as [[d' k'] t'] eqn:E'.
          inversion E; subst. destruct (fun H => IH _ _ _ _ H E') as (A & B & C); [lia|].
          simpl. rewrite <- app_assoc, A. repeat split; lia.
        * destruct (split_recs size total (snd s)) as [[m kept] t1] eqn:E1.
          destruct (split_recs_spec _ Hle E1) as (A1 & B1 & C1).
          assert (t1 = size) by (unfold scope3_count in Hcut; lia). rewrite H in E. cbn beta iota in E.
          rewrite split_scopes3_full in E. inversion E; subst d k t. simpl.
          unfold items_scope3 at 1 2 3. simpl. rewrite app_nil_r, app_assoc, <- map_app, A1.
          unfold scope3_count at 1. simpl. repeat split; try lia.
  Qed.

  Lemma split_res3_full size (rs : list (res3 I)) : split_res3 size size rs = ([], rs, size).
  Proof. induction rs as [|x xs IH]; simpl; auto. rewrite Nat.eqb_refl, IH. reflexivity. Qed.

  Lemma res3_count_sum (r : res3 I) : res3_count r = list_sum (map scope3_count (snd r)).
  Proof. reflexivity. Qed.

  Lemma split_res3_spec size : forall (rs : list (res3 I)) total d k t, total <= size ->
    split_res3 size total rs = (d, k, t) ->
    items3 d ++ items3 k = items3 rs
    /\ t = total + count3 d
    /\ t = Nat.min size (total + count3 rs).
  Proof.
    unfold items3, count3.
    induction rs as [|r rest IH]; intros total d k t Hle E; simpl in E.
    - inversion E; subst. simpl. repeat split; lia.
    - destruct (Nat.eqb_spec total size) as [->|Hne].
      + rewrite split_res3_full in E. inversion E; subst. simpl. repeat split; lia.
      + destruct (Nat.leb_spec (total + res3_count r) size) as [Hfit|Hcut].
        * destruct (split_res3 size (total + res3_count r) rest) as [[d' k'] t'] eqn:E'.
          inversion E; subst. destruct (fun H => IH _ _ _ _ H E') as (A & B & C); [lia|].
          simpl. rewrite <- app_assoc, A. repeat split; lia.
        * destruct (split_scopes3 size total (snd r)) as [[ds ks] t1] eqn:E1.
          destruct (split_scopes3_spec (fst r) _ Hle E1) as (A1 & B1 & C1).
          assert (t1 = size) by (rewrite res3_count_sum in Hcut; lia). rewrite H in E. cbn beta iota in E.
          rewrite split_res3_full in E.
          assert (Hk : flat_map items_res3 (if Nat.eqb (length ks) 0 then rest else (fst r, ks) :: rest)
                       = flat_map (items_scope3 (fst r)) ks ++ flat_map items_res3 rest).
          { destruct ks; simpl; reflexivity. }
          inversion E; subst d k t. rewrite Hk. simpl. unfold items_res3 at 1 3. simpl.
          rewrite app_nil_r, app_assoc, A1. unfold res3_count at 1. simpl. repeat split; lia.
  Qed.

  (* split_n_spec for logs and traces *)
  Lemma split_logs_fits size (p : payload3 I) : count3 p <= size -> split_logs size p = (p, p).
  Proof. intros H. unfold split_logs. destruct (Nat.leb_spec (count3 p) size); [reflexivity|lia]. Qed.

  Lemma split_logs_cuts size (p : payload3 I) : size < count3 p ->
    items3 (fst (split_logs size p)) ++ items3 (snd (split_logs size p)) = items3 p
    /\ count3 (fst (split_logs size p)) = size.
  Proof.
    intros H. unfold split_logs. destruct (Nat.leb_spec (count3 p) size); [lia|].
    destruct (split_res3 size 0 p) as [[d k] t] eqn:E.
    destruct (split_res3_spec p (Nat.le_0_l size) E) as (A & B & C). simpl. split; [exact A|lia].
  Qed.

  Lemma items3_app (a b : payload3 I) : items3 (a ++ b) = items3 a ++ items3 b.
  Proof. apply flat_map_app. Qed.
End Split3.

(* ============================================================================================ *)
Section Split4.
  Context {I : Type}.

  Lemma split_dps_spec size : forall (ps : list I) i m k, i <= size ->
    split_dps size i ps = (m, k) ->
    m ++ k = ps /\ length m = Nat.min (size - i) (length ps).
  Proof.
    induction ps as [|p r IH]; intros i m k Hle E; simpl in E.
    - inversion E; subst. simpl. split; [reflexivity|lia].
    - destruct (Nat.ltb_spec i size) as [Hlt|Hge].
      + destruct (split_dps size (S i) r) as [m' k'] eqn:E'. inversion E; subst.
        destruct (fun H => IH _ _ _ H E') as (A & B); [lia|]. simpl. subst r. split; [reflexivity|lia].
      + destruct (split_dps size i r) as [m' k'] eqn:E'. inversion E; subst.
        destruct (IH _ _ _ Hle E') as (A & B). assert (m = []) by (destruct m; simpl in B; [reflexivity|lia]).
        subst m. simpl in *. subst r. split; [reflexivity|lia].
  Qed.

  Lemma metric_count_items rc sc (m : metric I) : length (items_metric rc sc m) = metric_count m.
  Proof. unfold items_metric, metric_count. apply map_length. Qed.

  (* cutting inside one metric: the fragment keeps the whole identity (name, description, unit,
     metadata, type, temporality, monotonicity) — the repaired F10 *)
  Lemma split_metric_spec rc sc (m : metric I) sz dm sm copied remove : sz < metric_count m ->
    split_metric m sz = (dm, sm, copied, remove) ->
    fst dm = fst m /\ fst sm = fst m /\ copied = sz /\ remove = false /\ metric_count dm = sz
    /\ items_metric rc sc dm ++ items_metric rc sc sm = items_metric rc sc m.
  Proof.
    destruct m as [[name desc unit meta kind] pts]. unfold metric_count, items_metric, mpoints, split_metric. simpl.
    intros Hlt E.
    destruct kind; simpl in *; try lia;
      (destruct (split_dps sz 0 pts) as [mv kp] eqn:Ed; inversion E; subst; simpl;
       destruct (split_dps_spec pts (Nat.le_0_l _) Ed) as (A & B);
       rewrite <- map_app, A; repeat split; try reflexivity; lia).
  Qed.

  Lemma scope4_count_items rc (s : scope4 I) : length (items_scope4 rc s) = scope4_count s.
  Proof.
    unfold items_scope4, scope4_count. rewrite length_flat_map. f_equal. apply map_ext. intros m.
    apply metric_count_items.
  Qed.

  Lemma res4_count_items (r : res4 I) : length (items_res4 r) = res4_count r.
  Proof.
    unfold items_res4, res4_count. rewrite length_flat_map. f_equal. apply map_ext. intros s.
    apply scope4_count_items.
  Qed.

  Lemma count4_items (p : payload4 I) : count4 p = length (items4 p).
  Proof.
    unfold items4, count4. rewrite length_flat_map. f_equal. apply map_ext. intros r.
    symmetry. apply res4_count_items.
  Qed.

  Lemma split_metrics_l_full size (ms : list (metric I)) : split_metrics_l size size ms = ([], ms, size).
  Proof. induction ms as [|x xs IH]; simpl; auto. rewrite Nat.eqb_refl, IH. reflexivity. Qed.

  Lemma split_metrics_l_spec rc sc size : forall (ms : list (metric I)) total d k t, total <= size ->
    split_metrics_l size total ms = (d, k, t) ->
    flat_map (items_metric rc sc) d ++ flat_map (items_metric rc sc) k = flat_map (items_metric rc sc) ms
    /\ t = total + list_sum (map metric_count d)
    /\ t = Nat.min size (total + list_sum (map metric_count ms)).
  Proof.
    induction ms as [|m rest IH]; intros total d k t Hle E; simpl in E.
    - inversion E; subst. simpl. repeat split; lia.
    - destruct (Nat.eqb_spec total size) as [->|Hne].
      + rewrite split_metrics_l_full in E. inversion E; subst. simpl. repeat split; lia.
      + destruct (Nat.leb_spec (metric_count m + total) size) as [Hfit|Hcut].
        * destruct (split_metrics_l size (total + metric_count m) rest) as [[d' k'] t'] eqn:E'.
          inversion E; subst. destruct (fun H => IH _ _ _ _ H E') as (A & B & C); [lia|].
          simpl. rewrite <- app_assoc, A. repeat split; lia.
        * destruct (split_metric m (size - total)) as [[[dm sm] copied] remove] eqn:E1.
          destruct (fun H => split_metric_spec rc sc m H E1) as (F1 & F2 & F3 & F4 & F5 & F6); [lia|].
          subst copied remove. cbn beta iota in E. replace (total + (size - total)) with size in E by lia.
          rewrite split_metrics_l_full in E. inversion E; subst d k t. simpl.
          rewrite app_nil_r, app_assoc, F6. repeat split; lia.
  Qed.

  Lemma split_scopes4_full size (ss : list (scope4 I)) : split_scopes4 size size ss = ([], ss, size).
  Proof. induction ss as [|x xs IH]; simpl; auto. rewrite Nat.eqb_refl, IH. reflexivity. Qed.

  Lemma split_scopes4_spec rc size : forall (ss : list (scope4 I)) total d k t, total <= size ->
    split_scopes4 size total ss = (d, k, t) ->
    flat_map (items_scope4 rc) d ++ flat_map (items_scope4 rc) k = flat_map (items_scope4 rc) ss
    /\ t = total + list_sum (map scope4_count d)
    /\ t = Nat.min size (total + list_sum (map scope4_count ss)).
  Proof.
    induction ss as [|s rest IH]; intros total d k t Hle E; simpl in E.
    - inversion E; subst. simpl. repeat split; lia.
    - destruct (Nat.eqb_spec total size) as [->|Hne].
      + rewrite split_scopes4_full in E. inversion E; subst. simpl. repeat split; lia.
      + destruct (Nat.leb_spec (scope4_count s + total) size) as [Hfit|Hcut].
        * destruct (split_scopes4 size (total + scope4_count s) rest) as [[d' k'] t'] eqn:E'.
          inversion E; subst. destruct (fun H => IH _ _ _ _ H E') as (A & B & C); [lia|].
          simpl. rewrite <- app_assoc, A. repeat split; lia.
        * destruct (split_metrics_l size total (snd s)) as [[m kept] t1] eqn:E1.
          destruct (split_metrics_l_spec rc (fst s) _ Hle E1) as (A1 & B1 & C1).
          assert (t1 = size) by (unfold scope4_count in Hcut; lia). rewrite H in E. cbn beta iota in E.
          rewrite split_scopes4_full in E. inversion E; subst d k t. cbn [flat_map map list_sum].
          unfold items_scope4, scope4_count in *. simpl.
          rewrite <- A1, app_nil_r, <- app_assoc. repeat split; lia.
  Qed.

  Lemma split_res4_full size (rs : list (res4 I)) : split_res4 size size rs = ([], rs, size).
  Proof. induction rs as [|x xs IH]; simpl; auto. rewrite Nat.eqb_refl, IH. reflexivity. Qed.

  Lemma split_res4_spec size : forall (rs : list (res4 I)) total d k t, total <= size ->
    split_res4 size total rs = (d, k, t) ->
    items4 d ++ items4 k = items4 rs
    /\ t = total + count4 d
    /\ t = Nat.min size (total + count4 rs).
  Proof.
    unfold items4, count4.
    induction rs as [|r rest IH]; intros total d k t Hle E; simpl in E.
    - inversion E; subst. simpl. repeat split; lia.
    - destruct (Nat.eqb_spec total size) as [->|Hne].
      + rewrite split_res4_full in E. inversion E; subst. simpl. repeat split; lia.
      + destruct (Nat.leb_spec (total + res4_count r) size) as [Hfit|Hcut].
        * destruct (split_res4 size (total + res4_count r) rest) as [[d' k'] t'] eqn:E'.
          inversion E; subst. destruct (fun H => IH _ _ _ _ H E') as (A & B & C); [lia|].
          simpl. rewrite <- app_assoc, A. repeat split; lia.
        * destruct (split_scopes4 size total (snd r)) as [[ds ks] t1] eqn:E1.
          destruct (split_scopes4_spec (fst r) _ Hle E1) as (A1 & B1 & C1).
          assert (t1 = size) by (unfold res4_count in Hcut; lia). rewrite H in E. cbn beta iota in E.
          rewrite split_res4_full in E.
          assert (Hk : flat_map items_res4 (if Nat.eqb (length ks) 0 then rest else (fst r, ks) :: rest)
                       = flat_map (items_scope4 (fst r)) ks ++ flat_map items_res4 rest).
          { destruct ks; simpl; reflexivity. }
          inversion E; subst d k t. rewrite Hk. simpl. unfold items_res4 at 1 3. simpl.
          rewrite app_nil_r, app_assoc, A1. unfold res4_count at 1. simpl. repeat split; lia.
  Qed.

  Lemma split_metrics_fits size (p : payload4 I) : count4 p <= size -> split_metrics size p = (p, p).
  Proof. intros H. unfold split_metrics. destruct (Nat.leb_spec (count4 p) size); [reflexivity|lia]. Qed.

  Lemma split_metrics_cuts size (p : payload4 I) : size < count4 p ->
    items4 (fst (split_metrics size p)) ++ items4 (snd (split_metrics size p)) = items4 p
    /\ count4 (fst (split_metrics size p)) = size.
  Proof.
    intros H. unfold split_metrics. destruct (Nat.leb_spec (count4 p) size); [lia|].
    destruct (split_res4 size 0 p) as [[d k] t] eqn:E.
    destruct (split_res4_spec p (Nat.le_0_l size) E) as (A & B & C). simpl. split; [exact A|lia].
  Qed.

  Lemma items4_app (a b : payload4 I) : items4 (a ++ b) = items4 a ++ items4 b.
  Proof. apply flat_map_app. Qed.
End Split4.
