(* C17/Model.v — executable model of processor/batchprocessor (as it is in /repo NOW, i.e. after
   the repair 9eada89cd of F10).  Definitions only, no proofs.

   Code modelled, function by function:
     splitlogs.go      splitLogs, resourceLRC                       -> split_logs, res3_count
     splittraces.go    splitTraces, resourceSC  (token-for-token splitlogs.go modulo renaming;
                       the correspondence run exercises it separately)   -> split_traces
     splitmetrics.go   splitMetrics, resourceMetricsDPC, scopeMetricsDPC, metricDPC, splitMetric,
                       split{Number,Histogram,ExponentialHistogram,Summary}DataPoints
                                                                       -> split_metrics, ...
     batch_processor.go batch{Logs,Traces,Metrics}.add/split/itemCount -> b_add, b_split
                       shard.startLoop/processItem/sendItems/stopTimer/resetTimer
                                                                       -> sh_recv, sh_timer, sh_seen
                       newBatchProcessor (key lower-casing), singleShardBatcher.consume,
                       multiShardBatcher.consume (attribute set, cardinality limit), newShard
                                                                       -> bp_init, bp_consume
     config.go         Config.Validate                                 -> validate
     client/client.go  NewMetadata, Metadata.Get                       -> md_new, md_get

   Abstractions (trusted, see NOTES.md): a Resource / InstrumentationScope message is one opaque
   value [N], a schema URL another; an item (log record, span, data point) is an opaque value of
   an arbitrary type [I] that the code never inspects (all functions are parametric in it).
   Time is logical ([Z]); the labels of the transition system carry the time at which they happen. *)
From Verif Require Import Common.Base.
From Coq Require Import Ascii.
From Coq Require String.

Set Implicit Arguments.

(* ============================================================================================ *)
(* 1. payload trees and the three count-based splits                                             *)
(* ============================================================================================ *)
Definition ctx := (N * N)%type.     (* (the Resource or Scope message, its schema URL) *)

(* metric identity: everything of a pmetric.Metric except its data points *)
Inductive mkind :=
| MEmpty | MGauge
| MSum (temporality : N) (monotonic : bool)
| MHistogram (temporality : N)
| MExpHistogram (temporality : N)
| MSummary.
Inductive mident := MI (name desc unit meta : N) (kind : mkind).
Definition mi_kind (m : mident) : mkind := let 'MI _ _ _ _ k := m in k.

Section Payload.
  Context {I : Type}.

  (* ---- logs and traces: resource -> scope -> record ------------------------------------------ *)
  Definition scope3 := (ctx * list I)%type.
  Definition res3 := (ctx * list scope3)%type.
  Definition payload3 := list res3.

  Definition scope3_count (s : scope3) : nat := length (snd s).                 (* LogRecords().Len() *)
  Definition res3_count (r : res3) : nat := list_sum (map scope3_count (snd r)). (* resourceLRC / resourceSC *)
  Definition count3 (p : payload3) : nat := list_sum (map res3_count p).         (* LogRecordCount / SpanCount *)

  (* innermost RemoveIf: (moved to dest, left in src, totalCopied) *)
  Fixpoint split_recs (size total : nat) (rs : list I) : list I * list I * nat :=
    match rs with
    | [] => ([], [], total)
    | x :: xs =>
        if Nat.eqb total size then                         (* "If we are done skip everything else." *)
          let '(m, k, t) := split_recs size total xs in (m, x :: k, t)
        else
          let '(m, k, t) := split_recs size (S total) xs in (x :: m, k, t)
    end.

  Fixpoint split_scopes3 (size total : nat) (ss : list scope3) : list scope3 * list scope3 * nat :=
    match ss with
    | [] => ([], [], total)
    | s :: rest =>
        if Nat.eqb total size then
          let '(d, k, t) := split_scopes3 size total rest in (d, s :: k, t)
        else if Nat.leb (scope3_count s + total) size then      (* whole scope fits: MoveTo *)
          let '(d, k, t) := split_scopes3 size (total + scope3_count s) rest in (s :: d, k, t)
        else                                                    (* cut inside the scope *)
          let '(m, kept, t1) := split_recs size total (snd s) in
          let '(d, k, t) := split_scopes3 size t1 rest in
          ((fst s, m) :: d, (fst s, kept) :: k, t)              (* Scope + SchemaUrl copied; return false *)
    end.

  Fixpoint split_res3 (size total : nat) (rs : list res3) : list res3 * list res3 * nat :=
    match rs with
    | [] => ([], [], total)
    | r :: rest =>
        if Nat.eqb total size then
          let '(d, k, t) := split_res3 size total rest in (d, r :: k, t)
        else if Nat.leb (total + res3_count r) size then        (* whole resource fits: MoveTo *)
          let '(d, k, t) := split_res3 size (total + res3_count r) rest in (r :: d, k, t)
        else                                                    (* cut inside the resource *)
          let '(ds, ks, t1) := split_scopes3 size total (snd r) in
          let '(d, k, t) := split_res3 size t1 rest in
          ((fst r, ds) :: d,                                    (* Resource + SchemaUrl copied *)
           (if Nat.eqb (length ks) 0 then k else (fst r, ks) :: k),   (* return ScopeLogs().Len() == 0 *)
           t)
    end.

  (* splitLogs(size, src) = (returned value, src afterwards).  When everything fits the function
     returns src ITSELF (no copy, src keeps everything): modelled as (src, src). *)
  Definition split_logs (size : nat) (src : payload3) : payload3 * payload3 :=
    if Nat.leb (count3 src) size then (src, src)
    else let '(d, k, _) := split_res3 size 0 src in (d, k).

  Definition split_traces := split_logs.

  (* ---- metrics: resource -> scope -> metric -> data point --------------------------------------- *)
  Definition metric := (mident * list I)%type.
  Definition scope4 := (ctx * list metric)%type.
  Definition res4 := (ctx * list scope4)%type.
  Definition payload4 := list res4.

  (* an empty-typed metric has no data-point slice at all *)
  Definition mpoints (m : metric) : list I :=
    match mi_kind (fst m) with MEmpty => [] | _ => snd m end.

  Definition metric_count (m : metric) : nat := length (mpoints m).                   (* metricDPC *)
  Definition scope4_count (s : scope4) : nat := list_sum (map metric_count (snd s)).  (* scopeMetricsDPC *)
  Definition res4_count (r : res4) : nat := list_sum (map scope4_count (snd r)).      (* resourceMetricsDPC *)
  Definition count4 (p : payload4) : nat := list_sum (map res4_count p).              (* DataPointCount *)

  (* split*DataPoints: RemoveIf with the counter i *)
  Fixpoint split_dps (size i : nat) (ps : list I) : list I * list I :=
    match ps with
    | [] => ([], [])
    | p :: r =>
        if Nat.ltb i size then let '(m, k) := split_dps size (S i) r in (p :: m, k)
        else let '(m, k) := split_dps size i r in (m, p :: k)
    end.

  (* splitMetric(ms, dest, size) = (dest, ms afterwards, returned count, returned remove flag) *)
  Definition split_metric (m : metric) (size : nat) : metric * metric * nat * bool :=
    let 'MI name desc unit meta kind := fst m in
    match kind with
    | MEmpty => ((MI name desc unit meta MEmpty, []), m, size, false)
    | MGauge =>
        let '(mv, kp) := split_dps size 0 (snd m) in
        ((MI name desc unit meta MGauge, mv), (fst m, kp), size, false)
    | MSum t mono =>
        let '(mv, kp) := split_dps size 0 (snd m) in
        ((MI name desc unit meta (MSum t mono), mv), (fst m, kp), size, false)
    | MHistogram t =>
        let '(mv, kp) := split_dps size 0 (snd m) in
        ((MI name desc unit meta (MHistogram t), mv), (fst m, kp), size, false)
    | MExpHistogram t =>
        let '(mv, kp) := split_dps size 0 (snd m) in
        ((MI name desc unit meta (MExpHistogram t), mv), (fst m, kp), size, false)
    | MSummary =>
        let '(mv, kp) := split_dps size 0 (snd m) in
        ((MI name desc unit meta MSummary, mv), (fst m, kp), size, false)
    end.

  Fixpoint split_metrics_l (size total : nat) (ms : list metric) : list metric * list metric * nat :=
    match ms with
    | [] => ([], [], total)
    | m :: rest =>
        if Nat.eqb total size then
          let '(d, k, t) := split_metrics_l size total rest in (d, m :: k, t)
        else if Nat.leb (metric_count m + total) size then
          let '(d, k, t) := split_metrics_l size (total + metric_count m) rest in (m :: d, k, t)
        else
          let '(dm, sm, copied, remove) := split_metric m (size - total) in
          let '(d, k, t) := split_metrics_l size (total + copied) rest in
          (dm :: d, (if remove then k else sm :: k), t)
    end.

  Fixpoint split_scopes4 (size total : nat) (ss : list scope4) : list scope4 * list scope4 * nat :=
    match ss with
    | [] => ([], [], total)
    | s :: rest =>
        if Nat.eqb total size then
          let '(d, k, t) := split_scopes4 size total rest in (d, s :: k, t)
        else if Nat.leb (scope4_count s + total) size then
          let '(d, k, t) := split_scopes4 size (total + scope4_count s) rest in (s :: d, k, t)
        else
          let '(m, kept, t1) := split_metrics_l size total (snd s) in
          let '(d, k, t) := split_scopes4 size t1 rest in
          ((fst s, m) :: d, (fst s, kept) :: k, t)
    end.

  Fixpoint split_res4 (size total : nat) (rs : list res4) : list res4 * list res4 * nat :=
    match rs with
    | [] => ([], [], total)
    | r :: rest =>
        if Nat.eqb total size then
          let '(d, k, t) := split_res4 size total rest in (d, r :: k, t)
        else if Nat.leb (total + res4_count r) size then
          let '(d, k, t) := split_res4 size (total + res4_count r) rest in (r :: d, k, t)
        else
          let '(ds, ks, t1) := split_scopes4 size total (snd r) in
          let '(d, k, t) := split_res4 size t1 rest in
          ((fst r, ds) :: d, (if Nat.eqb (length ks) 0 then k else (fst r, ks) :: k), t)
    end.

  Definition split_metrics (size : nat) (src : payload4) : payload4 * payload4 :=
    if Nat.leb (count4 src) size then (src, src)
    else let '(d, k, _) := split_res4 size 0 src in (d, k).

  (* ---- what "an item with its identity" is (used by the theorems and the harness) --------------- *)
  Definition item3 := (I * (ctx * ctx))%type.                    (* item, (resource, scope) *)
  Definition items_scope3 (rc : ctx) (s : scope3) : list item3 := map (fun x => (x, (rc, fst s))) (snd s).
  Definition items_res3 (r : res3) : list item3 := flat_map (items_scope3 (fst r)) (snd r).
  Definition items3 (p : payload3) : list item3 := flat_map items_res3 p.

  Definition item4 := (I * (ctx * ctx * mident))%type.           (* point, (resource, scope, metric identity) *)
  Definition items_metric (rc sc : ctx) (m : metric) : list item4 := map (fun x => (x, (rc, sc, fst m))) (mpoints m).
  Definition items_scope4 (rc : ctx) (s : scope4) : list item4 := flat_map (items_metric rc (fst s)) (snd s).
  Definition items_res4 (r : res4) : list item4 := flat_map (items_scope4 (fst r)) (snd r).
  Definition items4 (p : payload4) : list item4 := flat_map items_res4 p.
End Payload.

Arguments payload3 : clear implicits.
Arguments payload4 : clear implicits.
Arguments item3 : clear implicits.
Arguments item4 : clear implicits.
Arguments res3 : clear implicits.
Arguments res4 : clear implicits.
Arguments scope3 : clear implicits.
Arguments scope4 : clear implicits.
Arguments metric : clear implicits.

(* ============================================================================================ *)
(* 2. configuration, client metadata                                                             *)
(* ============================================================================================ *)
Definition str := String.string.

Record cfg := Cfg {
  c_timeout : Z;             (* Timeout, in logical time units *)
  c_size : nat;              (* SendBatchSize *)
  c_max : nat;               (* SendBatchMaxSize *)
  c_keys : list str;         (* MetadataKeys *)
  c_limit : nat              (* MetadataCardinalityLimit *)
}.

(* strings.ToLower on ASCII *)
Definition lower_ascii (a : ascii) : ascii :=
  let n := nat_of_ascii a in
  if Nat.leb 65 n && Nat.leb n 90 then ascii_of_nat (n + 32) else a.
Fixpoint lower (s : str) : str :=
  match s with
  | String.EmptyString => String.EmptyString
  | String.String a r => String.String (lower_ascii a) (lower r)
  end.

Fixpoint has_dup (l : list str) : bool :=
  match l with
  | [] => false
  | x :: r => existsb (String.eqb x) r || has_dup r
  end.

(* Config.Validate: 0 = nil, 1 = max < size, 2 = duplicate key, 3 = negative timeout.
   (The Go loop reports the first key that repeats an EARLIER one; only the class is modelled.) *)
Definition validate (c : cfg) : N :=
  if Nat.ltb 0 (c_max c) && Nat.ltb (c_max c) (c_size c) then 1%N
  else if has_dup (map lower (c_keys c)) then 2%N
  else if Z.ltb (c_timeout c) 0 then 3%N
  else 0%N.

(* client metadata: key -> list of values (values are opaque [N]) *)
Definition metadata := list (str * list N).

(* client.NewMetadata: keys lower-cased.  (Two incoming keys that differ only by case collide in
   Go map iteration order; the harness never generates that.) *)
Definition md_new (md : metadata) : metadata := map (fun kv => (lower (fst kv), snd kv)) md.

(* Metadata.Get: case-insensitive; nil when absent or empty *)
Fixpoint md_lookup (k : str) (md : metadata) : list N :=
  match md with
  | [] => []
  | (k', v) :: r => if String.eqb k k' then v else md_lookup k r
  end.
Definition md_get (md : metadata) (k : str) : list N := md_lookup (lower k) md.

(* one attribute.KeyValue of the shard-identifying set: String when there is exactly one value,
   StringSlice otherwise *)
Inductive attr := AString (v : N) | ASlice (vs : list N).
Definition attr_of (vs : list N) : attr := match vs with [v] => AString v | _ => ASlice vs end.

Definition N_list_eqb := list_eqb N.eqb.
Definition attr_eqb (a b : attr) : bool :=
  match a, b with
  | AString x, AString y => N.eqb x y
  | ASlice x, ASlice y => N_list_eqb x y
  | _, _ => false
  end.
Definition aset := list attr.    (* one attribute per configured key, in the order of the keys *)
Definition aset_eqb := list_eqb attr_eqb.

(* newBatchProcessor: mks = lower-cased keys.  (sort.Strings and attribute.NewSet only fix a
   canonical order of the keys; the model keeps the configured order — unobservable for
   duplicate-free keys, which Validate guarantees.) *)
Definition mks (c : cfg) : list str := map lower (c_keys c).

(* ============================================================================================ *)
(* 3. one shard                                                                                  *)
(* ============================================================================================ *)
Section Shard.
  Context {R : Type}.                               (* resource-level element: the payload is [list R] *)
  Variable count : list R -> nat.                   (* LogRecordCount / SpanCount / DataPointCount *)
  Variable split : nat -> list R -> list R * list R. (* splitLogs / splitTraces / splitMetrics *)
  Variable c : cfg.

  (* batchLogs / batchTraces / batchMetrics: the data and the item counter kept beside it *)
  Record batch := Batch { b_data : list R; b_n : nat }.

  Definition b_add (b : batch) (p : list R) : batch :=
    let n := count p in
    if Nat.eqb n 0 then b else Batch (b_data b ++ p) (b_n b + n).

  (* split(sendBatchMaxSize) = (sent, req, batch afterwards) *)
  Definition b_split (b : batch) : nat * list R * batch :=
    if Nat.ltb 0 (c_max c) && Nat.ltb (c_max c) (b_n b) then
      let '(d, k) := split (c_max c) (b_data b) in (c_max c, d, Batch k (b_n b - c_max c))
    else (b_n b, b_data b, Batch [] 0).

  Record shard := Shard {
    s_md : list (list N);          (* the values of the configured keys this shard was created for
                                      (its export context carries exactly mks -> these values) *)
    s_chan : list (list R);        (* newItem channel, oldest first *)
    s_batch : batch;
    s_deadline : Z;                (* when the timer fires next (meaningful iff has_timer) *)
    s_done : bool;                 (* the goroutine has returned *)
    s_in : list (Z * list R);      (* history: items taken from the channel so far: (time, item), oldest first *)
    s_out : list (Z * list R)      (* history: export calls so far: (time, request), oldest first *)
  }.

  Definition has_timer : bool := negb (Z.eqb (c_timeout c) 0) && negb (Nat.eqb (c_size c) 0).

  Definition new_shard (now : Z) (md : list (list N)) : shard :=
    Shard md [] (Batch [] 0) (now + c_timeout c) false [] [].

  Definition set_chan (ch : list (list R)) (s : shard) : shard :=
    Shard (s_md s) ch (s_batch s) (s_deadline s) (s_done s) (s_in s) (s_out s).
  Definition set_deadline (d : Z) (s : shard) : shard :=
    Shard (s_md s) (s_chan s) (s_batch s) d (s_done s) (s_in s) (s_out s).
  Definition set_done (s : shard) : shard :=
    Shard (s_md s) (s_chan s) (s_batch s) (s_deadline s) true (s_in s) (s_out s).

  (* sendItems: split, export.  The verdict of the downstream consumer does not influence the
     shard (an error is only logged), so every export call is simply recorded. *)
  Definition send_items (now : Z) (s : shard) : shard :=
    let '(_, req, b') := b_split (s_batch s) in
    Shard (s_md s) (s_chan s) b' (s_deadline s) (s_done s) (s_in s) (s_out s ++ [(now, req)]).

  (* the for loop of processItem; fuel bounds the number of iterations (b_n + 1 suffices) *)
  Fixpoint send_loop (fuel : nat) (now : Z) (s : shard) : shard * bool :=
    match fuel with
    | 0 => (s, false)
    | S f =>
        let n := b_n (s_batch s) in
        if Nat.ltb 0 n && (negb has_timer || Nat.leb (c_size c) n) then
          (fst (send_loop f now (send_items now s)), true)
        else (s, false)
    end.

  (* processItem: add, send while the size condition holds, then stopTimer + resetTimer if sent *)
  Definition process_item (now : Z) (s : shard) (p : list R) : shard :=
    let s1 := Shard (s_md s) (s_chan s) (b_add (s_batch s) p) (s_deadline s) (s_done s)
                    (s_in s ++ [(now, p)]) (s_out s) in
    let '(s2, sent) := send_loop (S (b_n (s_batch s1))) now s1 in
    if sent && has_timer then set_deadline (now + c_timeout c) s2 else s2.

  (* producer side of consume: the send on the newItem channel *)
  Definition sh_enqueue (s : shard) (p : list R) : shard := set_chan (s_chan s ++ [p]) s.

  (* select case item := <-b.newItem *)
  Definition sh_recv (now : Z) (s : shard) : shard :=
    if s_done s then s else
    match s_chan s with
    | [] => s
    | p :: r => process_item now (set_chan r s) p
    end.

  (* select case <-timerCh (only exists when there is a timer) *)
  Definition sh_timer (now : Z) (s : shard) : shard :=
    if s_done s || negb has_timer || Z.ltb now (s_deadline s) then s else   (* a timer never fires early *)
    let s1 := if Nat.ltb 0 (b_n (s_batch s)) then send_items now s else s in
    set_deadline (now + c_timeout c) s1.

  (* select case <-shutdownC: drain the channel, one last send, return *)
  Definition sh_seen (now : Z) (s : shard) : shard :=
    if s_done s then s else
    let s1 := fold_left (process_item now) (s_chan s) (set_chan [] s) in
    let s2 := if Nat.ltb 0 (b_n (s_batch s1)) then send_items now s1 else s1 in
    set_done s2.

  (* ========================================================================================== *)
  (* 4. the processor: shards by metadata                                                        *)
  (* ========================================================================================== *)
  Definition bp := list shard.       (* in creation order *)

  (* newBatchProcessor + Start: without metadata keys the single shard exists from the start *)
  Definition bp_init (now : Z) : bp :=
    match mks c with [] => [new_shard now []] | _ => [] end.

  Definition md_values (md : metadata) : list (list N) := map (md_get (md_new md)) (mks c).
  Definition aset_of (vals : list (list N)) : aset := map attr_of vals.

  Fixpoint find_shard (a : aset) (ss : list shard) : option nat :=
    match ss with
    | [] => None
    | s :: r => if aset_eqb (aset_of (s_md s)) a then Some 0
                else option_map S (find_shard a r)
    end.

  Fixpoint upd_nth {A} (n : nat) (f : A -> A) (l : list A) : list A :=
    match l, n with
    | [], _ => []
    | x :: r, 0 => f x :: r
    | x :: r, S m => x :: upd_nth m f r
    end.

  (* the section of multiShardBatcher.consume under mb.lock, entered after batchers.Load missed:
     limit check FIRST, then LoadOrStore (which may find a shard that another producer created
     between this producer's Load and its Lock) *)
  Definition bp_consume_locked (now : Z) (vals : list (list N)) (p : list R) (st : bp) : bp * N :=
    if negb (Nat.eqb (c_limit c) 0) && Nat.leb (c_limit c) (length st) then (st, 1%N)   (* errTooManyBatchers *)
    else match find_shard (aset_of vals) st with
         | Some i => (upd_nth i (fun s => sh_enqueue s p) st, 0%N)                        (* loaded *)
         | None => (st ++ [sh_enqueue (new_shard now vals) p], 0%N)                       (* stored + started *)
         end.

  (* consume(ctx, data) = (state, error class: 0 nil / 1 errTooManyBatchers); the whole call as one
     atomic step (Load, locked section, channel send) *)
  Definition bp_consume (now : Z) (md : metadata) (p : list R) (st : bp) : bp * N :=
    match mks c with
    | [] => (upd_nth 0 (fun s => sh_enqueue s p) st, 0%N)              (* singleShardBatcher *)
    | _ =>
        let vals := md_values md in
        match find_shard (aset_of vals) st with
        | Some i => (upd_nth i (fun s => sh_enqueue s p) st, 0%N)      (* batchers.Load hit *)
        | None => bp_consume_locked now vals p st
        end
    end.

  (* the same call when its lock-free Load happened EARLIER and missed (another producer may have
     created the shard meanwhile): only the locked section and the send happen now.  Allowing this
     label at any time over-approximates the real schedules (a stale miss needs the shard to have
     been absent at Load time), which is sound for the universally quantified theorems. *)
  Definition bp_consume_stale (now : Z) (md : metadata) (p : list R) (st : bp) : bp * N :=
    match mks c with
    | [] => (upd_nth 0 (fun s => sh_enqueue s p) st, 0%N)
    | _ => bp_consume_locked now (md_values md) p st
    end.

  (* labels of the transition system; every label carries the time at which it happens *)
  Inductive label :=
  | LConsume (now : Z) (md : metadata) (p : list R)    (* a producer's Consume call (atomic: lookup + channel send) *)
  | LConsumeStale (now : Z) (md : metadata) (p : list R)   (* a Consume call whose Load missed earlier: locked section + send *)
  | LRecv (now : Z) (i : nat)                          (* shard i receives the next item of its channel *)
  | LTimer (now : Z) (i : nat)                         (* shard i's timer fires *)
  | LSeen (now : Z) (i : nat).                         (* shard i notices the closed shutdown channel *)

  Definition bp_step (st : bp * list N) (l : label) : bp * list N :=
    match l with
    | LConsume now md p => let '(st', e) := bp_consume now md p (fst st) in (st', snd st ++ [e])
    | LConsumeStale now md p => let '(st', e) := bp_consume_stale now md p (fst st) in (st', snd st ++ [e])
    | LRecv now i => (upd_nth i (sh_recv now) (fst st), snd st)
    | LTimer now i => (upd_nth i (sh_timer now) (fst st), snd st)
    | LSeen now i => (upd_nth i (sh_seen now) (fst st), snd st)
    end.

  (* run from construction at time t0: final shards and the results of the Consume calls *)
  Definition bp_run (t0 : Z) (ls : list label) : bp * list N := fold_left bp_step ls (bp_init t0, []).
End Shard.

(* the three signals *)
Definition logs_run {I} := @bp_run (res3 I) (@count3 I) (@split_logs I).
Definition traces_run {I} := @bp_run (res3 I) (@count3 I) (@split_traces I).
Definition metrics_run {I} := @bp_run (res4 I) (@count4 I) (@split_metrics I).
