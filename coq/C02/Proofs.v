(* C02/Proofs.v — infrastructure, the token invariant of cond.go and the size accounting. *)
From Verif Require Import Common.Base C02.Model.
Require Import ZifyBool.
Local Open Scope Z_scope.

(* ---- runs ------------------------------------------------------------------------------------ *)
Lemma run_app c ls1 : forall s ls2,
  run c s (ls1 ++ ls2) = match run c s ls1 with Some s' => run c s' ls2 | None => None end.
Proof.
  induction ls1 as [|l ls1 IH]; intros s ls2; simpl; [reflexivity|].
  destruct (step c s l) as [[s' z]|]; [apply IH|reflexivity].
Qed.

Definition reachP (P : label -> Prop) (c : cfg) (s : st) : Prop :=
  exists ls, Forall P ls /\ run c init ls = Some s.

Lemma reachP_init P c : reachP P c init.
Proof. exists []. split; [constructor|reflexivity]. Qed.

Lemma reachP_step P c s l s' z :
  reachP P c s -> P l -> step c s l = Some (s', z) -> reachP P c s'.
Proof.
  intros [ls [HF HR]] HP HS. exists (ls ++ [l]). split.
  - apply Forall_app. split; [exact HF|constructor; [exact HP|constructor]].
  - rewrite run_app, HR. simpl. rewrite HS. reflexivity.
Qed.

Lemma reachP_ind (P : label -> Prop) c (I : st -> Prop) :
  I init ->
  (forall s l s' z, reachP P c s -> I s -> P l -> step c s l = Some (s', z) -> I s') ->
  forall s, reachP P c s -> I s.
Proof.
  intros H0 HS s [ls [HF HR]]. revert s HF HR.
  induction ls as [|l ls IH] using rev_ind; intros s HF HR.
  - simpl in HR. inversion HR. subst. exact H0.
  - apply Forall_app in HF. destruct HF as [HF Hl]. inversion Hl as [|? ? Pl _]; subst.
    rewrite run_app in HR. destruct (run c init ls) as [s0|] eqn:E; [|discriminate].
    simpl in HR. destruct (step c s0 l) as [[s1 z]|] eqn:E1; [|discriminate].
    inversion HR; subst. eapply HS; [exists ls; split; [exact HF|exact E]|apply IH; auto|exact Pl|exact E1].
Qed.

Lemma reachP_mono (P Q : label -> Prop) c s : (forall l, P l -> Q l) -> reachP P c s -> reachP Q c s.
Proof. intros H [ls [HF HR]]. exists ls. split; [eapply Forall_impl; eauto|exact HR]. Qed.

Lemma reachable_is_reachP c s : reachable c s <-> reachP (wf_label c) c s.
Proof. reflexivity. Qed.
Lemma reachable_fit_is_reachP c s :
  reachable_fit c s <-> reachP (fun l => wf_label c l /\ fit_label c l) c s.
Proof. reflexivity. Qed.
Lemma reachable_fit_reachable c s : reachable_fit c s -> reachable c s.
Proof. apply reachP_mono. intros l [H _]. exact H. Qed.

(* ---- thread map -------------------------------------------------------------------------------- *)
Lemma pget_pset_eq p v m : pget p (pset p v m) = Some v.
Proof.
  induction m as [|[q w] m IH]; simpl.
  - rewrite Nat.eqb_refl. reflexivity.
  - destruct (Nat.eqb q p) eqn:E; simpl; rewrite E; auto.
Qed.

Lemma pget_pset_neq p q v m : p <> q -> pget p (pset q v m) = pget p m.
Proof.
  intros N. induction m as [|[r w] m IH]; simpl.
  - destruct (Nat.eqb q p) eqn:E; [apply Nat.eqb_eq in E; congruence|reflexivity].
  - destruct (Nat.eqb r q) eqn:E; simpl.
    + apply Nat.eqb_eq in E. subst r. destruct (Nat.eqb q p) eqn:E2; [apply Nat.eqb_eq in E2; congruence|reflexivity].
    + destruct (Nat.eqb r p); auto.
Qed.

Lemma pget_pset p q v m : pget p (pset q v m) = if Nat.eqb q p then Some v else pget p m.
Proof.
  destruct (Nat.eqb q p) eqn:E.
  - apply Nat.eqb_eq in E. subst. apply pget_pset_eq.
  - apply pget_pset_neq. intros ->. rewrite Nat.eqb_refl in E. discriminate.
Qed.

Lemma cnt_nonneg f m : 0 <= cnt f m.
Proof. induction m as [|[q w] m IH]; simpl; [lia|]. destruct (f w); lia. Qed.

Lemma cnt_ge_of_pget f p m v : pget p m = Some v -> f v = true -> 1 <= cnt f m.
Proof.
  induction m as [|[q w] m IH]; simpl; [discriminate|].
  destruct (Nat.eqb q p); intros H F.
  - inversion H; subst. rewrite F. pose proof (cnt_nonneg f m). lia.
  - specialize (IH H F). destruct (f w); lia.
Qed.

Lemma cnt_pset_some f p v m o :
  pget p m = Some o -> cnt f (pset p v m) = cnt f m - b2z (f o) + b2z (f v).
Proof.
  induction m as [|[q w] m IH]; simpl; [discriminate|].
  destruct (Nat.eqb q p) eqn:E; intros H.
  - inversion H; subst. simpl. unfold b2z. destruct (f o), (f v); lia.
  - simpl. rewrite (IH H). lia.
Qed.

Lemma cnt_pset_none f p v m :
  pget p m = None -> cnt f (pset p v m) = cnt f m + b2z (f v).
Proof.
  induction m as [|[q w] m IH]; simpl; intros H.
  - unfold b2z. destruct (f v); lia.
  - destruct (Nat.eqb q p) eqn:E; [discriminate|]. simpl. rewrite (IH H). lia.
Qed.

Lemma pget_none_notin p m : pget p m = None -> ~ In p (map fst m).
Proof.
  induction m as [|[q w] m IH]; simpl; [tauto|].
  destruct (Nat.eqb q p) eqn:E; [discriminate|]. intros H [->|H1].
  - rewrite Nat.eqb_refl in E. discriminate.
  - exact (IH H H1).
Qed.

Lemma keys_pset p v m : map fst (pset p v m) = if pget p m then map fst m else map fst m ++ [p].
Proof.
  induction m as [|[q w] m IH]; simpl; [reflexivity|].
  destruct (Nat.eqb q p) eqn:E; simpl.
  - apply Nat.eqb_eq in E. subst. reflexivity.
  - rewrite IH. destruct (pget p m); reflexivity.
Qed.

Lemma cnt_pos_ex f m : NoDup (map fst m) -> 0 < cnt f m -> exists p v, pget p m = Some v /\ f v = true.
Proof.
  induction m as [|[q w] m IH]; simpl; [lia|]. intros ND H. inversion ND as [|? ? Hq ND']; subst.
  destruct (f w) eqn:E.
  - exists q, w. rewrite Nat.eqb_refl. auto.
  - destruct (IH ND') as [p [v [H1 H2]]]; [lia|].
    exists p, v. destruct (Nat.eqb q p) eqn:E2; [|auto].
    apply Nat.eqb_eq in E2. subst q. exfalso. apply Hq.
    clear - H1. induction m as [|[r u] m IH]; simpl in *; [discriminate|].
    destruct (Nat.eqb r p) eqn:E; [apply Nat.eqb_eq in E; auto|right; apply IH; exact H1].
Qed.

(* ---- projections of the setters ------------------------------------------------------------------ *)
Ltac ss := cbn [size items inflight stopped waiting tok sigs prods cancelled results acc hand fin pool held nobj pick cons corrupt dropped faulty
                set_size set_items set_inflight set_stopped set_waiting set_tok set_sigs set_prods
                set_cancelled set_results set_acc set_hand set_fin set_pool set_held set_nobj set_pick set_cons set_corrupt set_dropped set_faulty setp fst snd] in *.

(* destruct the innermost match of the goal *)
Ltac dmatch :=
  match goal with
  | |- context [match ?x with _ => _ end] =>
      lazymatch x with
      | context [match _ with _ => _ end] => fail
      | _ => destruct x eqn:?
      end
  end.

Ltac unfold_step :=
  unfold step, cread, cread_faulty, park, offer, try_add, enqueue, read, done, signal, handoff, find_res, pool_get, pool_put, bcast;
  cbn [size items inflight stopped waiting tok sigs prods cancelled results acc hand fin pool held nobj pick cons corrupt dropped faulty
       set_size set_items set_inflight set_stopped set_waiting set_tok set_sigs set_prods
       set_cancelled set_results set_acc set_hand set_fin set_pool set_held set_nobj set_pick set_cons set_corrupt set_dropped set_faulty];
  try match goal with NF : corrupt _ = [] |- _ => rewrite ?NF; cbv beta iota end;
  try match goal with NF2 : faulty _ = [] |- _ => rewrite ?NF2; cbn [find_id] end.

(* goal:  step c s l = Some (s', z) -> G s'   ==>  one goal per path through the code *)
Ltac step_cases :=
  unfold_step;
  repeat (dmatch; try (intros; discriminate));
  let H := fresh "Hst" in intros H; inversion H; subst; clear H; ss.

Ltac cnt_rw :=
  repeat match goal with
  | H : pget ?p ?m = Some ?o |- context [cnt ?f (pset ?p ?v ?m)] => rewrite (cnt_pset_some f p v m o H)
  | H : pget ?p ?m = None |- context [cnt ?f (pset ?p ?v ?m)] => rewrite (cnt_pset_none f p v m H)
  end;
  cbn [is_insel is_lefttok is_leftctx b2z].

(* ---- A. the counter invariant of cond.go (after fix a6d2b6d09) --------------------------------------------------
   #inside select + #took the bell, not yet re-locked + #left on ctx, not yet re-locked = waiting + signals;
   a wake-up that nobody has taken yet has the bell rung or somebody on the way to the mutex with it. *)
Definition tokinv (s : st) : Prop :=
  0 <= waiting s /\ 0 <= sigs s /\
  cnt is_insel (prods s) + cnt is_lefttok (prods s) + cnt is_leftctx (prods s) = waiting s + sigs s /\
  (0 < sigs s -> tok s = true \/ 0 < cnt is_lefttok (prods s)).

Lemma tokinv_init : tokinv init.
Proof. unfold tokinv. simpl. repeat split; try lia. Qed.

Lemma tokinv_step c s l s' z : tokinv s -> step c s l = Some (s', z) -> tokinv s'.
Proof.
  intros I H. revert I. unfold tokinv.
  pose proof (cnt_nonneg is_insel (prods s)) as N1.
  pose proof (cnt_nonneg is_leftctx (prods s)) as N2.
  pose proof (cnt_nonneg is_lefttok (prods s)) as N3.
  revert N1 N2 N3. revert H.
  step_cases; intros N1 N2 N3 (I1 & I2 & I3 & I4); cnt_rw;
    try match goal with
    | H : pget ?p (prods s) = Some (PLeftCtx ?sz) |- _ => pose proof (cnt_ge_of_pget is_leftctx _ _ _ H eq_refl)
    end;
    try match goal with
    | H : pget ?p (prods s) = Some (PLeftTok ?sz) |- _ => pose proof (cnt_ge_of_pget is_lefttok _ _ _ H eq_refl)
    end;
    unfold b2z in *;
    repeat split; try lia; try assumption; try reflexivity;
    try (intros; first [left; reflexivity | right; lia | destruct I4 as [?|?]; [lia|left; assumption|right; lia]]).
Qed.

(* ---- B. size accounting ------------------------------------------------------------------------------ *)
Definition wsz (v : pstate) : option Z :=
  match v with PInSelect sz | PLeftTok sz | PLeftCtx sz => Some sz | _ => None end.
Definition nonneg_l (l : list (nat * Z)) : Prop := Forall (fun x => 0 <= snd x) l.

Definition sizeinv (c : cfg) (s : st) : Prop :=
  0 <= size s <= cap c /\
  (kind c = Mem -> size s = sum_sz (items s) + sum_sz (inflight s)) /\
  size s <= sum_sz (items s) + sum_sz (inflight s) /\
  nonneg_l (items s) /\ nonneg_l (inflight s) /\
  (forall p v sz, pget p (prods s) = Some v -> wsz v = Some sz -> 0 < sz).

Lemma sum_sz_app l p sz : sum_sz (l ++ [(p, sz)]) = sum_sz l + sz.
Proof. unfold sum_sz. rewrite map_app, sumZ_app. simpl. lia. Qed.

Lemma find_remove_sum id l sz : find_id id l = Some sz -> sum_sz l = sz + sum_sz (remove_id id l).
Proof.
  unfold sum_sz. induction l as [|[q w] l IH]; simpl; [discriminate|].
  destruct (Nat.eqb q id); intros H.
  - inversion H. lia.
  - simpl. rewrite (IH H). lia.
Qed.

Lemma nonneg_remove id l : nonneg_l l -> nonneg_l (remove_id id l).
Proof.
  unfold nonneg_l. induction l as [|[q w] l IH]; simpl; intros H; [constructor|].
  inversion H; subst. destruct (Nat.eqb q id); [assumption|constructor; auto].
Qed.

Lemma nonneg_find id l sz : nonneg_l l -> find_id id l = Some sz -> 0 <= sz.
Proof.
  unfold nonneg_l. induction l as [|[q w] l IH]; simpl; intros H; [discriminate|].
  inversion H; subst. destruct (Nat.eqb q id); intros E; [inversion E; subst; assumption|auto].
Qed.

Lemma nonneg_snoc l p sz : nonneg_l l -> 0 <= sz -> nonneg_l (l ++ [(p, sz)]).
Proof. intros H1 H2. apply Forall_app. split; [exact H1|constructor; [exact H2|constructor]]. Qed.

Lemma sum_nonneg l : nonneg_l l -> 0 <= sum_sz l.
Proof.
  unfold nonneg_l, sum_sz. induction l as [|x l IH]; simpl; intros H; [lia|].
  inversion H; subst. specialize (IH H3). lia.
Qed.

Lemma sizeinv_init c : 0 <= cap c -> sizeinv c init.
Proof.
  intros H. unfold sizeinv, nonneg_l, sum_sz. simpl. repeat split; try lia; try constructor.
  intros; discriminate.
Qed.

Ltac wsz_tac I6 :=
  let q := fresh "q" in let v0 := fresh "v0" in let sz0 := fresh "sz0" in
  let Hq := fresh "Hq" in let Hw := fresh "Hw" in
  intros q v0 sz0 Hq Hw; rewrite ?pget_pset in Hq;
  repeat match type of Hq with
  | context [Nat.eqb ?a ?b] => destruct (Nat.eqb a b) eqn:?
  end;
  try (inversion Hq; subst; simpl in Hw; inversion Hw; subst; lia);
  try (eapply I6; eassumption).

Lemma nofault_step c s l s' z :
  corrupt s = [] -> wf_label c l -> step c s l = Some (s', z) -> corrupt s' = [].
Proof.
  intros NF W H. revert W. unfold wf_label. revert H.
  step_cases; intros W; try contradiction; try assumption; try discriminate; auto.
Qed.

Lemma reach_nofault (P : label -> Prop) c s :
  (forall l, P l -> wf_label c l) -> reachP P c s -> corrupt s = [].
Proof.
  intros HP R. revert s R. apply (reachP_ind P c (fun s => corrupt s = [])); [reflexivity|].
  intros s0 l s1 z _ I Pl H. eapply nofault_step; eauto.
Qed.

Lemma sizeinv_step c s l s' z :
  sizeinv c s -> corrupt s = [] -> wf_label c l -> step c s l = Some (s', z) -> sizeinv c s'.
Proof.
  intros I NF W H. revert I W. unfold sizeinv, wf_label. revert H.
  destruct (kind c) eqn:K;
  step_cases; intros (I1 & I2 & I3 & I4 & I5 & I6) W;
    try (specialize (I2 eq_refl)); try (specialize (W eq_refl));
    try match goal with
    | H : pget ?p (prods s) = Some (?C ?sz) |- _ => pose proof (I6 p _ sz H eq_refl)
    end;
    try match goal with
    | H : find_id ?id (inflight s) = Some ?sz |- _ =>
        pose proof (find_remove_sum _ _ _ H); pose proof (nonneg_find _ _ _ I5 H);
        pose proof (nonneg_remove id _ I5);
        pose proof (sum_nonneg _ (nonneg_remove id _ I5))
    end;
    pose proof (sum_nonneg _ I4); pose proof (sum_nonneg _ I5);
    repeat match goal with H : items _ = _ |- _ => rewrite H in * end;
    rewrite ?sum_sz_app in *; unfold sum_sz in *; cbn [map sumZ snd fst] in *;
    unfold nonneg_l in *; rewrite ?Forall_cons_iff in *; cbn [snd] in *;
    repeat match goal with |- _ /\ _ => split end;
    try lia; try tauto; try (intros; try discriminate; lia);
    try (apply nonneg_snoc; [assumption|lia]);
    try (wsz_tac I6).
Qed.
