(* C02/LinkM.v — the link of clause M (in-memory queue: the reported size equals the summed size of the accepted-but-
   unfinished requests AS THE CHECKER RECONSTRUCTS IT from the Offer labels) and, with Link.v, of the whole checker:
   whatever the model produces passes PropCheck.prop_ok.  [szinv]: the checker's size table agrees with the sizes the
   model stores in items / inflight and with the size every parked producer carries; preserved by every step. *)
From Verif Require Import C02.PropCheck C02.PropCheckProofs C02.Proofs C02.Proofs2 C02.Proofs3 C02.Proofs7 C02.Link.
Require Import ZifyBool Permutation.
Local Open Scope Z_scope.

Definition tab (l : label) (T : list (Z * Z)) : list (Z * Z) :=
  match l with LOffer p sz | LOfferF p sz _ => (Z.of_nat p, sz) :: T | _ => T end.

Definition szinv (T : list (Z * Z)) (s : st) : Prop :=
  (forall p sz, In (p, sz) (items s) \/ In (p, sz) (inflight s) -> szof (Z.of_nat p) T = sz) /\
  (forall p v sz, pget p (prods s) = Some v -> wsz v = Some sz -> szof (Z.of_nat p) T = sz).

Definition tracked (s : st) : Prop :=
  forall p sz, In (p, sz) (items s) \/ In (p, sz) (inflight s) -> pget p (prods s) <> None.

Lemma szof_cons_same p sz T : szof (Z.of_nat p) ((Z.of_nat p, sz) :: T) = sz.
Proof. simpl. rewrite Z.eqb_refl. reflexivity. Qed.
Lemma szof_cons_other p q sz T : p <> q -> szof (Z.of_nat q) ((Z.of_nat p, sz) :: T) = szof (Z.of_nat q) T.
Proof. intros N. simpl. destruct (Z.of_nat p =? Z.of_nat q) eqn:E; [apply Z.eqb_eq in E; lia|reflexivity]. Qed.

Ltac oldmem :=
  first [ left; eassumption | right; eassumption | simpl; tauto
        | left; simpl; right; eassumption | right; simpl; right; eassumption ].

Ltac leaf1 TR S1 S2 :=
  first
  [ (* unchanged table, old pair *) apply S1; oldmem
  | (* unchanged table, pair admitted at a re-lock *) eapply S2; [eassumption|reflexivity]
  | (* new table entry is this pair *) apply szof_cons_same
  | (* new table entry, old pair *)
    rewrite szof_cons_other; [apply S1; oldmem | intros ->; eapply TR; [oldmem|eassumption]] ].

Ltac c1 TR S1 S2 :=
  let q := fresh "q" in let qsz := fresh "qsz" in let I := fresh "I" in
  intros q qsz I; try match goal with E : items _ = _ |- _ => rewrite E in * end;
  repeat rewrite in_app_iff in I; simpl in I;
  repeat match goal with
         | H : _ \/ _ |- _ => destruct H
         | H : False |- _ => contradiction
         | H : (_, _) = (_, _) |- _ => inversion H; subst; clear H
         | H : In _ (remove_id _ _) |- _ => apply In_remove_id in H
         end;
  leaf1 TR S1 S2.

Ltac c2 TR S1 S2 :=
  let q := fresh "q" in let v := fresh "v" in let qsz := fresh "qsz" in
  let Hq := fresh "Hq" in let Hw := fresh "Hw" in
  intros q v qsz Hq Hw;
  try (pget_split Hq; [inversion Hq; subst; simpl in Hw; first [discriminate Hw | inversion Hw; subst] |]);
  first
  [ eapply S2; [eassumption|first [exact Hw|reflexivity]]
  | apply szof_cons_same
  | rewrite szof_cons_other;
    [eapply S2; [eassumption|first [exact Hw|reflexivity]]
    | intros ->; first [congruence | rewrite Nat.eqb_refl in *; discriminate]] ].

Lemma szinv_step c s l s' z T :
  corrupt s = [] -> tracked s -> szinv T s -> step c s l = Some (s', z) -> szinv (tab l T) s'.
Proof.
  intros NF TR I H. revert TR I. unfold szinv, tracked, tab. revert H.
  step_cases; intros TR (S1 & S2).
  all: split; [c1 TR S1 S2 | c2 TR S1 S2].
Qed.

(* the checker's size table follows [tab] *)
Lemma h_szs_upd h l o : h_szs (upd h (zlab_of l, o)) = tab l (h_szs h).
Proof.
  destruct o as [[[[[r ?] ?] ?] ?] ?].
  destruct l; unfold upd, zlab_of, tab; try (destruct (k =? c_marshal)); cbn -[Z.add Z.sub Z.leb];
    repeat match goal with |- context [if ?b then _ else _] => destruct b end; reflexivity.
Qed.

Lemma reach_tracked c s : 0 <= cap c -> reachable c s -> tracked s.
Proof.
  intros Hc R. destruct (reachable_inv _ _ Hc R) as (_ & _ & (G1 & G2 & G3 & G4 & _) & _).
  assert (A : forall p, In p (acc s) -> pget p (prods s) <> None).
  { intros p I. destruct (G4 p I) as (v & E & _). rewrite E. discriminate. }
  intros p sz [I|I]; apply A; rewrite G1; apply in_or_app.
  - right. change p with (fst (p, sz)). apply in_map. exact I.
  - left. eapply Permutation_in; [symmetry; exact G2|]. apply in_or_app. right.
    change p with (fst (p, sz)). apply in_map. exact I.
Qed.

Lemma szinv_init : szinv [] init.
Proof. split; simpl; intros; [tauto|discriminate]. Qed.

(* ---- sums --------------------------------------------------------------------------------------------- *)
Lemma sum_tab (f : Z -> Z) l :
  (forall p sz, In (p, sz) l -> f (Z.of_nat p) = sz) -> sumZ (map f (zids (map fst l))) = sum_sz l.
Proof.
  unfold zids, sum_sz. induction l as [|[p sz] l IH]; simpl; intros H; [reflexivity|].
  rewrite (H p sz) by (left; reflexivity). rewrite IH; [reflexivity|]. intros; apply H; right; assumption.
Qed.

Lemma filter_all {A} (g : A -> bool) l : (forall x, In x l -> g x = true) -> filter g l = l.
Proof.
  induction l as [|a l IH]; simpl; intros H; [reflexivity|]. rewrite (H a) by (left; reflexivity).
  rewrite IH; [reflexivity|]. intros; apply H; right; assumption.
Qed.
Lemma filter_none {A} (g : A -> bool) l : (forall x, In x l -> g x = false) -> filter g l = [].
Proof.
  induction l as [|a l IH]; simpl; intros H; [reflexivity|]. rewrite (H a) by (left; reflexivity).
  apply IH. intros; apply H; right; assumption.
Qed.
Lemma perm_sum (f : Z -> Z) (g : Z -> bool) l l' :
  Permutation l l' -> sumZ (map f (filter g l)) = sumZ (map f (filter g l')).
Proof.
  induction 1; simpl; try reflexivity.
  - destruct (g x); simpl; lia.
  - destruct (g x), (g y); simpl; lia.
  - congruence.
Qed.
Lemma zids_app2 a b : zids (a ++ b) = zids a ++ zids b.
Proof. unfold zids. apply map_app. Qed.
Lemma in_zids x l : In x (zids l) -> exists p, x = Z.of_nat p /\ In p l.
Proof. unfold zids. rewrite in_map_iff. intros (p & E & I). exists p. auto. Qed.

(* clause M for ONE reachable state of the in-memory queue and its reconstructed history *)
Lemma exact_of_state c h s z :
  0 <= cap c -> kind c = Mem -> reachable c s -> rel h s -> szinv (h_szs h) s ->
  Clause_exact (h, zobs_of z s).
Proof.
  intros Hc K R (R1 & R2 & R3 & R4 & R5 & _) (S1 & _).
  right. unfold zobs_of, o_size. cbn [snd fst].
  rewrite (proj1 (mq_size_exact_l c s Hc K R)), sum_sz_app2.
  destruct (reachable_inv _ _ Hc R) as (_ & _ & (G1 & G2 & _) & _).
  pose proof (handoff_exactly_once_l _ _ Hc R) as (_ & _ & _ & _ & _ & _ & _ & _ & _ & NDA).
  unfold unfinished_sum, unfinished. rewrite R1, R5, G1.
  set (f := fun id => szof id (h_szs h)).
  set (g := fun id => negb (zmem id (h_fin h)) && negb (zmem id [])).
  assert (GF : forall p, In p (map fst (fin s)) -> g (Z.of_nat p) = false).
  { intros p I. unfold g. apply andb_false_intro1. apply negb_false_iff. apply zmem_In. apply R3.
    apply zids_In. exact I. }
  assert (GT : forall p, ~ In p (map fst (fin s)) -> g (Z.of_nat p) = true).
  { intros p N. unfold g. simpl. rewrite andb_true_r. apply negb_true_iff.
    destruct (zmem (Z.of_nat p) (h_fin h)) eqn:E; [|reflexivity]. exfalso. apply N.
    apply zmem_In in E. apply R3 in E. apply zids_In in E. exact E. }
  rewrite zids_app2, filter_app, map_app, sumZ_app.
  assert (IT : sumZ (map f (filter g (zids (map fst (items s))))) = sum_sz (items s)).
  { rewrite filter_all.
    - apply sum_tab. intros p sz I. apply S1. left. exact I.
    - intros x I. apply in_zids in I. destruct I as (p & -> & I). apply GT. intros F.
      eapply (NoDup_app_disj _ _ p NDA); [exact F|]. apply in_or_app. right. exact I. }
  assert (HA : sumZ (map f (filter g (zids (hand s)))) = sum_sz (inflight s)).
  { rewrite (perm_sum f g _ (zids (map fst (fin s) ++ map fst (inflight s)))).
    2:{ unfold zids. apply Permutation_map. exact G2. }
    rewrite zids_app2, filter_app, map_app, sumZ_app.
    rewrite (filter_none g (zids (map fst (fin s)))).
    2:{ intros x I. apply in_zids in I. destruct I as (p & -> & I). apply GF. exact I. }
    rewrite filter_all.
    - simpl. apply sum_tab. intros p sz I. apply S1. right. exact I.
    - intros x I. apply in_zids in I. destruct I as (p & -> & I). apply GT. intros F.
      eapply (NoDup_app_disj _ _ p NDA); [exact F|]. apply in_or_app. left. exact I. }
  rewrite IT, HA. lia.
Qed.

(* along a whole run of the model of the in-memory queue every snapshot satisfies clause M *)
Lemma observe_exact c : forall ls s h,
  0 <= cap c -> kind c = Mem -> reachable c s -> rel h s -> szinv (h_szs h) s -> Forall (lnk_label c) ls ->
  Forall Clause_exact (snaps h (observe c s ls)).
Proof.
  induction ls as [|l ls IH]; intros s h Hc K R RL SZ F; simpl; [constructor|].
  inversion F as [|? ? [W O] F']; subst.
  destruct (step c s l) as [[s1 z]|] eqn:E; simpl; [|constructor].
  assert (R1 : reachable c s1) by (eapply reachP_step; eauto).
  pose proof (reach_nofault _ c s (fun l H => H) R) as NF.
  assert (RL1 : rel (upd h (zlab_of l, zobs_of z s1)) s1) by (eapply rel_step; eauto).
  assert (SZ1 : szinv (h_szs (upd h (zlab_of l, zobs_of z s1))) s1).
  { rewrite h_szs_upd. eapply szinv_step; eauto. apply (reach_tracked c); assumption. }
  constructor; [exact (exact_of_state c _ s1 z Hc K R1 RL1 SZ1)|].
  apply IH; assumption.
Qed.

(* THE LINK, all four clauses: whatever the model produces passes the whole checker *)
Theorem model_passes_checker_l : forall c ls,
  0 <= cap c -> Forall (lnk_label c) ls -> prop_ok (observed_case c ls) = true.
Proof.
  intros c ls Hc F. apply prop_ok_sound_l.
  destruct (model_passes_checker_BZH c ls Hc F) as (B & Z0 & H).
  split; [exact B|]. split; [exact Z0|]. split; [|exact H].
  intros K. unfold observed_case. cbn [snd].
  apply observe_exact; auto.
  - unfold observed_case, zkind, zcfg_of in K. cbn [fst] in K. destruct (kind c); [reflexivity|discriminate].
  - apply reachP_init.
  - apply rel_init.
  - apply szinv_init.
Qed.

