(* C02/Obligations.v — the tie to translator T1.  coq/Generated/C02Queue.v is regenerated from the CURRENT Go source
   on every run (props/C02/t1_spec.json); each obligation below equates a piece of the hand-written model, or an
   audited list of entry points, with what the source says now.  An edit of the Go code that changes one of these
   breaks a NAMED obligation here (not only a correspondence disagreement). *)
From Verif Require Import Common.Base C02.Model Generated.C02Queue.
Require Import String.
Local Open Scope Z_scope.

(* Capacity() of both queues is the configured capacity — the [cap c] every theorem of the property talks about *)
Definition model_capacity (c : cfg) : Z := cap c.

Lemma capacity_is_configured_l : forall c,
  mq_Capacity (cap c) = model_capacity c /\ pq_Capacity (cap c) = model_capacity c.
Proof. intros c. split; reflexivity. Qed.

(* linkedQueue.hasElements (head != nil) is the model's "items is non-empty" under the representation
   "head is nil exactly when the list is empty" *)
Definition head_isnil (l : list (nat * Z)) : bool := match l with [] => true | _ :: _ => false end.
Definition has_elements (l : list (nat * Z)) : bool := match l with [] => false | _ :: _ => true end.

Lemma has_elements_is_nonempty_l : forall l, lq_hasElements (head_isnil l) = has_elements l.
Proof. intros [|x l]; reflexivity. Qed.

(* ---- API surface audit: every method of the modelled types, and where it lives in the model -----------------
   cond            Signal (+ ring: the non-blocking bell) -> Model.signal; Wait -> labels LOffer/LRelockTok (waiting++), LSelTok, LSelCtx, LRelockTok,
                   LRelockCtx; Broadcast -> Model.bcast / LBroadcast (called by no production code)
   memoryQueue     Offer/add -> Model.offer, try_add, enqueue; Read -> read / cread; onDone -> done; Shutdown ->
                   LShutdown; Size -> field size; Capacity -> cap; Start -> no-op (component.StartFunc)
   persistentQueue Offer/putInternal -> try_add, enqueue, LOfferF; Read/getNextItem -> read / cread_faulty;
                   onDone -> done; Shutdown -> LShutdown; Size; Capacity; itemDispatchingFinish -> the drop in
                   cread_faulty (its storage errors are not modelled); Start/initClient/
                   initPersistentContiguousStorage/restoreQueueSizeFromStorage/retrieveAndEnqueueNotDispatchedReqs/
                   backupQueueSize/unrefClient -> start-up recovery and storage bookkeeping: property C01, not here
   asyncQueue      Offer/Read/Size/Capacity delegate; Start -> the consumer loop (labels LCRead/LCWake/LRead + LDone);
                   Shutdown -> LShutdown
   blockingDone / indexDone   OnDone -> LDone; reset -> pool_get (elSize / index)
   linkedQueue     push -> items ++ [x]; pop -> head of items; hasElements -> see above
   A method added to (or removed from) one of these types changes the generated list and breaks the obligation:
   the model has to be reviewed before the list is updated. *)
Local Open Scope string_scope.

Definition api_cond : list string := ["Broadcast"; "Signal"; "Wait"; "ring"].
Definition api_memory_queue : list string :=
  ["Capacity"; "Offer"; "Read"; "Shutdown"; "Size"; "Start"; "add"; "onDone"].
Definition api_persistent_queue : list string :=
  ["Capacity"; "Offer"; "Read"; "Shutdown"; "Size"; "Start"; "backupQueueSize"; "getNextItem"; "initClient";
   "initPersistentContiguousStorage"; "itemDispatchingFinish"; "onDone"; "putInternal";
   "restoreQueueSizeFromStorage"; "retrieveAndEnqueueNotDispatchedReqs"; "unrefClient"].
Definition api_async_queue : list string := ["Capacity"; "Offer"; "Read"; "Shutdown"; "Size"; "Start"].
Definition api_done : list string := ["OnDone"; "reset"].
Definition api_linked_queue : list string := ["hasElements"; "pop"; "push"].

Lemma cond_api_is_modelled_l : ms_cond = api_cond.
Proof. reflexivity. Qed.

Lemma memory_queue_api_is_modelled_l : ms_memoryQueue = api_memory_queue.
Proof. reflexivity. Qed.
Lemma persistent_queue_api_is_modelled_l : ms_persistentQueue = api_persistent_queue.
Proof. reflexivity. Qed.
Lemma async_queue_api_is_modelled_l : ms_asyncQueue = api_async_queue.
Proof. reflexivity. Qed.
Lemma done_and_list_api_is_modelled_l :
  ms_blockingDone = api_done /\ ms_indexDone = api_done /\ ms_linkedQueue = api_linked_queue.
Proof. repeat split; reflexivity. Qed.
