(* C02/Proofs5.v — the refutations: concrete runs of the faithful model (findings F3 and S1). *)
From Verif Require Import Common.Base C02.Model C02.Proofs.
Local Open Scope Z_scope.

Definition final (c : cfg) (ls : list label) : st :=
  match run c init ls with Some s => s | None => init end.

(* ---- F3: the context-aware condition variable dead-locks the queue ---------------------------------
   capacity 3, block_on_overflow, either queue kind.  Three requests of size 1 are accepted, two of them
   are handed to consumers; two more producers (3 and 4, size 1 each — they FIT the capacity) block; both
   contexts end and both leave the select on ctx.Done(); before either re-acquires the mutex the two
   consumers call OnDone.  The first Signal puts a token into the 1-slot channel, the second Signal blocks
   on it WITH THE MUTEX HELD.  Request 2 is still queued and can never be handed over. *)
Definition f3_cfg (k : qkind) : cfg := {| kind := k; cap := 3; blocking := true; wfr := false |}.
Definition f3_trace : list label :=
  [LOffer 0 1; LOffer 1 1; LOffer 2 1; LRead; LRead; LOffer 3 1; LOffer 4 1; LCancel 3; LCancel 4;
   LSelCtx 3; LSelCtx 4; LDone 0 0; LDone 1 0].

Lemma f3_quiescent k : quiescent (f3_cfg k) (final (f3_cfg k) f3_trace).
Proof.
  intros l Hi. destruct k; destruct l; try discriminate Hi; try reflexivity;
    try (destruct p as [|[|[|[|[|p]]]]]; reflexivity).
Qed.

Lemma f3_reachable_fit k : reachable_fit (f3_cfg k) (final (f3_cfg k) f3_trace).
Proof.
  exists f3_trace. split.
  - unfold f3_trace. repeat constructor; simpl; intros; lia.
  - destruct k; vm_compute; reflexivity.
Qed.

Lemma no_lost_wakeup_refuted_l :
  forall k, exists c s,
    kind c = k /\ 0 < cap c /\ reachable_fit c s /\ quiescent c s /\
    size s = 1 /\ items s = [(2%nat, 1)] /\ inflight s = [] /\
    lock s = BSend PendNone /\ tok s = true /\ waiting s = 0 /\
    (forall p, p = 3%nat \/ p = 4%nat ->
       In p (cancelled s) /\ pget p (prods s) = Some (PLeftCtx 1)) /\
    ~ all_returned s /\
    (* the queue is dead for everybody: no later Offer, Read, OnDone or Shutdown can even start *)
    (forall p sz, step c s (LOffer p sz) = None) /\ step c s LRead = None /\ step c s LShutdown = None.
Proof.
  intros k. exists (f3_cfg k), (final (f3_cfg k) f3_trace).
  split; [reflexivity|]. split; [simpl; lia|]. split; [apply f3_reachable_fit|]. split; [apply f3_quiescent|].
  destruct k.
  all: split; [reflexivity|]; split; [reflexivity|]; split; [reflexivity|]; split; [reflexivity|];
       split; [reflexivity|]; split; [reflexivity|].
  all: split; [intros p [->| ->]; split; try reflexivity; simpl; auto|].
  all: split; [intros H; destruct (H 3%nat (PLeftCtx 1) eq_refl) as [r E]; discriminate|].
  all: split; [intros p sz; reflexivity|]; split; reflexivity.
Qed.

Lemma no_lost_wakeup_statement_refuted_l :
  forall k, exists c, kind c = k /\ 0 < cap c /\ ~ no_lost_wakeup_statement c.
Proof.
  intros k. destruct (no_lost_wakeup_refuted_l k) as (c & s & K & C & R & Q & _ & _ & _ & _ & _ & _ & _ & N & _).
  exists c. split; [exact K|]. split; [exact C|]. intros H. apply N. apply H; [|exact Q].
  destruct R as [ls [F E]]. exists ls. split; [|exact E]. eapply Forall_impl; [|exact F]. intros a [X _]. exact X.
Qed.

(* ---- REPAIRED finding S1 (fix f7a3004ea): the former witnesses, replayed on the repaired code ------------------
   A persistent queue with block_on_overflow now refuses a request larger than the capacity (errSizeTooLarge) like
   the in-memory queue; nothing is parked, nothing is stolen. *)
Definition s1_cfg : cfg := {| kind := Pers; cap := 1; blocking := true; wfr := false |}.

Lemma oversized_offer_refused_witness_l :
  let s := final s1_cfg [LOffer 0 2] in
  run s1_cfg init [LOffer 0 2] = Some s /\ quiescent s1_cfg s /\ all_returned s /\
  pget 0%nat (prods s) = Some (PRet RTooLarge) /\ waiting s = 0 /\ size s = 0 /\ acc s = [].
Proof.
  split; [vm_compute; reflexivity|]. split.
  { intros l Hi. destruct l; try discriminate Hi; try (vm_compute; reflexivity); try (destruct p as [|p]; vm_compute; reflexivity);
      try (destruct k as [|k]; vm_compute; reflexivity). }
  split. { intros p v. destruct p as [|p]; vm_compute; intros H; inversion H; eauto. }
  vm_compute. repeat split; reflexivity.
Qed.

(* the former "stolen wake-up" history: the oversized request (producer 2) is refused at once, the two Signals of
   the draining queue reach producer 1, whose request fits *)
Definition s1b_cfg : cfg := {| kind := Pers; cap := 4; blocking := true; wfr := false |}.
Definition s1b_trace : list label :=
  [LOffer 0 4; LOffer 1 1; LOffer 2 8; LRead; LSelTok 1; LRelockTok 1; LDone 0 0; LRead; LDone 1 0].

Lemma oversized_no_longer_steals_witness_l :
  let s := final s1b_cfg s1b_trace in
  run s1b_cfg init s1b_trace = Some s /\ quiescent s1b_cfg s /\ lock s = Free /\ all_returned s /\
  pget 2%nat (prods s) = Some (PRet RTooLarge) /\ pget 1%nat (prods s) = Some (PRet ROk) /\
  hand s = [0; 1]%nat /\ size s = 0 /\ waiting s = 0 /\ tok s = false.
Proof.
  split; [vm_compute; reflexivity|]. split.
  { intros l Hi. destruct l; try discriminate Hi; try (vm_compute; reflexivity);
      try (destruct p as [|[|[|p]]]; vm_compute; reflexivity);
      try (destruct id as [|[|[|id]]]; vm_compute; reflexivity);
      try (destruct k as [|[|[|k]]]; vm_compute; reflexivity). }
  split; [vm_compute; reflexivity|]. split.
  { intros p v. destruct p as [|[|[|p]]]; vm_compute; intros H; inversion H; eauto. }
  vm_compute. repeat split; reflexivity.
Qed.

(* ---- observation (allowed by the property's wording): the persistent queue's reported size can
   under-count, so that what is stored exceeds the capacity although Size() never does ------------- *)
Lemma pq_size_undercounts_l :
  exists c s, kind c = Pers /\ reachable_fit c s /\
    size s = 4 /\ cap c = 4 /\ sum_sz (items s ++ inflight s) = 7.
Proof.
  exists s1b_cfg, (final s1b_cfg [LOffer 0 3; LRead; LOffer 1 4]).
  split; [reflexivity|]. split.
  { exists [LOffer 0 3; LRead; LOffer 1 4]. split; [repeat constructor; simpl; intros; lia|vm_compute; reflexivity]. }
  vm_compute. auto.
Qed.

(* ---- REPAIRED finding C02-FAULTY-WAITER-STEALS-WAKEUP (fix 03fbf1134): the former witness, replayed on the
   repaired code.  The two producers whose request cannot be stored now pass the wake-up on; producer 3 receives the
   token from producer 1, is admitted, handed over and finished; producer 2 is woken by the completions, fails and
   its own Signal finds nobody waiting (a no-op).  The run ends quiescent with everybody returned. *)
Definition fw_cfg : cfg := {| kind := Pers; cap := 2; blocking := true; wfr := false |}.
Definition fw_trace : list label :=
  [LOffer 0 2; LOfferF 1 1 c_marshal; LOfferF 2 1 c_storeerr; LOffer 3 1; LRead; LSelTok 1; LRelockTok 1;
   LSelTok 3; LRelockTok 3; LDone 0 0; LSelTok 2; LRelockTok 2; LRead; LDone 3 0].

Lemma faulty_waiter_passes_wakeup_witness_l :
  exists s, run fw_cfg init fw_trace = Some s /\ reachable_fit fw_cfg s /\
    quiescent fw_cfg s /\ lock s = Free /\ all_returned s /\ size s = 0 /\ tok s = false /\ waiting s = 0 /\
    acc s = [0; 3]%nat /\ hand s = [0; 3]%nat /\
    pget 1%nat (prods s) = Some (PRet (RErr c_marshal)) /\ pget 2%nat (prods s) = Some (PRet (RErr c_storeerr)) /\
    pget 3%nat (prods s) = Some (PRet ROk).
Proof.
  exists (final fw_cfg fw_trace).
  split; [vm_compute; reflexivity|]. split.
  { exists fw_trace. split; [unfold fw_trace; repeat constructor; simpl; intros; lia|vm_compute; reflexivity]. }
  split.
  { intros l Hi. destruct l; try discriminate Hi; try (vm_compute; reflexivity);
      try (destruct p as [|[|[|[|p]]]]; vm_compute; reflexivity);
      try (destruct id as [|[|[|[|id]]]]; vm_compute; reflexivity);
      try (destruct k as [|[|[|[|k]]]]; vm_compute; reflexivity). }
  split; [vm_compute; reflexivity|]. split.
  { intros p v. destruct p as [|[|[|[|p]]]]; vm_compute; intros H; inversion H; eauto. }
  vm_compute. repeat split; reflexivity.
Qed.
