(* C02/Proofs5.v — concrete runs of the model: regression witnesses of the repaired findings (F3, S1, faulty waiter). *)
From Verif Require Import Common.Base C02.Model C02.Proofs.
Local Open Scope Z_scope.

Definition final (c : cfg) (ls : list label) : st :=
  match run c init ls with Some s => s | None => init end.

(* ---- REPAIRED finding F3 (fix a6d2b6d09): the former deadlock schedule, replayed on the repaired code -------------
   capacity 3, block_on_overflow, either queue kind.  Three requests of size 1 are accepted, two of them are handed to
   consumers; producers 3 and 4 block; both contexts end and both leave the select on ctx.Done(); before either
   re-acquires the mutex the two consumers call OnDone.  Both Signals now complete at once (two wake-ups counted, the
   bell rung once); the two cancelled producers get the mutex, take back the wake-ups that were meant for them and
   return their context error; request 2 is handed over and finished.  Nobody is stuck; a stale bell is all that
   remains. *)
Definition f3_cfg (k : qkind) : cfg := {| kind := k; cap := 3; blocking := true; wfr := false |}.
Definition f3_trace : list label :=
  [LOffer 0 1; LOffer 1 1; LOffer 2 1; LRead; LRead; LOffer 3 1; LOffer 4 1; LCancel 3; LCancel 4;
   LSelCtx 3; LSelCtx 4; LDone 0 0; LDone 1 0; LRelockCtx 3; LRelockCtx 4; LRead; LDone 2 0].

Lemma f3_schedule_completes_l : forall k,
  let c := f3_cfg k in let s := final c f3_trace in
  run c init f3_trace = Some s /\ reachable c s /\ quiescent c s /\ all_returned s /\
  pget 3%nat (prods s) = Some (PRet RCtx) /\ pget 4%nat (prods s) = Some (PRet RCtx) /\
  hand s = [0; 1; 2]%nat /\ size s = 0 /\ waiting s = 0 /\ sigs s = 0 /\ tok s = true.
Proof.
  intros k. cbv zeta.
  split; [destruct k; vm_compute; reflexivity|]. split.
  { exists f3_trace. split; [unfold f3_trace; repeat constructor; simpl; intros; lia|destruct k; vm_compute; reflexivity]. }
  split.
  { intros l Hi. destruct k; destruct l; try discriminate Hi; try (vm_compute; reflexivity);
      try (destruct p as [|[|[|[|[|p]]]]]; vm_compute; reflexivity);
      try (destruct id as [|[|[|[|[|id]]]]]; vm_compute; reflexivity);
      try (destruct k as [|[|[|[|[|k]]]]]; vm_compute; reflexivity). }
  split.
  { intros p v. destruct k; destruct p as [|[|[|[|[|p]]]]]; vm_compute; intros H; inversion H; eauto. }
  destruct k; vm_compute; repeat split; reflexivity.
Qed.

(* ---- REPAIRED finding S1 (fix f7a3004ea): the former witnesses, replayed on the repaired code ------------------
   A persistent queue with block_on_overflow now refuses a request larger than the capacity (errSizeTooLarge) like
   the in-memory queue; nothing is parked, nothing is stolen. *)
Definition s1_cfg : cfg := {| kind := Pers; cap := 1; blocking := true; wfr := false |}.

Lemma oversized_offer_refused_witness_l :
  let s := final s1_cfg [LOffer 0 2] in
  run s1_cfg init [LOffer 0 2] = Some s /\ quiescent s1_cfg s /\ all_returned s /\
  pget 0%nat (prods s) = Some (PRet RTooLarge) /\ waiting s = 0 /\ size s = 0 /\ acc s = [].
Proof.
  split; [vm_compute; reflexivity|]. split.
  { intros l Hi. destruct l; try discriminate Hi; try (vm_compute; reflexivity); try (destruct p as [|p]; vm_compute; reflexivity);
      try (destruct k as [|k]; vm_compute; reflexivity). }
  split. { intros p v. destruct p as [|p]; vm_compute; intros H; inversion H; eauto. }
  vm_compute. repeat split; reflexivity.
Qed.

(* the former "stolen wake-up" history: the oversized request (producer 2) is refused at once, the two Signals of
   the draining queue reach producer 1, whose request fits *)
Definition s1b_cfg : cfg := {| kind := Pers; cap := 4; blocking := true; wfr := false |}.
Definition s1b_trace : list label :=
  [LOffer 0 4; LOffer 1 1; LOffer 2 8; LRead; LSelTok 1; LRelockTok 1; LDone 0 0; LRead; LDone 1 0].

Lemma oversized_no_longer_steals_witness_l :
  let s := final s1b_cfg s1b_trace in
  run s1b_cfg init s1b_trace = Some s /\ quiescent s1b_cfg s /\ all_returned s /\
  pget 2%nat (prods s) = Some (PRet RTooLarge) /\ pget 1%nat (prods s) = Some (PRet ROk) /\
  hand s = [0; 1]%nat /\ size s = 0 /\ waiting s = 0 /\ tok s = false.
Proof.
  split; [vm_compute; reflexivity|]. split.
  { intros l Hi. destruct l; try discriminate Hi; try (vm_compute; reflexivity);
      try (destruct p as [|[|[|p]]]; vm_compute; reflexivity);
      try (destruct id as [|[|[|id]]]; vm_compute; reflexivity);
      try (destruct k as [|[|[|k]]]; vm_compute; reflexivity). }
  split.
  { intros p v. destruct p as [|[|[|p]]]; vm_compute; intros H; inversion H; eauto. }
  vm_compute. repeat split; reflexivity.
Qed.

(* ---- observation (allowed by the property's wording): the persistent queue's reported size can
   under-count, so that what is stored exceeds the capacity although Size() never does ------------- *)
Lemma pq_size_undercounts_l :
  exists c s, kind c = Pers /\ reachable_fit c s /\
    size s = 4 /\ cap c = 4 /\ sum_sz (items s ++ inflight s) = 7.
Proof.
  exists s1b_cfg, (final s1b_cfg [LOffer 0 3; LRead; LOffer 1 4]).
  split; [reflexivity|]. split.
  { exists [LOffer 0 3; LRead; LOffer 1 4]. split; [repeat constructor; simpl; intros; lia|vm_compute; reflexivity]. }
  vm_compute. auto.
Qed.

(* ---- REPAIRED finding C02-FAULTY-WAITER-STEALS-WAKEUP (fix 03fbf1134): the former witness, replayed on the
   repaired code.  The two producers whose request cannot be stored now pass the wake-up on; producer 3 receives the
   token from producer 1, is admitted, handed over and finished; producer 2 is woken by the completions, fails and
   its own Signal finds nobody waiting (a no-op).  The run ends quiescent with everybody returned. *)
Definition fw_cfg : cfg := {| kind := Pers; cap := 2; blocking := true; wfr := false |}.
Definition fw_trace : list label :=
  [LOffer 0 2; LOfferF 1 1 c_marshal; LOfferF 2 1 c_storeerr; LOffer 3 1; LRead; LSelTok 1; LRelockTok 1;
   LSelTok 3; LRelockTok 3; LDone 0 0; LSelTok 2; LRelockTok 2; LRead; LDone 3 0].

Lemma faulty_waiter_passes_wakeup_witness_l :
  exists s, run fw_cfg init fw_trace = Some s /\ reachable_fit fw_cfg s /\
    quiescent fw_cfg s /\ all_returned s /\ size s = 0 /\ tok s = false /\ waiting s = 0 /\ sigs s = 0 /\
    acc s = [0; 3]%nat /\ hand s = [0; 3]%nat /\
    pget 1%nat (prods s) = Some (PRet (RErr c_marshal)) /\ pget 2%nat (prods s) = Some (PRet (RErr c_storeerr)) /\
    pget 3%nat (prods s) = Some (PRet ROk).
Proof.
  exists (final fw_cfg fw_trace).
  split; [vm_compute; reflexivity|]. split.
  { exists fw_trace. split; [unfold fw_trace; repeat constructor; simpl; intros; lia|vm_compute; reflexivity]. }
  split.
  { intros l Hi. destruct l; try discriminate Hi; try (vm_compute; reflexivity);
      try (destruct p as [|[|[|[|p]]]]; vm_compute; reflexivity);
      try (destruct id as [|[|[|[|id]]]]; vm_compute; reflexivity);
      try (destruct k as [|[|[|[|k]]]]; vm_compute; reflexivity). }
  split.
  { intros p v. destruct p as [|[|[|[|p]]]]; vm_compute; intros H; inversion H; eauto. }
  vm_compute. repeat split; reflexivity.
Qed.
