(* C02/Proofs8.v — strengthening round: the consumer side of "no lost wake-up" (hasMoreElements) and the
   persistent queue's size re-synchronisation when stored items are unreadable. *)
From Verif Require Import Common.Base C02.Model C02.Proofs C02.Proofs2 C02.Proofs3 C02.Proofs4 C02.Proofs6.
Require Import ZifyBool.
Local Open Scope Z_scope.

Lemma ccount_wake1_some l : 0 < ccount false l ->
  ccount true (wake1 l) = ccount true l + 1 /\ ccount false (wake1 l) = ccount false l - 1.
Proof.
  induction l as [|[k w] l IH]; cbn [wake1 ccount Bool.eqb]; [lia|]. destruct w; cbn [wake1 ccount Bool.eqb]; intros H.
  - destruct (IH ltac:(lia)). lia.
  - lia.
Qed.
Lemma ccount_wake1_none l : ccount false l = 0 -> wake1 l = l.
Proof.
  induction l as [|[k w] l IH]; cbn [wake1 ccount Bool.eqb]; [reflexivity|]. destruct w; cbn [Bool.eqb]; intros H.
  - rewrite IH; [reflexivity|lia].
  - pose proof (ccount_nonneg false l). lia.
Qed.
Lemma ccount_wakeall l : ccount false (wakeall l) = 0.
Proof. induction l as [|[k w] l IH]; simpl; [reflexivity|]. rewrite IH. reflexivity. Qed.
(* hasMoreElements: while a consumer is parked un-signalled, every queued request has a signalled consumer on
   its way; after Shutdown nobody is parked un-signalled *)
Definition consinv (s : st) : Prop :=
  (0 < ccount false (cons s) -> Z.of_nat (length (items s)) <= ccount true (cons s)) /\
  (stopped s = true -> ccount false (cons s) = 0).

Lemma consinv_init : consinv init.
Proof. split; simpl; intros; [lia|discriminate]. Qed.

Lemma consinv_step c s l s' z :
  corrupt s = [] -> consinv s -> step c s l = Some (s', z) -> consinv s'.
Proof.
  intros NF I H. revert I. unfold consinv.
  pose proof (ccount_nonneg true (cons s)) as N1. pose proof (ccount_nonneg false (cons s)) as N2.
  revert N1 N2. revert H.
  step_cases; intros N1 N2 (C1 & C2);
    try match goal with H : cfind ?k (cons s) = Some _ |- _ => pose proof (ccount_crem _ _ _ H) as [? ?]; pose proof (ccount_nonneg true (crem k (cons s))) end;
    rewrite ?ccount_app, ?ccount_wakeall; cbn [Bool.eqb length]; rewrite ?app_length; cbn [length];
    try (destruct (Z_lt_dec 0 (ccount false (cons s))) as [P|P];
         [destruct (ccount_wake1_some _ P) as [-> ->] | rewrite (ccount_wake1_none (cons s)) by lia]);
    cbv iota in *;
    repeat match goal with H : items s = _ |- _ => rewrite ?H in *; clear H end; cbn [length] in *;
    (split; [intros; try lia | intros; try discriminate; try lia; auto]).
Qed.

Lemma reach_consinv c s : reachable c s -> consinv s.
Proof.
  intros R. revert s R. apply (reachP_ind (wf_label c) c consinv); [apply consinv_init|].
  intros s0 l s1 z R0 I W H. eapply consinv_step; eauto. exact (reach_nofault _ c s0 (fun l H => H) R0).
Qed.

Lemma consumer_no_lost_wakeup_l c s :
  reachable c s ->
  (0 < ccount false (cons s) -> Z.of_nat (length (items s)) <= ccount true (cons s)) /\
  (stopped s = true -> ccount false (cons s) = 0) /\
  (forall k, cfind k (cons s) = Some true ->
     exists s' z, step c s (LCWake k) = Some (s', z) /\ mu s' < mu s \/ stopped s = true) /\
  (forall s' z, step c s LShutdown = Some (s', z) -> ccount false (cons s') = 0).
Proof.
  intros R. destruct (reach_consinv _ _ R) as [C1 C2]. split; [exact C1|]. split; [exact C2|]. split.
  - intros k Hk. destruct (stopped s) eqn:St; [exists s, 0; right; reflexivity|].
    assert (E : exists r, step c s (LCWake k) = Some r).
    { unfold step. rewrite Hk. eauto. }
    destruct E as [[s1 z] E]. exists s1, z. left. split; [exact E|].
    exact (mu_decreases c s (LCWake k) s1 z (reach_nofault _ c s (fun l H => H) R) (reach_tokinv _ _ _ R) St eq_refl E).
  - intros s' z H. unfold step in H. inversion H; subst. ss.
    apply ccount_wakeall.
Qed.

(* ---- persistent queue with unreadable stored items: the size is re-synchronised whenever the queue runs
   empty, whether the last item was consumed or dropped -------------------------------------------------- *)
Lemma skipbad_fst_nil bad its : fst (skipbad bad its) = [] -> snd (skipbad bad its) = its.
Proof. destruct its as [|[p sz] r]; simpl; [reflexivity|]. destruct (memb p bad); simpl; [discriminate|reflexivity]. Qed.

Lemma skipbad_split bad its : map fst (fst (skipbad bad its)) ++ map fst (snd (skipbad bad its)) = map fst its.
Proof.
  induction its as [|[p sz] r IH]; simpl; [reflexivity|]. destruct (memb p bad); simpl; [rewrite IH|]; reflexivity.
Qed.

Lemma pq_resync_on_empty_l c k s s' z :
  kind c = Pers -> stopped s = false -> cread c k s = (s', z) ->
  items s <> [] -> items s' = [] ->
  size s' = 0 /\ (0 < waiting s -> tok s' = true).
Proof.
  intros K St H NE E. revert K St NE E. revert H.
  unfold cread, cread_faulty, park, read, handoff, signal.
  repeat (dmatch; try (intros; discriminate)).
  all: intros H; inversion H; subst; clear H; ss; intros K St NE E; try discriminate; try congruence;
       try (split; [reflexivity|intros; try reflexivity; lia]).
  exfalso. apply NE. rewrite <- (skipbad_fst_nil _ _ Heql1). exact Heql0.
Qed.

(* ---- a refused Offer changes nothing — also when the cause is a marshal error or a storage-write error ---- *)
Lemma faulty_offer_changes_nothing_l c s p sz k s' z :
  step c s (LOfferF p sz k) = Some (s', z) -> (blocking c = true -> sz <= cap c) ->
  kind c = Pers /\
  (size s + sz <= cap c ->
     z = k /\ s' = signal (setp p (PRet (RErr k)) s) /\
     (waiting s = 0 -> s' = setp p (PRet (RErr k)) s) /\
     (0 < waiting s -> waiting s' = waiting s - 1 /\ sigs s' = sigs s + 1 /\ tok s' = true)) /\
  (size s + sz > cap c -> blocking c = false -> z = c_full /\ s' = setp p (PRet RFull) s) /\
  (size s + sz > cap c -> blocking c = true ->
     z = c_blocked /\ pget p (prods s') = Some (PInSelect sz) /\ waiting s' = waiting s + 1 /\
     faulty s' = faulty s ++ [(p, k)]) /\
  size s' = size s /\ items s' = items s /\ inflight s' = inflight s /\ acc s' = acc s /\ hand s' = hand s /\
  cons s' = cons s /\ held s' = held s /\ pool s' = pool s.
Proof.
  intros H NO. revert H. unfold step.
  destruct (pget p (prods s)) eqn:Hp; try discriminate.
  destruct (kind c) eqn:K; try discriminate.
  destruct (blocking c && (sz >? cap c)) eqn:OV; [exfalso; destruct (blocking c); [specialize (NO eq_refl); simpl in OV; lia|discriminate]|].
  destruct (size s + sz >? cap c) eqn:F.
  - destruct (blocking c) eqn:B; intros H; inversion H; subst; ss; rewrite ?pget_pset_eq;
      repeat split; intros; try reflexivity; try lia; try discriminate.
  - intros H. inversion H; subst. unfold signal.
    destruct (waiting (setp p (PRet (RErr z)) s) =? 0) eqn:W; ss;
      repeat split; intros; try reflexivity; try lia; try discriminate; auto.
Qed.

(* the error path of a PARKED producer: woken with a wake-up to take, past the capacity loop, it returns its error
   and passes the wake-up on *)
Lemma faulty_waiter_passes_wakeup_l c s p sz k s' z :
  pget p (prods s) = Some (PLeftTok sz) -> find_id p (faulty s) = Some k -> 0 < sigs s -> size s + sz <= cap c ->
  step c s (LRelockTok p) = Some (s', z) ->
  z = k /\ pget p (prods s') = Some (PRet (RErr k)) /\
  size s' = size s /\ items s' = items s /\ acc s' = acc s /\
  (waiting s = 0 -> waiting s' = 0 /\ sigs s' = sigs s - 1) /\
  (0 < waiting s -> waiting s' = waiting s - 1 /\ sigs s' = sigs s /\ tok s' = true).
Proof.
  intros Hp Hf G Fit H. revert H. unfold step. rewrite Hp.
  destruct (0 <? sigs s) eqn:E; [|lia]. ss.
  assert (F1 : find_id p (faulty (if 0 <? sigs s - 1 then set_tok true (set_sigs (sigs s - 1) s) else set_sigs (sigs s - 1) s)) = Some k)
    by (destruct (0 <? sigs s - 1); ss; exact Hf).
  rewrite F1.
  assert (S1 : size (if 0 <? sigs s - 1 then set_tok true (set_sigs (sigs s - 1) s) else set_sigs (sigs s - 1) s) = size s)
    by (destruct (0 <? sigs s - 1); reflexivity).
  rewrite S1. destruct (size s + sz >? cap c) eqn:F; [lia|].
  intros H. inversion H; subst. unfold signal.
  destruct (0 <? sigs s - 1) eqn:E2; ss;
    (destruct (waiting s =? 0) eqn:W; ss); rewrite ?pget_pset_eq;
    repeat split; intros; try reflexivity; try lia; try discriminate; auto.
Qed.

(* S1 repaired (fix f7a3004ea): with block_on_overflow the persistent queue refuses a request larger than the
   capacity — faulty or not — before anything else, and changes nothing *)
Lemma oversized_offer_refused_l c s p sz s' z :
  kind c = Pers -> blocking c = true -> sz > cap c ->
  (step c s (LOffer p sz) = Some (s', z) \/ exists k, step c s (LOfferF p sz k) = Some (s', z)) ->
  z = c_toolarge /\ s' = setp p (PRet RTooLarge) s.
Proof.
  intros K B O [H|[k H]]; revert H; unfold step, offer; rewrite K, B;
    destruct (pget p (prods s)); try discriminate;
    (destruct (sz >? cap c) eqn:E; [|lia]); simpl; intros H; inversion H; auto.
Qed.

(* every accepted request HAS BEEN handed over and finished once the queue's own activity has come to rest *)
Lemma accepted_handed_and_finished_at_quiescence_l c s :
  0 <= cap c -> reachable c s -> quiescent c s ->
  hand s = acc s /\ items s = [] /\ inflight s = [] /\ size s = 0 /\
  (forall id, In id (acc s) -> In id (map fst (fin s))) /\ all_returned s.
Proof.
  intros Hc R Q.
  destruct (quiescent_facts _ _ Q) as (Q1 & Q2 & _).
  pose proof (handoff_complete_l _ _ Hc R Q1) as HA.
  destruct (pq_size_bounds_l _ _ Hc R) as (_ & _ & Z0).
  destruct (handoff_exactly_once_l _ _ Hc R) as (_ & _ & _ & _ & _ & _ & _ & _ & HF & _).
  split; [exact HA|]. split; [exact Q1|]. split; [exact Q2|]. split; [auto|]. split.
  - intros id I. rewrite <- HA in I. destruct (HF _ I) as [X|X]; [exact X|]. rewrite Q2 in X. contradiction.
  - apply (no_lost_wakeup_l c Hc s R Q).
Qed.
