(* C02/Proofs7.v — round 3: the blockingDone pool never hands out an object that is still referenced. *)
From Verif Require Import Common.Base C02.Model C02.Proofs C02.Proofs2 C02.Proofs3.
Require Import ZifyBool Permutation.
Local Open Scope Z_scope.

Lemma rem_nat_In x b l : In x (rem_nat b l) -> In x l.
Proof. induction l as [|a l IH]; simpl; [tauto|]. destruct (Nat.eqb a b); simpl; intros H; [auto|]. destruct H; auto. Qed.
Lemma rem_nat_NoDup b l : NoDup l -> NoDup (rem_nat b l).
Proof.
  induction l as [|a l IH]; simpl; intros H; [constructor|]. inversion H; subst.
  destruct (Nat.eqb a b); [assumption|]. constructor; [intros I; apply H2; eapply rem_nat_In; eauto|auto].
Qed.
Lemma rem_nat_notin b l : NoDup l -> ~ In b (rem_nat b l).
Proof.
  induction l as [|a l IH]; simpl; intros H; [tauto|]. inversion H; subst.
  destruct (Nat.eqb a b) eqn:E; [apply Nat.eqb_eq in E; subst; assumption|].
  simpl. intros [X|X]; [subst; rewrite Nat.eqb_refl in E; discriminate|]. exact (IH H3 X).
Qed.

Lemma hget_In id h b : hget id h = Some b -> In b (map snd h) /\ In id (map fst h).
Proof.
  induction h as [|[q w] h IH]; simpl; [discriminate|]. destruct (Nat.eqb q id) eqn:E; intros H.
  - apply Nat.eqb_eq in E. inversion H; subst. auto.
  - destruct (IH H). auto.
Qed.
Lemma In_hget id h : In id (map fst h) -> exists b, hget id h = Some b.
Proof.
  induction h as [|[q w] h IH]; simpl; [tauto|]. destruct (Nat.eqb q id) eqn:E; intros H; [eauto|].
  destruct H as [H|H]; [subst; rewrite Nat.eqb_refl in E; discriminate|auto].
Qed.
Lemma hrem_snd x id h : In x (map snd (hrem id h)) -> In x (map snd h).
Proof. induction h as [|[q w] h IH]; simpl; [tauto|]. destruct (Nat.eqb q id); simpl; intros H; [auto|]. destruct H; auto. Qed.
Lemma hrem_fst x id h : In x (map fst (hrem id h)) -> In x (map fst h).
Proof. induction h as [|[q w] h IH]; simpl; [tauto|]. destruct (Nat.eqb q id); simpl; intros H; [auto|]. destruct H; auto. Qed.
Lemma hrem_fst_keep x id h : x <> id -> In x (map fst h) -> In x (map fst (hrem id h)).
Proof.
  intros N. induction h as [|[q w] h IH]; simpl; [tauto|]. destruct (Nat.eqb q id) eqn:E; simpl; intros [H|H]; auto.
  apply Nat.eqb_eq in E. congruence.
Qed.
Lemma hrem_NoDup_snd id h : NoDup (map snd h) -> NoDup (map snd (hrem id h)).
Proof.
  induction h as [|[q w] h IH]; simpl; intros H; [constructor|]. inversion H; subst.
  destruct (Nat.eqb q id); [assumption|]. simpl. constructor; [intros I; apply H2; eapply hrem_snd; eauto|auto].
Qed.
Lemma hrem_NoDup_fst id h : NoDup (map fst h) -> NoDup (map fst (hrem id h)).
Proof.
  induction h as [|[q w] h IH]; simpl; intros H; [constructor|]. inversion H; subst.
  destruct (Nat.eqb q id); [assumption|]. simpl. constructor; [intros I; apply H2; eapply hrem_fst; eauto|auto].
Qed.
Lemma hrem_snd_notin id h b : NoDup (map snd h) -> hget id h = Some b -> ~ In b (map snd (hrem id h)).
Proof.
  induction h as [|[q w] h IH]; simpl; intros H; [discriminate|]. inversion H; subst.
  destruct (Nat.eqb q id) eqn:E; intros G.
  - inversion G; subst. assumption.
  - simpl. intros [X|X]; [subst; apply H2; apply (hget_In _ _ _ G)|]. exact (IH H3 G X).
Qed.

Definition poolinv (c : cfg) (s : st) : Prop :=
  NoDup (map snd (held s)) /\ NoDup (pool s) /\ NoDup (map fst (held s)) /\
  (forall b, In b (pool s) -> ~ In b (map snd (held s))) /\
  (forall b, In b (pool s) \/ In b (map snd (held s)) -> (b < nobj s)%nat) /\
  (forall id, In id (map fst (held s)) -> In id (acc s)) /\
  (kind c = Mem -> forall id, In id (map fst (items s)) \/ In id (map fst (inflight s)) -> In id (map fst (held s))) /\
  (forall p, pget p (prods s) = Some PAwait -> In p (map fst (held s))).

Lemma poolinv_init c : poolinv c init.
Proof.
  unfold poolinv. simpl. repeat split; try constructor; try tauto; try (intros ? [[]|[]]); try (intros; discriminate).
Qed.

Lemma ghost_nodup c s : ghostinv c s ->
  NoDup (map fst (fin s) ++ map fst (inflight s) ++ map fst (items s)).
Proof.
  intros (G1 & G2 & G3 & _). rewrite app_assoc. eapply Permutation_NoDup; [|exact G3]. rewrite G1.
  apply Permutation_app_tail. exact G2.
Qed.

Lemma In_fst_remove_id_inv q id l : In q (map fst (remove_id id l)) -> In q (map fst l).
Proof.
  induction l as [|[r w] l IH]; simpl; [tauto|]. destruct (Nat.eqb r id); simpl; intros H; [auto|]. destruct H; auto.
Qed.

Lemma NoDup_remove_id_notin id l : NoDup (map fst l) -> ~ In id (map fst (remove_id id l)).
Proof.
  induction l as [|[r w] l IH]; simpl; intros H; [tauto|]. inversion H; subst.
  destruct (Nat.eqb r id) eqn:E; [apply Nat.eqb_eq in E; subst; assumption|].
  simpl. intros [X|X]; [subst; rewrite Nat.eqb_refl in E; discriminate|]. exact (IH H3 X).
Qed.

Lemma NoDup_app_r {A} (l1 l2 : list A) : NoDup (l1 ++ l2) -> NoDup l2.
Proof. induction l1; simpl; intros H; [assumption|]. inversion H; auto. Qed.

Lemma NoDup_app_disj {A} (l1 l2 : list A) x : NoDup (l1 ++ l2) -> In x l1 -> In x l2 -> False.
Proof.
  induction l1 as [|a l1 IH]; simpl; intros H I1 I2; [tauto|]. inversion H; subst.
  destruct I1 as [->|I1]; [apply H2; apply in_or_app; auto|eauto].
Qed.

Ltac pool_pre :=
  repeat match goal with
  | H : hget _ _ = Some _ |- _ => let X := fresh "HG" in pose proof (hget_In _ _ _ H) as [X ?]; revert H
  end; intros.

Lemma rem_nat_In2 x b l : NoDup l -> In x (rem_nat b l) -> In x l /\ x <> b.
Proof. intros N H. split; [eapply rem_nat_In; eauto|]. intros ->. exact (rem_nat_notin _ _ N H). Qed.
Lemma hrem_snd2 x id h b : NoDup (map snd h) -> hget id h = Some b -> In x (map snd (hrem id h)) -> In x (map snd h) /\ x <> b.
Proof. intros N G H. split; [eapply hrem_snd; eauto|]. intros ->. exact (hrem_snd_notin _ _ _ N G H). Qed.
Lemma hrem_fst_notin id h : NoDup (map fst h) -> ~ In id (map fst (hrem id h)).
Proof.
  induction h as [|[q w] h IH]; simpl; intros H; [tauto|]. inversion H; subst.
  destruct (Nat.eqb q id) eqn:E; [apply Nat.eqb_eq in E; subst; assumption|].
  simpl. intros [X|X]; [subst; rewrite Nat.eqb_refl in E; discriminate|]. exact (IH H3 X).
Qed.
Lemma remove_id_fst2 q id l : NoDup (map fst l) -> In q (map fst (remove_id id l)) -> In q (map fst l) /\ q <> id.
Proof. intros N H. split; [eapply In_fst_remove_id_inv; eauto|]. intros ->. exact (NoDup_remove_id_notin _ _ N H). Qed.
Lemma wfr_eff_true' c : wfr_eff c = true -> kind c = Mem /\ wfr c = true.
Proof. unfold wfr_eff. destruct (kind c); [auto|discriminate]. Qed.

Ltac notin_acc_tac G4 :=
  first [ eapply notin_acc_none; eassumption | eapply notin_acc_some; [eassumption|eassumption|reflexivity] ].

Ltac memb_hyp :=
  match goal with H : memb (pick ?s) (pool ?s) = true |- _ => apply memb_In in H end.

Lemma poolinv_step c s l s' z :
  corrupt s = [] -> ghostinv c s -> wfrinv s -> poolinv c s -> step c s l = Some (s', z) -> poolinv c s'.
Proof.
  intros NF GI (D1 & _) I H.
  pose proof (ghost_nodup _ _ GI) as ND.
  destruct GI as (G1 & G2 & G3 & G4 & G5 & G6).
  revert I G4 G5 ND D1. unfold poolinv. revert H.
  step_cases; intros (P1 & P2 & P3 & P4 & P5 & P6 & P7 & P8) G4 G5 ND D1;
  try (repeat split; assumption);
  try memb_hyp;
  try match goal with H : hget ?id (held s) = Some ?b |- _ =>
        let X := fresh "HGs" in let Y := fresh "HGf" in pose proof (hget_In _ _ _ H) as [X Y] end;
  (split; [|split; [|split; [|split; [|split; [|split; [|split]]]]]]);
  try assumption.
  (* 1: NoDup (map snd held) *)
  all: try (rewrite map_app; simpl; apply NoDup_snoc; [assumption|]; intros X;
            first [ eapply P4; eassumption | specialize (P5 _ (or_intror X)); lia
                  | apply P6 in X; revert X; notin_acc_tac G4 ]; fail).
  all: try (apply hrem_NoDup_snd; assumption).
  all: try (apply hrem_NoDup_fst; assumption).
  all: try (apply rem_nat_NoDup; assumption).
  all: try (constructor; [intros X; eapply P4; eassumption|assumption]).
  (* P8-shaped goals *)
  all: try (intros q Hq; pget_split Hq;
            [ first [ discriminate
                    | rewrite map_app; apply in_or_app; right; left; reflexivity
                    | exfalso; match goal with H : wfr_eff _ = true |- _ => apply wfr_eff_true' in H; destruct H; congruence end ]
            | first [ apply P8; assumption
                    | rewrite map_app; apply in_or_app; left; apply P8; assumption ] ]; fail).
  all: intros; try discriminate.
  all: unfold not in *; intros.
  all: repeat match goal with
       | H : _ \/ _ |- _ => destruct H as [H|H]
       | H : In _ (map _ (_ ++ _)) |- _ => rewrite map_app in H
       | H : In _ (_ ++ _) |- _ => apply in_app_or in H
       | H : In _ (map _ [_]) |- _ => simpl in H
       | H : In _ (map _ (_ :: _)) |- _ => simpl in H
       | H : In _ [] |- _ => destruct H
       | H : False |- _ => destruct H
       | H : In _ (_ :: _) |- _ => destruct H as [H|H]
       | H : In _ (rem_nat _ _) |- _ => apply (rem_nat_In2 _ _ _ P2) in H; destruct H
       | H : In _ (map snd (hrem _ _)) |- _ => eapply hrem_snd2 in H; [destruct H | exact P1 | eassumption]
       end; subst.
  all: try (exfalso; eapply P4; eassumption).
  all: try congruence.
  all: repeat match goal with
       | H : In ?b (pool _) |- _ => pose proof (P5 _ (or_introl H)); clear H
       | H : In ?b (map snd (held _)) |- _ => pose proof (P5 _ (or_intror H)); clear H
       end; try lia.
  all: try (specialize (P7 eq_refl)).
  all: try (apply in_or_app; first [left; apply P6; assumption | right; left; reflexivity]; fail).
  all: try (rewrite map_app; apply in_or_app;
            first [right; left; reflexivity | left; first [apply P7; simpl; auto; fail | apply P8; assumption]]; fail).
  all: try (apply P7; simpl; auto; fail).
  all: try (apply P6; assumption).
  all: try (rewrite Heql2 in *; simpl in *; tauto).
  all: pose proof (NoDup_app_r _ _ ND) as ND2; pose proof (NoDup_app_l _ _ ND2) as NDI.
  all: try (apply P7; right; eapply In_fst_remove_id_inv; eassumption).
  all: try (apply P6; eapply hrem_fst; eassumption).
  all: try match goal with H : find_id ?id (inflight _) = Some _ |- _ =>
         let X := fresh "INF" in pose proof (find_id_In _ _ _ H) as X; apply (in_map fst) in X; simpl in X end.
  all: try match goal with H : find_id ?p (results _) = Some _ |- _ =>
         let X := fresh "INR" in pose proof (D1 _ _ (find_id_In _ _ _ H)) as X; apply (in_map fst) in X; simpl in X end.
  (* done without wait-for-result: nobody is in PAwait *)
  all: try (exfalso; match goal with H : pget _ _ = Some PAwait |- _ =>
              apply G5 in H; apply wfr_eff_true' in H; destruct H; congruence end).
  all: try (apply hrem_fst_keep;
            [ intros ->;
              first [ eapply (NoDup_app_disj _ _ _ ND2); eassumption
                    | match goal with H : In _ (map fst (remove_id _ _)) |- _ =>
                        apply (remove_id_fst2 _ _ _ NDI) in H; destruct H; congruence end
                    | eapply (NoDup_app_disj _ _ _ ND); [eassumption|apply in_or_app; auto] ]
            | first [ apply P7; auto; fail
                    | apply P7; right; eapply In_fst_remove_id_inv; eassumption
                    | apply P8; assumption ] ]; fail).
  all: try (match goal with H : items _ = [] |- _ => rewrite H in * end; simpl in *; tauto).
  all: try (apply P7; auto; fail).
  all: try (pget_split H; [discriminate|]; apply hrem_fst_keep; [|apply P8; assumption];
            intros ->; rewrite Nat.eqb_refl in E; discriminate).
Qed.

(* the invariant holds in every reachable state *)
Lemma reach_poolinv c s : 0 <= cap c -> reachable c s -> poolinv c s.
Proof.
  intros Hc R. assert (X : allinv c s /\ poolinv c s); [|exact (proj2 X)].
  revert s R. apply reachP_ind.
  - split; [|apply poolinv_init].
    split; [|split; [|split]]; [apply tokinv_init|apply sizeinv_init; exact Hc|apply ghostinv_init|apply wfrinv_init].
  - intros s0 l s1 z R0 ((I1 & I2 & I3 & I4) & I5) W Hs. pose proof (reach_nofault _ c s0 (fun l H => H) R0) as NF. split.
    + split; [|split; [|split]].
      * eapply tokinv_step; eauto.
      * eapply sizeinv_step; eauto.
      * eapply ghostinv_step; eauto.
      * eapply wfrinv_step; eauto.
    + eapply poolinv_step; eauto.
Qed.

(* POOL SAFETY.  Two live requests never share a blockingDone; an object in the pool is referenced by no request
   (so the next Get cannot hand out an object whose channel may still receive somebody else's result, and
   bd.elSize is the size of the request the object is attached to); every queued or in-flight request of the
   in-memory queue and every producer waiting for its result has its own object. *)
Lemma pool_objects_unshared_l c s :
  0 <= cap c -> reachable c s ->
  NoDup (map snd (held s)) /\ NoDup (map fst (held s)) /\ NoDup (pool s) /\
  (forall b, In b (pool s) -> ~ In b (map snd (held s))) /\
  (kind c = Mem -> forall id, In id (map fst (items s)) \/ In id (map fst (inflight s)) ->
     exists b, hget id (held s) = Some b) /\
  (forall p, pget p (prods s) = Some PAwait -> exists b, hget p (held s) = Some b) /\
  (forall p b s' z, step c s (LObj p b) = Some (s', z) -> hget p (held s) = Some b /\ s' = s).
Proof.
  intros Hc R. destruct (reach_poolinv _ _ Hc R) as (P1 & P2 & P3 & P4 & _ & _ & P7 & P8).
  split; [exact P1|]. split; [exact P3|]. split; [exact P2|]. split; [exact P4|].
  split; [intros K id H; apply In_hget; apply P7; assumption|].
  split; [intros p H; apply In_hget; apply P8; assumption|].
  intros p b s' z H. unfold step in H. destruct (hget p (held s)) as [b'|]; [|discriminate].
  destruct (Nat.eqb b' b) eqn:E; [|discriminate]. apply Nat.eqb_eq in E. inversion H; subst. auto.
Qed.

