(* C02/PropCheck.v — decidable checkers of the property's clauses over the OBSERVED behaviour of the implementation
   (a case of the correspondence run: configuration + the labels the harness executed + what the implementation
   answered), independent of the model's step function.  Definitions only; PropCheckProofs.v proves each boolean
   checker equivalent to the Prop-level clause. *)
From Verif Require Export Common.Base C02.Model C02.Harness.
Local Open Scope Z_scope.

Definition zmem (x : Z) (l : list Z) : bool := existsb (Z.eqb x) l.

(* what the observations say so far *)
Record hist := mkH {
  h_acc : list Z;              (* ids whose Offer was accepted, in order *)
  h_ref : list Z;              (* ids whose Offer was refused *)
  h_hand : list Z;             (* ids returned by Read, in order *)
  h_fin : list Z;              (* ids whose OnDone was called *)
  h_cor : list Z;              (* ids whose stored copy was made unreadable *)
  h_szs : list (Z * Z);        (* size of every offered request *)
  h_drop : list Z              (* unreadable ids that a later Read has passed over (dropped) *)
}.
Definition h0 : hist := mkH [] [] [] [] [] [] [].

(* unreadable, not yet handed ids queued before id x: the Read that returns x has dropped them *)
Fixpoint before (x : Z) (l : list Z) : list Z :=
  match l with [] => [] | a :: r => if a =? x then [] else a :: before x r end.
Definition passed (x : Z) (h : hist) : list Z :=
  filter (fun id => zmem id (h_cor h) && negb (zmem id (h_hand h))) (before x (h_acc h)).

Definition upd (h : hist) (x : zlab * zobs) : hist :=
  let '((t, a, b), (r, _, _, _, _, _)) := x in
  if t =? 0 then
    let h1 := mkH (h_acc h) (h_ref h) (h_hand h) (h_fin h) (h_cor h) ((a, b) :: h_szs h) (h_drop h) in
    if (r =? 0) || (r =? 5) then mkH (h_acc h1 ++ [a]) (h_ref h1) (h_hand h1) (h_fin h1) (h_cor h1) (h_szs h1) (h_drop h)
    else if (r =? 1) || (r =? 2) || (r =? 3) then mkH (h_acc h1) (a :: h_ref h1) (h_hand h1) (h_fin h1) (h_cor h1) (h_szs h1) (h_drop h)
    else h1
  else if (t =? 17) || (t =? 18) then
    let h1 := mkH (h_acc h) (h_ref h) (h_hand h) (h_fin h) (h_cor h) ((a, b) :: h_szs h) (h_drop h) in
    if (r =? 1) || (r =? 2) || (r =? 9) || (r =? 22) then mkH (h_acc h1) (a :: h_ref h1) (h_hand h1) (h_fin h1) (h_cor h1) (h_szs h1) (h_drop h)
    else h1
  else if t =? 3 then
    if (r =? 0) || (r =? 5) then mkH (h_acc h ++ [a]) (h_ref h) (h_hand h) (h_fin h) (h_cor h) (h_szs h) (h_drop h)
    else if (r =? 9) || (r =? 22) then mkH (h_acc h) (a :: h_ref h) (h_hand h) (h_fin h) (h_cor h) (h_szs h) (h_drop h)
    else h
  else if (t =? 6) || (t =? 14) || (t =? 15) then
    if 10 <=? r then
      mkH (h_acc h) (h_ref h) (h_hand h ++ [r - 10]) (h_fin h) (h_cor h) (h_szs h)
          (passed (r - 10) h ++ h_drop h)
    else if (t =? 14) && (r =? c_parked) then
      mkH (h_acc h) (h_ref h) (h_hand h) (h_fin h) (h_cor h) (h_szs h)
          (filter (fun id => zmem id (h_cor h) && negb (zmem id (h_hand h))) (h_acc h) ++ h_drop h)
    else h
  else if t =? 7 then mkH (h_acc h) (h_ref h) (h_hand h) (a :: h_fin h) (h_cor h) (h_szs h) (h_drop h)
  else if t =? 16 then mkH (h_acc h) (h_ref h) (h_hand h) (h_fin h) (a :: h_cor h) (h_szs h) (h_drop h)
  else h.

(* the history after every label, paired with the observation made there *)
Fixpoint snaps (h : hist) (obs : list (zlab * zobs)) : list (hist * zobs) :=
  match obs with
  | [] => []
  | x :: r => let h' := upd h x in (h', snd x) :: snaps h' r
  end.

Definition final_hist (obs : list (zlab * zobs)) : hist := fold_left upd obs h0.

Fixpoint szof (id : Z) (l : list (Z * Z)) : Z :=
  match l with [] => 0 | (q, s) :: r => if q =? id then s else szof id r end.

(* accepted requests that are neither finished nor dropped *)
Definition unfinished (h : hist) : list Z :=
  filter (fun id => negb (zmem id (h_fin h)) && negb (zmem id (h_drop h))) (h_acc h).
Definition unfinished_sum (h : hist) : Z := sumZ (map (fun id => szof id (h_szs h)) (unfinished h)).

Definition o_size (o : zobs) : Z := let '(_, sz, _, _, _, _) := o in sz.

(* ---- the clauses, as booleans ---------------------------------------------------------------------------- *)
(* B: the reported size is never negative and never exceeds the capacity *)
Definition ok_bounds (capz : Z) (s : hist * zobs) : bool :=
  let sz := o_size (snd s) in (sz <? 0) || ((0 <=? sz) && (sz <=? capz)).
(* Z: it is zero once every accepted request has finished (or was dropped as unreadable) *)
Definition ok_zero (s : hist * zobs) : bool :=
  let sz := o_size (snd s) in
  (sz <? 0) || negb (match unfinished (fst s) with [] => true | _ => false end) || (sz =? 0).
(* M: in-memory queue: it equals the summed size of accepted-but-unfinished requests *)
Definition ok_exact (s : hist * zobs) : bool :=
  let sz := o_size (snd s) in (sz <? 0) || (sz =? unfinished_sum (fst s)).

(* H: hand-off — no id twice, only accepted ids, never a refused id, in acceptance order (unreadable ones skipped) *)
Fixpoint znodup (l : list Z) : bool := match l with [] => true | x :: r => negb (zmem x r) && znodup r end.
Fixpoint fifo_b (accl cor hs : list Z) : bool :=
  match hs with
  | [] => true
  | h :: hs' =>
      match accl with
      | [] => false
      | a :: accl' => if a =? h then fifo_b accl' cor hs'
                      else if zmem a cor then fifo_b accl' cor hs else false
      end
  end.
Definition ok_handoff (h : hist) : bool :=
  znodup (h_hand h) && forallb (fun id => negb (zmem id (h_ref h))) (h_hand h) && fifo_b (h_acc h) (h_cor h) (h_hand h).

Definition zkind (cs : zcase) : Z := let '(k, _, _, _) := fst cs in k.
Definition zcap (cs : zcase) : Z := let '(_, cp, _, _) := fst cs in cp.

(* 0 = every clause holds on this observed history; otherwise the number of the first violated clause *)
Definition prop_code (cs : zcase) : Z :=
  let sn := snaps h0 (snd cs) in
  if negb (forallb (ok_bounds (zcap cs)) sn) then 1
  else if negb (forallb ok_zero sn) then 2
  else if (zkind cs =? 0) && negb (forallb ok_exact sn) then 3
  else if negb (ok_handoff (final_hist (snd cs))) then 4
  else 0.
Definition prop_ok (cs : zcase) : bool := prop_code cs =? 0.
