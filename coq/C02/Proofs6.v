(* C02/Proofs6.v — round 3: nobody is stuck at quiescence; internal activity terminates (ranking function). *)
From Verif Require Import Common.Base C02.Model C02.Proofs C02.Proofs2 C02.Proofs3 C02.Proofs4.
Require Import ZifyBool Permutation.
Local Open Scope Z_scope.

Lemma fit_label_dec c l : {fit_label c l} + {~ fit_label c l}.
Proof.
  destruct l; simpl; try (left; exact I); try apply Z_le_dec.
  destruct (kind c); [left; intros; discriminate|].
  destruct (Z_le_dec sz (cap c)); [left; auto|right; intros H; apply n; apply H; reflexivity].
Qed.

Lemma stuck_not_all_returned s : stuck s -> ~ all_returned s.
Proof. intros (p & v & H & N) A. destruct (A _ _ H) as [r E]. exact (N r E). Qed.

(* at quiescence nobody is stuck (the former iff "stuck <-> F3 shape" with no F3 shape left) *)
Lemma no_stuck_at_quiescence_l c s :
  0 <= cap c -> reachable c s -> quiescent c s -> ~ stuck s.
Proof. intros Hc R Q ST. exact (stuck_not_all_returned _ ST (no_lost_wakeup_l c Hc s R Q)). Qed.

(* ---- (2) internal activity terminates: a ranking function ---------------------------------------------- *)
Lemma ccount_nonneg b l : 0 <= ccount b l.
Proof. induction l as [|[k w] l IH]; simpl; [lia|]. destruct (Bool.eqb w b); lia. Qed.
Lemma ccount_wake1 l : ccount true l <= ccount true (wake1 l) <= ccount true l + 1.
Proof. induction l as [|[k w] l IH]; cbn [wake1 ccount Bool.eqb]; [lia|]. destruct w; cbn [wake1 ccount Bool.eqb]; lia. Qed.
Lemma ccount_false_wake1 l : ccount false (wake1 l) + ccount true (wake1 l) = ccount false l + ccount true l.
Proof. induction l as [|[k w] l IH]; cbn [wake1 ccount Bool.eqb]; [lia|]. destruct w; cbn [wake1 ccount Bool.eqb]; lia. Qed.
Lemma ccount_crem k l w : cfind k l = Some w ->
  ccount true (crem k l) = ccount true l - (if w then 1 else 0) /\
  ccount false (crem k l) = ccount false l - (if w then 0 else 1).
Proof.
  induction l as [|[q u] l IH]; simpl; [discriminate|]. destruct (Nat.eqb q k); intros H.
  - inversion H; subst. destruct w; cbn [Bool.eqb]; lia.
  - destruct (IH H) as [E1 E2]. cbn [ccount]. rewrite E1, E2. destruct u, w; cbn [Bool.eqb]; lia.
Qed.
Lemma ccount_app b l k w : ccount b (l ++ [(k, w)]) = ccount b l + (if Bool.eqb w b then 1 else 0).
Proof. induction l as [|[q u] l IH]; simpl; [lia|]. rewrite IH. lia. Qed.

Lemma mu_nonneg s : tokinv s -> 0 <= mu s.
Proof.
  intros (T1 & T2 & _). unfold mu, b2z. pose proof (ccount_nonneg true (cons s)).
  pose proof (cnt_nonneg is_insel (prods s)). pose proof (cnt_nonneg is_lefttok (prods s)).
  pose proof (cnt_nonneg is_leftctx (prods s)). pose proof (cnt_nonneg is_await (prods s)).
  destruct (tok s); lia.
Qed.

Ltac cnt_rw2 :=
  repeat match goal with
  | H : pget ?p ?m = Some ?o |- context [cnt ?f (pset ?p ?v ?m)] => rewrite (cnt_pset_some f p v m o H)
  | H : pget ?p ?m = None |- context [cnt ?f (pset ?p ?v ?m)] => rewrite (cnt_pset_none f p v m H)
  end;
  cbn [is_insel is_lefttok is_leftctx is_await b2z].

Lemma length_remove_id id l sz :
  find_id id l = Some sz -> Z.of_nat (length l) = Z.of_nat (length (remove_id id l)) + 1.
Proof.
  induction l as [|[q w] l IH]; simpl; [discriminate|].
  destruct (Nat.eqb q id); intros H; [lia|]. specialize (IH H). cbn [length]. lia.
Qed.

Lemma mu_decreases c s l s' z :
  corrupt s = [] -> tokinv s -> stopped s = false -> internal l = true -> step c s l = Some (s', z) -> mu s' < mu s.
Proof.
  intros NF T St Hi H. destruct T as (T1 & T2 & _).
  revert T1 T2 St Hi. unfold mu. revert H.
  step_cases; intros T1 T2 St Hi; try discriminate; cnt_rw2;
    try congruence;
    try match goal with H : find_id ?id (inflight s) = Some _ |- _ => pose proof (length_remove_id _ _ _ H) end;
    try match goal with H : cfind ?k (cons s) = Some _ |- _ => pose proof (proj1 (ccount_crem _ _ _ H)) end;
    pose proof (ccount_wake1 (cons s)); rewrite ?ccount_app; cbn [Bool.eqb];
    repeat match goal with H : items s = _ |- _ => rewrite ?H; clear H end; cbv iota in *;
    cbn [length]; rewrite ?app_length; cbn [length]; unfold b2z;
    repeat match goal with |- context [if tok s then _ else _] => destruct (tok s) end; lia.
Qed.

Lemma stopped_internal c s l s' z :
  internal l = true -> step c s l = Some (s', z) -> stopped s' = stopped s.
Proof. intros Hi H. revert Hi. revert H. step_cases; intros Hi; try discriminate; first [reflexivity|congruence]. Qed.

Lemma internal_terminates_l c ls : forall s s',
  corrupt s = [] -> tokinv s -> stopped s = false -> internal_run ls -> run c s ls = Some s' ->
  Z.of_nat (length ls) <= mu s - mu s' /\ tokinv s' /\ stopped s' = false.
Proof.
  induction ls as [|l ls IH]; intros s s' NF T St IR R.
  - simpl in R. inversion R; subst. simpl. split; [lia|auto].
  - inversion IR as [|? ? Hi IR']; subst. simpl in R.
    destruct (step c s l) as [[s1 z]|] eqn:E; [|discriminate].
    pose proof (mu_decreases _ _ _ _ _ NF T St Hi E) as D.
    assert (NF1 : corrupt s1 = []) by (eapply nofault_step; [exact NF| |exact E]; destruct l; simpl; auto; discriminate).
    assert (T1 : tokinv s1) by (eapply tokinv_step; eauto).
    assert (St1 : stopped s1 = false) by (rewrite (stopped_internal _ _ _ _ _ Hi E); exact St).
    destruct (IH _ _ NF1 T1 St1 IR' R) as (L & T2 & St2).
    split; [|auto]. cbn [length]. lia.
Qed.

(* ---- the fate of a parked producer ------------------------------------------------------------------------- *)
Definition thread_of (l : label) : option nat :=
  match l with
  | LOffer p _ | LSelTok p | LSelCtx p | LRelockTok p | LRelockCtx p | LResult p | LAwaitCtx p | LOfferF p _ _ => Some p
  | _ => None
  end.

Lemma find_id_app_some p (l : list (nat * Z)) x k : find_id p l = Some k -> find_id p (l ++ [x]) = Some k.
Proof.
  induction l as [|[q w] l IH]; simpl; [discriminate|]. destruct (Nat.eqb q p); auto.
Qed.

Lemma step_frame c s l s' z :
  step c s l = Some (s', z) ->
  (forall p, thread_of l <> Some p -> pget p (prods s') = pget p (prods s)) /\
  (forall x, In x (acc s) -> In x (acc s')) /\
  (forall x, In x (cancelled s) -> In x (cancelled s')) /\
  (internal l = true -> cancelled s' = cancelled s /\ faulty s' = faulty s) /\
  (forall p k, find_id p (faulty s) = Some k -> find_id p (faulty s') = Some k).
Proof.
  intros H. revert H. step_cases; cbn [thread_of]; (split; [|split; [|split; [|split]]]); intros; auto;
    try (apply find_id_app_some; assumption);
    try (rewrite pget_pset_neq; [reflexivity|congruence]);
    try (apply in_or_app; left; assumption); try (right; assumption); try discriminate.
Qed.

Lemma fate_step c p s l s' z :
  blocking c = true -> fate p s -> step c s l = Some (s', z) -> fate p s'.
Proof.
  intros B F H.
  destruct (step_frame _ _ _ _ _ H) as (FR & AC & CA & _ & FA).
  assert (OTHER : thread_of l <> Some p -> fate p s').
  { intros N. unfold fate in *. rewrite (FR _ N).
    destruct (pget p (prods s)) as [[sz|sz|sz| |[| | | | |e|k]]|]; auto.
    destruct (find_id p (faulty s)) as [k0|] eqn:E; [|congruence]. rewrite (FA _ _ E). discriminate. }
  destruct l; try (apply OTHER; simpl; congruence);
    (destruct (Nat.eq_dec p0 p) as [->|NE]; [|apply OTHER; simpl; congruence]);
    clear OTHER FR AC CA FA; revert B F; unfold fate; revert H;
    step_cases; intros B F;
    try match goal with H : pget ?q (pset ?q ?v ?m) = ?x |- _ =>
          rewrite pget_pset_eq in H; first [discriminate H | inversion H; subst] end;
    rewrite ?pget_pset_eq; auto; try discriminate; try contradiction; try congruence;
    try (apply memb_In; assumption); try (apply in_or_app; right; left; reflexivity).
Qed.

Lemma fate_run c p ls : forall s s',
  blocking c = true -> fate p s -> run c s ls = Some s' -> fate p s'.
Proof.
  induction ls as [|l ls IH]; intros s s' B F R; simpl in R.
  - inversion R; subst. exact F.
  - destruct (step c s l) as [[s1 z]|] eqn:E; [|discriminate].
    eapply IH; [exact B| |exact R]. eapply fate_step; eauto.
Qed.

Lemma cancelled_internal_run c ls : forall s s',
  internal_run ls -> run c s ls = Some s' -> cancelled s' = cancelled s.
Proof.
  induction ls as [|l ls IH]; intros s s' IR R; simpl in R.
  - inversion R; subst. reflexivity.
  - inversion IR as [|? ? Hi IR']; subst.
    destruct (step c s l) as [[s1 z]|] eqn:E; [|discriminate].
    rewrite (IH _ _ IR' R). destruct (step_frame _ _ _ _ _ E) as (_ & _ & _ & X & _). exact (proj1 (X Hi)).
Qed.

Lemma faulty_internal_run c ls : forall s s',
  internal_run ls -> run c s ls = Some s' -> faulty s' = faulty s.
Proof.
  induction ls as [|l ls IH]; intros s s' IR R; simpl in R.
  - inversion R; subst. reflexivity.
  - inversion IR as [|? ? Hi IR']; subst.
    destruct (step c s l) as [[s1 z]|] eqn:E; [|discriminate].
    rewrite (IH _ _ IR' R). destruct (step_frame _ _ _ _ _ E) as (_ & _ & _ & X & _). exact (proj2 (X Hi)).
Qed.

(* a producer whose request cannot be stored is never accepted *)
Definition faultyinv (s : st) : Prop :=
  forall p k, find_id p (faulty s) = Some k -> ~ In p (acc s) /\ pget p (prods s) <> None.

Lemma find_id_app_inv p (l : list (nat * Z)) q k0 k :
  find_id p (l ++ [(q, k0)]) = Some k -> find_id p l = Some k \/ (p = q /\ find_id p l = None).
Proof.
  induction l as [|[r w] l IH]; simpl.
  - destruct (Nat.eqb q p) eqn:E; [apply Nat.eqb_eq in E; auto|discriminate].
  - destruct (Nat.eqb r p); auto.
Qed.

Lemma faultyinv_step c s l s' z :
  corrupt s = [] -> ghostinv c s -> faultyinv s -> step c s l = Some (s', z) -> faultyinv s'.
Proof.
  intros NF (_ & _ & _ & G4 & _) I H. revert I G4. unfold faultyinv. revert H.
  step_cases; intros I G4 q k0 Hq;
    try (apply find_id_app_inv in Hq; destruct Hq as [Hq|[-> Hq]];
         [|split; [eapply notin_acc_none; eassumption|rewrite pget_pset_eq; discriminate]]);
    destruct (I _ _ Hq) as [I1 I2];
    (split;
     [ first [ exact I1
             | intros X; apply in_app_or in X; destruct X as [X|[X|[]]]; [exact (I1 X)|subst; congruence] ]
     | rewrite ?pget_pset; try (destruct (Nat.eqb _ _)); try discriminate; exact I2 ]).
Qed.

Lemma reach_faultyinv c s : 0 <= cap c -> reachable c s -> faultyinv s.
Proof.
  intros Hc R. assert (X : allinv c s /\ faultyinv s); [|exact (proj2 X)].
  revert s R. apply reachP_ind.
  - split; [|intros p k H; discriminate].
    split; [|split; [|split]]; [apply tokinv_init|apply sizeinv_init; exact Hc|apply ghostinv_init|apply wfrinv_init].
  - intros s0 l s1 z R0 ((I1 & I2 & I3 & I4) & I5) W Hs. pose proof (reach_nofault _ c s0 (fun l H => H) R0) as NF. split.
    + split; [|split; [|split]].
      * eapply tokinv_step; eauto.
      * eapply sizeinv_step; eauto.
      * eapply ghostinv_step; eauto.
      * eapply wfrinv_step; eauto.
    + eapply faultyinv_step; eauto.
Qed.

Lemma reachP_run (P : label -> Prop) c ls : forall s s',
  reachP P c s -> Forall P ls -> run c s ls = Some s' -> reachP P c s'.
Proof.
  induction ls as [|l ls IH]; intros s s' RS F R; simpl in R.
  - inversion R; subst. exact RS.
  - inversion F; subst. destruct (step c s l) as [[s1 z]|] eqn:E; [|discriminate].
    eapply IH; [|eassumption|exact R]. eapply reachP_step; eauto.
Qed.

Lemma internal_is_fit c l : internal l = true -> wf_label c l /\ fit_label c l.
Proof. destruct l; simpl; intros H; try discriminate; auto. Qed.

(* RELEASED WHEN SPACE.  From any reachable state of a running queue, let only the queue's own threads move
   (blocked producers, consumers, completions; no new Offer, cancellation or Shutdown).  Then
   (a) at most [mu s] steps are possible, whatever the schedule: internal activity always terminates, so a weakly
       fair run — one that does not stop while an internal label is enabled — reaches a quiescent state;
   (b) in that quiescent state everybody has returned, the queue has drained, and every producer that was parked in
       [s] with a live context has been admitted, handed to a consumer and finished (or, if its request cannot be
       stored, has returned its error). *)
Lemma released_when_space_l c s ls s' :
  0 <= cap c -> reachable c s -> stopped s = false ->
  internal_run ls -> run c s ls = Some s' ->
  Z.of_nat (length ls) <= mu s /\
  (quiescent c s' ->
     all_returned s' /\ items s' = [] /\ inflight s' = [] /\ size s' = 0 /\
     forall p sz, blocking c = true ->
       pget p (prods s) = Some (PInSelect sz) \/ pget p (prods s) = Some (PLeftTok sz) ->
       ~ In p (cancelled s) ->
       (find_id p (faulty s) = None -> In p (acc s') /\ In p (hand s') /\ In p (map fst (fin s'))) /\
       (forall k, find_id p (faulty s) = Some k -> exists k', pget p (prods s') = Some (PRet (RErr k')))).
Proof.
  intros Hc RE St IR R.
  pose proof (reach_tokinv _ _ _ RE) as T.
  pose proof (reach_nofault _ c s (fun l H => H) RE) as NF.
  destruct (internal_terminates_l _ _ _ _ NF T St IR R) as (L & T' & _).
  pose proof (mu_nonneg s' T'). split; [lia|].
  intros Q.
  assert (RE' : reachable c s').
  { eapply reachP_run; [exact RE| |exact R]. eapply Forall_impl; [|exact IR]. intros a Ha. exact (proj1 (internal_is_fit c a Ha)). }
  pose proof (no_lost_wakeup_l c Hc s' RE' Q) as AR.
  destruct (quiescent_facts _ _ Q) as (Q1 & Q2 & _).
  destruct (pq_size_bounds_l _ _ Hc RE') as (_ & _ & Z0).
  split; [exact AR|]. split; [exact Q1|]. split; [exact Q2|]. split; [auto|].
  intros p sz B Hp NC.
  assert (F : fate p s) by (unfold fate; destruct Hp as [-> | ->]; exact I).
  pose proof (fate_run _ _ _ _ _ B F R) as F'.
  rewrite <- (cancelled_internal_run _ _ _ _ IR R) in NC.
  pose proof (faulty_internal_run _ _ _ _ IR R) as FE.
  split.
  2: { intros k Hk. unfold fate in F'. destruct (pget p (prods s')) as [v|] eqn:E; [|contradiction].
       destruct (AR _ _ E) as [r ->]. destruct r; eauto; exfalso; try contradiction;
         refine (proj1 (reach_faultyinv _ _ Hc RE' p k _) F'); rewrite FE; exact Hk. }
  intros NFp.
  assert (A : In p (acc s')).
  { unfold fate in F'. destruct (pget p (prods s')) as [v|] eqn:E; [|contradiction].
    destruct (AR _ _ E) as [r ->]. destruct r; auto; try contradiction.
    exfalso. apply F'. rewrite FE. exact NFp. }
  pose proof (handoff_complete_l _ _ Hc RE' Q1) as HA.
  destruct (handoff_exactly_once_l _ _ Hc RE') as (_ & _ & _ & _ & _ & _ & _ & _ & HF & _).
  split; [exact A|]. rewrite HA. split; [exact A|].
  destruct (HF p) as [X|X]; [rewrite HA; exact A|exact X|]. rewrite Q2 in X. contradiction.
Qed.

(* PROGRESS (constructive): in a reachable state of a running queue, if somebody is still inside Offer then an
   internal label is enabled — and by [mu_decreases] every enabled one leads strictly closer to quiescence. *)
Lemma progress_l c s :
  0 <= cap c -> reachable c s -> stopped s = false -> stuck s ->
  exists l s' z, internal l = true /\ step c s l = Some (s', z) /\ mu s' < mu s.
Proof.
  intros Hc RE St (p & v & Hp & NR).
  pose proof (reach_tokinv _ _ _ RE) as T.
  assert (EN : exists l, internal l = true /\ step c s l <> None).
  { destruct (reach_fit_inv _ _ Hc RE) as (((T1 & T2 & T3 & T4) & (B1 & _ & B3 & _) & (_ & _ & _ & _ & _ & G6) & _) & A & F & N).
    assert (RD : items s <> [] -> exists l, internal l = true /\ step c s l <> None).
    { intros NE. destruct (items s) as [|[q w] r] eqn:E; [congruence|].
      destruct (read_enabled_l c s q w r E (fun _ => St)) as (s1 & H1 & _).
      exists LRead. split; [reflexivity|]. rewrite H1. discriminate. }
    assert (DN : inflight s <> [] -> exists l, internal l = true /\ step c s l <> None).
    { intros NE. destruct (inflight s) as [|[q w] r] eqn:E; [congruence|].
      exists (LDone q 0). split; [reflexivity|]. unfold step, done. rewrite E. simpl.
      rewrite Nat.eqb_refl. discriminate. }
    assert (RT : forall q sz0, pget q (prods s) = Some (PLeftTok sz0) -> exists l, internal l = true /\ step c s l <> None).
    { intros q sz0 Hq. exists (LRelockTok q). split; [reflexivity|]. unfold step. rewrite Hq.
      destruct (0 <? sigs s); [|discriminate].
      destruct (find_id q _); [destruct (_ >? _)|]; discriminate. }
    assert (RC : forall q sz0, pget q (prods s) = Some (PLeftCtx sz0) -> exists l, internal l = true /\ step c s l <> None).
    { intros q sz0 Hq. exists (LRelockCtx q). split; [reflexivity|]. unfold step. rewrite Hq.
      destruct (waiting s =? 0); discriminate. }
    destruct v as [sz|sz|sz| |r].
    - destruct (tok s) eqn:Tk.
      { exists (LSelTok p). split; [reflexivity|]. unfold step. rewrite Hp, Tk. discriminate. }
      destruct (memb p (cancelled s)) eqn:Mb.
      { exists (LSelCtx p). split; [reflexivity|]. unfold step. rewrite Hp, Mb. discriminate. }
      destruct (items s) as [|x r] eqn:EI; [|apply RD; discriminate].
      destruct (inflight s) as [|y r'] eqn:EF; [|apply DN; discriminate].
      unfold sum_sz in B3. simpl in B3.
      pose proof (cnt_ge_of_pget is_insel _ _ _ Hp eq_refl) as S1.
      destruct (Z_lt_dec 0 (cnt is_lefttok (prods s))) as [LT|LT].
      { destruct (cnt_pos_ex is_lefttok (prods s) G6 LT) as (q & w & Hq & Hw). destruct w; try discriminate. eapply RT; eauto. }
      destruct (Z_lt_dec 0 (cnt is_leftctx (prods s))) as [LC|LC].
      { destruct (cnt_pos_ex is_leftctx (prods s) G6 LC) as (q & w & Hq & Hw). destruct w; try discriminate. eapply RC; eauto. }
      exfalso.
      pose proof (cnt_nonneg is_lefttok (prods s)). pose proof (cnt_nonneg is_leftctx (prods s)).
      assert (G0 : sigs s = 0).
      { destruct (Z_lt_dec 0 (sigs s)) as [P|P]; [|lia]. destruct (T4 P) as [X|X]; [congruence|lia]. }
      assert (WP : 0 < waiting s) by lia.
      destruct (N WP) as [X|X]; lia.
    - eapply RT; eauto.
    - eapply RC; eauto.
    - destruct (A _ Hp) as [I|[I|I]].
      + apply RD. intros E. rewrite E in I. exact I.
      + apply DN. intros E. rewrite E in I. exact I.
      + destruct (In_find_id _ _ I) as [e E]. exists (LResult p). split; [reflexivity|].
        unfold step, find_res. rewrite Hp, E. discriminate.
    - exfalso. exact (NR r eq_refl). }
  destruct EN as (l & Hi & NE). destruct (step c s l) as [[s1 z]|] eqn:E; [|congruence].
  exists l, s1, z. split; [exact Hi|]. split; [exact E|].
  eapply mu_decreases; eauto. exact (reach_nofault _ c s (fun l H => H) RE).
Qed.

(* ---- the cond API including Broadcast: the counter invariant holds on EVERY run -------------------------- *)
Lemma reachable_api_tokinv c s : reachable_api c s -> tokinv s.
Proof.
  intros [ls R]. apply (reach_tokinv (fun _ => True) c s). exists ls. split; [|exact R].
  clear R. induction ls; constructor; auto.
Qed.

Lemma cond_api_invariant_l c s :
  reachable_api c s ->
  cnt is_insel (prods s) + cnt is_lefttok (prods s) + cnt is_leftctx (prods s) = waiting s + sigs s /\
  0 <= waiting s /\ 0 <= sigs s /\ (0 < sigs s -> tok s = true \/ 0 < cnt is_lefttok (prods s)).
Proof. intros R. destruct (reachable_api_tokinv _ _ R) as (A1 & A2 & A3 & A4). auto. Qed.

(* Broadcast never blocks: every counted waiter gets a wake-up of its own, the bell is rung once *)
Lemma broadcast_step_l c s s' z :
  step c s LBroadcast = Some (s', z) ->
  z = 0 /\ waiting s' = 0 /\ sigs s' = sigs s + waiting s /\
  (0 < sigs s + waiting s -> tok s' = true) /\ (sigs s + waiting s <= 0 -> tok s' = tok s) /\
  size s' = size s /\ items s' = items s /\ prods s' = prods s.
Proof.
  intros H. revert H. step_cases; repeat split; intros; ss; try lia; try reflexivity; try congruence.
Qed.
