(* C02/Proofs3.v — the invariants hold in every reachable state; the property's safety clauses. *)
From Verif Require Import Common.Base C02.Model C02.Proofs C02.Proofs2.
Require Import ZifyBool Permutation.
Local Open Scope Z_scope.

Definition allinv (c : cfg) (s : st) : Prop := tokinv s /\ sizeinv c s /\ ghostinv c s /\ wfrinv s.

Lemma reach_inv (P : label -> Prop) c s :
  0 <= cap c -> (forall l, P l -> wf_label c l) -> reachP P c s -> allinv c s.
Proof.
  intros Hc HP. apply reachP_ind.
  - split; [|split; [|split]]; [apply tokinv_init|apply sizeinv_init; exact Hc|apply ghostinv_init|apply wfrinv_init].
  - intros s0 l s1 z R0 (I1 & I2 & I3 & I4) Pl Hs. pose proof (reach_nofault P c s0 HP R0) as NF.
    split; [|split; [|split]].
    + eapply tokinv_step; eauto.
    + eapply sizeinv_step; eauto.
    + eapply ghostinv_step; eauto.
    + eapply wfrinv_step; eauto.
Qed.

Lemma reachable_inv c s : 0 <= cap c -> reachable c s -> allinv c s.
Proof. intros Hc. apply reach_inv; auto. Qed.

(* the token invariant needs neither the capacity nor well-formed sizes *)
Lemma reach_tokinv (P : label -> Prop) c s : reachP P c s -> tokinv s.
Proof.
  apply reachP_ind; [apply tokinv_init|]. intros. eapply tokinv_step; eauto.
Qed.

Lemma sum_sz_app2 a b : sum_sz (a ++ b) = sum_sz a + sum_sz b.
Proof. unfold sum_sz. rewrite map_app, sumZ_app. reflexivity. Qed.

(* ---- sizes ------------------------------------------------------------------------------------------- *)
Lemma mq_size_exact_l c s :
  0 <= cap c -> kind c = Mem -> reachable c s ->
  size s = sum_sz (items s ++ inflight s) /\ 0 <= size s <= cap c.
Proof.
  intros Hc Hk R. destruct (reachable_inv _ _ Hc R) as (_ & (B1 & B2 & _) & _).
  rewrite sum_sz_app2. split; [apply B2; exact Hk|exact B1].
Qed.

Lemma pq_size_bounds_l c s :
  0 <= cap c -> reachable c s ->
  0 <= size s <= cap c /\ size s <= sum_sz (items s ++ inflight s) /\
  (items s = [] -> inflight s = [] -> size s = 0).
Proof.
  intros Hc R. destruct (reachable_inv _ _ Hc R) as (_ & (B1 & _ & B3 & _) & _).
  rewrite sum_sz_app2. repeat split; try lia.
  intros E1 E2. rewrite E1, E2 in B3. unfold sum_sz in B3. simpl in B3. lia.
Qed.

(* ---- the refusal rule -------------------------------------------------------------------------------- *)
Lemma offer_refused_iff_l c s p sz s' z :
  0 <= size s ->
  (kind c = Mem -> 0 < sz) ->
  step c s (LOffer p sz) = Some (s', z) ->
  ((z = c_full \/ z = c_toolarge \/ z = c_blocked) <-> size s + sz > cap c) /\
  ((z = c_enq \/ z = c_await) <-> size s + sz <= cap c) /\
  (z = c_full -> blocking c = false) /\
  (z = c_blocked -> blocking c = true /\ sz <= cap c) /\
  (z = c_toolarge -> sz > cap c /\ (kind c = Mem \/ blocking c = true)) /\
  (sz > cap c -> kind c = Mem \/ blocking c = true -> z = c_toolarge) /\
  (z = c_await <-> (size s + sz <= cap c /\ wfr_eff c = true)) /\
  ((z = c_enq \/ z = c_await) ->
     acc s' = acc s ++ [p] /\ items s' = items s ++ [(p, sz)] /\ size s' = size s + sz) /\
  (~ (z = c_enq \/ z = c_await) -> acc s' = acc s /\ items s' = items s /\ size s' = size s).
Proof.
  intros H0 Hm H. revert H0 Hm. revert H.
  step_cases; unfold c_full, c_toolarge, c_blocked, c_enq, c_await, c_zero, c_invalid in *; intros H0 Hm; try (specialize (Hm eq_refl));
    repeat split; intros; ss; try reflexivity; try lia; try discriminate; try tauto.
  all: try (destruct H1; discriminate); try (match goal with H : _ \/ _ |- _ => destruct H; discriminate end).
Qed.

Lemma offer_degenerate_l c s p sz s' z :
  kind c = Mem -> sz <= 0 ->
  step c s (LOffer p sz) = Some (s', z) ->
  (sz = 0 -> z = c_zero /\ pget p (prods s') = Some (PRet ROk)) /\
  (sz < 0 -> z = c_invalid /\ pget p (prods s') = Some (PRet RInvalid)) /\
  acc s' = acc s /\ items s' = items s /\ size s' = size s /\ hand s' = hand s.
Proof.
  intros Hk Hs H. revert Hk Hs. revert H.
  step_cases; unfold c_full, c_toolarge, c_blocked, c_enq, c_await, c_zero, c_invalid in *; intros Hk Hs; try discriminate;
    repeat split; intros; ss; rewrite ?pget_pset_eq; try reflexivity; try lia.
Qed.

(* a producer woken by a token is admitted exactly when its request now fits; otherwise it waits again *)
Lemma relock_admitted_iff_l c s p s' z sz :
  blocking c = true -> 0 < sigs s ->
  pget p (prods s) = Some (PLeftTok sz) -> find_id p (faulty s) = None ->
  step c s (LRelockTok p) = Some (s', z) ->
  ((z = c_enq \/ z = c_await) <-> size s + sz <= cap c) /\
  (z = c_blocked <-> size s + sz > cap c) /\
  ((z = c_enq \/ z = c_await) -> acc s' = acc s ++ [p] /\ size s' = size s + sz) /\
  (z = c_blocked -> acc s' = acc s /\ size s' = size s /\ pget p (prods s') = Some (PInSelect sz)).
Proof.
  intros Hb Hg Hp Hf H. revert Hb Hg Hp Hf. revert H.
  step_cases; unfold c_full, c_toolarge, c_blocked, c_enq, c_await, c_zero, c_invalid in *; intros Hb Hg Hp Hf; try discriminate; try lia; try congruence; inversion Hp; subst;
    repeat split; intros; ss; rewrite ?pget_pset_eq; try reflexivity; try lia; try discriminate; try tauto.
Qed.

(* ---- hand-off: FIFO and exactly once ------------------------------------------------------------------ *)
Lemma handoff_fifo_l c s :
  0 <= cap c -> reachable c s -> hand s ++ map fst (items s) = acc s.
Proof. intros Hc R. destruct (reachable_inv _ _ Hc R) as (_ & _ & (G1 & _) & _). symmetry. exact G1. Qed.

Lemma NoDup_app_l {A} (l1 l2 : list A) : NoDup (l1 ++ l2) -> NoDup l1.
Proof.
  induction l1 as [|a l1 IH]; simpl; intros H; [constructor|].
  inversion H; subst. constructor; [intros I; apply H2; apply in_or_app; auto|auto].
Qed.

Lemma handoff_exactly_once_l c s :
  0 <= cap c -> reachable c s ->
  NoDup (hand s) /\
  (forall id, In id (hand s) -> In id (acc s)) /\
  (forall id, In id (acc s) -> In id (hand s) \/ In id (map fst (items s))) /\
  (forall p r, pget p (prods s) = Some (PRet r) -> refused_result r = true -> ~ In p (acc s) /\ ~ In p (hand s)) /\
  (forall p sz, pget p (prods s) = Some (PInSelect sz) \/ pget p (prods s) = Some (PLeftTok sz) \/
                pget p (prods s) = Some (PLeftCtx sz) -> ~ In p (hand s)) /\
  (wfr_eff c = false -> forall p, pget p (prods s) = Some (PRet RCtx) -> ~ In p (hand s)) /\
  NoDup (map fst (fin s)) /\
  (forall id, In id (map fst (fin s)) -> In id (hand s)) /\
  (forall id, In id (hand s) -> In id (map fst (fin s)) \/ In id (map fst (inflight s))) /\
  NoDup (map fst (fin s) ++ map fst (inflight s) ++ map fst (items s)).
Proof.
  intros Hc R. destruct (reachable_inv _ _ Hc R) as (_ & _ & (G1 & G2 & G3 & G4 & G5 & G6) & _).
  assert (ND : NoDup (hand s)) by (rewrite G1 in G3; eapply NoDup_app_l; exact G3).
  assert (SUB : forall id, In id (hand s) -> In id (acc s)) by (intros id I; rewrite G1; apply in_or_app; auto).
  assert (NA : forall p v, pget p (prods s) = Some v -> ~ accepted_pstate c v -> ~ In p (acc s)).
  { intros p v Hp Hn I. destruct (G4 _ I) as [v' [H1 H2]]. rewrite Hp in H1. inversion H1; subst. auto. }
  assert (NDF : NoDup (map fst (fin s) ++ map fst (inflight s))) by (eapply Permutation_NoDup; [exact G2|exact ND]).
  split; [exact ND|]. split; [exact SUB|].
  split. { intros id I. rewrite G1 in I. apply in_app_or in I. exact I. }
  assert (REF : forall p r, pget p (prods s) = Some (PRet r) -> refused_result r = true -> ~ In p (acc s)).
  { intros p r Hp Hr. eapply NA; [exact Hp|]. unfold accepted_pstate. destruct r; simpl in *; try discriminate;
      intros [X|[X|[[e X]|[X _]]]]; discriminate. }
  split. { intros p r Hp Hr. split; [eapply REF; eauto|]. intros I. apply SUB in I. revert I. eapply REF; eauto. }
  split. { intros p sz H I. apply SUB in I. revert I. destruct H as [H|[H|H]]; (eapply NA; [exact H|]);
      unfold accepted_pstate; intros [X|[X|[[e X]|[X _]]]]; discriminate. }
  split. { intros W p Hp I. apply SUB in I. revert I. eapply NA; [exact Hp|]. unfold accepted_pstate.
    intros [X|[X|[[e X]|[_ X]]]]; try discriminate. congruence. }
  split. { eapply NoDup_app_l. exact NDF. }
  split. { intros id I. eapply Permutation_in; [symmetry; exact G2|]. apply in_or_app. auto. }
  split. { intros id I. apply in_app_or. eapply Permutation_in; [exact G2|exact I]. }
  rewrite app_assoc. eapply Permutation_NoDup; [|exact G3]. rewrite G1.
  apply Permutation_app_tail. exact G2.
Qed.

(* progress of the hand-off: whenever something is queued and the mutex is free, a Read returns the head *)
Lemma read_enabled_l c s p sz r :
  items s = (p, sz) :: r -> (kind c = Pers -> stopped s = false) ->
  exists s', step c s LRead = Some (s', 10 + Z.of_nat p) /\ hand s' = hand s ++ [p] /\ items s' = r.
Proof.
  intros Hi Hs. unfold step, read. rewrite Hi.
  destruct (kind c) eqn:K.
  - eexists. split; [reflexivity|]. unfold handoff. ss. auto.
  - rewrite (Hs eq_refl). destruct r as [|x r'].
    + eexists. split; [reflexivity|]. unfold handoff, signal. ss.
      destruct (waiting s =? 0); ss; [auto|]. destruct (tok s); ss; auto.
    + eexists. split; [reflexivity|]. unfold handoff. ss. auto.
Qed.

Lemma handoff_complete_l c s :
  0 <= cap c -> reachable c s -> items s = [] -> hand s = acc s.
Proof. intros Hc R E. rewrite <- (handoff_fifo_l c s Hc R), E. simpl. rewrite app_nil_r. reflexivity. Qed.

(* ---- the condition variable ------------------------------------------------------------------------- *)
Lemma cond_token_invariant_l c s :
  reachable c s ->
  cnt is_insel (prods s) + cnt is_lefttok (prods s) + cnt is_leftctx (prods s) = waiting s + sigs s /\
  0 <= waiting s /\ 0 <= sigs s /\
  (0 < sigs s -> tok s = true \/ 0 < cnt is_lefttok (prods s)).
Proof. intros R. destruct (reach_tokinv _ _ _ R) as (A1 & A2 & A3 & A4). auto. Qed.

(* a waiter whose context ended always gets the mutex and returns the context error (it never waits for a token) *)
Lemma cancelled_waiter_reclaims_l c s p sz :
  pget p (prods s) = Some (PLeftCtx sz) ->
  exists s', step c s (LRelockCtx p) = Some (s', c_ctx) /\ pget p (prods s') = Some (PRet RCtx).
Proof.
  intros H. unfold step. rewrite H. destruct (waiting s =? 0); eexists; (split; [reflexivity|]); ss; apply pget_pset_eq.
Qed.

(* ---- wait for result ---------------------------------------------------------------------------------- *)
Lemma wait_for_result_own_outcome_l c s p :
  0 <= cap c -> reachable c s ->
  (forall e, pget p (prods s) = Some (PRet (RRes e)) ->
     In (p, e) (fin s) /\ forall e', In (p, e') (fin s) -> e' = e) /\
  (pget p (prods s) = Some (PRet RCtx) -> In p (cancelled s)).
Proof.
  intros Hc R. pose proof (handoff_exactly_once_l c s Hc R) as (_ & _ & _ & _ & _ & _ & NDF & _).
  destruct (reachable_inv _ _ Hc R) as (_ & _ & _ & (D1 & D3 & D4 & D5)).
  split; [|apply D4].
  intros e Hp. split; [apply D3; exact Hp|].
  intros e' I'. pose proof (D3 _ _ Hp) as I.
  clear - NDF I I'. induction (fin s) as [|[q w] l IH]; simpl in *; [tauto|].
  inversion NDF; subst.
  destruct I as [I|I], I' as [I'|I'].
  - congruence.
  - inversion I; subst. exfalso. apply H1. apply (in_map fst) in I'. exact I'.
  - inversion I'; subst. exfalso. apply H1. apply (in_map fst) in I. exact I.
  - auto.
Qed.
