(* C02/Harness.v — comparison of the model with label sequences executed on the real queues.
   A case is  (config, [ (label, observation) ... ])  with everything coded as Z:
     config      = (kind 0 mem / 1 persistent, capacity, block_on_overflow 0/1, wait_for_result 0/1)
     label       = (tag, a, b)   tag 0 Offer(p=a, size=b) 1 SelTok a 2 SelCtx a 3 RelockTok a 4 RelockCtx a
                                     5 Cancel a 6 Read 7 Done(id=a, err class=b) 8 Result a 9 AwaitCtx a 10 Shutdown
                                     11 Pick(object a) 12 Obj(request a carries object b) 13 Broadcast (cond API)
                                     14 CRead(consumer a) 15 CWake(consumer a) 16 Corrupt(stored copy of request a)
                                     17 Offer(p=a, size=b) whose Marshal fails  18 Offer(p=a, size=b) whose storage write fails
     observation = (result code, Size(), cond.waiting, len(cond.ch), consumers parked un-signalled in Read,
                    cond.signals); a negative component means
                   "not observed after this label" (intermediate step of a free-running thread). *)
From Verif Require Import Common.Base C02.Model.
Local Open Scope Z_scope.

Definition zcfg := (Z * Z * Z * Z)%type.
Definition zlab := (Z * Z * Z)%type.
Definition zobs := (Z * Z * Z * Z * Z * Z)%type.
Definition zcase := (zcfg * list (zlab * zobs))%type.

Definition cfg_of (z : zcfg) : cfg :=
  let '(k, cp, b, w) := z in
  {| kind := if k =? 0 then Mem else Pers; cap := cp; blocking := negb (b =? 0); wfr := negb (w =? 0) |}.

Definition label_of (z : zlab) : option label :=
  let '(t, a, b) := z in
  let p := Z.to_nat a in
  if a <? 0 then None else
  match t with
  | 0 => Some (LOffer p b)
  | 1 => Some (LSelTok p)
  | 2 => Some (LSelCtx p)
  | 3 => Some (LRelockTok p)
  | 4 => Some (LRelockCtx p)
  | 5 => Some (LCancel p)
  | 6 => Some LRead
  | 7 => Some (LDone p b)
  | 8 => Some (LResult p)
  | 9 => Some (LAwaitCtx p)
  | 10 => Some LShutdown
  | 11 => Some (LPick p)
  | 12 => if b <? 0 then None else Some (LObj p (Z.to_nat b))
  | 13 => Some LBroadcast
  | 14 => Some (LCRead p)
  | 15 => Some (LCWake p)
  | 16 => Some (LCorrupt p)
  | 17 => Some (LOfferF p b c_marshal)
  | 18 => Some (LOfferF p b c_storeerr)
  | _ => None
  end.

Definition agree (observed model : Z) : bool := (observed <? 0) || (observed =? model).

Definition obs_ok (o : zobs) (res : Z) (s : st) : bool :=
  let '(r, sz, w, t, cw, g) := o in
  agree cw (ccount false (cons s)) &&
  agree r res && agree sz (size s) && agree w (waiting s) && agree t (b2z (tok s)) && agree g (sigs s).

Fixpoint check_run (c : cfg) (s : st) (ls : list (zlab * zobs)) : bool :=
  match ls with
  | [] => true
  | (zl, o) :: r =>
      match label_of zl with
      | None => false
      | Some l =>
          (* the anonymous LRead is the fault-free Read section: not allowed while unreadable items are stored *)
          match (match l with
                 | LRead => if existsb (fun x => memb (fst x) (corrupt s)) (items s) then None else step c s l
                 | _ => step c s l
                 end) with
          | None => false                      (* the model does not allow this label here *)
          | Some (s', res) => obs_ok o res s' && check_run c s' r
          end
      end
  end.

Definition check_case (cs : zcase) : bool := check_run (cfg_of (fst cs)) init (snd cs).

(* for replay files: the model's own observations along the label sequence, until it refuses *)
Fixpoint model_run (c : cfg) (s : st) (ls : list (zlab * zobs)) : list (option zobs) :=
  match ls with
  | [] => []
  | (zl, _) :: r =>
      match opt_bind (label_of zl) (step c s) with
      | None => [None]
      | Some (s', res) =>
          Some (res, size s', waiting s', b2z (tok s'), ccount false (cons s'), sigs s') :: model_run c s' r
      end
  end.

Definition model_out (cs : zcase) : list (option zobs) := model_run (cfg_of (fst cs)) init (snd cs).
