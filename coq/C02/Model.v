(* C02/Model.v — executable model of the exporter sending queue (no proofs in this file).

   Code modelled (exporter/exporterhelper/internal/queuebatch):
     memory_queue.go      Offer / add / Read / onDone / Shutdown / Size, linkedQueue (FIFO list)
     cond.go              Signal / Wait (the context-aware condition variable), exactly as written
     persistent_queue.go  the volatile half: putInternal's wait loop and size accounting, Read's
                          size reset when the read index catches up, onDone's clamp at 0, Read
                          returning false as soon as the queue is stopped
     async_queue.go       the consumer loop is "Read; consumeFunc; ... OnDone": labels LRead / LDone

   The model is a labelled transition system whose labels are the ATOMIC SECTIONS of the Go code
   (DESIGN 2.4): everything between acquiring and releasing the queue's mutex is one step; a
   `select` is one step per branch taken; a channel operation outside the mutex is one step.
   A request is identified with the producer thread that offers it (every producer thread calls
   Offer once), so ids need no separate allocation.

   Assumed semantics (modelled, not verified): sync.Mutex (mutual exclusion, no fairness),
   buffered channels (a receive from a full channel with a blocked sender moves the sender's
   value into the buffer in the same step), `select` (any ready branch), context cancellation,
   sync.Cond for the consumers ("Read is enabled when it would return").  Storage is error free. *)
From Verif Require Import Common.Base.
Local Open Scope Z_scope.

Inductive qkind := Mem | Pers.
Record cfg := { kind : qkind; cap : Z; blocking : bool; wfr : bool }.

(* wait_for_result exists for the in-memory queue only *)
Definition wfr_eff (c : cfg) : bool := match kind c with Mem => wfr c | Pers => false end.

(* what Offer returned *)
Inductive result := ROk | RFull | RTooLarge | RInvalid | RCtx | RRes (e : Z)
  | RErr (k : Z).   (* persistent queue: Encoding.Marshal failed (k = 9) / the storage write failed (k = 22) *)

(* program counter of a producer thread inside Offer *)
Inductive pstate :=
| PInSelect (sz : Z)    (* inside cond.Wait's select (counted in c.waiting or already signalled) *)
| PLeftTok (sz : Z)     (* received from c.ch, has not re-acquired the mutex yet *)
| PLeftCtx (sz : Z)     (* left the select on ctx.Done(), has not re-acquired the mutex yet *)
| PAwait                (* wait_for_result: request enqueued, select on done.ch / ctx.Done() *)
| PRet (r : result).    (* Offer returned *)

(* Since fix a6d2b6d09 (finding F3) the condition variable never blocks while issuing a wake-up: the queue mutex is
   free between any two atomic sections, so the model has no "mutex held by a blocked thread" state any more.
   PRE-REPAIR cond (documentation only, nothing below uses it):
     Signal_old : if waiting == 0 {return}; waiting--; ch <- struct{}{}        -- BLOCKING send on the 1-slot channel
     Wait_old   : waiting++; Unlock; select { case <-ctx.Done(): Lock; if waiting == 0 { <-ch } else { waiting-- }
                                             case <-ch: Lock; return nil }
   With two cancelled waiters past their select and two Signals in a row the second send blocked for ever with the
   mutex held (F3).  [signal_old] is that Signal on the pair (waiting, token in the channel): None = the send blocks. *)
Definition signal_old (w : Z) (t : bool) : option (Z * bool) :=
  if w =? 0 then Some (w, t) else if t then None else Some (w - 1, true).

Record st := mkSt {
  size : Z;                       (* memoryQueue.size / persistentQueue.queueSize *)
  items : list (nat * Z);         (* linkedQueue / storage range [readIndex, writeIndex): (id, size), head first *)
  inflight : list (nat * Z);      (* handed to a consumer, OnDone not called yet *)
  stopped : bool;
  waiting : Z;                    (* cond.waiting *)
  tok : bool;                     (* len(cond.ch) = 1: the door bell is rung *)
  sigs : Z;                       (* cond.signals: wake-ups issued and not yet taken by a waiter (guarded by the mutex) *)
  prods : list (nat * pstate);    (* producer threads that have called Offer *)
  cancelled : list nat;           (* producers whose context has ended *)
  results : list (nat * Z);       (* contents of the blockingDone channels, keyed by request id *)
  (* history (ghost) *)
  acc : list nat;                 (* ids in the order in which they were enqueued *)
  hand : list nat;                (* ids in the order in which Read handed them to a consumer *)
  fin : list (nat * Z);           (* (id, err) in the order in which OnDone was called *)
  (* blockingDonePool (sync.Pool) of the in-memory queue: objects are numbered in order of creation *)
  pool : list nat;                (* objects currently in the pool *)
  held : list (nat * nat);        (* request id -> its blockingDone, from Get until Put (for ever if abandoned) *)
  nobj : nat;                     (* number of objects created so far (pool.New) *)
  pick : nat;                     (* which pooled object the next Get returns (sync.Pool: any; chosen by LPick) *)
  (* consumers parked in Read on hasMoreElements (a sync.Cond: FIFO notify list), in arrival order;
     true = already signalled (runnable, has to re-acquire the mutex) *)
  cons : list (nat * bool);
  (* persistent queue, storage faults: ids of queued requests whose stored copy has become unreadable *)
  corrupt : list nat;
  dropped : list nat;             (* ghost: ids dropped by getNextItem (never handed over) *)
  faulty : list (nat * Z)         (* persistent queue: parked producers whose request will fail Marshal (9) / the storage write (22) *)
}.

Definition init : st := mkSt 0 [] [] false 0 false 0 [] [] [] [] [] [] [] [] 0%nat 0%nat [] [] [] [].

Definition set_size v s := mkSt v (items s) (inflight s) (stopped s) (waiting s) (tok s) (sigs s) (prods s) (cancelled s) (results s) (acc s) (hand s) (fin s) (pool s) (held s) (nobj s) (pick s) (cons s) (corrupt s) (dropped s) (faulty s).
Definition set_items v s := mkSt (size s) v (inflight s) (stopped s) (waiting s) (tok s) (sigs s) (prods s) (cancelled s) (results s) (acc s) (hand s) (fin s) (pool s) (held s) (nobj s) (pick s) (cons s) (corrupt s) (dropped s) (faulty s).
Definition set_inflight v s := mkSt (size s) (items s) v (stopped s) (waiting s) (tok s) (sigs s) (prods s) (cancelled s) (results s) (acc s) (hand s) (fin s) (pool s) (held s) (nobj s) (pick s) (cons s) (corrupt s) (dropped s) (faulty s).
Definition set_stopped v s := mkSt (size s) (items s) (inflight s) v (waiting s) (tok s) (sigs s) (prods s) (cancelled s) (results s) (acc s) (hand s) (fin s) (pool s) (held s) (nobj s) (pick s) (cons s) (corrupt s) (dropped s) (faulty s).
Definition set_waiting v s := mkSt (size s) (items s) (inflight s) (stopped s) v (tok s) (sigs s) (prods s) (cancelled s) (results s) (acc s) (hand s) (fin s) (pool s) (held s) (nobj s) (pick s) (cons s) (corrupt s) (dropped s) (faulty s).
Definition set_tok v s := mkSt (size s) (items s) (inflight s) (stopped s) (waiting s) v (sigs s) (prods s) (cancelled s) (results s) (acc s) (hand s) (fin s) (pool s) (held s) (nobj s) (pick s) (cons s) (corrupt s) (dropped s) (faulty s).
Definition set_sigs v s := mkSt (size s) (items s) (inflight s) (stopped s) (waiting s) (tok s) v (prods s) (cancelled s) (results s) (acc s) (hand s) (fin s) (pool s) (held s) (nobj s) (pick s) (cons s) (corrupt s) (dropped s) (faulty s).
Definition set_prods v s := mkSt (size s) (items s) (inflight s) (stopped s) (waiting s) (tok s) (sigs s) v (cancelled s) (results s) (acc s) (hand s) (fin s) (pool s) (held s) (nobj s) (pick s) (cons s) (corrupt s) (dropped s) (faulty s).
Definition set_cancelled v s := mkSt (size s) (items s) (inflight s) (stopped s) (waiting s) (tok s) (sigs s) (prods s) v (results s) (acc s) (hand s) (fin s) (pool s) (held s) (nobj s) (pick s) (cons s) (corrupt s) (dropped s) (faulty s).
Definition set_results v s := mkSt (size s) (items s) (inflight s) (stopped s) (waiting s) (tok s) (sigs s) (prods s) (cancelled s) v (acc s) (hand s) (fin s) (pool s) (held s) (nobj s) (pick s) (cons s) (corrupt s) (dropped s) (faulty s).
Definition set_acc v s := mkSt (size s) (items s) (inflight s) (stopped s) (waiting s) (tok s) (sigs s) (prods s) (cancelled s) (results s) v (hand s) (fin s) (pool s) (held s) (nobj s) (pick s) (cons s) (corrupt s) (dropped s) (faulty s).
Definition set_hand v s := mkSt (size s) (items s) (inflight s) (stopped s) (waiting s) (tok s) (sigs s) (prods s) (cancelled s) (results s) (acc s) v (fin s) (pool s) (held s) (nobj s) (pick s) (cons s) (corrupt s) (dropped s) (faulty s).
Definition set_fin v s := mkSt (size s) (items s) (inflight s) (stopped s) (waiting s) (tok s) (sigs s) (prods s) (cancelled s) (results s) (acc s) (hand s) v (pool s) (held s) (nobj s) (pick s) (cons s) (corrupt s) (dropped s) (faulty s).
Definition set_pool v s := mkSt (size s) (items s) (inflight s) (stopped s) (waiting s) (tok s) (sigs s) (prods s) (cancelled s) (results s) (acc s) (hand s) (fin s) v (held s) (nobj s) (pick s) (cons s) (corrupt s) (dropped s) (faulty s).
Definition set_held v s := mkSt (size s) (items s) (inflight s) (stopped s) (waiting s) (tok s) (sigs s) (prods s) (cancelled s) (results s) (acc s) (hand s) (fin s) (pool s) v (nobj s) (pick s) (cons s) (corrupt s) (dropped s) (faulty s).
Definition set_nobj v s := mkSt (size s) (items s) (inflight s) (stopped s) (waiting s) (tok s) (sigs s) (prods s) (cancelled s) (results s) (acc s) (hand s) (fin s) (pool s) (held s) v (pick s) (cons s) (corrupt s) (dropped s) (faulty s).
Definition set_pick v s := mkSt (size s) (items s) (inflight s) (stopped s) (waiting s) (tok s) (sigs s) (prods s) (cancelled s) (results s) (acc s) (hand s) (fin s) (pool s) (held s) (nobj s) v (cons s) (corrupt s) (dropped s) (faulty s).
Definition set_cons v s := mkSt (size s) (items s) (inflight s) (stopped s) (waiting s) (tok s) (sigs s) (prods s) (cancelled s) (results s) (acc s) (hand s) (fin s) (pool s) (held s) (nobj s) (pick s) v (corrupt s) (dropped s) (faulty s).
Definition set_corrupt v s := mkSt (size s) (items s) (inflight s) (stopped s) (waiting s) (tok s) (sigs s) (prods s) (cancelled s) (results s) (acc s) (hand s) (fin s) (pool s) (held s) (nobj s) (pick s) (cons s) v (dropped s) (faulty s).
Definition set_dropped v s := mkSt (size s) (items s) (inflight s) (stopped s) (waiting s) (tok s) (sigs s) (prods s) (cancelled s) (results s) (acc s) (hand s) (fin s) (pool s) (held s) (nobj s) (pick s) (cons s) (corrupt s) v (faulty s).
Definition set_faulty v s := mkSt (size s) (items s) (inflight s) (stopped s) (waiting s) (tok s) (sigs s) (prods s) (cancelled s) (results s) (acc s) (hand s) (fin s) (pool s) (held s) (nobj s) (pick s) (cons s) (corrupt s) (dropped s) v.

(* ---- the thread map ------------------------------------------------------------------------ *)
Fixpoint pget (p : nat) (m : list (nat * pstate)) : option pstate :=
  match m with
  | [] => None
  | (q, v) :: r => if Nat.eqb q p then Some v else pget p r
  end.

Fixpoint pset (p : nat) (v : pstate) (m : list (nat * pstate)) : list (nat * pstate) :=
  match m with
  | [] => [(p, v)]
  | (q, w) :: r => if Nat.eqb q p then (q, v) :: r else (q, w) :: pset p v r
  end.

Definition setp (p : nat) (v : pstate) (s : st) : st := set_prods (pset p v (prods s)) s.

Definition memb (p : nat) (l : list nat) : bool := existsb (Nat.eqb p) l.

(* ---- cond.Signal (called with the mutex held) -------------------------------------------------
     if c.waiting == 0 { return }
     c.waiting--; c.signals++
     c.ring()                  // non-blocking send on the 1-slot channel: the bell is rung (or already was) *)
Definition signal (s : st) : st :=
  if waiting s =? 0 then s
  else set_tok true (set_sigs (sigs s + 1) (set_waiting (waiting s - 1) s)).

(* ---- hasMoreElements (sync.Cond): Signal wakes the longest-waiting parked consumer, Broadcast all ---- *)
Fixpoint wake1 (l : list (nat * bool)) : list (nat * bool) :=
  match l with
  | [] => []
  | (k, w) :: r => if w then (k, w) :: wake1 r else (k, true) :: r
  end.
Definition wakeall (l : list (nat * bool)) : list (nat * bool) := map (fun x => (fst x, true)) l.
Fixpoint cfind (k : nat) (l : list (nat * bool)) : option bool :=
  match l with [] => None | (q, w) :: r => if Nat.eqb q k then Some w else cfind k r end.
Fixpoint crem (k : nat) (l : list (nat * bool)) : list (nat * bool) :=
  match l with [] => [] | (q, w) :: r => if Nat.eqb q k then r else (q, w) :: crem k r end.
Fixpoint ccount (b : bool) (l : list (nat * bool)) : Z :=
  match l with [] => 0 | (_, w) :: r => (if Bool.eqb w b then 1 else 0) + ccount b r end.

(* ---- cond.Broadcast (called with the mutex held) ---------------------------------------------------
     c.signals += c.waiting; c.waiting = 0; if c.signals > 0 { c.ring() }
   NOTE: no production code calls it — memoryQueue/persistentQueue.Shutdown broadcast on hasMoreElements, which is
   a sync.Cond, not this type.  It is modelled as part of the cond API (label LBroadcast, excluded from the
   queues' [reachable] by wf_label) and exercised by the harness through a direct call. *)
Definition bcast (s : st) : st :=
  let s1 := set_waiting 0 (set_sigs (sigs s + waiting s) s) in
  if 0 <? sigs s1 then set_tok true s1 else s1.

(* ---- blockingDonePool (memory_queue.go; the persistent queue's indexDonePool is never Put to) -------
   sync.Pool.Get returns ANY pooled object or a new one: the environment label [LPick b] chooses which pooled
   object the next Get returns; if that object is not in the pool, Get calls New. *)
Fixpoint rem_nat (b : nat) (l : list nat) : list nat :=
  match l with [] => [] | x :: r => if Nat.eqb x b then r else x :: rem_nat b r end.
Fixpoint hget (id : nat) (h : list (nat * nat)) : option nat :=
  match h with [] => None | (q, b) :: r => if Nat.eqb q id then Some b else hget id r end.
Fixpoint hrem (id : nat) (h : list (nat * nat)) : list (nat * nat) :=
  match h with [] => [] | (q, b) :: r => if Nat.eqb q id then r else (q, b) :: hrem id r end.

(* done := blockingDonePool.Get(); done.reset(elSize, mq)  — for request p *)
Definition pool_get (p : nat) (s : st) : st :=
  if memb (pick s) (pool s)
  then set_held (held s ++ [(p, pick s)]) (set_pool (rem_nat (pick s) (pool s)) s)
  else set_held (held s ++ [(p, nobj s)]) (set_nobj (S (nobj s)) s).

(* blockingDonePool.Put(<the object of request id>) *)
Definition pool_put (id : nat) (s : st) : st :=
  match hget id (held s) with
  | Some b => set_held (hrem id (held s)) (set_pool (b :: pool s) s)
  | None => s
  end.

(* ---- Offer ---------------------------------------------------------------------------------- *)
(* tail of memoryQueue.add / persistentQueue.putInternal once the request fits *)
Definition enqueue (c : cfg) (p : nat) (sz : Z) (s0 : st) : st :=
  let s := match kind c with Mem => pool_get p s0 | Pers => s0 end in
  let s1 := set_size (size s + sz) s in
  let s2 := set_items (items s1 ++ [(p, sz)]) s1 in
  let s3 := set_acc (acc s2 ++ [p]) s2 in
  let s4 := set_cons (wake1 (cons s3)) s3 in                     (* hasMoreElements.Signal() *)
  setp p (if wfr_eff c then PAwait else PRet ROk) s4.

(* result codes reported to the correspondence harness *)
Definition c_enq : Z := 0.     Definition c_full : Z := 1.   Definition c_toolarge : Z := 2.
Definition c_invalid : Z := 3. Definition c_blocked : Z := 4. Definition c_await : Z := 5.
Definition c_zero : Z := 6.    Definition c_closed : Z := 7. Definition c_ctx : Z := 8.
Definition c_sigblocked : Z := 20.
Definition c_marshal : Z := 9.   Definition c_storeerr : Z := 22.
Definition c_stuck : Z := 21.

(* one iteration of `for size+elSize > cap { ... }` executed with the mutex held *)
Definition try_add (c : cfg) (p : nat) (sz : Z) (s : st) : st * Z :=
  if size s + sz >? cap c then
    if blocking c
    then (setp p (PInSelect sz) (set_waiting (waiting s + 1) s), c_blocked)   (* c.waiting++; Unlock; select *)
    else (setp p (PRet RFull) s, c_full)
  else (enqueue c p sz s, if wfr_eff c then c_await else c_enq).

Definition offer (c : cfg) (p : nat) (sz : Z) (s : st) : st * Z :=
  match kind c with
  | Mem =>
      if sz =? 0 then (setp p (PRet ROk) s, c_zero)                 (* empty request: ignored, nil *)
      else if sz <=? 0 then (setp p (PRet RInvalid) s, c_invalid)
      else if sz >? cap c then (setp p (PRet RTooLarge) s, c_toolarge)
      else try_add c p sz s
  | Pers =>   (* fix f7a3004ea: with block_on_overflow a request larger than the capacity is refused (errSizeTooLarge)
                 instead of waiting for space that cannot come; no other pre-check (zero / negative sizes pass) *)
      if blocking c && (sz >? cap c) then (setp p (PRet RTooLarge) s, c_toolarge)
      else try_add c p sz s
  end.

(* ---- Read ----------------------------------------------------------------------------------- *)
Definition handoff (p : nat) (sz : Z) (r : list (nat * Z)) (s : st) : st :=
  set_hand (hand s ++ [p]) (set_inflight ((p, sz) :: inflight s) (set_items r s)).

Definition read (c : cfg) (s : st) : option (st * Z) :=
  match kind c with
  | Mem =>
      match items s with
      | (p, sz) :: r => Some (handoff p sz r s, 10 + Z.of_nat p)
      | [] => if stopped s then Some (s, c_closed) else None          (* hasMoreElements.Wait() *)
      end
  | Pers =>
      if stopped s then Some (s, c_closed)                            (* checked BEFORE looking at the items *)
      else match items s with
           | (p, sz) :: r =>
               let s1 := handoff p sz r s in
               let s2 := match r with
                         | [] => signal (set_size 0 s1)      (* readIndex == writeIndex: size reset + Signal *)
                         | _ => s1
                         end in
               Some (s2, 10 + Z.of_nat p)
           | [] => None
           end
  end.

(* ---- Read by an identified consumer k, which may park in hasMoreElements.Wait() ---------------------
   [read] above is the fault-free section of a Read that returns at once.  [cread] is one iteration of the loop in
   Read executed by consumer k with the mutex held: return an item / return false / park.  With storage faults
   (persistent queue, [corrupt] non-empty) getNextItem fails on unreadable items: they are dropped (never handed
   over, their size is NOT released) and the loop goes on; whenever the read index catches up with the write index
   — after a consumed OR a dropped item — the size is reset to 0 and hasMoreSpace is signalled. *)
Definition c_parked : Z := 4.   (* per-label code: a Read that parks (10 + id would collide with id 20) *)

Fixpoint skipbad (bad : list nat) (its : list (nat * Z)) : list (nat * Z) * list (nat * Z) :=
  match its with
  | [] => ([], [])
  | (p, sz) :: r => if memb p bad then ((p, sz) :: fst (skipbad bad r), snd (skipbad bad r)) else ([], its)
  end.

Definition park (k : nat) (s : st) : st * Z := (set_cons (cons s ++ [(k, false)]) s, c_parked).

Definition cread_faulty (c : cfg) (k : nat) (s : st) : st * Z :=
  if stopped s then (s, c_closed) else
  let d := fst (skipbad (corrupt s) (items s)) in
  let s1 := set_dropped (dropped s ++ map fst d) (set_items (snd (skipbad (corrupt s) (items s))) s) in
  match snd (skipbad (corrupt s) (items s)) with
  | (p, sz) :: r =>
      let s2 := handoff p sz r s1 in
      (match r with [] => signal (set_size 0 s2) | _ => s2 end, 10 + Z.of_nat p)
  | [] =>
      park k (match d with [] => s1 | _ => signal (set_size 0 s1) end)
  end.

Definition cread (c : cfg) (k : nat) (s : st) : st * Z :=
  match corrupt s, kind c with
  | _ :: _, Pers => cread_faulty c k s
  | _, _ => match read c s with Some r => r | None => park k s end
  end.

(* ---- OnDone --------------------------------------------------------------------------------- *)
Fixpoint find_id (id : nat) (l : list (nat * Z)) : option Z :=
  match l with
  | [] => None
  | (q, sz) :: r => if Nat.eqb q id then Some sz else find_id id r
  end.

Fixpoint remove_id (id : nat) (l : list (nat * Z)) : list (nat * Z) :=
  match l with
  | [] => []
  | (q, sz) :: r => if Nat.eqb q id then r else (q, sz) :: remove_id id r
  end.

Definition done (c : cfg) (id : nat) (e : Z) (s : st) : option (st * Z) :=
  match find_id id (inflight s) with
  | None => None
  | Some sz =>
      let s1 := set_fin (fin s ++ [(id, e)]) (set_inflight (remove_id id (inflight s)) s) in
      let s2 := match kind c with
                | Mem =>
                    (* non-wait-for-result: blockingDonePool.Put(bd) closes the critical section (its position
                       relative to the Signal inside the section is unobservable) *)
                    let s1' := if wfr c then s1 else pool_put id s1 in
                    let s2 := signal (set_size (size s1' - sz) s1') in
                    if wfr c then set_results (results s2 ++ [(id, e)]) s2 else s2      (* bd.ch <- err *)
                | Pers => signal (set_size (Z.max 0 (size s1 - sz)) s1)
                end in
      Some (s2, 0)
  end.

(* ---- labels ---------------------------------------------------------------------------------- *)
Inductive label :=
| LOffer (p : nat) (sz : Z)     (* producer p calls Offer: pre-checks, Lock, first loop iteration *)
| LSelTok (p : nat)             (* select: case <-c.ch *)
| LSelCtx (p : nat)             (* select: case <-ctx.Done() *)
| LRelockTok (p : nat)          (* c.L.Lock(); return nil; next loop iteration of add/putInternal *)
| LRelockCtx (p : nat)          (* c.L.Lock(); waiting==0 ? <-c.ch : waiting--; return ctx.Err() *)
| LCancel (p : nat)             (* p's context ends (cancel or deadline) *)
| LRead                         (* a consumer's Read returns *)
| LDone (id : nat) (e : Z)      (* the consumer calls done.OnDone(err) for a handed-off request *)
| LResult (p : nat)             (* wait_for_result: case doneErr := <-done.ch *)
| LAwaitCtx (p : nat)           (* wait_for_result: case <-ctx.Done() *)
| LShutdown
| LPick (b : nat)               (* environment: the next blockingDonePool.Get returns pooled object b (if pooled) *)
| LObj (p b : nat)              (* observation only: "request p carries blockingDone b"; refused if it does not *)
| LBroadcast                    (* cond API: hasMoreSpace.Broadcast() under the mutex (not called by the queues) *)
| LCRead (k : nat)              (* consumer k calls Read: Lock, first loop iteration (item / false / park) *)
| LCWake (k : nat)              (* signalled consumer k re-acquires the mutex: next loop iteration *)
| LCorrupt (id : nat)           (* storage fault: the stored copy of queued request id becomes unreadable *)
| LOfferF (p : nat) (sz : Z) (k : Z).
                                (* persistent queue: Offer of a request whose Encoding.Marshal fails (k = c_marshal) or whose
                                   storage write fails (k = c_storeerr).  putInternal runs its capacity loop first; past it,
                                   both error paths return the error, change nothing, and call hasMoreSpace.Signal().
                                   With block_on_overflow a faulty request that does not fit parks like any other
                                   ([faulty] remembers it).  Part of [reachable] since the repair of the finding
                                   C02-FAULTY-WAITER-STEALS-WAKEUP. *)

Definition find_res (id : nat) (l : list (nat * Z)) : option Z := find_id id l.

Definition step (c : cfg) (s : st) (l : label) : option (st * Z) :=
  match l with
  | LOffer p sz =>
      match pget p (prods s) with
      | None => Some (offer c p sz s)
      | Some _ => None
      end
  | LSelTok p =>           (* case <-c.ch: the bell *)
      match pget p (prods s) with
      | Some (PInSelect sz) => if tok s then Some (set_tok false (setp p (PLeftTok sz) s), 0) else None
      | _ => None
      end
  | LSelCtx p =>
      match pget p (prods s) with
      | Some (PInSelect sz) => if memb p (cancelled s) then Some (setp p (PLeftCtx sz) s, 0) else None
      | _ => None
      end
  | LRelockTok p =>        (* c.L.Lock() after the bell *)
      match pget p (prods s) with
      | Some (PLeftTok sz) =>
          if 0 <? sigs s then
            (* a wake-up is there: signals--; pass the bell on if more are left; Wait returns nil; next loop iteration *)
            let s0 := set_sigs (sigs s - 1) s in
            let s1 := if 0 <? sigs s0 then set_tok true s0 else s0 in
            match find_id p (faulty s1) with
            | Some k =>   (* a parked producer whose request cannot be stored: past the capacity loop it returns its
                             error and passes the wake-up on: hasMoreSpace.Signal() on both error paths (fix 03fbf1134) *)
                if size s1 + sz >? cap c then Some (try_add c p sz s1)
                else Some (signal (setp p (PRet (RErr k)) s1), k)
            | None => Some (try_add c p sz s1)
            end
          else   (* the wake-up was consumed by a waiter whose context ended: Unlock, keep waiting (still registered) *)
            Some (setp p (PInSelect sz) s, c_blocked)
      | _ => None
      end
  | LRelockCtx p =>        (* c.L.Lock() after ctx.Done(): waiting == 0 ? signals-- : waiting--; return ctx.Err() *)
      match pget p (prods s) with
      | Some (PLeftCtx sz) =>
          if waiting s =? 0 then Some (setp p (PRet RCtx) (set_sigs (sigs s - 1) s), c_ctx)
          else Some (setp p (PRet RCtx) (set_waiting (waiting s - 1) s), c_ctx)
      | _ => None
      end
  | LCancel p => Some (set_cancelled (p :: cancelled s) s, 0)
  | LRead => read c s
  | LDone id e => done c id e s
  | LResult p =>
      match pget p (prods s) with
      | Some PAwait =>
          match find_res p (results s) with
          | Some e =>   (* doneErr := <-done.ch; blockingDonePool.Put(done); return doneErr *)
              Some (pool_put p (setp p (PRet (RRes e)) (set_results (remove_id p (results s)) s)), 100 + e)
          | None => None
          end
      | _ => None
      end
  | LAwaitCtx p =>
      match pget p (prods s) with
      | Some PAwait => if memb p (cancelled s) then Some (setp p (PRet RCtx) s, c_ctx) else None
      | _ => None
      end
  | LShutdown =>                   (* stopped = true; hasMoreElements.Broadcast() *)
      Some (set_cons (wakeall (cons s)) (set_stopped true s), 0)
  | LCRead k =>
      match cfind k (cons s) with None => Some (cread c k s) | Some _ => None end
  | LCWake k =>
      match cfind k (cons s) with
      | Some true => Some (cread c k (set_cons (crem k (cons s)) s))
      | _ => None
      end
  | LCorrupt id => Some (set_corrupt (id :: corrupt s) s, 0)
  | LOfferF p sz k =>
      match pget p (prods s), kind c with
      | None, Pers =>
          if blocking c && (sz >? cap c) then Some (setp p (PRet RTooLarge) s, c_toolarge)   (* before Marshal *)
          else if size s + sz >? cap c then
            if blocking c
            then Some (set_faulty (faulty s ++ [(p, k)]) (setp p (PInSelect sz) (set_waiting (waiting s + 1) s)), c_blocked)
            else Some (setp p (PRet RFull) s, c_full)
          else Some (signal (setp p (PRet (RErr k)) s), k)   (* error paths Signal (a no-op without waiters) *)
      | _, _ => None
      end
  | LPick b => Some (set_pick b s, 0)
  | LObj p b => match hget p (held s) with
                | Some b' => if Nat.eqb b' b then Some (s, 0) else None
                | None => None
                end
  | LBroadcast => Some (bcast s, 0)
  end.

Fixpoint run (c : cfg) (s : st) (ls : list label) : option st :=
  match ls with
  | [] => Some s
  | l :: r => match step c s l with Some (s', _) => run c s' r | None => None end
  end.

(* sizes come from Sizer.Sizeof, which never returns a negative number for the persistent queue's
   callers; the in-memory queue checks it (errInvalidSize), the persistent queue does not *)
Definition wf_label (c : cfg) (l : label) : Prop :=
  match l with
  | LOffer _ sz => kind c = Pers -> 0 <= sz
  | LBroadcast => False            (* never issued by the queues *)
  | LCorrupt _ => False            (* storage faults are outside the property's theorems (Proofs8: what is proved) *)
  | LOfferF _ sz _ => 0 <= sz
  | _ => True
  end.

Definition reachable (c : cfg) (s : st) : Prop :=
  exists ls, Forall (wf_label c) ls /\ run c init ls = Some s.

(* labels that the queue's own threads (blocked producers, consumers) take by themselves, as
   opposed to the environment's (a new Offer, a cancellation, Shutdown) *)
Definition internal (l : label) : bool :=
  match l with
  | LOffer _ _ | LCancel _ | LShutdown | LPick _ | LObj _ _ | LBroadcast | LCRead _ | LCorrupt _ | LOfferF _ _ _ => false
  | _ => true
  end.

Definition quiescent (c : cfg) (s : st) : Prop :=
  forall l, internal l = true -> step c s l = None.

Definition returned (s : st) (p : nat) : Prop := exists r, pget p (prods s) = Some (PRet r).
Definition all_returned (s : st) : Prop :=
  forall p v, pget p (prods s) = Some v -> exists r, v = PRet r.

(* counters of the token invariant *)
Definition is_insel (v : pstate) : bool := match v with PInSelect _ => true | _ => false end.
Definition is_lefttok (v : pstate) : bool := match v with PLeftTok _ => true | _ => false end.
Definition is_leftctx (v : pstate) : bool := match v with PLeftCtx _ => true | _ => false end.
Fixpoint cnt (f : pstate -> bool) (m : list (nat * pstate)) : Z :=
  match m with
  | [] => 0
  | (_, v) :: r => (if f v then 1 else 0) + cnt f r
  end.
Definition b2z (b : bool) : Z := if b then 1 else 0.

Definition sum_sz (l : list (nat * Z)) : Z := sumZ (map snd l).

(* ---- statements' vocabulary (definitions only) ------------------------------------------------ *)
(* the S1-free part of the space: every size offered to a persistent queue fits the capacity
   (the in-memory queue rejects larger ones itself, errSizeTooLarge) *)
Definition fit_label (c : cfg) (l : label) : Prop :=
  match l with
  | LOffer _ sz => kind c = Pers -> sz <= cap c
  | LOfferF _ sz _ => sz <= cap c
  | _ => True
  end.

Definition reachable_fit (c : cfg) (s : st) : Prop :=
  exists ls, Forall (fun l => wf_label c l /\ fit_label c l) ls /\ run c init ls = Some s.

(* FULL statement of the "no lost wake-up" clause: in a state from which no thread of the queue can
   move any more (quiescent), every producer that called Offer has returned — nobody is left blocked
   (in particular not on an empty queue, and not after its context ended). *)
Definition no_lost_wakeup_statement (c : cfg) : Prop :=
  forall s, reachable c s -> quiescent c s -> all_returned s.

(* what "accepted" means for the producer of an id that is in [acc] *)
Definition accepted_pstate (c : cfg) (v : pstate) : Prop :=
  v = PAwait \/ v = PRet ROk \/ (exists e, v = PRet (RRes e)) \/ (v = PRet RCtx /\ wfr_eff c = true).

Definition refused_result (r : result) : bool :=
  match r with RFull | RTooLarge | RInvalid | RErr _ => true | _ => false end.

(* ---- round 3: shapes of the stuck quiescent states, and the termination measure ------------------------ *)
(* somebody is still inside Offer *)
Definition stuck (s : st) : Prop := exists p v, pget p (prods s) = Some v /\ forall r, v <> PRet r.

Definition is_await (v : pstate) : bool := match v with PAwait => true | _ => false end.

(* every internal step of a running queue strictly decreases this natural-number measure *)
Definition mu (s : st) : Z :=
  10 * Z.of_nat (length (items s)) + 5 * Z.of_nat (length (inflight s)) +
  12 * cnt is_insel (prods s) + 13 * cnt is_lefttok (prods s) + cnt is_leftctx (prods s) +
  cnt is_await (prods s) + 2 * b2z (tok s) + 2 * sigs s + ccount true (cons s).

(* runs of the cond API: every label, including Broadcast *)
Definition reachable_api (c : cfg) (s : st) : Prop :=
  exists ls, run c init ls = Some s.

Definition internal_run (ls : list label) : Prop := Forall (fun l => internal l = true) ls.

(* what has become of a producer that was once parked by block_on_overflow *)
Definition fate (p : nat) (s : st) : Prop :=
  match pget p (prods s) with
  | Some (PInSelect _) | Some (PLeftTok _) => True
  | Some (PLeftCtx _) => In p (cancelled s)
  | Some PAwait | Some (PRet ROk) | Some (PRet (RRes _)) => In p (acc s)
  | Some (PRet RCtx) => In p (cancelled s)
  | Some (PRet (RErr _)) => find_id p (faulty s) <> None     (* only a producer whose request cannot be stored *)
  | _ => False
  end.
