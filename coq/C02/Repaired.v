(* C02/Repaired.v — DESIGN of a repair of finding F3 (cond.go), pre-verified on a copy of the model.
   Model.v stays faithful to the code as it is; this file is about the code as it would be with
   work/C02/fix/F3.diff:

     type cond { L; ch chan struct{} (capacity 1, now only a door bell); waiting; signals int64 (NEW, guarded by L) }
     Signal    : if waiting == 0 {return}; waiting--; signals++; ring()          -- ring = non-blocking send on ch
     Wait(ctx) : waiting++; Unlock; for { select {
                   case <-ctx.Done(): Lock; if waiting == 0 { signals-- } else { waiting-- }; return ctx.Err()
                   case <-ch:         Lock; if signals > 0 { signals--; if signals > 0 { ring() }; return nil }; Unlock } }

   Issuing a wake-up never blocks, so the queue mutex is never held by a blocked Signal: the F3 deadlock cannot
   occur.  The copy below ([rst], [step_r]) covers producers, the condition variable, Read, OnDone, wait-for-result,
   cancellation and Shutdown of both queue kinds; the blockingDone pool, parked consumers, storage faults and
   cond.Broadcast are left out of the copy (they do not interact with Signal/Wait, except that the faulty-offer error
   paths call the same Signal).  Main theorem: [no_lost_wakeup_repaired] — the FULL statement that is refuted for
   the code as it is (Properties.no_lost_wakeup_refuted): in every quiescent reachable state every producer has returned. *)
From Verif Require Import Common.Base C02.Model C02.Proofs C02.Proofs2.
Require Import ZifyBool.
Local Open Scope Z_scope.

Record rst := mkR { b : st; sigs : Z }.    (* [tok (b r)] is now the door bell, [sigs r] the wake-ups not yet taken *)
Definition rinit : rst := mkR init 0.

Definition signal_r (s : st) (g : Z) : rst :=
  if waiting s =? 0 then mkR s g
  else mkR (set_tok true (set_waiting (waiting s - 1) s)) (g + 1).

Definition read_r (c : cfg) (s : st) (g : Z) : option (rst * Z) :=
  match kind c with
  | Mem =>
      match items s with
      | (p, sz) :: r => Some (mkR (handoff p sz r s) g, 10 + Z.of_nat p)
      | [] => if stopped s then Some (mkR s g, c_closed) else None
      end
  | Pers =>
      if stopped s then Some (mkR s g, c_closed)
      else match items s with
           | (p, sz) :: r =>
               let s1 := handoff p sz r s in
               Some (match r with [] => signal_r (set_size 0 s1) g | _ => mkR s1 g end, 10 + Z.of_nat p)
           | [] => None
           end
  end.

Definition done_r (c : cfg) (id : nat) (e : Z) (s : st) (g : Z) : option (rst * Z) :=
  match find_id id (inflight s) with
  | None => None
  | Some sz =>
      let s1 := set_fin (fin s ++ [(id, e)]) (set_inflight (remove_id id (inflight s)) s) in
      match kind c with
      | Mem =>
          let r := signal_r (set_size (size s1 - sz) s1) g in
          Some (if wfr c then mkR (set_results (results (b r) ++ [(id, e)]) (b r)) (sigs r) else r, 0)
      | Pers => Some (signal_r (set_size (Z.max 0 (size s1 - sz)) s1) g, 0)
      end
  end.

Definition step_r (c : cfg) (r : rst) (l : label) : option (rst * Z) :=
  let s := b r in let g := sigs r in
  match l with
  | LOffer p sz =>
      match pget p (prods s) with
      | None => Some (mkR (fst (offer c p sz s)) g, snd (offer c p sz s))
      | Some _ => None
      end
  | LSelTok p =>
      match pget p (prods s) with
      | Some (PInSelect sz) => if tok s then Some (mkR (set_tok false (setp p (PLeftTok sz) s)) g, 0) else None
      | _ => None
      end
  | LSelCtx p =>
      match pget p (prods s) with
      | Some (PInSelect sz) => if memb p (cancelled s) then Some (mkR (setp p (PLeftCtx sz) s) g, 0) else None
      | _ => None
      end
  | LRelockTok p =>
      match pget p (prods s) with
      | Some (PLeftTok sz) =>
          if 0 <? g then     (* a wake-up is there: take it, pass the bell on if more are left, return nil *)
            let s1 := if 0 <? g - 1 then set_tok true s else s in
            Some (mkR (fst (try_add c p sz s1)) (g - 1), snd (try_add c p sz s1))
          else               (* somebody whose context ended took it: keep waiting (still registered) *)
            Some (mkR (setp p (PInSelect sz) s) g, c_blocked)
      | _ => None
      end
  | LRelockCtx p =>
      match pget p (prods s) with
      | Some (PLeftCtx sz) =>
          if waiting s =? 0 then Some (mkR (setp p (PRet RCtx) s) (g - 1), c_ctx)
          else Some (mkR (setp p (PRet RCtx) (set_waiting (waiting s - 1) s)) g, c_ctx)
      | _ => None
      end
  | LCancel p => Some (mkR (set_cancelled (p :: cancelled s) s) g, 0)
  | LRead => read_r c s g
  | LDone id e => done_r c id e s g
  | LResult p =>
      match pget p (prods s) with
      | Some PAwait =>
          match find_id p (results s) with
          | Some e => Some (mkR (setp p (PRet (RRes e)) (set_results (remove_id p (results s)) s)) g, 100 + e)
          | None => None
          end
      | _ => None
      end
  | LAwaitCtx p =>
      match pget p (prods s) with
      | Some PAwait => if memb p (cancelled s) then Some (mkR (setp p (PRet RCtx) s) g, c_ctx) else None
      | _ => None
      end
  | LShutdown => Some (mkR (set_stopped true s) g, 0)
  | _ => None
  end.

Fixpoint run_r (c : cfg) (r : rst) (ls : list label) : option rst :=
  match ls with
  | [] => Some r
  | l :: t => match step_r c r l with Some (r', _) => run_r c r' t | None => None end
  end.

Definition reachable_r (c : cfg) (r : rst) : Prop :=
  exists ls, Forall (wf_label c) ls /\ run_r c rinit ls = Some r.
Definition quiescent_r (c : cfg) (r : rst) : Prop :=
  forall l, internal l = true -> step_r c r l = None.

(* ---- proof machinery (same style as Proofs.v) -------------------------------------------------------------- *)
Lemma run_r_app c ls1 : forall r ls2,
  run_r c r (ls1 ++ ls2) = match run_r c r ls1 with Some r' => run_r c r' ls2 | None => None end.
Proof.
  induction ls1 as [|l ls1 IH]; intros r ls2; simpl; [reflexivity|].
  destruct (step_r c r l) as [[r' z]|]; [apply IH|reflexivity].
Qed.

Lemma reachable_r_ind c (I : rst -> Prop) :
  I rinit ->
  (forall r l r' z, reachable_r c r -> I r -> wf_label c l -> step_r c r l = Some (r', z) -> I r') ->
  forall r, reachable_r c r -> I r.
Proof.
  intros H0 HS r [ls [HF HR]]. revert r HF HR.
  induction ls as [|l ls IH] using rev_ind; intros r HF HR.
  - simpl in HR. inversion HR. subst. exact H0.
  - apply Forall_app in HF. destruct HF as [HF Hl]. inversion Hl as [|? ? Pl _]; subst.
    rewrite run_r_app in HR. destruct (run_r c rinit ls) as [r0|] eqn:E; [|discriminate].
    simpl in HR. destruct (step_r c r0 l) as [[r1 z]|] eqn:E1; [|discriminate].
    inversion HR; subst. eapply HS; [exists ls; split; [exact HF|exact E]|apply IH; auto|exact Pl|exact E1].
Qed.

Ltac unfold_step_r :=
  unfold step_r, read_r, done_r, signal_r, offer, try_add, enqueue, handoff, pool_get;
  cbn [b sigs fst snd].

Ltac step_cases_r :=
  unfold_step_r;
  repeat (dmatch; try (intros; discriminate));
  let H := fresh "Hst" in intros H; inversion H; subst; clear H; cbn [b sigs fst snd] in *; ss.

(* ---- R. counters of the repaired condition variable ---------------------------------------------------------- *)
Definition cntinv (r : rst) : Prop :=
  let s := b r in
  0 <= waiting s /\ 0 <= sigs r /\
  cnt is_insel (prods s) + cnt is_lefttok (prods s) + cnt is_leftctx (prods s) = waiting s + sigs r /\
  (0 < sigs r -> tok s = true \/ 0 < cnt is_lefttok (prods s)) /\
  lock s = Free.

Lemma cntinv_step c r l r' z : cntinv r -> step_r c r l = Some (r', z) -> cntinv r'.
Proof.
  intros I H. revert I. unfold cntinv.
  pose proof (cnt_nonneg is_insel (prods (b r))) as N1.
  pose proof (cnt_nonneg is_leftctx (prods (b r))) as N2.
  pose proof (cnt_nonneg is_lefttok (prods (b r))) as N3.
  revert N1 N2 N3. revert H. destruct r as [s g].
  step_cases_r; intros N1 N2 N3 (I1 & I2 & I3 & I4 & I5); cnt_rw;
    try match goal with
    | H : pget ?p (prods s) = Some (PLeftCtx ?sz) |- _ => pose proof (cnt_ge_of_pget is_leftctx _ _ _ H eq_refl)
    end;
    try match goal with
    | H : pget ?p (prods s) = Some (PLeftTok ?sz) |- _ => pose proof (cnt_ge_of_pget is_lefttok _ _ _ H eq_refl)
    end;
    unfold b2z in *;
    repeat split; try lia; try assumption; try reflexivity;
    try (intros; first [left; reflexivity | right; lia | destruct I4 as [?|?]; [lia|left; assumption|right; lia]]).
Qed.

(* ---- sizes (the same invariant as for the code as it is) ---------------------------------------------------- *)
Lemma sizeinv_step_r c r l r' z :
  sizeinv c (b r) -> wf_label c l -> step_r c r l = Some (r', z) -> sizeinv c (b r').
Proof.
  intros I W H. revert I W. unfold sizeinv, wf_label. revert H. destruct r as [s g].
  destruct (kind c) eqn:K;
  step_cases_r; intros (I1 & I2 & I3 & I4 & I5 & I6) W;
    try (specialize (I2 eq_refl)); try (specialize (W eq_refl));
    try match goal with
    | H : pget ?p (prods s) = Some (?C ?sz) |- _ => pose proof (I6 p _ sz H eq_refl)
    end;
    try match goal with
    | H : find_id ?id (inflight s) = Some ?sz |- _ =>
        pose proof (find_remove_sum _ _ _ H); pose proof (nonneg_find _ _ _ I5 H);
        pose proof (nonneg_remove id _ I5);
        pose proof (sum_nonneg _ (nonneg_remove id _ I5))
    end;
    pose proof (sum_nonneg _ I4); pose proof (sum_nonneg _ I5);
    repeat match goal with H : items _ = _ |- _ => rewrite H in * end;
    rewrite ?sum_sz_app in *; unfold sum_sz in *; cbn [map sumZ snd fst] in *;
    unfold nonneg_l in *; rewrite ?Forall_cons_iff in *; cbn [snd] in *;
    repeat match goal with |- _ /\ _ => split end;
    try lia; try tauto; try (intros; try discriminate; lia);
    try (apply nonneg_snoc; [assumption|lia]);
    try (wsz_tac I6).
Qed.

Definition fitinv_r (c : cfg) (s : st) : Prop :=
  forall p v sz, pget p (prods s) = Some v -> wsz v = Some sz -> sz <= cap c.

Lemma fitinv_step_r c r l r' z : fitinv_r c (b r) -> step_r c r l = Some (r', z) -> fitinv_r c (b r').
Proof.
  intros I H. revert I. unfold fitinv_r. revert H. destruct r as [s g].
  step_cases_r; intros I6;
    try match goal with
    | H : pget ?p (prods s) = Some (?C ?sz) |- _ => pose proof (I6 p _ sz H eq_refl)
    end;
    try assumption; try (wsz_tac I6).
Qed.

(* ---- thread map keys, wait-for-result bookkeeping ---------------------------------------------------------------- *)
Definition auxinv (c : cfg) (s : st) : Prop :=
  NoDup (map fst (prods s)) /\
  (forall p, pget p (prods s) = Some PAwait -> wfr_eff c = true) /\
  (forall p, pget p (prods s) = Some PAwait ->
     In p (map fst (items s)) \/ In p (map fst (inflight s)) \/ In p (map fst (results s))).

Lemma wfr_eff_true_r c : wfr_eff c = true -> kind c = Mem /\ wfr c = true.
Proof. unfold wfr_eff. destruct (kind c); [auto|discriminate]. Qed.

Lemma auxinv_step_r c r l r' z : auxinv c (b r) -> step_r c r l = Some (r', z) -> auxinv c (b r').
Proof.
  intros I H. revert I. unfold auxinv. revert H. destruct r as [s g].
  step_cases_r; intros (A1 & A2 & A3); (split; [|split]);
    try assumption; try (apply keys_nodup_pset; assumption);
    try (intros q Hq; rewrite pget_pset in Hq; destruct (Nat.eqb _ q) eqn:E;
         [first [discriminate | reflexivity | inversion Hq] | eapply A2; exact Hq]);
    try (intros q Hq; rewrite pget_pset in Hq; destruct (Nat.eqb _ q) eqn:E;
         [ try discriminate; apply Nat.eqb_eq in E; subst;
           left; rewrite map_app; apply in_or_app; right; left; reflexivity
         | destruct (A3 _ Hq) as [X|[X|X]];
           [ left; first [exact X | rewrite map_app; apply in_or_app; left; exact X]
           | right; left; exact X | right; right; exact X ] ]).
  (* unchanged thread map: Read, OnDone, stale cases *)
  all: intros q Hq.
  all: try (rewrite pget_pset in Hq; destruct (Nat.eqb _ q) eqn:E; [discriminate|];
            destruct (A3 _ Hq) as [X|[X|X]];
            [ left; exact X | right; left; exact X
            | right; right; apply In_fst_remove_id; [intros ->; rewrite Nat.eqb_refl in E; discriminate|exact X] ]; fail).
  all: destruct (A3 _ Hq) as [X|[X|X]].
  all: try (rewrite ?Heql1 in *; simpl in *;
            first [ left; assumption | right; left; assumption | right; right; assumption
                  | destruct X as [X|X]; [right; left; left; exact X | left; exact X]
                  | destruct X as [X|X]; [right; left; left; exact X | tauto] | tauto ]; fail).
  (* OnDone: the finished id leaves inflight; with wait-for-result its result is delivered *)
  all: try (left; assumption).
  all: try (right; right; first [assumption | rewrite map_app; apply in_or_app; left; assumption]).
  all: destruct (Nat.eq_dec q id) as [->|NE];
       try (right; left; apply In_fst_remove_id; assumption);
       try (right; right; rewrite map_app; apply in_or_app; right; left; reflexivity);
       try (exfalso; apply A2 in Hq; apply wfr_eff_true_r in Hq; destruct Hq; congruence).
Qed.

(* ---- the wake-up invariant of the repaired code: counted waiters never sit on an empty queue without a wake-up
   waiting to be taken -------------------------------------------------------------------------------------------- *)
Definition wakeinv_r (r : rst) : Prop := 0 < waiting (b r) -> 0 < size (b r) \/ 0 < sigs r.

Lemma wakeinv_step_r c r l r' z :
  cntinv r -> sizeinv c (b r) -> fitinv_r c (b r) -> wakeinv_r r -> wf_label c l ->
  step_r c r l = Some (r', z) -> wakeinv_r r'.
Proof.
  intros (T1 & T2 & _) (B1 & _ & _ & _ & B5 & B6) F N W1 H.
  revert T1 T2 B1 B5 B6 F N W1. unfold wakeinv_r, fitinv_r, wf_label. revert H. destruct r as [s g].
  step_cases_r; intros T1 T2 B1 B5 B6 F N W1;
    try (specialize (W1 eq_refl));
    try match goal with
    | H : pget ?p (prods s) = Some (?C ?sz) |- _ =>
        pose proof (B6 p _ sz H eq_refl); pose proof (F p _ sz H eq_refl)
    end;
    try match goal with
    | H : find_id ?id (inflight s) = Some ?sz |- _ => pose proof (nonneg_find _ _ _ B5 H)
    end;
    intros; auto; try lia;
    try (destruct N as [?|?]; [lia|left; lia|right; lia]).
Qed.

(* ---- all invariants hold in every reachable state of the repaired code -------------------------------------------- *)
Definition rinv (c : cfg) (r : rst) : Prop :=
  cntinv r /\ sizeinv c (b r) /\ fitinv_r c (b r) /\ auxinv c (b r) /\ wakeinv_r r.

Lemma reach_rinv c r : 0 <= cap c -> reachable_r c r -> rinv c r.
Proof.
  intros Hc. apply reachable_r_ind.
  - split; [|split; [|split; [|split]]].
    + unfold cntinv. simpl. repeat split; try lia.
    + apply sizeinv_init. exact Hc.
    + intros p v sz H. discriminate.
    + unfold auxinv. simpl. repeat split; try constructor; intros; discriminate.
    + intros H. simpl in H. lia.
  - intros r0 l r1 z _ (I1 & I2 & I3 & I4 & I5) W H. split; [|split; [|split; [|split]]].
    + eapply cntinv_step; eauto.
    + eapply sizeinv_step_r; eauto.
    + eapply fitinv_step_r; eauto.
    + eapply auxinv_step_r; eauto.
    + eapply wakeinv_step_r; eauto.
Qed.

Lemma cnt_zero_of_none_r f m :
  NoDup (map fst m) -> (forall p v, pget p m = Some v -> f v = false) -> cnt f m = 0.
Proof.
  intros ND H. pose proof (cnt_nonneg f m) as N.
  destruct (Z.eq_dec (cnt f m) 0) as [E|E]; [exact E|].
  destruct (cnt_pos_ex f m ND) as [p [v [H1 H2]]]; [lia|]. rewrite (H _ _ H1) in H2. discriminate.
Qed.

(* NO LOST WAKE-UP — the FULL statement, for the repaired condition variable, over all schedules:
   in every reachable state from which none of the queue's own threads can move, every producer has returned.
   (For the code as it is this statement is refuted: Properties.no_lost_wakeup_refuted, finding F3.) *)
Theorem no_lost_wakeup_repaired : forall c r,
  0 <= cap c -> reachable_r c r -> quiescent_r c r -> all_returned (b r).
Proof.
  intros c r Hc R Q.
  destruct (reach_rinv _ _ Hc R) as ((T1 & T2 & T3 & T4 & L) & (B1 & _ & B3 & _) & F & (G6 & A2 & A3) & N).
  destruct r as [s g]. cbn [b sigs] in *.
  (* what quiescence says *)
  assert (Q1 : items s = [] /\ stopped s = false).
  { specialize (Q LRead eq_refl). unfold step_r, read_r in Q. cbn [b sigs] in Q.
    destruct (kind c), (items s) as [|[p sz] r], (stopped s); try discriminate; auto; destruct r; discriminate. }
  destruct Q1 as [Q1 Qs].
  assert (Q2 : inflight s = []).
  { destruct (inflight s) as [|[id sz] t] eqn:E; [reflexivity|].
    specialize (Q (LDone id 0) eq_refl). unfold step_r, done_r in Q. cbn [b sigs] in Q. rewrite E in Q. simpl in Q.
    rewrite Nat.eqb_refl in Q. destruct (kind c); discriminate. }
  assert (Q3 : forall p sz, pget p (prods s) <> Some (PLeftTok sz)).
  { intros p sz H. specialize (Q (LRelockTok p) eq_refl). unfold step_r in Q. cbn [b sigs] in Q. rewrite H in Q.
    destruct (0 <? g); discriminate. }
  assert (Q4 : forall p sz, pget p (prods s) <> Some (PLeftCtx sz)).
  { intros p sz H. specialize (Q (LRelockCtx p) eq_refl). unfold step_r in Q. cbn [b sigs] in Q. rewrite H in Q.
    destruct (waiting s =? 0); discriminate. }
  assert (LT : cnt is_lefttok (prods s) = 0).
  { apply cnt_zero_of_none_r; [exact G6|]. intros q w Hq. destruct w; try reflexivity. exfalso. eapply Q3; eassumption. }
  assert (LC : cnt is_leftctx (prods s) = 0).
  { apply cnt_zero_of_none_r; [exact G6|]. intros q w Hq. destruct w; try reflexivity. exfalso. eapply Q4; eassumption. }
  assert (SZ : size s = 0) by (rewrite Q1, Q2 in B3; unfold sum_sz in B3; simpl in B3; lia).
  intros p v Hp. destruct v as [sz|sz|sz| |res]; try (exfalso; eapply Q3 + eapply Q4; eassumption); [| |eauto].
  - (* inside the select: impossible *)
    exfalso.
    assert (Tk : tok s = false).
    { specialize (Q (LSelTok p) eq_refl). unfold step_r in Q. cbn [b sigs] in Q. rewrite Hp in Q.
      destruct (tok s); [discriminate|reflexivity]. }
    pose proof (cnt_ge_of_pget is_insel _ _ _ Hp eq_refl) as S1.
    rewrite LT, LC in T3.
    assert (G0 : g = 0).
    { destruct (Z_lt_dec 0 g) as [P|P]; [|lia]. destruct (T4 P) as [X|X]; [congruence|lia]. }
    assert (WP : 0 < waiting s) by lia.
    destruct (N WP) as [X|X]; cbn [b sigs] in X; lia.
  - (* waiting for its result: it is there *)
    exfalso.
    assert (Fr : find_id p (results s) = None).
    { specialize (Q (LResult p) eq_refl). unfold step_r in Q. cbn [b sigs] in Q. rewrite Hp in Q.
      destruct (find_id p (results s)); [discriminate|reflexivity]. }
    destruct (A3 _ Hp) as [I|[I|I]].
    + rewrite Q1 in I. exact I.
    + rewrite Q2 in I. exact I.
    + destruct (In_find_id _ _ I) as [e E]. congruence.
Qed.

(* the F3 history, replayed on the repaired code: both Signals complete, both cancelled producers return their
   context error, the queued request is handed over, nobody is stuck *)
Definition f3r_cfg (k : qkind) : cfg := {| kind := k; cap := 3; blocking := true; wfr := false |}.
Definition f3r_trace : list label :=
  [LOffer 0 1; LOffer 1 1; LOffer 2 1; LRead; LRead; LOffer 3 1; LOffer 4 1; LCancel 3; LCancel 4;
   LSelCtx 3; LSelCtx 4; LDone 0 0; LDone 1 0; LRelockCtx 3; LRelockCtx 4; LRead; LDone 2 0].

Example f3_history_on_repaired_code : forall k,
  exists r, run_r (f3r_cfg k) rinit f3r_trace = Some r /\
    pget 3%nat (prods (b r)) = Some (PRet RCtx) /\ pget 4%nat (prods (b r)) = Some (PRet RCtx) /\
    hand (b r) = [0; 1; 2]%nat /\ size (b r) = 0 /\ waiting (b r) = 0 /\ sigs r = 0 /\ lock (b r) = Free.
Proof. intros k. destruct k; eexists; (split; [vm_compute; reflexivity|]); vm_compute; repeat split; reflexivity. Qed.

Print Assumptions no_lost_wakeup_repaired.
