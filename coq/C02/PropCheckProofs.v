(* C02/PropCheckProofs.v — every boolean clause checker of PropCheck.v is equivalent to the Prop-level clause. *)
From Verif Require Import C02.PropCheck.
Require Import ZifyBool.
Local Open Scope Z_scope.

Lemma zmem_In x l : zmem x l = true <-> In x l.
Proof.
  unfold zmem. rewrite existsb_exists. split.
  - intros [y [H E]]. apply Z.eqb_eq in E. subst. exact H.
  - intros H. exists x. split; [exact H|apply Z.eqb_refl].
Qed.

(* the clauses as propositions over one snapshot (history so far, observation made there) *)
Definition Clause_bounds (capz : Z) (s : hist * zobs) : Prop :=
  o_size (snd s) < 0 \/ 0 <= o_size (snd s) <= capz.
Definition Clause_zero (s : hist * zobs) : Prop :=
  o_size (snd s) < 0 \/ unfinished (fst s) <> [] \/ o_size (snd s) = 0.
Definition Clause_exact (s : hist * zobs) : Prop :=
  o_size (snd s) < 0 \/ o_size (snd s) = unfinished_sum (fst s).

(* hand-off order = acceptance order, unreadable (dropped) requests skipped *)
Inductive Fifo (cor : list Z) : list Z -> list Z -> Prop :=
| Fifo_nil accl : Fifo cor accl []
| Fifo_take a accl hs : Fifo cor accl hs -> Fifo cor (a :: accl) (a :: hs)
| Fifo_skip a accl h hs : a <> h -> In a cor -> Fifo cor accl (h :: hs) -> Fifo cor (a :: accl) (h :: hs).

Definition Clause_handoff (h : hist) : Prop :=
  NoDup (h_hand h) /\ (forall id, In id (h_hand h) -> ~ In id (h_ref h)) /\ Fifo (h_cor h) (h_acc h) (h_hand h).

Lemma ok_bounds_iff capz s : ok_bounds capz s = true <-> Clause_bounds capz s.
Proof. unfold ok_bounds, Clause_bounds. lia. Qed.

Lemma ok_zero_iff s : ok_zero s = true <-> Clause_zero s.
Proof.
  unfold ok_zero, Clause_zero. destruct (unfinished (fst s)) as [|x l]; simpl.
  - split; [intros H; assert (E : o_size (snd s) < 0 \/ o_size (snd s) = 0) by lia; destruct E; auto|].
    intros [H|[H|H]]; [lia|congruence|lia].
  - split; [intros _; right; left; discriminate|]. intros _. lia.
Qed.

Lemma ok_exact_iff s : ok_exact s = true <-> Clause_exact s.
Proof. unfold ok_exact, Clause_exact. lia. Qed.

Lemma znodup_iff l : znodup l = true <-> NoDup l.
Proof.
  induction l as [|x l IH]; simpl; [split; [constructor|reflexivity]|].
  rewrite andb_true_iff, negb_true_iff, IH. split.
  - intros [H1 H2]. constructor; [|exact H2]. rewrite <- zmem_In. congruence.
  - intros H. inversion H; subst. split; [|assumption].
    destruct (zmem x l) eqn:E; [apply zmem_In in E; contradiction|reflexivity].
Qed.

Lemma fifo_iff cor : forall accl hs, fifo_b accl cor hs = true <-> Fifo cor accl hs.
Proof.
  induction accl as [|a accl IH]; intros hs; destruct hs as [|h hs]; simpl.
  - split; [constructor|reflexivity].
  - split; [discriminate|]. intros H. inversion H.
  - split; [constructor|reflexivity].
  - destruct (a =? h) eqn:E.
    + apply Z.eqb_eq in E. subst. rewrite IH. split; [apply Fifo_take|].
      intros H. inversion H; subst; [assumption|congruence].
    + apply Z.eqb_neq in E. destruct (zmem a cor) eqn:M.
      * rewrite IH. apply zmem_In in M. split; [apply Fifo_skip; assumption|].
        intros H. inversion H; subst; [congruence|assumption].
      * split; [discriminate|]. intros H. inversion H; subst; [congruence|].
        match goal with X : In a cor |- _ => apply zmem_In in X; congruence end.
Qed.

Lemma ok_handoff_iff h : ok_handoff h = true <-> Clause_handoff h.
Proof.
  unfold ok_handoff, Clause_handoff. rewrite !andb_true_iff, znodup_iff, fifo_iff, forallb_forall.
  split.
  - intros [[H1 H2] H3]. split; [exact H1|]. split; [|exact H3].
    intros id I J. specialize (H2 _ I). apply negb_true_iff in H2. apply zmem_In in J. congruence.
  - intros [H1 [H2 H3]]. split; [split; [exact H1|]|exact H3].
    intros id I. apply negb_true_iff. destruct (zmem id (h_ref h)) eqn:E; [|reflexivity].
    apply zmem_In in E. exfalso. exact (H2 _ I E).
Qed.

Lemma forallb_Forall {A} (p : A -> bool) (P : A -> Prop) l :
  (forall x, p x = true <-> P x) -> (forallb p l = true <-> Forall P l).
Proof.
  intros H. rewrite forallb_forall, Forall_forall. split; intros G x I; apply H; auto.
Qed.

(* THE CHECKER IS THE PROPERTY'S CLAUSES, decided on the observed history *)
Definition Clauses (cs : zcase) : Prop :=
  Forall (Clause_bounds (zcap cs)) (snaps h0 (snd cs)) /\
  Forall Clause_zero (snaps h0 (snd cs)) /\
  (zkind cs = 0 -> Forall Clause_exact (snaps h0 (snd cs))) /\
  Clause_handoff (final_hist (snd cs)).

Lemma prop_ok_sound_l cs : prop_ok cs = true <-> Clauses cs.
Proof.
  unfold prop_ok, prop_code, Clauses.
  rewrite <- (forallb_Forall _ _ _ (ok_bounds_iff (zcap cs))).
  rewrite <- (forallb_Forall _ _ _ ok_zero_iff).
  rewrite <- (forallb_Forall _ _ _ ok_exact_iff).
  rewrite <- ok_handoff_iff.
  destruct (forallb (ok_bounds (zcap cs)) (snaps h0 (snd cs)));
  destruct (forallb ok_zero (snaps h0 (snd cs)));
  destruct (forallb ok_exact (snaps h0 (snd cs)));
  destruct (ok_handoff (final_hist (snd cs)));
  (destruct (zkind cs =? 0) eqn:K; [apply Z.eqb_eq in K|apply Z.eqb_neq in K]); simpl;
  (split; [intros H; try discriminate H; repeat split; auto; intros; try contradiction; try discriminate
          |intros (H1 & H2 & H3 & H4); try discriminate; try reflexivity; try (specialize (H3 K); discriminate)]).
Qed.

(* the snapshots really are "the history after each label": the n-th one is the fold over the first n+1 labels *)
Lemma snaps_nth : forall obs h n x,
  nth_error obs n = Some x ->
  nth_error (snaps h obs) n = Some (fold_left upd (firstn (S n) obs) h, snd x).
Proof.
  induction obs as [|y obs IH]; intros h n x H; [destruct n; discriminate|].
  destruct n as [|n]; simpl in *.
  - inversion H; subst. reflexivity.
  - apply IH. exact H.
Qed.
