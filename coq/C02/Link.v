(* C02/Link.v — the clause checker of PropCheck.v applied to what the MODEL itself produces.
   [observe] builds, from a run of the model, the same observed-case record that the harness builds from a run of
   the implementation: (label, (result code, Size(), cond.waiting, len(cond.ch), consumers parked)) — since fix a6d2b6d09
   nothing ever holds the mutex between two sections, so every component is always observable. *)
From Verif Require Import C02.PropCheck C02.PropCheckProofs C02.Proofs C02.Proofs2 C02.Proofs3 C02.Proofs7.
Require Import ZifyBool Permutation.
Local Open Scope Z_scope.

Definition zlab_of (l : label) : zlab :=
  match l with
  | LOffer p sz => (0, Z.of_nat p, sz)
  | LSelTok p => (1, Z.of_nat p, 0)
  | LSelCtx p => (2, Z.of_nat p, 0)
  | LRelockTok p => (3, Z.of_nat p, 0)
  | LRelockCtx p => (4, Z.of_nat p, 0)
  | LCancel p => (5, Z.of_nat p, 0)
  | LRead => (6, 0, 0)
  | LDone id e => (7, Z.of_nat id, e)
  | LResult p => (8, Z.of_nat p, 0)
  | LAwaitCtx p => (9, Z.of_nat p, 0)
  | LShutdown => (10, 0, 0)
  | LPick bb => (11, Z.of_nat bb, 0)
  | LObj p bb => (12, Z.of_nat p, Z.of_nat bb)
  | LBroadcast => (13, 0, 0)
  | LCRead k => (14, Z.of_nat k, 0)
  | LCWake k => (15, Z.of_nat k, 0)
  | LCorrupt id => (16, Z.of_nat id, 0)
  | LOfferF p sz k => (if k =? c_marshal then 17 else 18, Z.of_nat p, sz)
  end.

Definition zobs_of (res : Z) (s : st) : zobs :=
  (res, size s, waiting s, b2z (tok s), ccount false (cons s), sigs s).

Fixpoint observe (c : cfg) (s : st) (ls : list label) : list (zlab * zobs) :=
  match ls with
  | [] => []
  | l :: t => match step c s l with
              | Some (s', z) => (zlab_of l, zobs_of z s') :: observe c s' t
              | None => []
              end
  end.

Definition zcfg_of (c : cfg) : zcfg :=
  (match kind c with Mem => 0 | Pers => 1 end, cap c, b2z (blocking c), b2z (wfr c)).

Definition observed_case (c : cfg) (ls : list label) : zcase := (zcfg_of c, observe c init ls).

(* ---- simulation: the history that [upd] reconstructs from labels + result codes is the model's ghost history ---- *)
Definition zids (l : list nat) : list Z := map Z.of_nat l.

Definition rel (h : hist) (s : st) : Prop :=
  h_acc h = zids (acc s) /\ h_hand h = zids (hand s) /\
  (forall x, In x (h_fin h) <-> In x (zids (map fst (fin s)))) /\
  h_cor h = [] /\ h_drop h = [] /\
  (forall x, In x (h_ref h) ->
     exists p r, x = Z.of_nat p /\ pget p (prods s) = Some (PRet r) /\ refused_result r = true) /\
  (forall p k, find_id p (faulty s) = Some k -> k = c_marshal \/ k = c_storeerr).

(* the harness codes a faulty Offer with one of the two error classes it can produce *)
Definition obs_label (l : label) : Prop :=
  match l with LOfferF _ _ k => k = c_marshal \/ k = c_storeerr | _ => True end.

Lemma rel_init : rel h0 init.
Proof. unfold rel. simpl. repeat split; auto; intros; try tauto; discriminate. Qed.

Lemma leb_10 p : (10 <=? 10 + Z.of_nat p) = true.
Proof. apply Z.leb_le. lia. Qed.
Lemma sub_10 p : 10 + Z.of_nat p - 10 = Z.of_nat p.
Proof. lia. Qed.
Lemma zids_app l x : zids (l ++ [x]) = zids l ++ [Z.of_nat x].
Proof. unfold zids. rewrite map_app. reflexivity. Qed.

Ltac ref_tac R6 :=
  let x := fresh "x" in let Hx := fresh "Hx" in
  intros x Hx;
  try (destruct Hx as [Hx|Hx];
       [subst; eexists _, _; split; [reflexivity|]; rewrite pget_pset_eq; split; [reflexivity|reflexivity]|]);
  destruct (R6 _ Hx) as (q & rr & -> & Hq & Hr);
  exists q, rr; split; [reflexivity|]; split; [|exact Hr];
  rewrite ?pget_pset; repeat match goal with |- context [Nat.eqb ?a ?b] =>
    let E := fresh "E" in destruct (Nat.eqb a b) eqn:E; [apply Nat.eqb_eq in E; subst; congruence|] end; exact Hq.

Lemma find_id_app_inv2 p (l : list (nat * Z)) q k0 k :
  find_id p (l ++ [(q, k0)]) = Some k -> find_id p l = Some k \/ k = k0.
Proof.
  induction l as [|[r w] l IH]; simpl.
  - destruct (Nat.eqb q p); intros H; inversion H; auto.
  - destruct (Nat.eqb r p); auto.
Qed.

Lemma passed_nil x h : h_cor h = [] -> passed x h = [].
Proof. intros E. unfold passed. rewrite E. induction (before x (h_acc h)); simpl; auto. Qed.
Lemma parked_nil h : h_cor h = [] ->
  filter (fun id => zmem id (h_cor h) && negb (zmem id (h_hand h))) (h_acc h) = [].
Proof. intros E. rewrite E. induction (h_acc h); simpl; auto. Qed.

Local Opaque Z.add Z.sub.

Lemma rel_step c h s l s' z :
  rel h s -> corrupt s = [] -> obs_label l -> wf_label c l -> step c s l = Some (s', z) ->
  rel (upd h (zlab_of l, zobs_of z s')) s'.
Proof.
  intros R NF OL WF H. revert R OL WF. unfold rel, zobs_of, obs_label, wf_label. revert H.
  step_cases; intros (R1 & R2 & R3 & R4 & R5 & R6 & R7) OL WF; try contradiction;
    try match goal with H : find_id ?p (faulty s) = Some ?k |- _ =>
      let X := fresh "X" in destruct (R7 _ _ H) as [X|X]; rewrite X in * end;
    try (destruct OL as [OL|OL]; rewrite OL in *);
    unfold upd, c_enq, c_full, c_toolarge, c_invalid, c_blocked, c_await, c_zero, c_closed, c_ctx, c_sigblocked,
           c_stuck, c_parked, c_marshal, c_storeerr in *;
    cbn [zlab_of fst snd]; cbn -[Z.add Z.sub Z.of_nat] ; rewrite ?leb_10, ?sub_10;
    cbn [h_acc h_ref h_hand h_fin h_cor h_szs h_drop];
    rewrite ?(passed_nil _ _ R4), ?(parked_nil _ R4); cbn [app];
    rewrite ?zids_app, ?R1, ?R2;
    (split; [reflexivity|]); (split; [reflexivity|]);
    (split; [first [exact R3
                   | intros x; simpl; rewrite R3; unfold zids; rewrite !map_app, !in_app_iff; simpl; tauto]|]);
    (split; [try assumption|]); (split; [try assumption|]);
    (split; [try (ref_tac R6)|]);
    try exact R7;
    try (intros q k0 Hq; apply find_id_app_inv2 in Hq; destruct Hq as [Hq|Hq]; [eapply R7; exact Hq|subst; auto]).
  all: intros q k1 Hq; apply find_id_app_inv2 in Hq; destruct Hq as [Hq|Hq]; [eapply R7; exact Hq|subst; auto].
Qed.

Local Transparent Z.add Z.sub.

Lemma zids_In p l : In (Z.of_nat p) (zids l) <-> In p l.
Proof.
  unfold zids. rewrite in_map_iff. split.
  - intros [q [E I]]. apply Nat2Z.inj in E. subst. exact I.
  - intros I. exists p. auto.
Qed.

Lemma zids_NoDup l : NoDup l -> NoDup (zids l).
Proof.
  induction l as [|a l IH]; simpl; intros H; [constructor|]. inversion H; subst.
  constructor; [rewrite zids_In; assumption|auto].
Qed.

Lemma fifo_prefix cor hs : forall rest, Fifo cor (hs ++ rest) hs.
Proof. induction hs as [|a hs IH]; intros rest; simpl; [constructor|apply Fifo_take; apply IH]. Qed.

Lemma filter_nil_all {A} (f : A -> bool) l : filter f l = [] -> forall x, In x l -> f x = false.
Proof.
  induction l as [|a l IH]; simpl; intros H x I; [contradiction|].
  destruct (f a) eqn:E; [discriminate|]. destruct I as [->|I]; auto.
Qed.

(* what the three clauses need, for ONE reachable state and its reconstructed history *)
Lemma clauses_of_state c h s z :
  0 <= cap c -> reachable c s -> rel h s ->
  Clause_bounds (cap c) (h, zobs_of z s) /\ Clause_zero (h, zobs_of z s) /\ Clause_handoff h.
Proof.
  intros Hc R (R1 & R2 & R3 & R4 & R5 & R6 & _).
  destruct (pq_size_bounds_l _ _ Hc R) as (B1 & _ & Z0).
  destruct (reachable_inv _ _ Hc R) as (_ & _ & (G1 & G2 & G3 & _) & _).
  pose proof (handoff_exactly_once_l _ _ Hc R) as (ND & SUB & _ & REF & _ & _ & _ & _ & _ & NDA).
  split; [|split].
  - unfold Clause_bounds, zobs_of, o_size. cbn [snd]. lia.
  - unfold Clause_zero, zobs_of, o_size. cbn [snd fst].
    destruct (unfinished h) eqn:U; [|right; left; discriminate]. right; right.
    assert (ALLFIN : forall p, In p (acc s) -> In p (map fst (fin s))).
    { intros p I. unfold unfinished in U. rewrite R5 in U.
      pose proof (filter_nil_all _ _ U (Z.of_nat p)) as X. rewrite R1 in X.
      specialize (X (proj2 (zids_In p (acc s)) I)). simpl in X. rewrite andb_true_r in X.
      apply negb_false_iff in X. apply zmem_In in X. apply R3 in X. apply zids_In in X. exact X. }
    apply Z0.
    + destruct (items s) as [|[p sz] r] eqn:E; [reflexivity|exfalso].
      assert (IA : In p (acc s)) by (rewrite G1; try rewrite E; apply in_or_app; right; left; reflexivity).
      pose proof (ALLFIN _ IA) as IF.
      eapply (NoDup_app_disj _ _ p NDA); [exact IF|].
      apply in_or_app. right. try rewrite E. left. reflexivity.
    + destruct (inflight s) as [|[p sz] r] eqn:E; [reflexivity|exfalso].
      assert (IH : In p (hand s)).
      { eapply Permutation_in; [symmetry; exact G2|]. try rewrite E. apply in_or_app. right. left. reflexivity. }
      pose proof (ALLFIN _ (SUB _ IH)) as IF.
      eapply (NoDup_app_disj _ _ p NDA); [exact IF|].
      apply in_or_app. left. try rewrite E. left. reflexivity.
  - unfold Clause_handoff. rewrite R1, R2, R4. split; [apply zids_NoDup; exact ND|]. split.
    + intros id I J. destruct (R6 _ J) as (p & r & -> & Hp & Hr). apply zids_In in I.
      destruct (REF _ _ Hp Hr) as [_ NH]. exact (NH I).
    + rewrite G1. unfold zids. rewrite map_app. apply fifo_prefix.
Qed.

Definition lnk_label (c : cfg) (l : label) : Prop := wf_label c l /\ obs_label l.

(* along a whole run of the model: every snapshot satisfies the bounds and zero clauses, the reconstructed history
   stays related to the model's ghost history *)
Lemma observe_clauses c : forall ls s h,
  0 <= cap c -> reachable c s -> rel h s -> Forall (lnk_label c) ls ->
  Forall (Clause_bounds (cap c)) (snaps h (observe c s ls)) /\
  Forall Clause_zero (snaps h (observe c s ls)) /\
  exists s', reachable c s' /\ rel (fold_left upd (observe c s ls) h) s'.
Proof.
  induction ls as [|l ls IH]; intros s h Hc R RL F; simpl.
  - repeat split; try constructor. exists s. auto.
  - inversion F as [|? ? [W O] F']; subst.
    destruct (step c s l) as [[s1 z]|] eqn:E; simpl.
    + assert (R1 : reachable c s1) by (eapply reachP_step; eauto).
      assert (RL1 : rel (upd h (zlab_of l, zobs_of z s1)) s1).
      { eapply rel_step; eauto. exact (reach_nofault _ c s (fun l H => H) R). }
      destruct (IH _ _ Hc R1 RL1 F') as (A & B & C).
      destruct (clauses_of_state c _ s1 z Hc R1 RL1) as (X & Y & _).
      repeat split; try (constructor; assumption). exact C.
    + repeat split; try constructor. exists s. auto.
Qed.

(* THE LINK (clauses B, Z, H): whatever the model produces passes the checker's bounds, zero and hand-off clauses —
   for every configuration with capacity >= 0 and every label sequence under the well-formedness guard of the
   theorems (wf_label) coded the way the harness codes it (obs_label). *)
Theorem model_passes_checker_BZH : forall c ls,
  0 <= cap c -> Forall (lnk_label c) ls ->
  let cs := observed_case c ls in
  Forall (Clause_bounds (zcap cs)) (snaps h0 (snd cs)) /\
  Forall Clause_zero (snaps h0 (snd cs)) /\
  Clause_handoff (final_hist (snd cs)).
Proof.
  intros c ls Hc F. unfold observed_case, zcap, zcfg_of, final_hist. cbn [fst snd].
  destruct (observe_clauses c ls init h0 Hc (reachP_init _ c) rel_init F) as (A & B & s' & R' & RL').
  split; [exact A|]. split; [exact B|].
  exact (proj2 (proj2 (clauses_of_state c _ s' 0 Hc R' RL'))).
Qed.
