(* C02/Properties.v — the property theorems, nothing else.  Each is closed by [exact lemma] and followed by
   Print Assumptions.  [reachable c s]: s is reached from the empty queue by ANY finite sequence of atomic
   sections (labels) of any number of producers, consumers, completions, cancellations and a shutdown —
   i.e. every interleaving; sizes are arbitrary integers (in-memory) / arbitrary non-negative (persistent). *)
From Verif Require Import Common.Base C02.Model C02.Proofs C02.Proofs2 C02.Proofs3 C02.Proofs4 C02.Proofs5 C02.Proofs6 C02.Proofs7 C02.Proofs8 C02.Obligations Generated.C02Queue C02.PropCheck C02.PropCheckProofs C02.Link C02.LinkM.
Local Open Scope Z_scope.

(* --- reported size -------------------------------------------------------------------------------------- *)
(* in-memory queue: Size() = summed size of accepted-but-unfinished requests, and 0 <= Size() <= capacity *)
Theorem mq_size_exact : forall c s,
  0 <= cap c -> kind c = Mem -> reachable c s ->
  size s = sum_sz (items s ++ inflight s) /\ 0 <= size s <= cap c.
Proof. exact mq_size_exact_l. Qed.

(* both queues: never negative, never above the capacity, zero once every accepted request has finished
   (the persistent queue may under-count while requests are in flight: see Witness.pq_size_undercounts) *)
Theorem pq_size_bounds : forall c s,
  0 <= cap c -> reachable c s ->
  0 <= size s <= cap c /\ size s <= sum_sz (items s ++ inflight s) /\
  (items s = [] -> inflight s = [] -> size s = 0).
Proof. exact pq_size_bounds_l. Qed.

(* --- refusal rule ---------------------------------------------------------------------------------------- *)
(* an Offer of a valid non-empty request is turned away (refused, or parked when block_on_overflow) exactly
   when reported size + request size > capacity, and enqueued exactly otherwise; refused => nothing changes *)
Theorem offer_refused_iff : forall c s p sz s' z,
  0 <= cap c -> reachable c s -> (kind c = Mem -> 0 < sz) ->
  step c s (LOffer p sz) = Some (s', z) ->
  ((z = c_full \/ z = c_toolarge \/ z = c_blocked) <-> size s + sz > cap c) /\
  ((z = c_enq \/ z = c_await) <-> size s + sz <= cap c) /\
  (z = c_full -> blocking c = false) /\
  (z = c_blocked -> blocking c = true /\ sz <= cap c) /\
  (z = c_toolarge -> sz > cap c /\ (kind c = Mem \/ blocking c = true)) /\
  (sz > cap c -> kind c = Mem \/ blocking c = true -> z = c_toolarge) /\
  (z = c_await <-> (size s + sz <= cap c /\ wfr_eff c = true)) /\
  ((z = c_enq \/ z = c_await) ->
     acc s' = acc s ++ [p] /\ items s' = items s ++ [(p, sz)] /\ size s' = size s + sz) /\
  (~ (z = c_enq \/ z = c_await) -> acc s' = acc s /\ items s' = items s /\ size s' = size s).
Proof.
  exact (fun c s p sz s' z Hc R Hm H =>
           offer_refused_iff_l c s p sz s' z (proj1 (proj1 (pq_size_bounds_l c s Hc R))) Hm H).
Qed.

(* in-memory queue: an empty request is acknowledged and ignored, a negative size is invalid *)
Theorem offer_degenerate : forall c s p sz s' z,
  kind c = Mem -> sz <= 0 -> step c s (LOffer p sz) = Some (s', z) ->
  (sz = 0 -> z = c_zero /\ pget p (prods s') = Some (PRet ROk)) /\
  (sz < 0 -> z = c_invalid /\ pget p (prods s') = Some (PRet RInvalid)) /\
  acc s' = acc s /\ items s' = items s /\ size s' = size s /\ hand s' = hand s.
Proof. exact offer_degenerate_l. Qed.

(* a blocked producer that received a wake-up token is admitted exactly when its request fits now *)
Theorem relock_admitted_iff : forall c s p s' z sz,
  blocking c = true -> 0 < sigs s -> pget p (prods s) = Some (PLeftTok sz) -> find_id p (faulty s) = None ->
  step c s (LRelockTok p) = Some (s', z) ->
  ((z = c_enq \/ z = c_await) <-> size s + sz <= cap c) /\
  (z = c_blocked <-> size s + sz > cap c) /\
  ((z = c_enq \/ z = c_await) -> acc s' = acc s ++ [p] /\ size s' = size s + sz) /\
  (z = c_blocked -> acc s' = acc s /\ size s' = size s /\ pget p (prods s') = Some (PInSelect sz)).
Proof. exact relock_admitted_iff_l. Qed.

(* --- hand-off ---------------------------------------------------------------------------------------------- *)
(* acc = ids in enqueue order, hand = ids in the order of the Read sections, fin = completions.
   No id is handed twice; only accepted ids are handed; refused / still blocked / timed-out producers' ids are
   never handed; each request completes at most once and only after its hand-off; every handed id is finished
   or in flight; finished, in-flight and queued ids are pairwise disjoint. *)
Theorem handoff_exactly_once : forall c s,
  0 <= cap c -> reachable c s ->
  NoDup (hand s) /\
  (forall id, In id (hand s) -> In id (acc s)) /\
  (forall id, In id (acc s) -> In id (hand s) \/ In id (map fst (items s))) /\
  (forall p r, pget p (prods s) = Some (PRet r) -> refused_result r = true -> ~ In p (acc s) /\ ~ In p (hand s)) /\
  (forall p sz, pget p (prods s) = Some (PInSelect sz) \/ pget p (prods s) = Some (PLeftTok sz) \/
                pget p (prods s) = Some (PLeftCtx sz) -> ~ In p (hand s)) /\
  (wfr_eff c = false -> forall p, pget p (prods s) = Some (PRet RCtx) -> ~ In p (hand s)) /\
  NoDup (map fst (fin s)) /\
  (forall id, In id (map fst (fin s)) -> In id (hand s)) /\
  (forall id, In id (hand s) -> In id (map fst (fin s)) \/ In id (map fst (inflight s))) /\
  NoDup (map fst (fin s) ++ map fst (inflight s) ++ map fst (items s)).
Proof. exact handoff_exactly_once_l. Qed.

(* hand-off order = acceptance order, for any number of consumers (with one consumer this is the order in
   which the consumer function starts): what was handed over, followed by what is queued, is what was accepted *)
Theorem handoff_fifo : forall c s,
  0 <= cap c -> reachable c s -> hand s ++ map fst (items s) = acc s.
Proof. exact handoff_fifo_l. Qed.

(* every accepted request IS handed over: a Read is enabled whenever something is queued, the mutex is free
   and (persistent queue) the queue is running, and it returns the head; with nothing queued hand = acc *)
Theorem handoff_complete : forall c s,
  0 <= cap c -> reachable c s ->
  (items s = [] -> hand s = acc s) /\
  (forall p sz r, items s = (p, sz) :: r -> (kind c = Pers -> stopped s = false) ->
     exists s', step c s LRead = Some (s', 10 + Z.of_nat p) /\ hand s' = hand s ++ [p] /\ items s' = r).
Proof.
  exact (fun c s Hc R => conj (handoff_complete_l c s Hc R) (fun p sz r => read_enabled_l c s p sz r)).
Qed.

(* --- the context-aware condition variable --------------------------------------------------------------------- *)
(* repaired cond (a6d2b6d09): every thread between its waiting++ and its re-lock is either still counted in `waiting`
   or owed one of the pending `signals`; a pending signal always has its bell rung or a woken thread on its way *)
Theorem cond_token_invariant : forall c s,
  reachable c s ->
  cnt is_insel (prods s) + cnt is_lefttok (prods s) + cnt is_leftctx (prods s) = waiting s + sigs s /\
  0 <= waiting s /\ 0 <= sigs s /\
  (0 < sigs s -> tok s = true \/ 0 < cnt is_lefttok (prods s)).
Proof. exact cond_token_invariant_l. Qed.

(* a cancelled waiter never blocks on its way out (the old `<-c.ch` is gone): it un-counts itself, or, if a Signal
   already un-counted it, takes that pending signal with it, and returns the context error *)
Theorem cancelled_waiter_reclaims : forall c s p sz,
  pget p (prods s) = Some (PLeftCtx sz) ->
  exists s', step c s (LRelockCtx p) = Some (s', c_ctx) /\ pget p (prods s') = Some (PRet RCtx).
Proof. exact cancelled_waiter_reclaims_l. Qed.

(* --- no lost wake-up ------------------------------------------------------------------------------------------- *)
(* FULL statement: Model.no_lost_wakeup_statement c :=
     forall s, reachable c s -> quiescent c s -> all_returned s.
   It HOLDS of the code since the repair of F3 (a6d2b6d09) — both queue kinds, faulty offers included: *)
Theorem no_lost_wakeup : forall c, 0 <= cap c -> no_lost_wakeup_statement c.
Proof. exact no_lost_wakeup_l. Qed.

(* F3 REPAIRED (fix a6d2b6d09).  The former F3 schedule (two Signals before the first woken waiter runs, the two
   remaining waiters cancelled), replayed on the repaired cond, completes: both cancelled producers return their
   context error, every accepted request is handed over, everybody has returned; what is left is a stale bell
   (tok = true with no signal pending), which is harmless *)
Theorem f3_schedule_completes : forall k,
  let c := f3_cfg k in let s := final c f3_trace in
  run c init f3_trace = Some s /\ reachable c s /\ quiescent c s /\ all_returned s /\
  pget 3%nat (prods s) = Some (PRet RCtx) /\ pget 4%nat (prods s) = Some (PRet RCtx) /\
  hand s = [0; 1; 2]%nat /\ size s = 0 /\ waiting s = 0 /\ sigs s = 0 /\ tok s = true.
Proof. exact f3_schedule_completes_l. Qed.

(* S1 REPAIRED (fix f7a3004ea; formerly blocked_on_empty_queue_refuted): with block_on_overflow the persistent queue
   refuses a request larger than the capacity (errSizeTooLarge) before anything else — faulty or not — and changes
   nothing; no_lost_wakeup above therefore needs no size side condition.  The former S1 histories,
   replayed, end quiescent with everybody returned (regression witnesses). *)
Theorem oversized_offer_refused : forall c s p sz s' z,
  kind c = Pers -> blocking c = true -> sz > cap c ->
  (step c s (LOffer p sz) = Some (s', z) \/ exists k, step c s (LOfferF p sz k) = Some (s', z)) ->
  z = c_toolarge /\ s' = setp p (PRet RTooLarge) s.
Proof. exact oversized_offer_refused_l. Qed.

Theorem oversized_offer_refused_witness :
  let s := final s1_cfg [LOffer 0 2] in
  run s1_cfg init [LOffer 0 2] = Some s /\ quiescent s1_cfg s /\ all_returned s /\
  pget 0%nat (prods s) = Some (PRet RTooLarge) /\ waiting s = 0 /\ size s = 0 /\ acc s = [].
Proof. exact oversized_offer_refused_witness_l. Qed.

Theorem oversized_no_longer_steals_witness :
  let s := final s1b_cfg s1b_trace in
  run s1b_cfg init s1b_trace = Some s /\ quiescent s1b_cfg s /\ all_returned s /\
  pget 2%nat (prods s) = Some (PRet RTooLarge) /\ pget 1%nat (prods s) = Some (PRet ROk) /\
  hand s = [0; 1]%nat /\ size s = 0 /\ waiting s = 0 /\ tok s = false.
Proof. exact oversized_no_longer_steals_witness_l. Qed.

(* released when space: safety form.  (1) in every reachable state, producers still counted in `waiting` never sit
   on an empty queue unless a wake-up is pending (signals > 0); (2) every OnDone issued while somebody is counted
   un-counts one waiter, records a pending signal and rings the bell; (3) a rung bell lets any producer inside the
   select proceed to its re-check (relock_admitted_iff says what it decides).  Liveness: released_when_space. *)
Theorem released_when_space_safety : forall c s,
  0 <= cap c -> reachable c s ->
  (0 < waiting s -> 0 < size s \/ 0 < sigs s) /\
  (forall id e s' z, step c s (LDone id e) = Some (s', z) -> 0 < waiting s ->
     tok s' = true /\ waiting s' = waiting s - 1 /\ sigs s' = sigs s + 1) /\
  (forall p sz, pget p (prods s) = Some (PInSelect sz) -> tok s = true ->
     exists s', step c s (LSelTok p) = Some (s', 0) /\ pget p (prods s') = Some (PLeftTok sz)).
Proof.
  exact (fun c s Hc R =>
    conj (proj2 (proj2 (proj2 (reach_fit_inv c s Hc R))))
      (conj (fun id e s' z => done_signals_l c s id e s' z)
            (fun p sz => token_lets_waiter_proceed_l c s p sz))).
Qed.

(* --- wait for result / context errors ---------------------------------------------------------------------------- *)
(* a producer that got a result got the error of the unique completion of ITS OWN request; a producer that
   returned a context error had its context ended *)
Theorem wait_for_result_own_outcome : forall c s p,
  0 <= cap c -> reachable c s ->
  (forall e, pget p (prods s) = Some (PRet (RRes e)) ->
     In (p, e) (fin s) /\ forall e', In (p, e') (fin s) -> e' = e) /\
  (pget p (prods s) = Some (PRet RCtx) -> In p (cancelled s)).
Proof. exact wait_for_result_own_outcome_l. Qed.

(* a producer waiting for its result always has its request queued, in flight, finished with the result
   waiting in its channel *)
Theorem awaiting_producer_is_tracked : forall c s p,
  0 <= cap c -> reachable c s -> pget p (prods s) = Some PAwait ->
  In p (map fst (items s)) \/ In p (map fst (inflight s)) \/ In p (map fst (results s)).
Proof. exact (fun c s p Hc R => reach_awaitinv c s Hc R p). Qed.

(* --- round 3 ---------------------------------------------------------------------------------------------------- *)
(* In a quiescent reachable state nobody is still inside Offer (formerly an iff with the F3 shape; since the repairs
   of S1 and F3 neither shape exists any more). *)
Theorem no_stuck_at_quiescence : forall c s,
  0 <= cap c -> reachable c s -> quiescent c s -> ~ stuck s.
Proof. exact no_stuck_at_quiescence_l. Qed.

(* RANKING FUNCTION.  Every internal step (blocked producers, consumers, completions) of a running queue strictly
   decreases the natural-number measure Model.mu, so any run of internal labels from s has at most mu s steps:
   the queue's own activity always terminates (no fairness needed for that). *)
Theorem internal_step_decreases_measure : forall c s l s' z,
  reachable c s -> stopped s = false -> internal l = true -> step c s l = Some (s', z) ->
  0 <= mu s' < mu s.
Proof.
  exact (fun c s l s' z R St Hi H =>
           conj (mu_nonneg s' (tokinv_step c s l s' z (reach_tokinv _ c s R) H))
                (mu_decreases c s l s' z (reach_nofault _ c s (fun l H => H) R) (reach_tokinv _ c s R) St Hi H)).
Qed.

(* RELEASED WHEN SPACE (eventuality).  Reachable state of a running queue; only the queue's own threads move.
   (a) at most mu s steps are possible; (b) if the state reached is quiescent (a weakly fair run must get there,
   by (a)), everybody has returned, the queue has drained and every producer that was
   parked in s with a live context has been admitted, handed to a consumer and finished. *)
Theorem released_when_space : forall c s ls s',
  0 <= cap c -> reachable c s -> stopped s = false ->
  internal_run ls -> run c s ls = Some s' ->
  Z.of_nat (length ls) <= mu s /\
  (quiescent c s' ->
     all_returned s' /\ items s' = [] /\ inflight s' = [] /\ size s' = 0 /\
     forall p sz, blocking c = true ->
       pget p (prods s) = Some (PInSelect sz) \/ pget p (prods s) = Some (PLeftTok sz) ->
       ~ In p (cancelled s) ->
       (find_id p (faulty s) = None -> In p (acc s') /\ In p (hand s') /\ In p (map fst (fin s'))) /\
       (forall k, find_id p (faulty s) = Some k -> exists k', pget p (prods s') = Some (PRet (RErr k')))).
Proof. exact released_when_space_l. Qed.

(* PROGRESS (constructive): while somebody is inside Offer and the mutex is free, an internal label is enabled and
   leads strictly closer (so a weakly fair run cannot stop before quiescence). *)
Theorem progress_while_stuck : forall c s,
  0 <= cap c -> reachable c s -> stopped s = false -> stuck s ->
  exists l s' z, internal l = true /\ step c s l = Some (s', z) /\ mu s' < mu s.
Proof. exact progress_l. Qed.

(* POOL SAFETY (blockingDonePool, sync.Pool semantics: Get returns any pooled object or a new one).  Two live
   requests never share a blockingDone, a pooled object is referenced by no request, every queued / in-flight
   request of the in-memory queue and every producer waiting for its result has an object of its own: an object is
   re-pooled only after nobody can use it any more.  This is what justifies keying results and sizes by request. *)
Theorem pool_objects_unshared : forall c s,
  0 <= cap c -> reachable c s ->
  NoDup (map snd (held s)) /\ NoDup (map fst (held s)) /\ NoDup (pool s) /\
  (forall b, In b (pool s) -> ~ In b (map snd (held s))) /\
  (kind c = Mem -> forall id, In id (map fst (items s)) \/ In id (map fst (inflight s)) ->
     exists b, hget id (held s) = Some b) /\
  (forall p, pget p (prods s) = Some PAwait -> exists b, hget p (held s) = Some b) /\
  (forall p b s' z, step c s (LObj p b) = Some (s', z) -> hget p (held s) = Some b /\ s' = s).
Proof. exact pool_objects_unshared_l. Qed.

(* THE COND API INCLUDING Broadcast.  cond.Broadcast is called by no production code (the queues' Shutdown broadcasts
   on hasMoreElements, a sync.Cond); it is modelled as label LBroadcast, which wf_label excludes from [reachable].
   On EVERY run of the API (reachable_api: all labels, Broadcast included) the token invariant holds, the cancelled
   waiter's receive never blocks, and a blocked Broadcast has a full slot and somebody still counted. *)
Theorem cond_api_invariant : forall c s,
  reachable_api c s ->
  cnt is_insel (prods s) + cnt is_lefttok (prods s) + cnt is_leftctx (prods s) = waiting s + sigs s /\
  0 <= waiting s /\ 0 <= sigs s /\ (0 < sigs s -> tok s = true \/ 0 < cnt is_lefttok (prods s)).
Proof. exact cond_api_invariant_l. Qed.

(* what one Broadcast section does (up to its first blocking send) *)
Theorem broadcast_step : forall c s s' z,
  step c s LBroadcast = Some (s', z) ->
  z = 0 /\ waiting s' = 0 /\ sigs s' = sigs s + waiting s /\
  (0 < sigs s + waiting s -> tok s' = true) /\ (sigs s + waiting s <= 0 -> tok s' = tok s) /\
  size s' = size s /\ items s' = items s /\ prods s' = prods s.
Proof. exact broadcast_step_l. Qed.

(* --- strengthening round: the consumer side ---------------------------------------------------------------------- *)
(* CONSUMERS PARKED IN Read (hasMoreElements, a sync.Cond: Signal wakes the longest-waiting consumer, Shutdown
   broadcasts).  In every reachable state: while some consumer is parked un-signalled, every queued request has a
   signalled consumer on its way (#queued <= #signalled); once the queue is stopped nobody is parked un-signalled;
   a signalled consumer can always take its next step (and that step decreases mu);
   Shutdown leaves no consumer un-signalled. *)
Theorem consumer_no_lost_wakeup : forall c s,
  reachable c s ->
  (0 < ccount false (cons s) -> Z.of_nat (length (items s)) <= ccount true (cons s)) /\
  (stopped s = true -> ccount false (cons s) = 0) /\
  (forall k, cfind k (cons s) = Some true ->
     exists s' z, step c s (LCWake k) = Some (s', z) /\ mu s' < mu s \/ stopped s = true) /\
  (forall s' z, step c s LShutdown = Some (s', z) -> ccount false (cons s') = 0).
Proof. exact consumer_no_lost_wakeup_l. Qed.

(* PERSISTENT QUEUE WITH UNREADABLE STORED ITEMS (storage faults are outside [reachable]; this is a statement about
   one Read section from ANY state): whenever a Read leaves the queue empty — the last item consumed OR dropped
   because its stored copy could not be read — the reported size is reset to 0 and a blocked producer is signalled. *)
Theorem pq_resync_on_empty : forall c k s s' z,
  kind c = Pers -> stopped s = false -> cread c k s = (s', z) ->
  items s <> [] -> items s' = [] ->
  size s' = 0 /\ (0 < waiting s -> tok s' = true).
Proof. exact pq_resync_on_empty_l. Qed.

(* A REFUSED OFFER CHANGES NOTHING, whatever the cause.  offer_refused_iff covers queue-full / too-large / invalid;
   this covers the persistent queue's remaining refusal causes: Encoding.Marshal fails or the storage write fails
   (label LOfferF, from ANY state).  The capacity loop runs first (full => ErrQueueIsFull as usual); past it the
   error is returned and size, queue contents, histories, the cond's state, parked consumers and the pool are
   untouched — only the producer's own result is recorded, and (since fix 03fbf1134) hasMoreSpace is signalled:
   a no-op when nobody is counted, otherwise one waiter is woken although no space was freed (it re-checks and
   parks again).  With block_on_overflow a faulty request that does not fit parks like any other. *)
Theorem faulty_offer_changes_nothing : forall c s p sz k s' z,
  step c s (LOfferF p sz k) = Some (s', z) -> (blocking c = true -> sz <= cap c) ->
  kind c = Pers /\
  (size s + sz <= cap c ->
     z = k /\ s' = signal (setp p (PRet (RErr k)) s) /\
     (waiting s = 0 -> s' = setp p (PRet (RErr k)) s) /\
     (0 < waiting s -> waiting s' = waiting s - 1 /\ sigs s' = sigs s + 1 /\ tok s' = true)) /\
  (size s + sz > cap c -> blocking c = false -> z = c_full /\ s' = setp p (PRet RFull) s) /\
  (size s + sz > cap c -> blocking c = true ->
     z = c_blocked /\ pget p (prods s') = Some (PInSelect sz) /\ waiting s' = waiting s + 1 /\
     faulty s' = faulty s ++ [(p, k)]) /\
  size s' = size s /\ items s' = items s /\ inflight s' = inflight s /\ acc s' = acc s /\ hand s' = hand s /\
  cons s' = cons s /\ held s' = held s /\ pool s' = pool s.
Proof. exact faulty_offer_changes_nothing_l. Qed.

(* REPAIRED finding C02-FAULTY-WAITER-STEALS-WAKEUP (fix 03fbf1134).  A parked producer whose request cannot be stored
   (Marshal / storage-write error), once woken and past the capacity loop, returns its error, changes nothing and
   PASSES THE WAKE-UP ON: if anybody is still counted a token is issued for them; a Signal with nobody counted is a
   no-op.  Faulty offers (LOfferF) are now part of [reachable] / [reachable_fit], so no_lost_wakeup,
   no_stuck_at_quiescence, released_when_space and progress_while_stuck hold on runs with faulty offers too (in
   released_when_space a parked producer of that kind ends with its error, every other parked live producer is
   admitted).  The former refutation witness, replayed, now ends quiescent with everybody returned. *)
Theorem faulty_waiter_passes_wakeup : forall c s p sz k s' z,
  pget p (prods s) = Some (PLeftTok sz) -> find_id p (faulty s) = Some k -> 0 < sigs s -> size s + sz <= cap c ->
  step c s (LRelockTok p) = Some (s', z) ->
  z = k /\ pget p (prods s') = Some (PRet (RErr k)) /\
  size s' = size s /\ items s' = items s /\ acc s' = acc s /\
  (waiting s = 0 -> waiting s' = 0 /\ sigs s' = sigs s - 1) /\
  (0 < waiting s -> waiting s' = waiting s - 1 /\ sigs s' = sigs s /\ tok s' = true).
Proof. exact faulty_waiter_passes_wakeup_l. Qed.

Theorem faulty_waiter_passes_wakeup_witness :
  exists s, run fw_cfg init fw_trace = Some s /\ reachable_fit fw_cfg s /\
    quiescent fw_cfg s /\ all_returned s /\ size s = 0 /\ tok s = false /\ waiting s = 0 /\ sigs s = 0 /\
    acc s = [0; 3]%nat /\ hand s = [0; 3]%nat /\
    pget 1%nat (prods s) = Some (PRet (RErr c_marshal)) /\ pget 2%nat (prods s) = Some (PRet (RErr c_storeerr)) /\
    pget 3%nat (prods s) = Some (PRet ROk).
Proof. exact faulty_waiter_passes_wakeup_witness_l. Qed.

(* a producer whose request cannot be stored is never accepted (hence never handed over) *)
Theorem faulty_request_never_accepted : forall c s p k,
  0 <= cap c -> reachable c s -> find_id p (faulty s) = Some k -> ~ In p (acc s) /\ pget p (prods s) <> None.
Proof. exact (fun c s p k Hc R => reach_faultyinv c s Hc R p k). Qed.

(* --- obligations against translator T1 (coq/Generated/C02Queue.v, regenerated from the current source) ---------- *)
Theorem capacity_is_configured : forall c,
  mq_Capacity (cap c) = model_capacity c /\ pq_Capacity (cap c) = model_capacity c.
Proof. exact capacity_is_configured_l. Qed.

Theorem has_elements_is_nonempty : forall l, lq_hasElements (head_isnil l) = has_elements l.
Proof. exact has_elements_is_nonempty_l. Qed.

(* the method sets of the modelled types are the audited api_ lists of Obligations.v: a method added to or removed
   from cond / memoryQueue / persistentQueue / asyncQueue / blockingDone / indexDone / linkedQueue breaks these *)
Theorem cond_api_is_modelled : ms_cond = api_cond.
Proof. exact cond_api_is_modelled_l. Qed.
Theorem memory_queue_api_is_modelled : ms_memoryQueue = api_memory_queue.
Proof. exact memory_queue_api_is_modelled_l. Qed.
Theorem persistent_queue_api_is_modelled : ms_persistentQueue = api_persistent_queue.
Proof. exact persistent_queue_api_is_modelled_l. Qed.
Theorem async_queue_api_is_modelled : ms_asyncQueue = api_async_queue.
Proof. exact async_queue_api_is_modelled_l. Qed.
Theorem done_and_list_api_is_modelled :
  ms_blockingDone = api_done /\ ms_indexDone = api_done /\ ms_linkedQueue = api_linked_queue.
Proof. exact done_and_list_api_is_modelled_l. Qed.

(* THE FAILING-INPUT SEARCH IS SOUND: the boolean checker that the check driver evaluates over the OBSERVED history of
   every case (PropCheck.prop_ok; model-independent) holds exactly when the Prop-level clauses hold of that history:
   reported size within 0..capacity at every observation, zero whenever nothing accepted is unfinished, equal to the
   summed size of accepted-but-unfinished requests (in-memory queue), hand-off without repetition, never of a refused
   id, in acceptance order with unreadable requests skipped. *)
Theorem prop_ok_sound : forall cs, prop_ok cs = true <-> Clauses cs.
Proof. exact prop_ok_sound_l. Qed.

(* clause "every accepted request is handed to a consumer", liveness half: when the queue's own activity has come to
   rest everything accepted has been handed over and finished, nothing is
   queued or in flight, the size is 0 and every producer has returned *)
Theorem accepted_handed_and_finished_at_quiescence : forall c s,
  0 <= cap c -> reachable c s -> quiescent c s ->
  hand s = acc s /\ items s = [] /\ inflight s = [] /\ size s = 0 /\
  (forall id, In id (acc s) -> In id (map fst (fin s))) /\ all_returned s.
Proof. exact accepted_handed_and_finished_at_quiescence_l. Qed.

(* THE CHECKER LINKED BACK TO THE MODEL.  [observed_case c ls] is the observed-case record built from the MODEL's own
   run of the labels ls, the way the harness builds it from the implementation's run (Link.observe).  For every
   configuration with capacity >= 0 and every label sequence under the theorems' well-formedness guard (wf_label) in
   the harness's coding of faulty offers (obs_label), what the model produces satisfies the checker's clauses B (size
   within 0..capacity), Z (zero when nothing accepted is unfinished) and H (hand-off exactly once, never of a refused
   id, in acceptance order) — so the checker never demands more than the model delivers on these clauses, and its
   verdicts and the theorems above are statements about the same thing.  (Clause M: model_passes_checker below.) *)
Theorem model_passes_checker_BZH : forall c ls,
  0 <= cap c -> Forall (lnk_label c) ls ->
  let cs := observed_case c ls in
  Forall (Clause_bounds (zcap cs)) (snaps h0 (snd cs)) /\
  Forall Clause_zero (snaps h0 (snd cs)) /\
  Clause_handoff (final_hist (snd cs)).
Proof. exact Link.model_passes_checker_BZH. Qed.

(* THE WHOLE CHECKER, clause M included (in-memory queue: reported size = summed size of the accepted-but-unfinished
   requests as the checker reconstructs it from the Offer labels): every observed case that the model itself
   produces is accepted by the executable checker.  LinkM.szinv is the simulation of the checker's size table against
   the sizes stored in items / inflight and carried by parked producers, through every enqueue of a woken producer. *)
Theorem model_passes_checker : forall c ls,
  0 <= cap c -> Forall (lnk_label c) ls -> prop_ok (observed_case c ls) = true.
Proof. exact model_passes_checker_l. Qed.

Print Assumptions mq_size_exact.
Print Assumptions pq_size_bounds.
Print Assumptions offer_refused_iff.
Print Assumptions offer_degenerate.
Print Assumptions relock_admitted_iff.
Print Assumptions handoff_exactly_once.
Print Assumptions handoff_fifo.
Print Assumptions handoff_complete.
Print Assumptions cond_token_invariant.
Print Assumptions cancelled_waiter_reclaims.
Print Assumptions no_lost_wakeup.
Print Assumptions f3_schedule_completes.
Print Assumptions oversized_offer_refused.
Print Assumptions oversized_offer_refused_witness.
Print Assumptions oversized_no_longer_steals_witness.
Print Assumptions released_when_space_safety.
Print Assumptions wait_for_result_own_outcome.
Print Assumptions awaiting_producer_is_tracked.
Print Assumptions no_stuck_at_quiescence.
Print Assumptions internal_step_decreases_measure.
Print Assumptions released_when_space.
Print Assumptions progress_while_stuck.
Print Assumptions pool_objects_unshared.
Print Assumptions cond_api_invariant.
Print Assumptions broadcast_step.
Print Assumptions consumer_no_lost_wakeup.
Print Assumptions pq_resync_on_empty.
Print Assumptions faulty_offer_changes_nothing.
Print Assumptions faulty_waiter_passes_wakeup.
Print Assumptions faulty_waiter_passes_wakeup_witness.
Print Assumptions faulty_request_never_accepted.
Print Assumptions capacity_is_configured.
Print Assumptions has_elements_is_nonempty.
Print Assumptions cond_api_is_modelled.
Print Assumptions memory_queue_api_is_modelled.
Print Assumptions persistent_queue_api_is_modelled.
Print Assumptions async_queue_api_is_modelled.
Print Assumptions done_and_list_api_is_modelled.
Print Assumptions prop_ok_sound.
Print Assumptions accepted_handed_and_finished_at_quiescence.
Print Assumptions model_passes_checker_BZH.
Print Assumptions model_passes_checker.
