From Verif Require Import Common.Base C02.Model.
Theorem init_reachable : forall c, reachable c init.
Proof. exact (fun c => ex_intro _ [] (conj (Forall_nil _) eq_refl)). Qed.
Print Assumptions init_reachable.
