(* C02/Proofs2.v — hand-off history (exactly once, FIFO), refusal rule, wait-for-result. *)
From Verif Require Import Common.Base C02.Model C02.Proofs.
Require Import ZifyBool Permutation.
Local Open Scope Z_scope.

(* ---- list helpers ------------------------------------------------------------------------------ *)
Lemma perm_remove id l sz : find_id id l = Some sz -> Permutation (map fst l) (id :: map fst (remove_id id l)).
Proof.
  induction l as [|[q w] l IH]; simpl; [discriminate|].
  destruct (Nat.eqb q id) eqn:E; intros H.
  - apply Nat.eqb_eq in E. subst. reflexivity.
  - simpl. rewrite (IH H). apply perm_swap.
Qed.

Lemma find_id_In id l sz : find_id id l = Some sz -> In (id, sz) l.
Proof.
  induction l as [|[q w] l IH]; simpl; [discriminate|].
  destruct (Nat.eqb q id) eqn:E; intros H.
  - apply Nat.eqb_eq in E. inversion H. subst. auto.
  - auto.
Qed.

Lemma In_find_id id l : In id (map fst l) -> exists sz, find_id id l = Some sz.
Proof.
  induction l as [|[q w] l IH]; simpl; [tauto|].
  destruct (Nat.eqb q id) eqn:E; intros H.
  - eauto.
  - destruct H as [H|H]; [subst; rewrite Nat.eqb_refl in E; discriminate|auto].
Qed.

Lemma In_remove_id q e id l : In (q, e) (remove_id id l) -> In (q, e) l.
Proof.
  induction l as [|[r w] l IH]; simpl; [tauto|].
  destruct (Nat.eqb r id); simpl; intros H; [auto|]. destruct H; auto.
Qed.

Lemma In_fst_remove_id q id l : q <> id -> In q (map fst l) -> In q (map fst (remove_id id l)).
Proof.
  intros N. induction l as [|[r w] l IH]; simpl; [tauto|].
  destruct (Nat.eqb r id) eqn:E; simpl; intros [H|H]; auto.
  apply Nat.eqb_eq in E. congruence.
Qed.

Lemma memb_In p l : memb p l = true -> In p l.
Proof.
  unfold memb. rewrite existsb_exists. intros [x [H E]]. apply Nat.eqb_eq in E. subst. exact H.
Qed.

Lemma In_memb p l : In p l -> memb p l = true.
Proof. intros H. unfold memb. rewrite existsb_exists. exists p. split; [exact H|apply Nat.eqb_refl]. Qed.

(* ---- C. the hand-off history --------------------------------------------------------------------- *)
Definition ghostinv (c : cfg) (s : st) : Prop :=
  acc s = hand s ++ map fst (items s) /\
  Permutation (hand s) (map fst (fin s) ++ map fst (inflight s)) /\
  NoDup (acc s) /\
  (forall p, In p (acc s) -> exists v, pget p (prods s) = Some v /\ accepted_pstate c v) /\
  (forall p, pget p (prods s) = Some PAwait -> wfr_eff c = true) /\
  NoDup (map fst (prods s)).

Lemma ghostinv_init c : ghostinv c init.
Proof.
  unfold ghostinv. simpl. repeat split; try constructor; try (intros; tauto); intros; discriminate.
Qed.

Lemma accepted_not_wait c v sz : accepted_pstate c v -> wsz v = Some sz -> False.
Proof.
  unfold accepted_pstate. intros [H|[H|[[e H]|[H _]]]]; subst; simpl; discriminate.
Qed.

Lemma NoDup_snoc {A} (l : list A) a : NoDup l -> ~ In a l -> NoDup (l ++ [a]).
Proof.
  intros H N. eapply Permutation_NoDup; [apply Permutation_cons_append|]. constructor; assumption.
Qed.

Lemma keys_nodup_pset p v m : NoDup (map fst m) -> NoDup (map fst (pset p v m)).
Proof.
  intros H. rewrite keys_pset. destruct (pget p m) eqn:E; [exact H|].
  apply NoDup_snoc; [exact H|apply pget_none_notin; exact E].
Qed.

Lemma notin_acc_some c s p v sz :
  (forall p, In p (acc s) -> exists v, pget p (prods s) = Some v /\ accepted_pstate c v) ->
  pget p (prods s) = Some v -> wsz v = Some sz -> ~ In p (acc s).
Proof.
  intros G H W I. destruct (G _ I) as [v' [H1 H2]]. rewrite H in H1. inversion H1; subst.
  eapply accepted_not_wait; eauto.
Qed.

Lemma notin_acc_none c s p :
  (forall p, In p (acc s) -> exists v, pget p (prods s) = Some v /\ accepted_pstate c v) ->
  pget p (prods s) = None -> ~ In p (acc s).
Proof. intros G H I. destruct (G _ I) as [v' [H1 H2]]. rewrite H in H1. discriminate. Qed.

(* G4 after [setp p v']: p's new state is accepted, or p is not an accepted id *)
Lemma G4_setp c (accl : list nat) m p v' :
  (forall q, In q accl -> exists v, pget q m = Some v /\ accepted_pstate c v) ->
  (accepted_pstate c v' \/ ~ In p accl) ->
  forall q, In q accl -> exists v, pget q (pset p v' m) = Some v /\ accepted_pstate c v.
Proof.
  intros G H q I. rewrite pget_pset. destruct (Nat.eqb p q) eqn:E.
  - apply Nat.eqb_eq in E. subst q. destruct H as [H|H]; [eauto|contradiction].
  - apply G. exact I.
Qed.

Lemma G4_enq c (accl : list nat) m p v' :
  (forall q, In q accl -> exists v, pget q m = Some v /\ accepted_pstate c v) ->
  accepted_pstate c v' ->
  forall q, In q (accl ++ [p]) -> exists v, pget q (pset p v' m) = Some v /\ accepted_pstate c v.
Proof.
  intros G H q I. rewrite pget_pset. destruct (Nat.eqb p q) eqn:E.
  - eauto.
  - apply in_app_or in I. destruct I as [I|[I|[]]]; [apply G; exact I|].
    subst. rewrite Nat.eqb_refl in E. discriminate.
Qed.

Lemma G5_setp c m p v' :
  (forall q, pget q m = Some PAwait -> wfr_eff c = true) ->
  (v' = PAwait -> wfr_eff c = true) ->
  forall q, pget q (pset p v' m) = Some PAwait -> wfr_eff c = true.
Proof.
  intros G H q. rewrite pget_pset. destruct (Nat.eqb p q); [intros E; inversion E; auto|apply G].
Qed.

Lemma ghostinv_step c s l s' z : corrupt s = [] -> ghostinv c s -> step c s l = Some (s', z) -> ghostinv c s'.
Proof.
  intros NF I H. revert I. unfold ghostinv. revert H.
  step_cases; intros (G1 & G2 & G3 & G4 & G5 & G6);
  (split; [|split; [|split; [|split; [|split]]]]);
  try assumption;
  try (apply keys_nodup_pset; assumption);
  try (apply G5_setp; [assumption|intros; first [assumption|discriminate|eauto]]);
  try (rewrite map_app, app_assoc, <- G1; reflexivity);
  try (rewrite <- app_assoc; exact G1);
  try (apply NoDup_snoc; [assumption|
        first [eapply notin_acc_none; eassumption | eapply notin_acc_some; [eassumption|eassumption|reflexivity]]]);
  try (apply G4_enq; [assumption|unfold accepted_pstate; eauto 7]);
  try (apply G4_setp; [assumption|
        first [ right; first [eapply notin_acc_none; eassumption | eapply notin_acc_some; [eassumption|eassumption|reflexivity]]
              | left; unfold accepted_pstate; first [solve [eauto 7] | right; right; right; split; [reflexivity|eapply G5; eassumption]]]]);
  try (intros q; rewrite pget_pset; destruct (Nat.eqb _ _); [intros E; first [reflexivity|inversion E] | apply G5]).
  all: try (match goal with H : items _ = [] |- _ => rewrite H end; exact G1).
  all: try (simpl; etransitivity; [symmetry; apply Permutation_cons_append|apply Permutation_cons_app; exact G2]).
  all: try (rewrite map_app, <- app_assoc; simpl; (etransitivity; [exact G2|]);
       apply Permutation_app_head; eapply perm_remove; eassumption).
Qed.

(* ---- D. wait-for-result and context errors ------------------------------------------------------------ *)
Definition wfrinv (s : st) : Prop :=
  (forall p e, In (p, e) (results s) -> In (p, e) (fin s)) /\
  (forall p e, pget p (prods s) = Some (PRet (RRes e)) -> In (p, e) (fin s)) /\
  (forall p, pget p (prods s) = Some (PRet RCtx) -> In p (cancelled s)) /\
  (forall p sz, pget p (prods s) = Some (PLeftCtx sz) -> In p (cancelled s)).

Lemma wfrinv_init : wfrinv init.
Proof. unfold wfrinv. simpl. repeat split; intros; try tauto; discriminate. Qed.

Ltac pget_split H :=
  rewrite pget_pset in H;
  match type of H with
  | context [Nat.eqb ?a ?b] =>
      let E := fresh "E" in destruct (Nat.eqb a b) eqn:E; [apply Nat.eqb_eq in E; subst|]
  end.

Lemma wfrinv_step c s l s' z : wfrinv s -> step c s l = Some (s', z) -> wfrinv s'.
Proof.
  intros I H. revert I. unfold wfrinv. revert H.
  step_cases; intros (D1 & D3 & D4 & D5);
  (split; [|split; [|split]]);
  try assumption;
  try (intros; discriminate);
  try (intros q e0 Hq; try pget_split Hq; try (inversion Hq; subst); try discriminate;
       try (apply in_or_app; left); eauto; fail);
  try (intros q Hq; try pget_split Hq; try (inversion Hq; subst); try discriminate;
       try (right); eauto using memb_In; fail);
  try (intros q e0 Hq; apply in_app_or in Hq; destruct Hq as [Hq|[Hq|[]]];
       [ first [apply in_or_app; left; apply D1; exact Hq | apply D1; exact Hq]
       | inversion Hq; subst; apply in_or_app; right; left; reflexivity ]; fail);
  try (intros q sz0 Hq; pget_split Hq; [apply memb_In; assumption|eapply D5; eassumption]);
  try (intros q e0 Hq; apply D1; eapply In_remove_id; exact Hq);
  try (intros q e0 Hq; pget_split Hq; [|eapply D3; eassumption];
       inversion Hq; subst; apply D1; apply find_id_In; assumption).
Qed.
