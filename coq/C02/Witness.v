From Verif Require Import Common.Base C02.Model.
