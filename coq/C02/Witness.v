(* C02/Witness.v — non-vacuity of the theorems' hypotheses and further concrete runs (vm_compute). *)
From Verif Require Import Common.Base C02.Model C02.Proofs C02.Proofs5 C02.PropCheck C02.Link.
Local Open Scope Z_scope.

Definition wc (k : qkind) (b w : bool) : cfg := {| kind := k; cap := 4; blocking := b; wfr := w |}.

(* a reachable state with something queued, something in flight, something finished, a blocked producer, a
   cancelled one, a refused one and a producer waiting for its result: the hypotheses of mq_size_exact,
   pq_size_bounds, handoff_*, cond_token_invariant, wait_for_result_own_outcome are satisfiable non-trivially *)
Definition w_trace : list label :=
  [LOffer 0 2; LOffer 1 1; LOffer 2 1; LRead; LOffer 3 0; LOffer 4 (-1); LOffer 5 9; LOffer 6 2; LOffer 7 1;
   LCancel 7; LSelCtx 7; LRelockCtx 7; LRead; LDone 0 7; LResult 0; LSelTok 6; LRelockTok 6].

Example w_reachable : reachable (wc Mem true true) (final (wc Mem true true) w_trace).
Proof. exists w_trace. split; [unfold w_trace; repeat constructor; simpl; intros; discriminate|vm_compute; reflexivity]. Qed.

Example w_state :
  let s := final (wc Mem true true) w_trace in
  size s = 4 /\ items s = [(2%nat, 1); (6%nat, 2)] /\ inflight s = [(1%nat, 1)] /\ fin s = [(0%nat, 7)] /\
  acc s = [0; 1; 2; 6]%nat /\ hand s = [0; 1]%nat /\
  pget 0%nat (prods s) = Some (PRet (RRes 7)) /\ pget 3%nat (prods s) = Some (PRet ROk) /\
  pget 4%nat (prods s) = Some (PRet RInvalid) /\ pget 5%nat (prods s) = Some (PRet RTooLarge) /\
  pget 6%nat (prods s) = Some PAwait /\ pget 7%nat (prods s) = Some (PRet RCtx).
Proof. vm_compute. repeat split; reflexivity. Qed.

(* offer_refused_iff / relock_admitted_iff: each outcome class occurs *)
Example w_offer_codes :
  option_map snd (step (wc Mem false false) init (LOffer 0 4)) = Some c_enq /\
  option_map snd (step (wc Mem false true) init (LOffer 0 4)) = Some c_await /\
  option_map snd (step (wc Mem false false) init (LOffer 0 5)) = Some c_toolarge /\
  option_map snd (step (wc Pers false false) init (LOffer 0 5)) = Some c_full /\
  option_map snd (step (wc Pers true false) init (LOffer 0 5)) = Some c_toolarge /\
  option_map snd (step (wc Pers true false) (final (wc Pers true false) [LOffer 0 4]) (LOffer 1 1)) = Some c_blocked /\
  option_map snd (step (wc Pers false false) init (LOffer 0 0)) = Some c_enq /\
  option_map snd (step (wc Mem false false) init (LOffer 0 0)) = Some c_zero.
Proof. vm_compute. repeat split; reflexivity. Qed.

(* no_lost_wakeup / no_stuck_at_quiescence: a quiescent reachable state with producers that were blocked,
   cancelled and released exists (hypotheses satisfiable) *)
Definition q_trace : list label :=
  [LOffer 0 4; LOffer 1 2; LOffer 2 2; LCancel 2; LSelCtx 2; LRelockCtx 2; LRead; LDone 0 0; LSelTok 1;
   LRelockTok 1; LRead; LDone 1 0].
Example q_quiescent :
  let c := wc Pers true false in let s := final c q_trace in
  reachable c s /\ quiescent c s /\ sigs s = 0 /\ hand s = [0; 1]%nat /\
  pget 1%nat (prods s) = Some (PRet ROk) /\ pget 2%nat (prods s) = Some (PRet RCtx).
Proof.
  split; [|split].
  - exists q_trace. split; [unfold q_trace; repeat constructor; simpl; intros; lia|vm_compute; reflexivity].
  - intros l Hi. destruct l; try discriminate Hi; try (vm_compute; reflexivity);
      try (destruct p as [|[|[|p]]]; vm_compute; reflexivity);
      try (destruct id as [|[|[|id]]]; vm_compute; reflexivity).
  - vm_compute. repeat split; reflexivity.
Qed.

(* the persistent queue's reported size under-counts after its reset (allowed by the property's wording) *)
Example pq_size_undercounts :
  exists c s, kind c = Pers /\ reachable_fit c s /\
    size s = 4 /\ cap c = 4 /\ sum_sz (items s ++ inflight s) = 7.
Proof. exact pq_size_undercounts_l. Qed.

(* ---- round 3 ------------------------------------------------------------------------------------------------ *)
(* pool reuse: request 0's blockingDone (object 0) goes back to the pool at its OnDone and is handed out again
   to request 1; with wait_for_result an abandoned object (producer 0 gave up) is never pooled again *)
Example w_pool_reuse :
  let s := final (wc Mem false false) [LOffer 0 1; LObj 0 0; LRead; LDone 0 0; LPick 0; LOffer 1 1; LObj 1 0] in
  held s = [(1%nat, 0%nat)] /\ pool s = [] /\ nobj s = 1%nat.
Proof. vm_compute. repeat split; reflexivity. Qed.

Example w_pool_abandoned :
  let s := final (wc Mem false true) [LOffer 0 1; LCancel 0; LAwaitCtx 0; LRead; LDone 0 0; LPick 0; LOffer 1 1; LObj 1 1] in
  held s = [(0%nat, 0%nat); (1%nat, 1%nat)] /\ pool s = [] /\ nobj s = 2%nat /\
  pget 0%nat (prods s) = Some (PRet RCtx) /\ results s = [(0%nat, 0)].
Proof. vm_compute. repeat split; reflexivity. Qed.

(* cond.Broadcast with three counted waiters: all three become pending signals at once, the bell is rung once and
   every woken waiter that leaves signals pending rings it again for the next; a waiter that finds signals = 0 on a
   stale bell goes back to the select (c_blocked) *)
Definition b_trace : list label :=
  [LOffer 0 4; LOffer 1 1; LOffer 2 2; LOffer 3 4; LBroadcast; LSelTok 1; LRelockTok 1; LSelTok 2; LRelockTok 2;
   LSelTok 3; LRelockTok 3].
Example w_broadcast :
  let c := wc Mem true false in
  option_map snd (step c (final c [LOffer 0 4; LOffer 1 1; LOffer 2 2; LOffer 3 4]) LBroadcast) = Some 0 /\
  sigs (final c [LOffer 0 4; LOffer 1 1; LOffer 2 2; LOffer 3 4; LBroadcast]) = 3 /\
  waiting (final c [LOffer 0 4; LOffer 1 1; LOffer 2 2; LOffer 3 4; LBroadcast]) = 0 /\
  tok (final c [LOffer 0 4; LOffer 1 1; LOffer 2 2; LOffer 3 4; LBroadcast]) = true /\
  (let s := final c [LOffer 0 4; LOffer 1 1; LOffer 2 2; LOffer 3 4; LBroadcast; LSelTok 1; LRelockTok 1] in
   sigs s = 2 /\ tok s = true /\ waiting s = 1 /\ pget 1%nat (prods s) = Some (PInSelect 1)) /\
  let s := final c b_trace in
  reachable_api c s /\ tok s = false /\ waiting s = 3 /\ sigs s = 0 /\ cnt is_insel (prods s) = 3.
Proof.
  vm_compute. repeat split; try reflexivity. exists b_trace. vm_compute. reflexivity.
Qed.

(* a stale bell: the Signal rings, the waiter's context fires first and takes the pending signal with it
   (waiting = 0 -> signals--); the bell stays rung with no signal pending; the next parked producer takes it,
   finds signals = 0 and goes back to the select *)
Example w_stale_bell :
  let c := wc Mem true false in
  let s := final c [LOffer 0 4; LOffer 1 1; LCancel 1; LRead; LDone 0 0; LSelCtx 1; LRelockCtx 1] in
  tok s = true /\ sigs s = 0 /\ waiting s = 0 /\ pget 1%nat (prods s) = Some (PRet RCtx) /\
  let s' := final c [LOffer 0 4; LOffer 1 1; LCancel 1; LRead; LDone 0 0; LSelCtx 1; LRelockCtx 1;
                     LOffer 2 4; LOffer 3 1; LSelTok 3] in
  option_map snd (step c s' (LRelockTok 3)) = Some c_blocked /\ tok s' = false /\ sigs s' = 0 /\ waiting s' = 1.
Proof. vm_compute. repeat split; reflexivity. Qed.

(* released_when_space / progress_while_stuck: a state satisfying their hypotheses with a parked producer *)
Example w_released_hyp :
  let c := wc Mem true false in let s := final c [LOffer 0 4; LOffer 1 2; LRead] in
  reachable c s /\ stopped s = false /\ stuck s /\ 0 < mu s /\
  pget 1%nat (prods s) = Some (PInSelect 2).
Proof.
  split; [exists [LOffer 0 4; LOffer 1 2; LRead]; split; [repeat constructor; simpl; intros; discriminate|vm_compute; reflexivity]|].
  vm_compute. repeat split; try reflexivity.
  exists 1%nat, (PInSelect 2). split; [reflexivity|]. intros r; discriminate.
Qed.

(* ---- strengthening round -------------------------------------------------------------------------------------- *)
(* two consumers parked in Read, two enqueues back to back: each enqueue signals one consumer *)
Example w_two_consumers :
  let c := wc Mem false false in
  let s := final c [LCRead 0; LCRead 1; LOffer 0 1; LOffer 1 1] in
  cons s = [(0%nat, true); (1%nat, true)] /\ items s = [(0%nat, 1); (1%nat, 1)] /\
  let s' := final c [LCRead 0; LCRead 1; LOffer 0 1; LOffer 1 1; LCWake 0; LCWake 1] in
  cons s' = [] /\ hand s' = [0; 1]%nat /\ items s' = [].
Proof. vm_compute. repeat split; reflexivity. Qed.

(* Shutdown wakes every parked consumer; each then returns false *)
Example w_shutdown_wakes_all :
  let c := wc Pers false false in
  let s := final c [LCRead 0; LCRead 1; LCRead 2; LShutdown] in
  cons s = [(0%nat, true); (1%nat, true); (2%nat, true)] /\
  option_map snd (step c s (LCWake 1)) = Some c_closed.
Proof. vm_compute. repeat split; reflexivity. Qed.

(* persistent queue, the LAST queued item is unreadable: the Read drops it, re-synchronises the size and signals
   the blocked producer, then parks *)
Example w_last_item_corrupt :
  let c := wc Pers true false in
  let s := final c [LOffer 0 3; LOffer 1 1; LOffer 2 2; LCorrupt 1; LRead] in
  size s = 4 /\ items s = [(1%nat, 1)] /\ waiting s = 1 /\
  let s' := final c [LOffer 0 3; LOffer 1 1; LOffer 2 2; LCorrupt 1; LRead; LCRead 7] in
  size s' = 0 /\ items s' = [] /\ dropped s' = [1%nat] /\ hand s' = [0%nat] /\ tok s' = true /\ waiting s' = 0 /\
  cons s' = [(7%nat, false)].
Proof. vm_compute. repeat split; reflexivity. Qed.

(* ---- round 5 ---------------------------------------------------------------------------------------------------- *)
(* hypotheses of accepted_handed_and_finished_at_quiescence / no_stuck_at_quiescence are satisfiable: q_quiescent above.
   The persistent queue does not check the sign of a size (the in-memory queue does): outside wf_label an Offer of
   size -1 drives the reported size below zero — why "never negative" needs the Sizer contract (sizes >= 0) *)
Example pq_negative_size_witness :
  let s := final (wc Pers false false) [LOffer 0 (-1)] in
  size s = -1 /\ pget 0%nat (prods s) = Some (PRet ROk) /\ ~ wf_label (wc Pers false false) (LOffer 0 (-1)).
Proof.
  split; [vm_compute; reflexivity|]. split; [vm_compute; reflexivity|].
  intros H. simpl in H. specialize (H eq_refl). lia.
Qed.

(* model_passes_checker_BZH / model_passes_checker are not vacuous: a run with refusals, a blocked producer, hand-offs and completions is
   well-formed in the harness's coding, its observed case has 17 labels, and the executable checker accepts it *)
Example w_link_nonvacuous :
  let c := wc Mem true true in
  Forall (lnk_label c) w_trace /\ length (snd (observed_case c w_trace)) = 17%nat /\
  prop_ok (observed_case c w_trace) = true.
Proof.
  split; [unfold w_trace, lnk_label, obs_label; repeat constructor; simpl; intros; discriminate|].
  split; vm_compute; reflexivity.
Qed.
