(* C02/Proofs4.v — no lost wake-up (full statement since the repair of F3, fix a6d2b6d09). *)
From Verif Require Import Common.Base C02.Model C02.Proofs C02.Proofs2 C02.Proofs3.
Require Import ZifyBool Permutation.
Local Open Scope Z_scope.

(* ---- a producer waiting for its result has its request somewhere ---------------------------------- *)
Definition awaitinv (s : st) : Prop :=
  forall p, pget p (prods s) = Some PAwait ->
    In p (map fst (items s)) \/ In p (map fst (inflight s)) \/ In p (map fst (results s)).

Lemma awaitinv_init : awaitinv init.
Proof. intros p H. discriminate. Qed.

Lemma wfr_eff_true c : wfr_eff c = true -> kind c = Mem /\ wfr c = true.
Proof. unfold wfr_eff. destruct (kind c); [auto|discriminate]. Qed.

Lemma awaitinv_step c s l s' z :
  corrupt s = [] -> ghostinv c s -> awaitinv s -> step c s l = Some (s', z) -> awaitinv s'.
Proof.
  intros NF (_ & _ & _ & _ & G5 & _) A H. revert A G5. unfold awaitinv. revert H.
  step_cases; intros A3 A2;
    try assumption;
    try (intros q Hq; rewrite pget_pset in Hq; destruct (Nat.eqb _ q) eqn:E;
         [ try discriminate; apply Nat.eqb_eq in E; subst;
           left; rewrite map_app; apply in_or_app; right; left; reflexivity
         | destruct (A3 _ Hq) as [X|[X|X]];
           [ left; first [exact X | rewrite map_app; apply in_or_app; left; exact X]
           | right; left; exact X | right; right; exact X ] ]).
  all: intros q Hq.
  all: try (rewrite pget_pset in Hq; destruct (Nat.eqb _ q) eqn:E; [discriminate|];
            destruct (A3 _ Hq) as [X|[X|X]];
            [ left; exact X | right; left; exact X
            | right; right; apply In_fst_remove_id; [intros ->; rewrite Nat.eqb_refl in E; discriminate|exact X] ]; fail).
  all: destruct (A3 _ Hq) as [X|[X|X]].
  all: try (rewrite ?Heql1, ?Heql2 in *; simpl in *;
            first [ left; assumption | right; left; assumption | right; right; assumption
                  | destruct X as [X|X]; [right; left; left; exact X | left; exact X]
                  | destruct X as [X|X]; [right; left; left; exact X | tauto] | tauto ]; fail).
  all: try (left; assumption).
  all: try (right; right; first [assumption | rewrite map_app; apply in_or_app; left; assumption]).
  all: destruct (Nat.eq_dec q id) as [->|NE];
       try (right; left; apply In_fst_remove_id; assumption);
       try (right; right; rewrite map_app; apply in_or_app; right; left; reflexivity);
       try (exfalso; apply A2 in Hq; apply wfr_eff_true in Hq; destruct Hq; congruence).
Qed.

(* ---- every waiting request fits the capacity (both queues refuse oversized requests) ---------------------------- *)
Definition fitinv (c : cfg) (s : st) : Prop :=
  forall p v sz, pget p (prods s) = Some v -> wsz v = Some sz -> sz <= cap c.

Lemma fitinv_step c s l s' z :
  fitinv c s -> step c s l = Some (s', z) -> fitinv c s'.
Proof.
  intros I H. revert I. unfold fitinv. revert H.
  step_cases; intros I6;
    try match goal with
    | H : pget ?p (prods s) = Some (?C ?sz) |- _ => pose proof (I6 p _ sz H eq_refl)
    end;
    try assumption;
    try (wsz_tac I6).
Qed.

(* ---- the wake-up invariant: counted waiters never sit on an empty queue without a wake-up waiting to be taken *)
Definition wakeinv (s : st) : Prop := 0 < waiting s -> 0 < size s \/ 0 < sigs s.

Lemma wakeinv_step c s l s' z :
  corrupt s = [] -> tokinv s -> sizeinv c s -> fitinv c s -> wakeinv s ->
  wf_label c l ->
  step c s l = Some (s', z) -> wakeinv s'.
Proof.
  intros NF (T1 & T2 & _) (B1 & _ & _ & _ & B5 & B6) F N W1 H.
  revert T1 T2 B1 B5 B6 F N W1. unfold wakeinv, fitinv, wf_label. revert H.
  step_cases; intros T1 T2 B1 B5 B6 F N W1;
    try (specialize (W1 eq_refl));
    try match goal with
    | H : pget ?p (prods s) = Some (?C ?sz) |- _ =>
        pose proof (B6 p _ sz H eq_refl); pose proof (F p _ sz H eq_refl)
    end;
    try match goal with
    | H : find_id ?id (inflight s) = Some ?sz |- _ => pose proof (nonneg_find _ _ _ B5 H)
    end;
    intros; auto; try lia;
    try (destruct N as [?|?]; [lia|left; lia|right; lia]).
Qed.

Definition fullinv (c : cfg) (s : st) : Prop := allinv c s /\ awaitinv s /\ fitinv c s /\ wakeinv s.

Lemma reach_fit_inv c s : 0 <= cap c -> reachable c s -> fullinv c s.
Proof.
  intros Hc. apply reachP_ind.
  - split; [|split; [|split]].
    + split; [|split; [|split]]; [apply tokinv_init|apply sizeinv_init; exact Hc|apply ghostinv_init|apply wfrinv_init].
    + apply awaitinv_init.
    + intros p v sz H. discriminate.
    + intros H. simpl in H. lia.
  - intros s0 l s1 z R0 ((I1 & I2 & I3 & I4) & I5 & I6 & I7) W1 Hs.
    pose proof (reach_nofault _ c s0 (fun l H => H) R0) as NF.
    split; [|split; [|split]].
    + split; [|split; [|split]].
      * eapply tokinv_step; eauto.
      * eapply sizeinv_step; eauto.
      * eapply ghostinv_step; eauto.
      * eapply wfrinv_step; eauto.
    + eapply awaitinv_step; eauto.
    + eapply fitinv_step; eauto.
    + eapply wakeinv_step; eauto.
Qed.

Lemma reach_awaitinv c s : 0 <= cap c -> reachable c s -> awaitinv s.
Proof. intros Hc R. exact (proj1 (proj2 (reach_fit_inv _ _ Hc R))). Qed.

(* ---- what quiescence means ---------------------------------------------------------------------------- *)
Lemma quiescent_facts c s :
  quiescent c s ->
  items s = [] /\ inflight s = [] /\ stopped s = false /\
  (forall p sz, pget p (prods s) <> Some (PLeftTok sz)) /\
  (forall p sz, pget p (prods s) <> Some (PLeftCtx sz)) /\
  (forall p sz, pget p (prods s) = Some (PInSelect sz) -> tok s = false /\ memb p (cancelled s) = false) /\
  (forall p, pget p (prods s) = Some PAwait -> find_id p (results s) = None /\ memb p (cancelled s) = false) /\
  (forall k, cfind k (cons s) <> Some true).
Proof.
  intros Q.
  assert (QR : items s = [] /\ stopped s = false).
  { specialize (Q LRead eq_refl). unfold step, read in Q.
    destruct (kind c), (items s) as [|[p sz] r], (stopped s); try discriminate; auto; destruct r; discriminate. }
  destruct QR as [Q1 Qs].
  split; [exact Q1|]. split; [|split; [exact Qs|split; [|split; [|split; [|split]]]]].
  - destruct (inflight s) as [|[id sz] r] eqn:E; [reflexivity|].
    specialize (Q (LDone id 0) eq_refl). unfold step, done in Q. rewrite E in Q.
    simpl in Q. rewrite Nat.eqb_refl in Q. discriminate.
  - intros p sz H. specialize (Q (LRelockTok p) eq_refl). unfold step in Q. rewrite H in Q.
    destruct (0 <? sigs s); [|discriminate].
    destruct (find_id p _); [destruct (_ >? _)|]; discriminate.
  - intros p sz H. specialize (Q (LRelockCtx p) eq_refl). unfold step in Q. rewrite H in Q.
    destruct (waiting s =? 0); discriminate.
  - intros p sz H. split.
    + specialize (Q (LSelTok p) eq_refl). unfold step in Q. rewrite H in Q. destruct (tok s); [discriminate|reflexivity].
    + specialize (Q (LSelCtx p) eq_refl). unfold step in Q. rewrite H in Q. destruct (memb p (cancelled s)); [discriminate|reflexivity].
  - intros p H. split.
    + specialize (Q (LResult p) eq_refl). unfold step, find_res in Q. rewrite H in Q.
      destruct (find_id p (results s)); [discriminate|reflexivity].
    + specialize (Q (LAwaitCtx p) eq_refl). unfold step in Q. rewrite H in Q.
      destruct (memb p (cancelled s)); [discriminate|reflexivity].
  - intros k H. specialize (Q (LCWake k) eq_refl). unfold step in Q. rewrite H in Q. discriminate.
Qed.

Lemma cnt_zero_of_none f m :
  NoDup (map fst m) -> (forall p v, pget p m = Some v -> f v = false) -> cnt f m = 0.
Proof.
  intros ND H. pose proof (cnt_nonneg f m) as N.
  destruct (Z.eq_dec (cnt f m) 0) as [E|E]; [exact E|].
  destruct (cnt_pos_ex f m ND) as [p [v [H1 H2]]]; [lia|]. rewrite (H _ _ H1) in H2. discriminate.
Qed.

(* NO LOST WAKE-UP — the full statement (Model.no_lost_wakeup_statement): in every reachable state from which none of
   the queue's own threads can move, every producer has returned: nobody is left blocked — with or without space,
   cancelled or not, waiting for a result or not.  (Before fix a6d2b6d09 this was refuted: finding F3.) *)
Lemma no_lost_wakeup_l c : 0 <= cap c -> no_lost_wakeup_statement c.
Proof.
  intros Hc s R Q.
  destruct (reach_fit_inv _ _ Hc R) as (((T1 & T2 & T3 & T4) & (B1 & _ & B3 & _) & (_ & _ & _ & _ & _ & G6) & _) & A & F & N).
  destruct (quiescent_facts _ _ Q) as (Q1 & Q2 & _ & Q3 & Q4 & Q5 & Q6 & _).
  assert (LT : cnt is_lefttok (prods s) = 0).
  { apply cnt_zero_of_none; [exact G6|]. intros q w Hq. destruct w; try reflexivity. exfalso. eapply Q3; eassumption. }
  assert (LC : cnt is_leftctx (prods s) = 0).
  { apply cnt_zero_of_none; [exact G6|]. intros q w Hq. destruct w; try reflexivity. exfalso. eapply Q4; eassumption. }
  assert (SZ : size s = 0) by (rewrite Q1, Q2 in B3; unfold sum_sz in B3; simpl in B3; lia).
  intros p v Hp. destruct v as [sz|sz|sz| |r]; try (exfalso; eapply Q3 + eapply Q4; eassumption); [| |eauto].
  - exfalso. destruct (Q5 _ _ Hp) as [Tk _].
    pose proof (cnt_ge_of_pget is_insel _ _ _ Hp eq_refl) as S1.
    rewrite LT, LC in T3.
    assert (G0 : sigs s = 0).
    { destruct (Z_lt_dec 0 (sigs s)) as [P|P]; [|lia]. destruct (T4 P) as [X|X]; [congruence|lia]. }
    assert (WP : 0 < waiting s) by lia.
    destruct (N WP) as [X|X]; lia.
  - exfalso. destruct (Q6 _ Hp) as [Fr _].
    destruct (A _ Hp) as [I|[I|I]].
    + rewrite Q1 in I. exact I.
    + rewrite Q2 in I. exact I.
    + destruct (In_find_id _ _ I) as [e E]. congruence.
Qed.

(* every Done (and the persistent queue's size reset) issues a wake-up if somebody is still counted, and the bell
   lets any producer inside the select go and look *)
Lemma done_signals_l c s id e s' z :
  step c s (LDone id e) = Some (s', z) -> 0 < waiting s ->
  tok s' = true /\ waiting s' = waiting s - 1 /\ sigs s' = sigs s + 1.
Proof.
  intros H. revert H. step_cases; intros W; try lia; auto.
Qed.

Lemma token_lets_waiter_proceed_l c s p sz :
  pget p (prods s) = Some (PInSelect sz) -> tok s = true ->
  exists s', step c s (LSelTok p) = Some (s', 0) /\ pget p (prods s') = Some (PLeftTok sz).
Proof.
  intros H T. unfold step. rewrite H, T. eexists. split; [reflexivity|]. ss. apply pget_pset_eq.
Qed.
