(* C02/Proofs4.v — no lost wake-up: what can be proved, and the exact shape of what cannot. *)
From Verif Require Import Common.Base C02.Model C02.Proofs C02.Proofs2 C02.Proofs3.
Require Import ZifyBool Permutation.
Local Open Scope Z_scope.

(* ---- a producer waiting for its result has its request somewhere ---------------------------------- *)
Definition awaitinv (s : st) : Prop :=
  forall p, pget p (prods s) = Some PAwait ->
    In p (map fst (items s)) \/ In p (map fst (inflight s)) \/ In p (map fst (results s)) \/
    exists e, lock s = BSend (PendRes p e).

Lemma awaitinv_init : awaitinv init.
Proof. intros p H. discriminate. Qed.

Lemma wfr_eff_true c : wfr_eff c = true -> kind c = Mem /\ wfr c = true.
Proof. unfold wfr_eff. destruct (kind c); [auto|discriminate]. Qed.

Ltac await_old A q Hq :=
  let H := fresh "HA" in
  destruct (A q Hq) as [H|[H|[H|[? H]]]].

Ltac await_done A G5 q Hq id :=
  destruct (Nat.eq_dec q id) as [EQ|NE];
  [ subst; first [ right; right; left; rewrite map_app; apply in_or_app; right; left; reflexivity
                 | right; right; right; eexists; reflexivity
                 | exfalso; let W := fresh "W" in pose proof (G5 _ Hq) as W; apply wfr_eff_true in W; destruct W; congruence ]
  | await_old A q Hq;
    [ left; assumption
    | right; left; apply In_fst_remove_id; assumption
    | right; right; left; first [assumption | rewrite map_app; apply in_or_app; left; assumption]
    | congruence ] ].

Lemma awaitinv_step c s l s' z :
  corrupt s = [] -> ghostinv c s -> awaitinv s -> step c s l = Some (s', z) -> awaitinv s'.
Proof.
  intros NF (_ & _ & _ & _ & G5 & _) A H. revert A G5. unfold awaitinv. revert H.
  step_cases; intros A G5 q Hq;
    try (pget_split Hq; [try discriminate|]);
    try (left; rewrite map_app; apply in_or_app; right; left; reflexivity);
    try (await_old A q Hq;
         [ first [ left; first [assumption | rewrite map_app; apply in_or_app; left; assumption]
                 | simpl in HA; destruct HA as [HA|HA]; [right; left; left; exact HA | left; exact HA] ]
         | first [ right; left; first [assumption | right; assumption]
                 | idtac ]
         | first [ right; right; left; first [assumption | rewrite map_app; apply in_or_app; left; assumption]
                 | idtac ]
         | first [ congruence | right; right; right; eexists; eassumption | idtac ] ]; fail).
  all: try (rewrite ?Heql2, ?Heql1; apply A; assumption).
  all: try (await_done A G5 q Hq id; fail).
  all: try (await_old A q Hq; [left; assumption|right; left; assumption|
         right; right; left; rewrite map_app; apply in_or_app; left; assumption|];
       inversion HA; subst; right; right; left; rewrite map_app; apply in_or_app; right; left; reflexivity).
  all: try (await_old A q Hq; [left; assumption|right; left; assumption| |right; right; right; eexists; eassumption];
            right; right; left; apply In_fst_remove_id; [|assumption];
            intros ->; rewrite Nat.eqb_refl in E; discriminate).
Qed.

(* ---- S1-free runs: every waiting request fits the capacity ---------------------------------------- *)
Definition fitinv (c : cfg) (s : st) : Prop :=
  forall p v sz, pget p (prods s) = Some v -> wsz v = Some sz -> sz <= cap c.

Lemma fitinv_step c s l s' z :
  fitinv c s -> step c s l = Some (s', z) -> fitinv c s'.
Proof.
  intros I H. revert I. unfold fitinv. revert H.
  step_cases; intros I6;
    try match goal with
    | H : pget ?p (prods s) = Some (?C ?sz) |- _ => pose proof (I6 p _ sz H eq_refl)
    end;
    try assumption;
    try (wsz_tac I6).
Qed.

(* ---- the wake-up invariant: unsignalled waiters never sit on an empty queue without a wake-up on its way *)
Definition wakeinv (s : st) : Prop :=
  0 < waiting s -> 0 < size s \/ tok s = true \/ 0 < cnt is_lefttok (prods s).

Lemma wakeinv_step c s l s' z :
  corrupt s = [] -> tokinv s -> sizeinv c s -> fitinv c s -> wakeinv s ->
  wf_label c l ->
  step c s l = Some (s', z) -> wakeinv s'.
Proof.
  intros NF (T1 & _ & T3 & _) (B1 & _ & _ & _ & B5 & B6) F N W1 H.
  revert T1 T3 B1 B5 B6 F N W1. unfold wakeinv, fitinv, wf_label.
  pose proof (cnt_nonneg is_lefttok (prods s)) as N1. revert N1. revert H.
  step_cases; intros N1 T1 T3 B1 B5 B6 F N W1;
    try (specialize (T3 _ eq_refl));
    try match goal with
    | H : pget ?p (prods s) = Some (?C ?sz) |- _ =>
        pose proof (B6 p _ sz H eq_refl); pose proof (F p _ sz H eq_refl)
    end;
    try match goal with
    | H : find_id ?id (inflight s) = Some ?sz |- _ => pose proof (nonneg_find _ _ _ B5 H)
    end;
    try (specialize (W1 eq_refl));
    cnt_rw; unfold b2z in *; intros; auto; try lia; try (right; left; reflexivity);
    try (left; lia);
    try (destruct N as [?|[?|?]]; [lia|left; lia|right; left; assumption|right; right; lia]).
Qed.

Definition fullinv (c : cfg) (s : st) : Prop := allinv c s /\ awaitinv s /\ fitinv c s /\ wakeinv s.

Lemma reach_fit_inv c s : 0 <= cap c -> reachable c s -> fullinv c s.
Proof.
  intros Hc. apply reachP_ind.
  - split; [|split; [|split]].
    + split; [|split; [|split]]; [apply tokinv_init|apply sizeinv_init; exact Hc|apply ghostinv_init|apply wfrinv_init].
    + apply awaitinv_init.
    + intros p v sz H. discriminate.
    + intros H. simpl in H. lia.
  - intros s0 l s1 z R0 ((I1 & I2 & I3 & I4) & I5 & I6 & I7) W1 Hs.
    pose proof (reach_nofault _ c s0 (fun l H => H) R0) as NF.
    split; [|split; [|split]].
    + split; [|split; [|split]].
      * eapply tokinv_step; eauto.
      * eapply sizeinv_step; eauto.
      * eapply ghostinv_step; eauto.
      * eapply wfrinv_step; eauto.
    + eapply awaitinv_step; eauto.
    + eapply fitinv_step; eauto.
    + eapply wakeinv_step; eauto.
Qed.

(* awaitinv needs no hypothesis on sizes *)
Lemma reach_awaitinv c s : 0 <= cap c -> reachable c s -> awaitinv s.
Proof.
  intros Hc R. assert (X : allinv c s /\ awaitinv s); [|exact (proj2 X)].
  revert s R. apply reachP_ind.
  - split; [|apply awaitinv_init].
    split; [|split; [|split]]; [apply tokinv_init|apply sizeinv_init; exact Hc|apply ghostinv_init|apply wfrinv_init].
  - intros s0 l s1 z R0 ((I1 & I2 & I3 & I4) & I5) W Hs. pose proof (reach_nofault _ c s0 (fun l H => H) R0) as NF. split.
    + split; [|split; [|split]].
      * eapply tokinv_step; eauto.
      * eapply sizeinv_step; eauto.
      * eapply ghostinv_step; eauto.
      * eapply wfrinv_step; eauto.
    + eapply awaitinv_step; eauto.
Qed.

(* ---- what quiescence means ---------------------------------------------------------------------------- *)
Lemma quiescent_facts c s :
  quiescent c s -> lock s = Free ->
  items s = [] /\ inflight s = [] /\
  (forall p sz, pget p (prods s) <> Some (PLeftTok sz)) /\
  (forall p sz, pget p (prods s) <> Some (PLeftCtx sz)) /\
  (forall p sz, pget p (prods s) = Some (PInSelect sz) -> tok s = false /\ memb p (cancelled s) = false) /\
  (forall p, pget p (prods s) = Some PAwait -> find_id p (results s) = None /\ memb p (cancelled s) = false).
Proof.
  intros Q L. split; [|split; [|split; [|split; [|split]]]].
  - specialize (Q LRead eq_refl). unfold step, lock_free, read in Q. rewrite L in Q.
    destruct (kind c), (items s) as [|[p sz] r], (stopped s); try discriminate; try reflexivity;
      try (destruct r; discriminate).
  - destruct (inflight s) as [|[id sz] r] eqn:E; [reflexivity|].
    specialize (Q (LDone id 0) eq_refl). unfold step, lock_free, done in Q. rewrite L, E in Q.
    simpl in Q. rewrite Nat.eqb_refl in Q. discriminate.
  - intros p sz H. specialize (Q (LRelockTok p) eq_refl). unfold step, lock_free in Q. rewrite L, H in Q.
    destruct (find_id p (faulty s)); [destruct (size s + sz >? cap c)|]; discriminate.
  - intros p sz H. specialize (Q (LRelockCtx p) eq_refl). unfold step, lock_free in Q. rewrite L, H in Q.
    destruct (waiting s =? 0), (tok s); discriminate.
  - intros p sz H. split.
    + specialize (Q (LSelTok p) eq_refl). unfold step in Q. rewrite H, L in Q. destruct (tok s); [discriminate|reflexivity].
    + specialize (Q (LSelCtx p) eq_refl). unfold step in Q. rewrite H in Q. destruct (memb p (cancelled s)); [discriminate|reflexivity].
  - intros p H. split.
    + specialize (Q (LResult p) eq_refl). unfold step, find_res in Q. rewrite H in Q.
      destruct (find_id p (results s)); [discriminate|reflexivity].
    + specialize (Q (LAwaitCtx p) eq_refl). unfold step in Q. rewrite H in Q.
      destruct (memb p (cancelled s)); [discriminate|reflexivity].
Qed.

Lemma cnt_zero_of_none f m :
  NoDup (map fst m) -> (forall p v, pget p m = Some v -> f v = false) -> cnt f m = 0.
Proof.
  intros ND H. pose proof (cnt_nonneg f m) as N.
  destruct (Z.eq_dec (cnt f m) 0) as [E|E]; [exact E|].
  destruct (cnt_pos_ex f m ND) as [p [v [H1 H2]]]; [lia|]. rewrite (H _ _ H1) in H2. discriminate.
Qed.

(* NO LOST WAKE-UP, the part that holds: in a quiescent state whose mutex is free — i.e. outside the F3
   deadlock — and on runs without an oversized request on a persistent queue (S1), every producer has
   returned: nobody is left blocked, with or without space, cancelled or not, waiting for a result or not. *)
Lemma no_lost_wakeup_partial_l c s :
  0 <= cap c -> reachable c s -> quiescent c s -> lock s = Free -> all_returned s.
Proof.
  intros Hc R Q L.
  destruct (reach_fit_inv _ _ Hc R) as (((T1 & T2 & T3 & T4) & (B1 & _ & B3 & _) & (_ & _ & _ & _ & _ & G6) & _) & A & F & N).
  destruct (quiescent_facts _ _ Q L) as (Q1 & Q2 & Q3 & Q4 & Q5 & Q6).
  intros p v Hp. destruct v as [sz|sz|sz| |r]; try (exfalso; eapply Q3 + eapply Q4; eassumption); [| |eauto].
  - exfalso. destruct (Q5 _ _ Hp) as [Tk _].
    assert (LT : cnt is_lefttok (prods s) = 0).
    { apply cnt_zero_of_none; [exact G6|]. intros q w Hq. destruct w; try reflexivity. exfalso. eapply Q3; eassumption. }
    assert (LC : cnt is_leftctx (prods s) = 0).
    { apply cnt_zero_of_none; [exact G6|]. intros q w Hq. destruct w; try reflexivity. exfalso. eapply Q4; eassumption. }
    pose proof (cnt_ge_of_pget is_insel _ _ _ Hp eq_refl) as S1.
    unfold sb in T2. rewrite L, Tk, LC in T2. simpl in T2.
    rewrite Q1, Q2 in B3. unfold sum_sz in B3. simpl in B3.
    destruct N as [N|[N|N]]; try lia; try congruence.
  - exfalso. destruct (Q6 _ Hp) as [Fr _].
    destruct (A _ Hp) as [I|[I|[I|[e I]]]].
    + rewrite Q1 in I. exact I.
    + rewrite Q2 in I. exact I.
    + destruct (In_find_id _ _ I) as [e E]. congruence.
    + congruence.
Qed.

(* ... and the exact shape of every quiescent state whose mutex is NOT free (finding F3): a Signal is blocked
   on the full 1-slot channel, nobody is inside the select any more, and at least two waiters have left the
   select on their context and can never re-acquire the mutex. *)
Lemma deadlock_shape_l c s :
  0 <= cap c -> reachable c s -> quiescent c s -> lock s <> Free ->
  (exists k, lock s = BSend k) /\ tok s = true /\ cnt is_insel (prods s) = 0 /\
  cnt is_leftctx (prods s) = waiting s + 2 /\ 0 <= waiting s.
Proof.
  intros Hc R Q L.
  destruct (reachable_inv _ _ Hc R) as ((T1 & T2 & T3 & T4) & _ & (_ & _ & _ & _ & _ & G6) & _).
  destruct (lock s) as [|k|p|] eqn:E; [congruence| |exfalso; eapply T4; reflexivity|exfalso; exact (reach_nobcast _ _ R E)].
  pose proof (T3 _ eq_refl) as Tk.
  assert (S0 : cnt is_insel (prods s) = 0).
  { apply cnt_zero_of_none; [exact G6|]. intros q w Hq. destruct w; try reflexivity. exfalso.
    specialize (Q (LSelTok q) eq_refl). unfold step in Q. rewrite Hq, Tk, E in Q. discriminate. }
  split; [eauto|]. split; [exact Tk|]. split; [exact S0|].
  unfold sb in T2. rewrite E, Tk, S0 in T2. simpl in T2. split; lia.
Qed.

(* every Done (and the persistent queue's size reset) leaves a token behind if somebody was still counted *)
Lemma done_signals_l c s id e s' z :
  step c s (LDone id e) = Some (s', z) -> 0 < waiting s ->
  tok s' = true /\ waiting s' = waiting s - 1.
Proof.
  intros H. revert H. step_cases; intros W; try lia; auto.
Qed.

Lemma token_lets_waiter_proceed_l c s p sz :
  pget p (prods s) = Some (PInSelect sz) -> tok s = true ->
  exists s', step c s (LSelTok p) = Some (s', 0) /\ pget p (prods s') = Some (PLeftTok sz).
Proof.
  intros H T. unfold step. rewrite H, T.
  destruct (lock s); eexists; (split; [reflexivity|]); unfold deliver; try destruct k;
    ss; try (destruct (waiting s - 1 =? 0)); ss; apply pget_pset_eq.
Qed.
