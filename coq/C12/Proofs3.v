(* C12/Proofs3.v — the token grammar and the central theorem: on every well-formed token string
   resolution equals the token-by-token semantics. *)
From Verif Require Import Common.Base C12.Model C12.Proofs1 C12.Proofs2.
From Coq Require Import Ascii.

(* Tokens.  Every string over the grammar
     (char other than '$' and '}' | '}' | "$$" | '$' not followed by '$', '{' | "${" name "}")*
   is the text of exactly one token list; a literal chunk is a run of TChar / TClose tokens. *)
Inductive tok :=
| TChar (c : ascii)      (* any character except '$' and '}' *)
| TClose                 (* '}' outside a reference *)
| TEsc                   (* "$$" *)
| TDollar                (* a lone '$': followed by a TChar other than '{', by '}' or by the end *)
| TRef (name : str).     (* "${name}" *)

Definition tok_text (t : tok) : str :=
  match t with
  | TChar c => [c]
  | TClose => [cClose]
  | TEsc => [cDollar; cDollar]
  | TDollar => [cDollar]
  | TRef n => ref_text n
  end.

Definition flatten (ts : list tok) : str := concat (map tok_text ts).

Lemma flatten_cons t ts : flatten (t :: ts) = tok_text t ++ flatten ts.
Proof. reflexivity. Qed.

Lemma flatten_app a b : flatten (a ++ b) = flatten a ++ flatten b.
Proof. unfold flatten. now rewrite map_app, concat_app. Qed.

Definition char_ok (c : ascii) : bool := negb (is_dollar c) && negb (Ascii.eqb c cClose).

Section Tokens.
  Variable def : str.
  Variable retrieve : str -> str -> res retrieved.
  (* what the provider's answer to a reference is, as text *)
  Variable val : str -> str.

  (* a reference the theorem covers: recognised, '$'- and '}'-free name, the provider answers with a
     string form that contains no '$' (hence no further reference and nothing to un-escape) *)
  Definition ref_good (n : str) : Prop :=
    name_ok n = true /\ ref_ok def n = true /\
    has_char cDollar (val n) = false /\
    exists ret, expand_uri def retrieve (ref_text n) = Ok ret /\ as_string ret = Some (val n).

  (* well-formedness, left to right; [pd] = the previous token is a lone '$' *)
  Fixpoint wf_from (pd : bool) (ts : list tok) : Prop :=
    match ts with
    | [] => True
    | TChar c :: r => char_ok c = true /\ (pd = true -> c <> cOpen) /\ wf_from false r
    | TClose :: r => wf_from false r
    | TEsc :: r => pd = false /\ wf_from false r
    | TDollar :: r => pd = false /\ wf_from true r
    | TRef n :: r => pd = false /\ ref_good n /\ wf_from false r
    end.
  Definition wf := wf_from false.

  Definition tok_sem (t : tok) : str :=
    match t with
    | TChar c => [c]
    | TClose => [cClose]
    | TEsc => [cDollar]
    | TDollar => [cDollar]
    | TRef n => val n
    end.
  Definition sem (ts : list tok) : str := concat (map tok_sem ts).

  Definition is_ref (t : tok) : bool := match t with TRef _ => true | _ => false end.
  Definition simple (t : tok) : bool := match t with TChar _ | TEsc | TDollar => true | _ => false end.

  Fixpoint first_ref (ts : list tok) : option str :=
    match ts with
    | [] => None
    | TRef n :: _ => Some n
    | _ :: r => first_ref r
    end.

  Definition nrefs (ts : list tok) : nat := length (filter is_ref ts).
  Definition has_text (ts : list tok) : bool := existsb (fun t => negb (is_ref t)) ts.

  (* literal text as tokens *)
  Definition lit_tok (c : ascii) : tok := if Ascii.eqb c cClose then TClose else TChar c.
  Definition lit_tokens (s : str) : list tok := map lit_tok s.

  (* one round replaces every unescaped occurrence of the first reference *)
  Definition subst1 (n : str) (t : tok) : list tok :=
    match t with
    | TRef m => if str_eqb m n then lit_tokens (val n) else [t]
    | _ => [t]
    end.
  Definition subst (n : str) (ts : list tok) : list tok := flat_map (subst1 n) ts.

  Definition subst_all1 (t : tok) : list tok :=
    match t with TRef m => lit_tokens (val m) | _ => [t] end.
  Definition subst_all (ts : list tok) : list tok := flat_map subst_all1 ts.

  (* ---- literal tokens ------------------------------------------------------------------------------ *)
  Lemma flatten_lit s : flatten (lit_tokens s) = s.
  Proof.
    induction s as [|c s IH]; [reflexivity|].
    unfold lit_tokens in *. cbn [map]. rewrite flatten_cons, IH. unfold lit_tok.
    destruct (Ascii.eqb c cClose) eqn:E; [|reflexivity]. apply Ascii.eqb_eq in E. now subst.
  Qed.

  Lemma sem_lit s : sem (lit_tokens s) = s.
  Proof.
    induction s as [|c s IH]; [reflexivity|].
    unfold lit_tokens, sem in *. cbn [map concat]. rewrite IH. unfold lit_tok.
    destruct (Ascii.eqb c cClose) eqn:E; [|reflexivity]. apply Ascii.eqb_eq in E. now subst.
  Qed.

  Lemma sem_app a b : sem (a ++ b) = sem a ++ sem b.
  Proof. unfold sem. now rewrite map_app, concat_app. Qed.

  Lemma wf_lit_app s r : has_char cDollar s = false -> wf_from false r -> wf_from false (lit_tokens s ++ r).
  Proof.
    intros Hs Hr. induction s as [|c s IH]; [exact Hr|].
    unfold has_char in Hs. cbn [existsb] in Hs. apply orb_false_iff in Hs as [H1 H2].
    unfold lit_tokens. cbn [map app]. unfold lit_tok at 1.
    destruct (Ascii.eqb c cClose) eqn:E.
    - cbn [wf_from]. now apply IH.
    - cbn [wf_from]. split; [|split; [discriminate|now apply IH]].
      unfold char_ok, is_dollar. rewrite (Ascii.eqb_sym c cDollar), H1, E. reflexivity.
  Qed.

  Lemma nrefs_lit s : nrefs (lit_tokens s) = 0.
  Proof.
    unfold nrefs. induction s as [|c s IH]; [reflexivity|].
    unfold lit_tokens in *. cbn [map]. unfold lit_tok at 1. destruct (Ascii.eqb c cClose); exact IH.
  Qed.

  Lemma nrefs_app a b : nrefs (a ++ b) = nrefs a + nrefs b.
  Proof. unfold nrefs. now rewrite filter_app, app_length. Qed.

  Lemma subst_all_lit s : subst_all (lit_tokens s) = lit_tokens s.
  Proof.
    induction s as [|c s IH]; [reflexivity|].
    unfold lit_tokens, subst_all in *. cbn [map flat_map]. rewrite IH.
    unfold lit_tok at 1. destruct (Ascii.eqb c cClose); reflexivity.
  Qed.

  (* ---- substitution ----------------------------------------------------------------------------------- *)
  Lemma subst_all_app a b : subst_all (a ++ b) = subst_all a ++ subst_all b.
  Proof. unfold subst_all. apply flat_map_app. Qed.

  Lemma subst_all_subst n ts : subst_all (subst n ts) = subst_all ts.
  Proof.
    induction ts as [|t ts IH]; [reflexivity|].
    unfold subst in *. cbn [flat_map]. rewrite subst_all_app, IH.
    destruct t; try reflexivity. cbn [subst1].
    destruct (str_eqb name n) eqn:E; [|reflexivity].
    apply str_eqb_eq in E. subst. rewrite subst_all_lit. reflexivity.
  Qed.

  Lemma subst_all_no_ref ts : first_ref ts = None -> subst_all ts = ts.
  Proof.
    induction ts as [|t ts IH]; [reflexivity|]. intros H.
    destruct t; cbn [first_ref] in H; try discriminate;
      unfold subst_all in *; cbn [flat_map subst_all1 app]; now rewrite IH.
  Qed.

  Lemma sem_subst_all ts : sem (subst_all ts) = sem ts.
  Proof.
    induction ts as [|t ts IH]; [reflexivity|].
    unfold subst_all in *. cbn [flat_map]. rewrite sem_app, IH.
    change (t :: ts) with ([t] ++ ts). rewrite (sem_app [t] ts). f_equal.
    destruct t; try reflexivity. cbn [subst_all1]. rewrite sem_lit. unfold sem. cbn. now rewrite app_nil_r.
  Qed.

  Lemma wf_subst n ts pd : wf_from pd ts -> wf_from pd (subst n ts).
  Proof.
    revert pd. induction ts as [|t ts IH]; intros pd H; [exact H|].
    unfold subst in *. cbn [flat_map].
    destruct t; cbn [subst1 app wf_from] in *.
    - destruct H as [H1 [H2 H3]]. auto.
    - auto.
    - destruct H as [H1 H2]. auto.
    - destruct H as [H1 H2]. auto.
    - destruct H as [H1 [H2 H3]]. subst pd.
      destruct (str_eqb name n) eqn:E.
      + apply str_eqb_eq in E. subst. apply wf_lit_app; [|auto]. destruct H2 as [_ [_ [Hv _]]]. exact Hv.
      + cbn [app wf_from]. auto.
  Qed.

  Lemma has_text_subst n ts : has_text ts = true -> has_text (subst n ts) = true.
  Proof.
    unfold has_text, subst. intros H. apply existsb_exists in H as [t [Hin Ht]].
    apply existsb_exists. exists t. split; [|exact Ht].
    apply in_flat_map. exists t. split; [exact Hin|]. destruct t; try (now left). discriminate.
  Qed.

  Lemma nrefs_subst_le n ts : nrefs (subst n ts) <= nrefs ts.
  Proof.
    induction ts as [|t ts IH]; [apply le_n|].
    unfold subst in *. cbn [flat_map]. rewrite nrefs_app.
    change (t :: ts) with ([t] ++ ts). rewrite (nrefs_app [t] ts).
    apply Nat.add_le_mono; [|exact IH].
    destruct t; try apply le_n. cbn [subst1]. destruct (str_eqb name n); [|apply le_n].
    rewrite nrefs_lit. apply Nat.le_0_l.
  Qed.

  Lemma nrefs_subst_lt n ts : first_ref ts = Some n -> nrefs (subst n ts) < nrefs ts.
  Proof.
    induction ts as [|t ts IH]; [discriminate|]. intros H.
    unfold subst in *. cbn [flat_map]. rewrite nrefs_app.
    change (t :: ts) with ([t] ++ ts). rewrite (nrefs_app [t] ts).
    destruct t; cbn [first_ref] in H; try (apply Nat.add_lt_mono_l; now apply IH).
    inversion H; subst. cbn [subst1]. rewrite str_eqb_refl, nrefs_lit.
    pose proof (nrefs_subst_le n ts) as Hle. unfold subst in Hle.
    unfold nrefs at 3. cbn. lia.
  Qed.

  (* ---- un-escaping of reference-free token strings ---------------------------------------------------- *)
  Lemma char_ok_nd c : char_ok c = true -> is_dollar c = false.
  Proof. unfold char_ok. intros H. apply andb_true_iff in H as [H _]. now apply negb_true_iff in H. Qed.

  Lemma char_ok_nc c : char_ok c = true -> Ascii.eqb c cClose = false.
  Proof. unfold char_ok. intros H. apply andb_true_iff in H as [_ H]. now apply negb_true_iff in H. Qed.

  Lemma unescape_tokens ts : forall pd, wf_from pd ts -> first_ref ts = None -> unescape (flatten ts) = sem ts.
  Proof.
    induction ts as [|t ts IH]; intros pd Hwf Hnr; [reflexivity|].
    rewrite flatten_cons. change (sem (t :: ts)) with (tok_sem t ++ sem ts).
    destruct t; cbn [wf_from first_ref tok_text tok_sem app] in *.
    - destruct Hwf as [Hc [_ Hr]]. rewrite unescape_cons_nd by now apply char_ok_nd. f_equal. eauto.
    - rewrite unescape_cons_nd by reflexivity. f_equal. eauto.
    - destruct Hwf as [_ Hr]. rewrite unescape_dd. f_equal. eauto.
    - destruct Hwf as [_ Hr]. destruct ts as [|t2 ts2]; [reflexivity|].
      destruct t2; cbn [wf_from] in Hr.
      + destruct Hr as [Hc _]. rewrite flatten_cons. cbn [tok_text app].
        rewrite unescape_d_nd by now apply char_ok_nd.
        f_equal. rewrite <- (IH true); [reflexivity| |exact Hnr].
        cbn [wf_from]. exact Hr0 || idtac. all: try (cbn [wf_from]; tauto).
      + rewrite flatten_cons. cbn [tok_text app]. rewrite unescape_d_nd by reflexivity.
        f_equal. now rewrite <- (IH true).
      + destruct Hr as [Hr _]. discriminate.
      + destruct Hr as [Hr _]. discriminate.
      + discriminate.
    - discriminate.
  Qed.
End Tokens.
