(* C12/Proofs3.v — the token grammar and the central theorem: on every well-formed token string
   resolution equals the token-by-token semantics. *)
From Verif Require Import Common.Base C12.Model C12.Proofs1 C12.Proofs2.
From Coq Require Import Ascii.

(* Tokens.  Every string over the grammar
     (char other than '$' and '}' | '}' | "$$" | '$' not followed by '$', '{' | "${" name "}")*
   is the text of exactly one token list; a literal chunk is a run of TChar / TClose tokens. *)
Inductive tok :=
| TChar (c : ascii)      (* any character except '$' and '}' *)
| TClose                 (* '}' outside a reference *)
| TEsc                   (* "$$" *)
| TDollar                (* a lone '$': followed by a TChar other than '{', by '}' or by the end *)
| TRef (name : str).     (* "${name}" *)

Definition tok_text (t : tok) : str :=
  match t with
  | TChar c => [c]
  | TClose => [cClose]
  | TEsc => [cDollar; cDollar]
  | TDollar => [cDollar]
  | TRef n => ref_text n
  end.

Definition flatten (ts : list tok) : str := concat (map tok_text ts).

Lemma flatten_cons t ts : flatten (t :: ts) = tok_text t ++ flatten ts.
Proof. reflexivity. Qed.

Lemma flatten_app a b : flatten (a ++ b) = flatten a ++ flatten b.
Proof. unfold flatten. now rewrite map_app, concat_app. Qed.

Definition char_ok (c : ascii) : bool := negb (is_dollar c) && negb (Ascii.eqb c cClose).

Section Tokens.
  Variable def : str.
  Variable retrieve : str -> str -> res retrieved.
  (* what the provider's answer to a reference is, as text *)
  Variable val : str -> str.

  (* a reference the theorems cover: recognised, '$'- and '}'-free name, the provider answers with the
     string form [val n] *)
  Definition ref_good (n : str) : Prop :=
    name_ok n = true /\ ref_ok def n = true /\
    exists ret, expand_uri def retrieve (ref_text n) = Ok ret /\ as_string ret = Some (val n).
  (* the provider texts of the references of ts contain no '$' (hence no further reference and nothing to
     un-escape): the hypothesis of the flat theorem; the nested theorem (Proofs7.v) does without it *)
  Definition plain (ts : list tok) : Prop := forall n, In (TRef n) ts -> has_char cDollar (val n) = false.

  (* well-formedness, left to right; [pd] = the previous token is a lone '$' *)
  Fixpoint wf_from (pd : bool) (ts : list tok) : Prop :=
    match ts with
    | [] => True
    | TChar c :: r => char_ok c = true /\ (pd = true -> c <> cOpen) /\ wf_from false r
    | TClose :: r => wf_from false r
    | TEsc :: r => pd = false /\ wf_from false r
    | TDollar :: r => pd = false /\ wf_from true r
    | TRef n :: r => pd = false /\ ref_good n /\ wf_from false r
    end.
  Definition wf := wf_from false.

  Definition tok_sem (t : tok) : str :=
    match t with
    | TChar c => [c]
    | TClose => [cClose]
    | TEsc => [cDollar]
    | TDollar => [cDollar]
    | TRef n => val n
    end.
  Definition sem (ts : list tok) : str := concat (map tok_sem ts).

  Definition is_ref (t : tok) : bool := match t with TRef _ => true | _ => false end.
  Definition simple (t : tok) : bool := match t with TChar _ | TEsc | TDollar => true | _ => false end.

  Fixpoint first_ref (ts : list tok) : option str :=
    match ts with
    | [] => None
    | TRef n :: _ => Some n
    | _ :: r => first_ref r
    end.

  Definition nrefs (ts : list tok) : nat := length (filter is_ref ts).
  Definition has_text (ts : list tok) : bool := existsb (fun t => negb (is_ref t)) ts.

  (* literal text as tokens *)
  Definition lit_tok (c : ascii) : tok := if Ascii.eqb c cClose then TClose else TChar c.
  Definition lit_tokens (s : str) : list tok := map lit_tok s.

  (* one round replaces every unescaped occurrence of the first reference *)
  Definition subst1 (n : str) (t : tok) : list tok :=
    match t with
    | TRef m => if str_eqb m n then lit_tokens (val n) else [t]
    | _ => [t]
    end.
  Definition subst (n : str) (ts : list tok) : list tok := flat_map (subst1 n) ts.

  Definition subst_all1 (t : tok) : list tok :=
    match t with TRef m => lit_tokens (val m) | _ => [t] end.
  Definition subst_all (ts : list tok) : list tok := flat_map subst_all1 ts.

  (* ---- literal tokens ------------------------------------------------------------------------------ *)
  Lemma flatten_lit s : flatten (lit_tokens s) = s.
  Proof.
    induction s as [|c s IH]; [reflexivity|].
    unfold lit_tokens in *. cbn [map]. rewrite flatten_cons, IH. unfold lit_tok.
    destruct (Ascii.eqb c cClose) eqn:E; [|reflexivity]. apply Ascii.eqb_eq in E. now subst.
  Qed.

  Lemma sem_lit s : sem (lit_tokens s) = s.
  Proof.
    induction s as [|c s IH]; [reflexivity|].
    unfold lit_tokens, sem in *. cbn [map concat]. rewrite IH. unfold lit_tok.
    destruct (Ascii.eqb c cClose) eqn:E; [|reflexivity]. apply Ascii.eqb_eq in E. now subst.
  Qed.

  Lemma sem_app a b : sem (a ++ b) = sem a ++ sem b.
  Proof. unfold sem. now rewrite map_app, concat_app. Qed.

  Lemma wf_lit_app s r : has_char cDollar s = false -> wf_from false r -> wf_from false (lit_tokens s ++ r).
  Proof.
    intros Hs Hr. induction s as [|c s IH]; [exact Hr|].
    unfold has_char in Hs. cbn [existsb] in Hs. apply orb_false_iff in Hs as [H1 H2].
    unfold lit_tokens. cbn [map app]. unfold lit_tok at 1.
    destruct (Ascii.eqb c cClose) eqn:E.
    - cbn [wf_from]. now apply IH.
    - cbn [wf_from]. split; [|split; [discriminate|now apply IH]].
      unfold char_ok, is_dollar. rewrite (Ascii.eqb_sym c cDollar), H1, E. reflexivity.
  Qed.

  Lemma nrefs_lit s : nrefs (lit_tokens s) = 0.
  Proof.
    unfold nrefs. induction s as [|c s IH]; [reflexivity|].
    unfold lit_tokens in *. cbn [map]. unfold lit_tok at 1. destruct (Ascii.eqb c cClose); exact IH.
  Qed.

  Lemma nrefs_app a b : nrefs (a ++ b) = nrefs a + nrefs b.
  Proof. unfold nrefs. now rewrite filter_app, app_length. Qed.

  Lemma subst_all_lit s : subst_all (lit_tokens s) = lit_tokens s.
  Proof.
    induction s as [|c s IH]; [reflexivity|].
    unfold lit_tokens, subst_all in *. cbn [map flat_map]. rewrite IH.
    destruct (lit_tok c) eqn:E; try reflexivity.
    unfold lit_tok in E. destruct (Ascii.eqb c cClose); discriminate.
  Qed.

  (* ---- substitution ----------------------------------------------------------------------------------- *)
  Lemma subst_all_app a b : subst_all (a ++ b) = subst_all a ++ subst_all b.
  Proof. unfold subst_all. apply flat_map_app. Qed.

  Lemma subst_all_subst n ts : subst_all (subst n ts) = subst_all ts.
  Proof.
    induction ts as [|t ts IH]; [reflexivity|].
    unfold subst in *. cbn [flat_map]. rewrite subst_all_app, IH.
    destruct t; try reflexivity. cbn [subst1].
    destruct (str_eqb name n) eqn:E.
    - apply str_eqb_eq in E. subst. rewrite subst_all_lit. reflexivity.
    - unfold subst_all. cbn [flat_map subst_all1]. now rewrite app_nil_r.
  Qed.

  Lemma subst_all_no_ref ts : first_ref ts = None -> subst_all ts = ts.
  Proof.
    induction ts as [|t ts IH]; [reflexivity|]. intros H.
    destruct t; cbn [first_ref] in H; try discriminate;
      unfold subst_all in *; cbn [flat_map subst_all1 app]; now rewrite IH.
  Qed.

  Lemma sem_subst_all ts : sem (subst_all ts) = sem ts.
  Proof.
    induction ts as [|t ts IH]; [reflexivity|].
    unfold subst_all in *. cbn [flat_map]. rewrite sem_app, IH.
    change (t :: ts) with ([t] ++ ts). rewrite (sem_app [t] ts). f_equal.
    destruct t; try reflexivity. cbn [subst_all1]. rewrite sem_lit. unfold sem. cbn. now rewrite app_nil_r.
  Qed.

  Lemma plain_cons t ts : plain (t :: ts) -> plain ts.
  Proof. intros H n Hn. apply H. now right. Qed.

  Lemma in_lit_ref m s : ~ In (TRef m) (lit_tokens s).
  Proof.
    induction s as [|c s IH]; [exact (fun H => H)|]. unfold lit_tokens in *. cbn [map]. intros [H|H]; [|auto].
    unfold lit_tok in H. destruct (Ascii.eqb c cClose); discriminate.
  Qed.

  Lemma in_subst_ref m n ts : In (TRef m) (subst n ts) -> In (TRef m) ts.
  Proof.
    induction ts as [|t ts IH]; [exact (fun H => H)|]. unfold subst in *. cbn [flat_map]. intros H.
    apply in_app_or in H as [H|H]; [|right; auto].
    destruct t; cbn [subst1] in H; try (destruct H as [H|[]]; left; exact H).
    destruct (str_eqb name n); [exfalso; exact (in_lit_ref _ _ H)|destruct H as [H|[]]; left; exact H].
  Qed.

  Lemma plain_subst n ts : plain ts -> plain (subst n ts).
  Proof. intros H m Hm. apply H. exact (in_subst_ref m n ts Hm). Qed.

  Lemma wf_subst n ts pd : plain ts -> wf_from pd ts -> wf_from pd (subst n ts).
  Proof.
    revert pd. induction ts as [|t ts IH]; intros pd Hp H; [exact H|].
    pose proof (plain_cons _ _ Hp) as Hp'.
    unfold subst in *. cbn [flat_map].
    destruct t; cbn [subst1 app wf_from] in *.
    - destruct H as [H1 [H2 H3]]. auto.
    - auto.
    - destruct H as [H1 H2]. auto.
    - destruct H as [H1 H2]. auto.
    - destruct H as [H1 [H2 H3]]. subst pd.
      destruct (str_eqb name n) eqn:E.
      + apply str_eqb_eq in E. subst. apply wf_lit_app; [|auto]. apply Hp. now left.
      + cbn [app wf_from]. auto.
  Qed.

  Lemma has_text_subst n ts : has_text ts = true -> has_text (subst n ts) = true.
  Proof.
    unfold has_text, subst. intros H. apply existsb_exists in H as [t [Hin Ht]].
    apply existsb_exists. exists t. split; [|exact Ht].
    apply in_flat_map. exists t. split; [exact Hin|]. destruct t; try (now left). discriminate.
  Qed.

  Lemma nrefs_subst_le n ts : nrefs (subst n ts) <= nrefs ts.
  Proof.
    induction ts as [|t ts IH]; [apply le_n|].
    unfold subst in *. cbn [flat_map]. rewrite nrefs_app.
    change (t :: ts) with ([t] ++ ts). rewrite (nrefs_app [t] ts).
    apply Nat.add_le_mono; [|exact IH].
    destruct t; try apply le_n. cbn [subst1]. destruct (str_eqb name n); [|apply le_n].
    rewrite nrefs_lit. apply Nat.le_0_l.
  Qed.

  Lemma nrefs_subst_lt n ts : first_ref ts = Some n -> nrefs (subst n ts) < nrefs ts.
  Proof.
    induction ts as [|t ts IH]; [discriminate|]. intros H.
    unfold subst in *. cbn [flat_map]. rewrite nrefs_app.
    change (t :: ts) with ([t] ++ ts). rewrite (nrefs_app [t] ts).
    destruct t; cbn [first_ref] in H; try (apply Nat.add_lt_mono_l; now apply IH).
    inversion H; subst. cbn [subst1]. rewrite str_eqb_refl, nrefs_lit.
    pose proof (nrefs_subst_le n ts) as Hle. unfold subst in Hle.
    change (nrefs [TRef n]) with 1. lia.
  Qed.

  (* ---- un-escaping of reference-free token strings ---------------------------------------------------- *)
  Lemma char_ok_nd c : char_ok c = true -> is_dollar c = false.
  Proof. unfold char_ok. intros H. apply andb_true_iff in H as [H _]. now apply negb_true_iff in H. Qed.

  Lemma char_ok_nc c : char_ok c = true -> Ascii.eqb c cClose = false.
  Proof. unfold char_ok. intros H. apply andb_true_iff in H as [_ H]. now apply negb_true_iff in H. Qed.

  Lemma unescape_tokens ts : forall pd, wf_from pd ts -> first_ref ts = None -> unescape (flatten ts) = sem ts.
  Proof.
    induction ts as [|t ts IH]; intros pd Hwf Hnr; [reflexivity|].
    rewrite flatten_cons. change (sem (t :: ts)) with (tok_sem t ++ sem ts).
    destruct t; cbn [wf_from first_ref tok_text tok_sem app] in *.
    - destruct Hwf as [Hc [_ Hr]]. rewrite unescape_cons_nd by now apply char_ok_nd. f_equal. eauto.
    - rewrite unescape_cons_nd by reflexivity. f_equal. eauto.
    - destruct Hwf as [_ Hr]. rewrite unescape_dd. f_equal. eauto.
    - destruct Hwf as [_ Hr]. destruct ts as [|t2 ts2]; [reflexivity|].
      specialize (IH true Hr Hnr).
      destruct t2; cbn [wf_from] in Hr.
      + destruct Hr as [Hc _]. rewrite flatten_cons in *. cbn [tok_text app] in *.
        rewrite unescape_d_nd by now apply char_ok_nd. f_equal. exact IH.
      + rewrite flatten_cons in *. cbn [tok_text app] in *.
        rewrite unescape_d_nd by reflexivity. f_equal. exact IH.
      + destruct Hr as [Hr _]. discriminate.
      + destruct Hr as [Hr _]. discriminate.
      + discriminate.
    - discriminate.
  Qed.

  (* ---- findURI on token strings ------------------------------------------------------------------------ *)
  Definition Jinv (x : str) : Prop :=
    match split_last_open x with
    | None => True
    | Some (pre, _) => Nat.odd (trailing_dollars pre) = true
    end.
  (* x = the text of the current '}'-free segment so far; pd = it ends with a lone '$' token *)
  Definition Inv (x : str) (pd : bool) : Prop :=
    Nat.even (trailing_dollars x) = negb pd /\ Jinv x.

  Fixpoint flag_after (pd : bool) (ts : list tok) : bool :=
    match ts with
    | [] => pd
    | TDollar :: r => flag_after true r
    | _ :: r => flag_after false r
    end.

  Lemma wf_app a : forall pd b, wf_from pd (a ++ b) -> wf_from pd a /\ wf_from (flag_after pd a) b.
  Proof.
    induction a as [|t a IH]; intros pd b H; [split; [exact I|exact H]|].
    destruct t; cbn [app wf_from flag_after] in *.
    - destruct H as [H1 [H2 H3]]. destruct (IH _ _ H3). tauto.
    - destruct (IH _ _ H). tauto.
    - destruct H as [H1 H3]. destruct (IH _ _ H3). tauto.
    - destruct H as [H1 H3]. destruct (IH _ _ H3). tauto.
    - destruct H as [H1 [H2 H3]]. destruct (IH _ _ H3). tauto.
  Qed.

  Lemma Jinv_snoc_other x c :
    Jinv x -> Ascii.eqb c cOpen && last_dollar x = false -> Jinv (x ++ [c]).
  Proof.
    unfold Jinv. intros H Hc. rewrite (slo_snoc x c Hc).
    destruct (split_last_open x) as [[p b]|]; exact H.
  Qed.

  Lemma Jinv_snoc_open x :
    last_dollar x = true -> Nat.even (trailing_dollars x) = true -> Jinv (x ++ [cOpen]).
  Proof.
    intros Hl He. destruct (last_dollar_true x Hl) as [x' ->].
    unfold Jinv. rewrite <- app_assoc. cbn [app].
    rewrite (slo_last x' []) by reflexivity.
    rewrite trailing_dollars_snoc in He. change (is_dollar cDollar) with true in He. cbv iota in He.
    rewrite Nat.even_succ in He. exact He.
  Qed.

  Lemma Inv_char x pd c :
    char_ok c = true -> (pd = true -> c <> cOpen) -> Inv x pd -> Inv (x ++ [c]) false.
  Proof.
    intros Hc Hpd [He HJ]. split.
    - rewrite trailing_dollars_snoc, (char_ok_nd c Hc). reflexivity.
    - destruct (Ascii.eqb c cOpen) eqn:Eo.
      + apply Ascii.eqb_eq in Eo. subst c.
        destruct pd; [exfalso; now apply Hpd|]. cbn [negb] in He.
        destruct (last_dollar x) eqn:El.
        * now apply Jinv_snoc_open.
        * apply Jinv_snoc_other; [exact HJ|]. rewrite El. apply andb_false_r.
      + apply Jinv_snoc_other; [exact HJ|]. rewrite Eo. reflexivity.
  Qed.

  Lemma Inv_dollar x : Inv x false -> Inv (x ++ [cDollar]) true.
  Proof.
    intros [He HJ]. split.
    - rewrite trailing_dollars_snoc. change (is_dollar cDollar) with true. cbv iota.
      rewrite Nat.even_succ, <- Nat.negb_even, He. reflexivity.
    - apply Jinv_snoc_other; [exact HJ|reflexivity].
  Qed.

  Lemma Inv_esc x : Inv x false -> Inv (x ++ [cDollar; cDollar]) false.
  Proof.
    intros [He HJ]. change [cDollar; cDollar] with ([cDollar] ++ [cDollar]). rewrite app_assoc. split.
    - rewrite !trailing_dollars_snoc. change (is_dollar cDollar) with true. cbv iota.
      rewrite Nat.even_succ_succ. exact He.
    - apply Jinv_snoc_other; [|reflexivity]. apply Jinv_snoc_other; [exact HJ|reflexivity].
  Qed.

  Lemma Inv_tokens ps : forall x pd,
    forallb simple ps = true -> wf_from pd ps -> Inv x pd -> Inv (x ++ flatten ps) (flag_after pd ps).
  Proof.
    induction ps as [|t ps IH]; intros x pd Hs Hwf Hi.
    - cbn. now rewrite app_nil_r.
    - cbn [forallb] in Hs. apply andb_true_iff in Hs as [Ht Hs].
      rewrite flatten_cons, app_assoc.
      destruct t; try discriminate; cbn [wf_from flag_after tok_text] in *.
      + destruct Hwf as [H1 [H2 H3]]. apply IH; auto. now apply (Inv_char x pd).
      + destruct Hwf as [-> H3]. apply IH; auto. now apply Inv_esc.
      + destruct Hwf as [-> H3]. apply IH; auto. now apply Inv_dollar.
  Qed.

  Lemma Inv_nil : Inv [] false.
  Proof. split; [reflexivity|exact I]. Qed.

  Fixpoint first_end (ts : list tok) : option (list tok * tok * list tok) :=
    match ts with
    | [] => None
    | t :: r =>
        if simple t then
          match first_end r with
          | Some (ps, e, rest) => Some (t :: ps, e, rest)
          | None => None
          end
        else Some ([], t, r)
    end.

  Lemma first_end_some ts : forall ps e rest,
    first_end ts = Some (ps, e, rest) -> ts = ps ++ e :: rest /\ forallb simple ps = true /\ simple e = false.
  Proof.
    induction ts as [|t ts IH]; intros ps e rest H; [discriminate|].
    cbn [first_end] in H. destruct (simple t) eqn:Et.
    - destruct (first_end ts) as [[[ps' e'] rest']|]; [|discriminate]. inversion H; subst.
      destruct (IH _ _ _ eq_refl) as [-> [H1 H2]]. cbn [forallb]. rewrite Et, H1. auto.
    - inversion H; subst. auto.
  Qed.

  Lemma first_end_none ts : first_end ts = None -> forallb simple ts = true.
  Proof.
    induction ts as [|t ts IH]; [reflexivity|]. cbn [first_end forallb].
    destruct (simple t); [|discriminate].
    destruct (first_end ts) as [[[ps e] rest]|]; [discriminate|]. intros _. now apply IH.
  Qed.

  Lemma simple_no_close ps : forall pd,
    forallb simple ps = true -> wf_from pd ps -> has_char cClose (flatten ps) = false.
  Proof.
    induction ps as [|t ps IH]; intros pd Hs Hwf; [reflexivity|].
    cbn [forallb] in Hs. apply andb_true_iff in Hs as [Ht Hs].
    rewrite flatten_cons, has_char_app.
    destruct t; try discriminate; cbn [wf_from tok_text] in *.
    - destruct Hwf as [H1 [_ H3]]. rewrite (IH _ Hs H3). unfold has_char. cbn [existsb].
      rewrite (Ascii.eqb_sym cClose c), (char_ok_nc c H1). reflexivity.
    - destruct Hwf as [_ H3]. now rewrite (IH _ Hs H3).
    - destruct Hwf as [_ H3]. now rewrite (IH _ Hs H3).
  Qed.

  Lemma simple_first_ref ps r : forallb simple ps = true -> first_ref (ps ++ r) = first_ref r.
  Proof.
    induction ps as [|t ps IH]; [reflexivity|]. cbn [forallb]. intros H.
    apply andb_true_iff in H as [Ht Hs]. destruct t; try discriminate; cbn [app first_ref]; auto.
  Qed.

  Lemma split_close_absent s : has_char cClose s = false -> split_close s = None.
  Proof.
    induction s as [|c s IH]; [reflexivity|]. unfold has_char. cbn [existsb split_close]. intros H.
    apply orb_false_iff in H as [H1 H2]. rewrite (Ascii.eqb_sym c cClose), H1.
    unfold has_char in IH. now rewrite (IH H2).
  Qed.

  Lemma first_ref_has_close ts n : first_ref ts = Some n -> has_char cClose (flatten ts) = true.
  Proof.
    induction ts as [|t ts IH]; [discriminate|]. rewrite flatten_cons, has_char_app.
    destruct t; cbn [first_ref]; intros H; try (rewrite (IH H); apply orb_true_r).
    cbn [tok_text]. now rewrite ref_text_has_close.
  Qed.

  Lemma find_uri_tokens fuel : forall ts,
    length (flatten ts) < fuel -> wf ts ->
    find_uri_f def fuel (flatten ts) = option_map ref_text (first_ref ts).
  Proof.
    induction fuel as [|f IH]; intros ts Hlen Hwf; [lia|].
    rewrite find_uri_f_unfold.
    destruct (first_end ts) as [[[ps e] rest]|] eqn:Efe.
    - destruct (first_end_some ts _ _ _ Efe) as [-> [Hs He]].
      destruct (wf_app ps false (e :: rest) Hwf) as [Hwps Hwe].
      pose proof (Inv_tokens ps [] false Hs Hwps Inv_nil) as [Hev HJ]. cbn [app] in Hev, HJ.
      pose proof (simple_no_close ps false Hs Hwps) as Hnc.
      rewrite (simple_first_ref ps _ Hs).
      rewrite flatten_app, flatten_cons in *.
      destruct e; try discriminate.
      + (* the segment ends with a literal '}' *)
        cbn [tok_text app]. rewrite (split_close_app _ _ Hnc). cbv zeta.
        cbn [wf_from] in Hwe.
        assert (Hnext : (if has_char cClose (flatten rest) then find_uri_f def f (flatten rest) else None)
                        = option_map ref_text (first_ref rest)).
        { destruct (has_char cClose (flatten rest)) eqn:Hc.
          - apply IH; [|exact Hwe]. rewrite !app_length in Hlen. cbn in Hlen. lia.
          - destruct (first_ref rest) eqn:Efr; [|reflexivity].
            apply first_ref_has_close in Efr. congruence. }
        rewrite Hnext. cbn [first_ref].
        rewrite (slo_snoc (flatten ps) cClose) by reflexivity.
        unfold Jinv in HJ. destruct (split_last_open (flatten ps)) as [[pre b]|]; cbn [snoc_body]; [|reflexivity].
        rewrite HJ. destruct (str_empty def && _); reflexivity.
      + (* the segment ends with a reference *)
        cbn [wf_from] in Hwe. destruct Hwe as [Hpd [[Hn [Hok _]] _]].
        rewrite Hpd in Hev. cbn [negb] in Hev. cbn [tok_text first_ref option_map].
        now apply find_uri_ref_here.
    - pose proof (first_end_none ts Efe) as Hs.
      rewrite (split_close_absent _ (simple_no_close ts false Hs Hwf)).
      replace ts with (ts ++ []) by apply app_nil_r. now rewrite (simple_first_ref ts [] Hs).
  Qed.

  Lemma find_uri_wf ts : wf ts -> find_uri def (flatten ts) = option_map ref_text (first_ref ts).
  Proof. intros H. unfold find_uri. apply find_uri_tokens; [lia|exact H]. Qed.

  (* ---- replaceUnescaped on token strings ------------------------------------------------------------------- *)
  Lemma repl_aux_skip uri repl k nd c s :
    repl_aux uri repl (S k) nd (c :: s) = repl_aux uri repl k (if is_dollar c then S nd else 0) s.
  Proof. reflexivity. Qed.

  Lemma repl_aux_zero uri repl nd c s :
    repl_aux uri repl 0 nd (c :: s) =
    if prefix uri (c :: s)
    then (if Nat.odd nd then uri else repl) ++ repl_aux uri repl (length uri - 1) (if is_dollar c then S nd else 0) s
    else c :: repl_aux uri repl 0 (if is_dollar c then S nd else 0) s.
  Proof. reflexivity. Qed.

  (* the run of '$' after reading w, having had nd before *)
  Definition run (nd : nat) (w : str) : nat := fold_left (fun a c => if is_dollar c then S a else 0) w nd.

  Lemma run_snoc nd w c : run nd (w ++ [c]) = if is_dollar c then S (run nd w) else 0.
  Proof. unfold run. rewrite fold_left_app. reflexivity. Qed.

  Lemma repl_skip_all uri repl w : forall nd t,
    repl_aux uri repl (length w) nd (w ++ t) = repl_aux uri repl 0 (run nd w) t.
  Proof.
    induction w as [|c w IH]; intros nd t; [reflexivity|].
    cbn [length app]. rewrite repl_aux_skip. apply IH.
  Qed.

  Lemma prefix_head_neq p c d s : Ascii.eqb c d = false -> prefix (c :: p) (d :: s) = false.
  Proof. intros H. cbn [prefix]. now rewrite H. Qed.

  Lemma prefix_app_self p s : prefix p (p ++ s) = true.
  Proof. induction p as [|c p IH]; [reflexivity|]. cbn [app prefix]. now rewrite Ascii.eqb_refl. Qed.

  Lemma prefix_spec p : forall s, prefix p s = true -> exists t, s = p ++ t.
  Proof.
    induction p as [|c p IH]; intros s H; [exists s; reflexivity|].
    destruct s as [|d s]; [discriminate|]. cbn [prefix] in H. apply andb_true_iff in H as [H1 H2].
    apply Ascii.eqb_eq in H1. subst. destruct (IH _ H2) as [t ->]. exists t. reflexivity.
  Qed.

  (* copying a '$'-free stretch *)
  Lemma repl_copy uri' repl w : forall nd t,
    has_char cDollar w = false ->
    repl_aux (cDollar :: uri') repl 0 nd (w ++ t) = w ++ repl_aux (cDollar :: uri') repl 0 (run nd w) t.
  Proof.
    induction w as [|c w IH]; intros nd t Hw; [reflexivity|].
    unfold has_char in Hw. cbn [existsb] in Hw. apply orb_false_iff in Hw as [H1 H2].
    cbn [app]. rewrite repl_aux_zero. rewrite prefix_head_neq by exact H1.
    f_equal. unfold has_char in IH. rewrite (IH _ _ H2). reflexivity.
  Qed.

  Section Repl.
    Variable n : str.
    Hypothesis Hn : name_ok n = true.
    Let w := cOpen :: n ++ [cClose].
    Let uri := ref_text n.

    Lemma uri_eq : uri = cDollar :: w.
    Proof. reflexivity. Qed.

    Lemma w_dollar_free : has_char cDollar w = false.
    Proof.
      unfold name_ok in Hn. apply andb_true_iff in Hn as [H1 _]. apply negb_true_iff in H1.
      unfold w. change (cOpen :: n ++ [cClose]) with ([cOpen] ++ n ++ [cClose]).
      rewrite !has_char_app, H1. reflexivity.
    Qed.

    Lemma run_w nd : run nd w = 0.
    Proof. unfold w. change (cOpen :: n ++ [cClose]) with ((cOpen :: n) ++ [cClose]). rewrite run_snoc. reflexivity. Qed.

    Lemma len_uri : length uri - 1 = length w.
    Proof. rewrite uri_eq. cbn [length]. apply Nat.sub_0_r. Qed.

    (* an escaped occurrence is copied *)
    Lemma repl_escaped_copy repl nd c s :
      prefix uri (c :: s) = true -> Nat.odd nd = true ->
      repl_aux uri repl 0 nd (c :: s) = c :: repl_aux uri repl 0 (if is_dollar c then S nd else 0) s.
    Proof.
      intros Hp Ho. rewrite repl_aux_zero, Hp, Ho, len_uri.
      destruct (prefix_spec _ _ Hp) as [t Ht]. rewrite uri_eq in Ht.
      change ((cDollar :: w) ++ t) with (cDollar :: (w ++ t)) in Ht.
      injection Ht as Hc Hs. subst c s. change (is_dollar cDollar) with true. cbv iota.
      change (cOpen :: (n ++ [cClose]) ++ t) with (w ++ t).
      rewrite repl_skip_all. rewrite uri_eq. rewrite (repl_copy w repl w _ t w_dollar_free).
      reflexivity.
    Qed.

    Lemma prefix_after_dollar d s : Ascii.eqb cOpen d = false -> prefix uri (cDollar :: d :: s) = false.
    Proof. intros H. rewrite uri_eq. unfold w. cbn [prefix]. rewrite H. now rewrite andb_false_r. Qed.

    Lemma prefix_lone_dollar : prefix uri [cDollar] = false.
    Proof. reflexivity. Qed.

    Lemma prefix_name : forall a b r,
      has_char cClose a = false -> has_char cClose b = false ->
      prefix (a ++ [cClose]) (b ++ cClose :: r) = str_eqb a b.
    Proof.
      induction a as [|x a IH]; intros b r Ha Hb.
      - destruct b as [|y b]; [reflexivity|].
        unfold has_char in Hb. cbn [existsb] in Hb. apply orb_false_iff in Hb as [H1 _].
        cbn [app prefix]. rewrite H1. reflexivity.
      - unfold has_char in Ha. cbn [existsb] in Ha. apply orb_false_iff in Ha as [H1 H2].
        destruct b as [|y b].
        + cbn [app prefix]. rewrite (Ascii.eqb_sym x cClose), H1. reflexivity.
        + unfold has_char in Hb. cbn [existsb] in Hb. apply orb_false_iff in Hb as [H3 H4].
          cbn [app prefix]. unfold str_eqb. cbn [list_eqb]. f_equal. now apply IH.
    Qed.

    Lemma prefix_other_ref m r :
      name_ok m = true -> prefix uri (ref_text m ++ r) = str_eqb n m.
    Proof.
      intros Hm. unfold name_ok in Hn, Hm.
      apply andb_true_iff in Hn as [_ H1]. apply andb_true_iff in Hm as [_ H2].
      apply negb_true_iff in H1, H2.
      unfold uri, ref_text. cbn [app prefix]. rewrite !Ascii.eqb_refl. cbn [andb].
      rewrite <- app_assoc. cbn [app]. now apply prefix_name.
    Qed.

    Lemma prefix_after_lone r : wf_from true r -> prefix uri (cDollar :: flatten r) = false.
    Proof.
      destruct r as [|t r]; [reflexivity|]. rewrite flatten_cons.
      destruct t; cbn [wf_from tok_text app].
      - intros [_ [H _]]. apply prefix_after_dollar. apply Ascii.eqb_neq. intros E. apply H; auto.
      - intros _. now apply prefix_after_dollar.
      - intros [H _]. discriminate.
      - intros [H _]. discriminate.
      - intros [H _]. discriminate.
    Qed.

    Lemma repl_tokens ts : forall nd pd,
      wf_from pd ts -> Nat.even nd = negb pd ->
      repl_aux uri (val n) 0 nd (flatten ts) = flatten (subst n ts).
    Proof.
      induction ts as [|t ts IH]; intros nd pd Hwf He; [reflexivity|].
      rewrite flatten_cons. unfold subst. cbn [flat_map]. fold (subst n ts).
      rewrite flatten_app.
      destruct t; cbn [wf_from tok_text subst1 app] in *.
      - destruct Hwf as [Hc [_ Hr]]. rewrite repl_aux_zero.
        rewrite uri_eq, prefix_head_neq.
        2:{ rewrite Ascii.eqb_sym. exact (char_ok_nd c Hc). }
        rewrite (char_ok_nd c Hc). cbn [flatten map concat tok_text app]. f_equal.
        rewrite <- uri_eq. now apply (IH 0 false).
      - rewrite repl_aux_zero. rewrite uri_eq, prefix_head_neq by reflexivity.
        change (is_dollar cClose) with false. cbv iota. cbn [flatten map concat tok_text app]. f_equal.
        rewrite <- uri_eq. now apply (IH 0 false).
      - destruct Hwf as [-> Hr]. cbn [negb] in He.
        rewrite repl_aux_zero. rewrite prefix_after_dollar by reflexivity.
        change (is_dollar cDollar) with true. cbv iota.
        cbn [flatten map concat tok_text app]. f_equal.
        assert (Hcopy : repl_aux uri (val n) 0 (S nd) (cDollar :: flatten ts)
                        = cDollar :: repl_aux uri (val n) 0 (S (S nd)) (flatten ts)).
        { destruct (prefix uri (cDollar :: flatten ts)) eqn:Ep.
          - apply repl_escaped_copy; [exact Ep|]. rewrite Nat.odd_succ. exact He.
          - rewrite repl_aux_zero, Ep. reflexivity. }
        rewrite Hcopy. f_equal. apply (IH _ false Hr). rewrite Nat.even_succ_succ. exact He.
      - destruct Hwf as [-> Hr]. cbn [negb] in He.
        rewrite repl_aux_zero, (prefix_after_lone ts Hr).
        change (is_dollar cDollar) with true. cbv iota.
        cbn [flatten map concat tok_text app]. f_equal.
        apply (IH _ true Hr). rewrite Nat.even_succ, <- Nat.negb_even, He. reflexivity.
      - destruct Hwf as [-> [[Hm _] Hr]]. cbn [negb] in He.
        destruct (str_eqb name n) eqn:E.
        + apply str_eqb_eq in E. subst name. fold uri.
          rewrite uri_eq at 2. cbn [app]. rewrite repl_aux_zero.
          assert (Hp : prefix uri (cDollar :: w ++ flatten ts) = true).
          { rewrite uri_eq. apply (prefix_app_self (cDollar :: w)). }
          rewrite Hp, <- Nat.negb_even, He. cbn [negb]. rewrite len_uri, repl_skip_all, run_w.
          rewrite flatten_lit. f_equal. now apply (IH 0 false).
        + assert (Hp : prefix uri (ref_text name ++ flatten ts) = false).
          { rewrite (prefix_other_ref name _ Hm). destruct (str_eqb n name) eqn:E2; [|reflexivity].
            apply str_eqb_eq in E2. subst. rewrite str_eqb_refl in E. discriminate. }
          assert (Hw' : has_char cDollar (cOpen :: name ++ [cClose]) = false).
          { unfold name_ok in Hm. apply andb_true_iff in Hm as [H1 _]. apply negb_true_iff in H1.
            change (cOpen :: name ++ [cClose]) with ([cOpen] ++ name ++ [cClose]).
            rewrite !has_char_app, H1. reflexivity. }
          unfold ref_text in *. cbn [app] in *. rewrite repl_aux_zero, Hp.
          change (is_dollar cDollar) with true. cbv iota.
          cbn [flatten map concat tok_text app]. unfold ref_text. cbn [app]. f_equal.
          change (cOpen :: (name ++ [cClose]) ++ flatten ts) with ((cOpen :: name ++ [cClose]) ++ flatten ts).
          rewrite uri_eq. rewrite (repl_copy w (val n) _ _ _ Hw'). rewrite <- uri_eq.
          assert (Hrun : run (S nd) (cOpen :: name ++ [cClose]) = 0).
          { change (cOpen :: name ++ [cClose]) with ((cOpen :: name) ++ [cClose]). rewrite run_snoc. reflexivity. }
          rewrite Hrun, app_nil_r. rewrite (IH 0 false Hr eq_refl). reflexivity.
    Qed.
  End Repl.

  (* ---- one round, all rounds ---------------------------------------------------------------------------------- *)
  Lemma first_ref_split ts n : first_ref ts = Some n -> exists ps rest, ts = ps ++ TRef n :: rest.
  Proof.
    induction ts as [|t ts IH]; [discriminate|]. intros H.
    destruct t; cbn [first_ref] in H;
      try (destruct (IH H) as [ps [rest ->]]; eexists (_ :: ps), rest; reflexivity).
    inversion H; subst. exists [], ts. reflexivity.
  Qed.

  Lemma first_ref_good ts : forall pd n, wf_from pd ts -> first_ref ts = Some n -> ref_good n.
  Proof.
    induction ts as [|t ts IH]; intros pd n Hwf H; [discriminate|].
    destruct t; cbn [first_ref wf_from] in *.
    - destruct Hwf as [_ [_ Hr]]. eauto.
    - eauto.
    - destruct Hwf as [_ Hr]. eauto.
    - destruct Hwf as [_ Hr]. eauto.
    - destruct Hwf as [_ [Hg _]]. inversion H; subst. exact Hg.
  Qed.

  Lemma guard_tokens ts n :
    first_ref ts = Some n ->
    negb (contains [cDollar; cOpen] (flatten ts)) || negb (has_char cClose (flatten ts)) = false.
  Proof.
    intros H. rewrite (first_ref_has_close ts n H).
    destruct (first_ref_split ts n H) as [ps [rest ->]].
    rewrite flatten_app, flatten_cons. cbn [tok_text].
    rewrite (contains_app_r _ (flatten ps) _ (ref_text_contains_open n (flatten rest))). reflexivity.
  Qed.

  Lemma tok_text_len t : 1 <= length (tok_text t).
  Proof. destruct t; cbn; try lia; unfold ref_text; cbn; lia. Qed.

  Lemma flatten_len ts : length ts <= length (flatten ts).
  Proof.
    induction ts as [|t ts IH]; [apply le_n|]. rewrite flatten_cons, app_length. cbn [length].
    pose proof (tok_text_len t). lia.
  Qed.

  Definition ntext (ts : list tok) : nat := length (filter (fun t => negb (is_ref t)) ts).

  Lemma filter_len_le {A} (f : A -> bool) l : length (filter f l) <= length l.
  Proof. induction l as [|a l IH]; [apply le_n|]. cbn [filter]. destruct (f a); cbn [length]; lia. Qed.

  Lemma ntext_le ts : ntext ts <= length (flatten ts).
  Proof.
    unfold ntext. pose proof (filter_len_le (fun t => negb (is_ref t)) ts). pose proof (flatten_len ts). lia.
  Qed.

  Lemma flatten_len_ref ts n :
    first_ref ts = Some n -> length (ref_text n) + ntext ts <= length (flatten ts).
  Proof.
    induction ts as [|t ts IH]; [discriminate|]. intros H. rewrite flatten_cons, app_length.
    destruct t; cbn [first_ref] in H; unfold ntext in *; cbn [filter is_ref negb length tok_text];
      try (specialize (IH H); lia).
    inversion H; subst. pose proof (ntext_le ts). unfold ntext in *. lia.
  Qed.

  Lemma has_text_ntext ts : has_text ts = true -> 1 <= ntext ts.
  Proof.
    unfold has_text, ntext. induction ts as [|t ts IH]; [discriminate|].
    cbn [existsb filter]. destruct (negb (is_ref t)); cbn [length orb]; [lia|auto].
  Qed.

  Lemma not_single ts n : has_text ts = true -> first_ref ts = Some n -> ref_text n <> flatten ts.
  Proof.
    intros Ht Hf E. pose proof (flatten_len_ref ts n Hf). pose proof (has_text_ntext ts Ht).
    rewrite <- E in H. lia.
  Qed.


  (* a token string that can never shrink to one bare reference: it has a non-reference token, or at
     least two tokens whose final text is not empty *)
  Definition heavy (t : tok) : bool :=
    match t with TRef m => negb (str_empty (val m)) | _ => true end.
  Definition weight (ts : list tok) : nat := length (filter heavy ts).
  Definition anchored (ts : list tok) : Prop := has_text ts = true \/ 2 <= weight ts.

  Lemma weight_app a b : weight (a ++ b) = weight a + weight b.
  Proof. unfold weight. now rewrite filter_app, app_length. Qed.

  Lemma weight_lit s : weight (lit_tokens s) = length s.
  Proof.
    unfold weight. induction s as [|c s IH]; [reflexivity|].
    unfold lit_tokens in *. cbn [map]. unfold lit_tok at 1.
    destruct (Ascii.eqb c cClose); cbn [filter heavy length]; now rewrite IH.
  Qed.

  Lemma weight_subst n ts : weight ts <= weight (subst n ts).
  Proof.
    induction ts as [|t ts IH]; [apply le_n|].
    unfold subst in *. cbn [flat_map]. rewrite weight_app.
    change (t :: ts) with ([t] ++ ts). rewrite (weight_app [t] ts).
    apply Nat.add_le_mono; [|exact IH].
    destruct t; try apply le_n. cbn [subst1]. destruct (str_eqb name n) eqn:E; [|apply le_n].
    apply str_eqb_eq in E. subst. rewrite weight_lit. unfold weight. cbn [filter heavy].
    destruct (val n); cbn; lia.
  Qed.

  Lemma weight_le_len ts : weight ts <= length ts.
  Proof. unfold weight. apply filter_len_le. Qed.

  Lemma anchored_subst n ts : anchored ts -> anchored (subst n ts).
  Proof.
    intros [H|H]; [left; now apply has_text_subst|right].
    pose proof (weight_subst n ts). lia.
  Qed.

  Lemma flatten_len_ref2 ts n :
    first_ref ts = Some n -> length (ref_text n) + (length ts - 1) <= length (flatten ts).
  Proof.
    induction ts as [|t ts IH]; [discriminate|]. intros H. rewrite flatten_cons, app_length.
    destruct t; cbn [first_ref] in H; cbn [length tok_text];
      try (specialize (IH H); destruct ts; [discriminate|cbn [length] in *; lia]).
    inversion H; subst. pose proof (flatten_len ts). lia.
  Qed.

  Lemma not_single' ts n : anchored ts -> first_ref ts = Some n -> ref_text n <> flatten ts.
  Proof.
    intros [Ht|Hw] Hf; [now apply not_single|].
    intros E. pose proof (flatten_len_ref2 ts n Hf). pose proof (weight_le_len ts).
    rewrite <- E in H. lia.
  Qed.

  Lemma one_round ts n :
    wf ts -> anchored ts -> first_ref ts = Some n ->
    expand_string def retrieve (flatten ts) = Ok (CStr (flatten (subst n ts)), true).
  Proof.
    intros Hwf Ht Hf. unfold expand_string. rewrite (guard_tokens ts n Hf).
    destruct (first_ref_good ts false n Hwf Hf) as [Hn [Hok [ret [He Hs]]]].
    rewrite (find_and_expand_embedded def retrieve _ (ref_text n) ret (val n)); auto.
    - unfold replace_unescaped. now rewrite (repl_tokens n Hn ts 0 false Hwf eq_refl).
    - rewrite (find_uri_wf ts Hwf), Hf. reflexivity.
    - now apply not_single'.
  Qed.

  Lemma last_round ts :
    wf ts -> first_ref ts = None ->
    expand_string def retrieve (flatten ts) = Ok (CStr (flatten ts), false).
  Proof.
    intros Hwf Hf. unfold expand_string.
    destruct (negb (contains [cDollar; cOpen] (flatten ts)) || negb (has_char cClose (flatten ts))); [reflexivity|].
    unfold find_and_expand. rewrite (find_uri_wf ts Hwf), Hf. reflexivity.
  Qed.

  (* ---- counting on token strings ------------------------------------------------------------------------- *)
  Lemma cnt_skip uri k nd c s :
    cnt_aux uri (S k) nd (c :: s) = cnt_aux uri k (if is_dollar c then S nd else 0) s.
  Proof. reflexivity. Qed.

  Lemma cnt_zero uri nd c s :
    cnt_aux uri 0 nd (c :: s) =
    if prefix uri (c :: s)
    then (if Nat.odd nd then 0 else 1) + cnt_aux uri (length uri - 1) (if is_dollar c then S nd else 0) s
    else cnt_aux uri 0 (if is_dollar c then S nd else 0) s.
  Proof. reflexivity. Qed.

  Lemma cnt_skip_all uri w : forall nd t, cnt_aux uri (length w) nd (w ++ t) = cnt_aux uri 0 (run nd w) t.
  Proof.
    induction w as [|c w IH]; intros nd t; [reflexivity|]. cbn [length app]. rewrite cnt_skip. apply IH.
  Qed.

  Lemma cnt_copy uri' w : forall nd t,
    has_char cDollar w = false ->
    cnt_aux (cDollar :: uri') 0 nd (w ++ t) = cnt_aux (cDollar :: uri') 0 (run nd w) t.
  Proof.
    induction w as [|c w IH]; intros nd t Hw; [reflexivity|].
    unfold has_char in Hw. cbn [existsb] in Hw. apply orb_false_iff in Hw as [H1 H2].
    cbn [app]. rewrite cnt_zero, prefix_head_neq by exact H1. unfold has_char in IH. now rewrite (IH _ _ H2).
  Qed.

  Definition cntref (n : str) (ts : list tok) : nat :=
    length (filter (fun t => match t with TRef m => str_eqb m n | _ => false end) ts).

  Section Cnt.
    Variable n : str.
    Hypothesis Hn : name_ok n = true.
    Let w := cOpen :: n ++ [cClose].
    Let uri := ref_text n.

    Lemma cnt_escaped nd c s :
      prefix uri (c :: s) = true -> Nat.odd nd = true ->
      cnt_aux uri 0 nd (c :: s) = cnt_aux uri 0 (if is_dollar c then S nd else 0) s.
    Proof.
      intros Hp Ho. rewrite cnt_zero, Hp, Ho. unfold uri. rewrite (len_uri n).
      destruct (prefix_spec _ _ Hp) as [t Ht]. unfold uri in Ht. rewrite (uri_eq n) in Ht.
      change ((cDollar :: cOpen :: n ++ [cClose]) ++ t) with (cDollar :: (w ++ t)) in Ht.
      injection Ht as Hc Hs. subst c s. change (is_dollar cDollar) with true. cbv iota.
      change (cOpen :: (n ++ [cClose]) ++ t) with (w ++ t).
      fold w. rewrite cnt_skip_all. rewrite (uri_eq n). fold w.
      rewrite (cnt_copy w w _ t (w_dollar_free n Hn)). reflexivity.
    Qed.

    Lemma cnt_tokens ts : forall nd pd,
      wf_from pd ts -> Nat.even nd = negb pd ->
      cnt_aux uri 0 nd (flatten ts) = cntref n ts.
    Proof.
      induction ts as [|t ts IH]; intros nd pd Hwf He; [reflexivity|].
      rewrite flatten_cons. unfold cntref. cbn [filter]. fold (cntref n ts).
      destruct t; cbn [wf_from tok_text app] in *.
      - destruct Hwf as [Hc [_ Hr]]. rewrite cnt_zero. unfold uri. rewrite (uri_eq n), prefix_head_neq.
        2:{ rewrite Ascii.eqb_sym. exact (char_ok_nd c Hc). }
        rewrite (char_ok_nd c Hc). rewrite <- (uri_eq n). now apply (IH 0 false).
      - rewrite cnt_zero. unfold uri. rewrite (uri_eq n), prefix_head_neq by reflexivity.
        change (is_dollar cClose) with false. cbv iota. rewrite <- (uri_eq n). now apply (IH 0 false).
      - destruct Hwf as [-> Hr]. cbn [negb] in He.
        rewrite cnt_zero. unfold uri. rewrite (prefix_after_dollar n) by reflexivity.
        change (is_dollar cDollar) with true. cbv iota. fold uri.
        assert (Hcopy : cnt_aux uri 0 (S nd) (cDollar :: flatten ts) = cnt_aux uri 0 (S (S nd)) (flatten ts)).
        { destruct (prefix uri (cDollar :: flatten ts)) eqn:Ep.
          - apply cnt_escaped; [exact Ep|]. rewrite Nat.odd_succ. exact He.
          - rewrite cnt_zero, Ep. reflexivity. }
        rewrite Hcopy. apply (IH _ false Hr). rewrite Nat.even_succ_succ. exact He.
      - destruct Hwf as [-> Hr]. cbn [negb] in He.
        rewrite cnt_zero. unfold uri. rewrite (prefix_after_lone n ts Hr).
        change (is_dollar cDollar) with true. cbv iota. fold uri.
        apply (IH _ true Hr). rewrite Nat.even_succ, <- Nat.negb_even, He. reflexivity.
      - destruct Hwf as [-> [[Hm _] Hr]]. cbn [negb] in He.
        destruct (str_eqb name n) eqn:E.
        + apply str_eqb_eq in E. subst name. cbn [length].
          rewrite (uri_eq n). cbn [app]. rewrite cnt_zero.
          assert (Hp : prefix uri (cDollar :: w ++ flatten ts) = true).
          { unfold uri. rewrite (uri_eq n). apply (prefix_app_self (cDollar :: w)). }
          change (cOpen :: (n ++ [cClose]) ++ flatten ts) with (w ++ flatten ts).
          rewrite Hp, <- Nat.negb_even, He. cbn [negb]. unfold uri. rewrite (len_uri n). fold w.
          rewrite cnt_skip_all. unfold w. rewrite (run_w n). fold uri. cbn [Nat.add]. f_equal. exact (IH 0 false Hr eq_refl).
        + assert (Hp : prefix uri (ref_text name ++ flatten ts) = false).
          { unfold uri. rewrite (prefix_other_ref n Hn name _ Hm). destruct (str_eqb n name) eqn:E2; [|reflexivity].
            apply str_eqb_eq in E2. subst. rewrite str_eqb_refl in E. discriminate. }
          rewrite (uri_eq name) in *. cbn [app] in *. rewrite cnt_zero, Hp.
          change (is_dollar cDollar) with true. cbv iota.
          change (cOpen :: (name ++ [cClose]) ++ flatten ts) with ((cOpen :: name ++ [cClose]) ++ flatten ts).
          unfold uri. rewrite (uri_eq n).
          rewrite (cnt_copy w (cOpen :: name ++ [cClose]) _ _ (w_dollar_free name Hm)).
          rewrite (run_w name). change (cDollar :: w) with uri. exact (IH 0 false Hr eq_refl).
    Qed.
  End Cnt.

  Lemma nrefs_subst_exact n ts : plain ts -> nrefs (subst n ts) + cntref n ts = nrefs ts.
  Proof.
    induction ts as [|t ts IH]; intros Hp; [reflexivity|].
    pose proof (plain_cons _ _ Hp) as Hp'. specialize (IH Hp').
    unfold subst in *. cbn [flat_map]. rewrite nrefs_app.
    change (t :: ts) with ([t] ++ ts). rewrite (nrefs_app [t] ts).
    unfold cntref in *. cbn [app filter].
    destruct t; cbn [subst1]; try (change (nrefs [_]) with 0; lia).
    destruct (str_eqb name n) eqn:E.
    - rewrite nrefs_lit. change (nrefs [TRef name]) with 1. cbn [length]. lia.
    - change (nrefs [TRef name]) with 1. lia.
  Qed.

  Lemma spent_round ts n :
    wf ts -> anchored ts -> first_ref ts = Some n ->
    spent def retrieve (CStr (flatten ts)) = cntref n ts.
  Proof.
    intros Hwf Ha Hf. cbn [spent]. unfold spent_string.
    rewrite (one_round ts n Hwf Ha Hf), (guard_tokens ts n Hf), (find_uri_wf ts Hwf), Hf.
    cbn [option_map]. rewrite (str_eqb_neq _ _ (not_single' ts n Ha Hf)).
    destruct (first_ref_good ts false n Hwf Hf) as [Hn _].
    unfold count_unescaped. exact (cnt_tokens n Hn ts 0 false Hwf eq_refl).
  Qed.

  Lemma rounds fuel : forall ts used,
    nrefs ts < fuel -> used + nrefs ts <= max_expansions ->
    wf ts -> plain ts -> anchored ts ->
    expand_rec def retrieve fuel used (CStr (flatten ts)) = Ok (CStr (flatten (subst_all ts))).
  Proof.
    induction fuel as [|f IH]; intros ts used Hk Hb Hwf Hp Ha; [lia|].
    cbn [expand_rec]. rewrite expand_value_str.
    destruct (first_ref ts) as [n|] eqn:Hf.
    - rewrite (one_round ts n Hwf Ha Hf).
      change (spent def retrieve (CStr (flatten ts))) with (spent def retrieve (CStr (flatten ts))).
      rewrite (spent_round ts n Hwf Ha Hf).
      pose proof (nrefs_subst_exact n ts Hp) as He.
      pose proof (nrefs_subst_lt n ts Hf) as Hlt.
      assert (Hle : (max_expansions <? used + cntref n ts) = false) by (apply Nat.ltb_ge; lia).
      rewrite Hle. rewrite IH.
      + now rewrite subst_all_subst.
      + lia.
      + lia.
      + now apply wf_subst.
      + now apply plain_subst.
      + now apply anchored_subst.
    - rewrite (last_round ts Hwf Hf). now rewrite subst_all_no_ref.
  Qed.

  Lemma first_ref_lit_app s r : first_ref (lit_tokens s ++ r) = first_ref r.
  Proof.
    induction s as [|c s IH]; [reflexivity|]. unfold lit_tokens in *. cbn [map app].
    unfold lit_tok at 1. destruct (Ascii.eqb c cClose); exact IH.
  Qed.

  Lemma first_ref_subst_all ts : first_ref (subst_all ts) = None.
  Proof.
    induction ts as [|t ts IH]; [reflexivity|]. unfold subst_all in *. cbn [flat_map].
    destruct t; cbn [subst_all1 app first_ref]; auto. now rewrite first_ref_lit_app.
  Qed.

  Lemma wf_subst_all ts : forall pd, plain ts -> wf_from pd ts -> wf_from pd (subst_all ts).
  Proof.
    induction ts as [|t ts IH]; intros pd Hp H; [exact H|].
    pose proof (plain_cons _ _ Hp) as Hp'.
    unfold subst_all in *. cbn [flat_map].
    destruct t; cbn [subst_all1 app wf_from] in *.
    - destruct H as [H1 [H2 H3]]. auto.
    - auto.
    - destruct H as [H1 H2]. auto.
    - destruct H as [H1 H2]. auto.
    - destruct H as [H1 [H2 H3]]. subst pd.
      apply wf_lit_app; [|auto]. apply Hp. now left.
  Qed.

  (* the flat token theorem WITHOUT "fewer than 1000 references": only the work budget remains *)
  Lemma tokens_main ts :
    wf ts -> plain ts -> anchored ts -> nrefs ts <= max_expansions ->
    resolve_string def retrieve (flatten ts) = Ok (CStr (sem ts)).
  Proof.
    intros Hwf Hp Ha Hk. unfold resolve_string, resolve_leaf, rec_fuel.
    rewrite (rounds (S (S max_expansions)) ts 0); auto; try lia.
    cbn [escape_dollars].
    rewrite (unescape_tokens (subst_all ts) false (wf_subst_all ts false Hp Hwf)
               (first_ref_subst_all ts)).
    now rewrite sem_subst_all.
  Qed.

  (* an escaped reference is kept as text, whatever surrounds it *)
  Definition esc_ref (n : str) : list tok := TEsc :: lit_tokens (cOpen :: n ++ [cClose]).

  Lemma sem_esc_ref n : sem (esc_ref n) = ref_text n.
  Proof. unfold esc_ref. change (TEsc :: ?l) with ([TEsc] ++ l). now rewrite sem_app, sem_lit. Qed.

  Lemma flatten_esc_ref n : flatten (esc_ref n) = cDollar :: ref_text n.
  Proof. unfold esc_ref. rewrite flatten_cons, flatten_lit. reflexivity. Qed.
End Tokens.
