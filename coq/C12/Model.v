(* C12/Model.v — executable model of confmap config resolution, written after the Go code of
   /repo/confmap (expand.go, resolver.go Resolve/escapeDollarSigns, confmap.go sanitize /
   useExpandValue, provider.go Retrieved.AsString, koanf maps.Merge).  Definitions only.

   Strings are [list ascii] (Go strings restricted to bytes; the harness generates ASCII).
   Go maps are association lists with unique keys; every observable is compared after sorting
   the keys (Harness.v), and where Go's map iteration order decides WHICH error is returned the
   model returns the set of all errors that some order can return ([Err l]: the observed class
   must be a member of l). *)
From Verif Require Import Common.Base.
From Coq Require Import Ascii.

Definition str := list ascii.

Definition cDollar : ascii := "$"%char.
Definition cOpen   : ascii := "{"%char.
Definition cClose  : ascii := "}"%char.
Definition cColon  : ascii := ":"%char.

Definition is_dollar (c : ascii) : bool := Ascii.eqb c cDollar.

Definition str_eqb (a b : str) : bool := list_eqb Ascii.eqb a b.

(* ---- values ---------------------------------------------------------------------------------
   any = nil | bool | int | float64 (bit pattern) | string | []any | map[string]any | expandedValue *)
Inductive cv :=
| CNil
| CBool (b : bool)
| CInt (z : Z)
| CFloat (bits : Z)
| CStr (s : str)
| CList (l : list cv)
| CMap (m : list (str * cv))
| CExp (v : cv) (orig : str).          (* expandedValue{Value, Original} *)

(* error classes (what the error message says, not its text) *)
Inductive eclass :=
| EInvalidURI        (* newLocation: "invalid uri" (scheme does not match the pattern) *)
| EDollarInName      (* "contains unsupported characters ('$')" *)
| ENoScheme          (* retrieveValue: scheme is not supported *)
| EProvider          (* the provider's own error *)
| ENoString          (* embedded reference to a value without a string form *)
| ETooMany           (* errTooManyRecursiveExpansions *)
| ENotConf.          (* Retrieved.AsConf: a source that is neither nil nor a map *)

Inductive res (A : Type) :=
| Ok (a : A)
| Err (e : list eclass).
Arguments Ok {A} a.
Arguments Err {A} e.

(* provider.go Retrieved: rawConf + optional string representation *)
Record retrieved := mkRet { r_raw : cv; r_str : option str }.

(* ---- string primitives (strings.HasPrefix / Contains / Index / LastIndex) -------------------- *)
Fixpoint prefix (p s : str) : bool :=
  match p, s with
  | [], _ => true
  | a :: p', b :: s' => Ascii.eqb a b && prefix p' s'
  | _ :: _, [] => false
  end.

Fixpoint contains (p s : str) : bool :=
  prefix p s || match s with [] => false | _ :: s' => contains p s' end.

Definition has_char (c : ascii) (s : str) : bool := existsb (Ascii.eqb c) s.

(* strings.Index(s, "}") : s = before ++ "}" ++ after, before without "}" *)
Fixpoint split_close (s : str) : option (str * str) :=
  match s with
  | [] => None
  | c :: s' =>
      if Ascii.eqb c cClose then Some ([], s')
      else match split_close s' with
           | Some (b, a) => Some (c :: b, a)
           | None => None
           end
  end.

(* strings.LastIndex(s, "${") : s = before ++ "${" ++ after, after without "${" *)
Fixpoint split_last_open (s : str) : option (str * str) :=
  match s with
  | [] => None
  | c :: s' =>
      match split_last_open s' with
      | Some (b, a) => Some (c :: b, a)
      | None =>
          match s' with
          | d :: a => if Ascii.eqb c cDollar && Ascii.eqb d cOpen then Some ([], a) else None
          | [] => None
          end
      end
  end.

(* strings.Index(s, ":") for newLocation *)
Fixpoint split_colon (s : str) : option (str * str) :=
  match s with
  | [] => None
  | c :: s' =>
      if Ascii.eqb c cColon then Some ([], s')
      else match split_colon s' with
           | Some (b, a) => Some (c :: b, a)
           | None => None
           end
  end.

(* number of '$' at the very end of s (the backwards loop of findURI / replaceUnescaped) *)
Fixpoint leading_dollars (s : str) : nat :=
  match s with
  | c :: s' => if is_dollar c then S (leading_dollars s') else 0
  | [] => 0
  end.
Definition trailing_dollars (s : str) : nat := leading_dollars (rev s).

(* ---- scheme pattern [A-Za-z][A-Za-z0-9+.-]+ as a character-class recogniser ------------------ *)
Definition is_alpha (c : ascii) : bool :=
  let n := nat_of_ascii c in
  ((65 <=? n) && (n <=? 90)) || ((97 <=? n) && (n <=? 122)).
Definition is_scheme_char (c : ascii) : bool :=
  let n := nat_of_ascii c in
  is_alpha c || ((48 <=? n) && (n <=? 57)) || (n =? 43) || (n =? 46) || (n =? 45).

Definition valid_scheme (s : str) : bool :=
  match s with
  | c :: ((_ :: _) as r) => is_alpha c && forallb is_scheme_char r
  | _ => false
  end.

(* newLocation: regexp ^(scheme):(anything)$ — the scheme class excludes ':', so the scheme is the text
   before the FIRST ':' *)
Definition new_location (uri : str) : option (str * str) :=
  match split_colon uri with
  | Some (sch, opaque) => if valid_scheme sch then Some (sch, opaque) else None
  | None => None
  end.

(* ---- escapeDollarSigns: strings.ReplaceAll(v, "$$", "$") -------------------------------------- *)
Fixpoint unescape (s : str) : str :=
  match s with
  | c :: s' =>
      match s' with
      | d :: r => if is_dollar c && is_dollar d then cDollar :: unescape r else c :: unescape s'
      | [] => [c]
      end
  | [] => []
  end.

(* ---- replaceUnescaped(input, uri, repl) -------------------------------------------------------
   One left-to-right pass.  [skip] > 0: inside an occurrence found before (Go: start = i+len(uri));
   [nd] = number of '$' immediately preceding the current position in the INPUT. *)
Fixpoint repl_aux (uri repl : str) (skip nd : nat) (s : str) : str :=
  match s with
  | [] => []
  | c :: s' =>
      let nd' := if is_dollar c then S nd else 0 in
      match skip with
      | S k => repl_aux uri repl k nd' s'
      | 0 =>
          if prefix uri s
          then (if Nat.odd nd then uri else repl) ++ repl_aux uri repl (length uri - 1) nd' s'
          else c :: repl_aux uri repl 0 nd' s'
      end
  end.
Definition replace_unescaped (input uri repl : str) : str := repl_aux uri repl 0 0 input.

(* the second result of replaceUnescaped: the number of occurrences it replaced (same scan) *)
Fixpoint cnt_aux (uri : str) (skip nd : nat) (s : str) : nat :=
  match s with
  | [] => 0
  | c :: s' =>
      let nd' := if is_dollar c then S nd else 0 in
      match skip with
      | S k => cnt_aux uri k nd' s'
      | 0 =>
          if prefix uri s
          then (if Nat.odd nd then 0 else 1) + cnt_aux uri (length uri - 1) nd' s'
          else cnt_aux uri 0 nd' s'
      end
  end.
Definition count_unescaped (input uri : str) : nat := cnt_aux uri 0 0 input.

(* const maxExpansions = 10_000 *)
Definition max_expansions : nat := 10 * 1000.

Section Expand.
  (* Resolver.defaultScheme ("" = none) and the providers: scheme -> opaque value -> result
     (unregistered scheme = Err [ENoScheme], provider failure = Err [EProvider]) *)
  Variable def : str.
  Variable retrieve : str -> str -> res retrieved.

  Definition str_empty (s : str) : bool := match s with [] => true | _ => false end.

  (* findURI; recursion on the remainder after the first "}" (fuel = length bound) *)
  Fixpoint find_uri_f (fuel : nat) (input : str) : option str :=
    match fuel with
    | 0 => None
    | S f =>
        match split_close input with
        | None => None
        | Some (before, remaining) =>
            let next := if has_char cClose remaining then find_uri_f f remaining else None in
            match split_last_open (before ++ [cClose]) with
            | None => next
            | Some (pre, body) =>
                let cand := cDollar :: cOpen :: body in
                if str_empty def && negb (has_char cColon cand) then next
                else if Nat.odd (trailing_dollars pre) then next
                else Some cand
            end
        end
    end.
  Definition find_uri (input : str) : option str := find_uri_f (S (length input)) input.

  (* expandURI: strip "${" and "}", add the default scheme, newLocation, '$' check, retrieveValue *)
  Definition expand_uri (input : str) : res retrieved :=
    let uri := removelast (skipn 2 input) in
    let uri := if has_char cColon uri then uri else def ++ cColon :: uri in
    match new_location uri with
    | None => Err [EInvalidURI]
    | Some (sch, opaque) =>
        if has_char cDollar opaque then Err [EDollarInName] else retrieve sch opaque
    end.

  (* Retrieved.AsString *)
  Definition as_string (r : retrieved) : option str :=
    match r_str r with
    | Some s => Some s
    | None => match r_raw r with CStr s => Some s | _ => None end
    end.

  (* findAndExpandURI *)
  Definition find_and_expand (input : str) : res (cv * bool) :=
    match find_uri input with
    | None => Ok (CStr input, false)
    | Some uri =>
        if str_eqb uri input then
          match expand_uri input with
          | Err e => Err e
          | Ok ret =>
              match as_string ret with
              | Some s => Ok (CExp (r_raw ret) s, true)
              | None => Ok (r_raw ret, true)
              end
          end
        else
          match expand_uri uri with
          | Err e => Err e
          | Ok ret =>
              match as_string ret with
              | None => Err [ENoString]
              | Some repl => Ok (CStr (replace_unescaped input uri repl), true)
              end
          end
    end.

  (* expandValue, case string *)
  Definition expand_string (s : str) : res (cv * bool) :=
    if negb (contains [cDollar; cOpen] s) || negb (has_char cClose s) then Ok (CStr s, false)
    else find_and_expand s.

  (* expandValue.  []any: elements in order, the first error is returned.  map[string]any: Go
     iterates in random order and returns the first error it meets: the model returns the union. *)
  Fixpoint expand_value (v : cv) : res (cv * bool) :=
    match v with
    | CExp val orig =>
        match expand_value val with
        | Err e => Err e
        | Ok (expanded, changed) =>
            match expanded with
            | CExp _ _ | CStr _ => Ok (expanded, changed)
            | _ =>
                match expand_string orig with
                | Err _ => Ok (expanded, changed)
                | Ok (CStr o, oc) => Ok (CExp expanded o, changed || oc)
                | Ok (_, _) => Ok (expanded, changed)
                end
            end
        end
    | CStr s => expand_string s
    | CList l =>
        match (fix go (l : list cv) : res (list cv * bool) :=
                 match l with
                 | [] => Ok ([], false)
                 | x :: xs =>
                     match expand_value x with
                     | Err e => Err e
                     | Ok (x', c) =>
                         match go xs with
                         | Err e => Err e
                         | Ok (xs', c') => Ok (x' :: xs', c || c')
                         end
                     end
                 end) l with
        | Err e => Err e
        | Ok (l', c) => Ok (CList l', c)
        end
    | CMap m =>
        match (fix go (m : list (str * cv)) : res (list (str * cv) * bool) :=
                 match m with
                 | [] => Ok ([], false)
                 | (k, x) :: ms =>
                     match expand_value x, go ms with
                     | Err e1, Err e2 => Err (e1 ++ e2)
                     | Err e1, Ok _ => Err e1
                     | Ok _, Err e2 => Err e2
                     | Ok (x', c), Ok (ms', c') => Ok ((k, x') :: ms', c || c')
                     end
                 end) m with
        | Err e => Err e
        | Ok (m', c) => Ok (CMap m', c)
        end
    | _ => Ok (v, false)
    end.

  (* what one call of findAndExpandURI adds to Resolver.expansions (nothing when it fails): a whole-value
     reference 1, an embedded one the number of occurrences replaced *)
  Definition spent_string (s : str) : nat :=
    match expand_string s with
    | Err _ => 0
    | Ok _ =>
        if negb (contains [cDollar; cOpen] s) || negb (has_char cClose s) then 0
        else match find_uri s with
             | None => 0
             | Some uri => if str_eqb uri s then 1 else count_unescaped s uri
             end
    end.

  (* what one call of expandValue adds to Resolver.expansions (same control flow as expand_value) *)
  Fixpoint spent (v : cv) : nat :=
    match v with
    | CStr s => spent_string s
    | CList l => list_sum (map spent l)
    | CMap m => list_sum (map (fun kv => spent (snd kv)) m)
    | CExp x o =>
        spent x +
        match expand_value x with
        | Ok (CStr _, _) | Ok (CExp _ _, _) | Err _ => 0
        | Ok _ => spent_string o
        end
    | _ => 0
    end.

  (* expandValueRecursively (after fix 536781a48): loop until a round reports "unchanged"; give up with
     errTooManyRecursiveExpansions once more than maxExpansions reference occurrences were expanded for this
     value.  [used] = Resolver.expansions.  [fuel] only makes the definition structural: every round that
     changes the value expands at least one occurrence, so fuel S (S max_expansions) is never exhausted first. *)
  Fixpoint expand_rec (fuel used : nat) (v : cv) : res cv :=
    match fuel with
    | 0 => Err [ETooMany]
    | S f =>
        match expand_value v with
        | Err e => Err e
        | Ok (v', changed) =>
            if changed then
              let used' := used + spent v in
              if max_expansions <? used' then Err [ETooMany] else expand_rec f used' v'
            else Ok v'
        end
    end.
  Definition rec_fuel : nat := S (S max_expansions).

  (* PRE-REPAIR (documentation, and the plain "iterate expandValue at most [fuel] times" used by the structural
     theorems of Proofs8): expandValueRecursively with its former bound of 1000 rounds *)
  Fixpoint expand_rec_old (fuel : nat) (v : cv) : res cv :=
    match fuel with
    | 0 => Err [ETooMany]
    | S f =>
        match expand_value v with
        | Err e => Err e
        | Ok (v', changed) => if changed then expand_rec_old f v' else Ok v'
        end
    end.
  Definition max_rounds_old : nat := 1000.
End Expand.

(* resolver.go escapeDollarSigns *)
Fixpoint escape_dollars (v : cv) : cv :=
  match v with
  | CStr s => CStr (unescape s)
  | CExp x o => CExp (escape_dollars x) (unescape o)
  | CList l => CList (map escape_dollars l)
  | CMap m => CMap (map (fun kv => (fst kv, escape_dollars (snd kv))) m)
  | _ => v
  end.

(* ---- merge of successive sources: koanf maps.Merge(new, old) ---------------------------------
   [merge_map old new]: every key of [new] is written into [old]; map over map merges
   recursively, anything else replaces.  Keys of [old] keep their place, new keys are appended. *)
Fixpoint lookup (k : str) (m : list (str * cv)) : option cv :=
  match m with
  | [] => None
  | (k', v) :: m' => if str_eqb k k' then Some v else lookup k m'
  end.

Definition has_key (k : str) (m : list (str * cv)) : bool :=
  match lookup k m with Some _ => true | None => false end.

Fixpoint merge_cv (x y : cv) {struct x} : cv :=
  match x, y with
  | CMap xm, CMap ym =>
      CMap (map (fun kv : str * cv =>
                   let '(k, xv) := kv in
                   (k, match lookup k ym with
                       | None => xv
                       | Some yv => merge_cv xv yv
                       end)) xm
            ++ filter (fun kv => negb (has_key (fst kv) xm)) ym)
  | _, _ => y
  end.

Definition merge_map (old new : list (str * cv)) : list (str * cv) :=
  map (fun kv : str * cv =>
         let '(k, xv) := kv in
         (k, match lookup k new with
             | None => xv
             | Some yv => merge_cv xv yv
             end)) old
  ++ filter (fun kv => negb (has_key (fst kv) old)) new.

(* Retrieved.AsConf *)
Definition as_conf (src : cv) : res (list (str * cv)) :=
  match src with
  | CNil => Ok []
  | CMap m => Ok m
  | _ => Err [ENotConf]
  end.

(* Resolve, first loop: retMap := New(); for each source: retMap.Merge(AsConf(source)) *)
Fixpoint merge_sources (acc : list (str * cv)) (srcs : list cv) : res (list (str * cv)) :=
  match srcs with
  | [] => Ok acc
  | s :: rest =>
      match as_conf s with
      | Err e => Err e
      | Ok m => merge_sources (merge_map acc m) rest
      end
  end.

(* Resolve, second loop: every leaf of the merged tree (koanf Keys(): flattened keys; a leaf is a
   non-map value or an EMPTY map) is expanded recursively and un-escaped; NewFromStringMap
   rebuilds the tree.  Go walks the flattened keys in sorted order and stops at the first error;
   the model returns the union over all failing leaves.  (Keys containing the "::" delimiter and
   the empty key are outside the model: the generator does not produce them.) *)
Section Resolve.
  Variable def : str.
  Variable retrieve : str -> str -> res retrieved.

  Definition resolve_leaf (v : cv) : res cv :=
    match expand_rec def retrieve rec_fuel 0 v with
    | Err e => Err e
    | Ok v' => Ok (escape_dollars v')
    end.

  Fixpoint resolve_node (v : cv) : res cv :=
    match v with
    | CMap ((_ :: _) as m) =>
        match (fix go (m : list (str * cv)) : res (list (str * cv)) :=
                 match m with
                 | [] => Ok []
                 | (k, x) :: ms =>
                     match resolve_node x, go ms with
                     | Err e1, Err e2 => Err (e1 ++ e2)
                     | Err e1, Ok _ => Err e1
                     | Ok _, Err e2 => Err e2
                     | Ok x', Ok ms' => Ok ((k, x') :: ms')
                     end
                 end) m with
        | Err e => Err e
        | Ok m' => Ok (CMap m')
        end
    | _ => resolve_leaf v
    end.

  (* Resolver.Resolve (without converters): the unsanitised tree (expandedValue nodes kept) *)
  Definition resolve (srcs : list cv) : res cv :=
    match merge_sources [] srcs with
    | Err e => Err e
    | Ok m =>
        match m with
        | [] => Ok (CMap [])
        | _ => resolve_node (CMap m)
        end
    end.

  (* resolution of one string value sitting at a leaf (the object of the expansion clauses) *)
  Definition resolve_string (s : str) : res cv := resolve_leaf (CStr s).
End Resolve.

(* ---- what the consumer sees -------------------------------------------------------------------
   confmap.go sanitizeExpanded(a, useOriginal): an expandedValue yields its Original (useOriginal) or its Value,
   which is sanitised in turn (fix 43b4ee065: it used to be returned as it was, leaking nested pairs). *)
Fixpoint sanitize_gen (use_orig : bool) (v : cv) : cv :=
  match v with
  | CMap m => CMap (map (fun kv => (fst kv, sanitize_gen use_orig (snd kv))) m)
  | CList l => CList (map (sanitize_gen use_orig) l)
  | CExp x o => if use_orig then CStr o else sanitize_gen false x
  | _ => v
  end.
Definition sanitize := sanitize_gen false.          (* Conf.ToStringMap / Get *)
Definition sanitize_to_str := sanitize_gen true.    (* stringy targets *)

(* useExpandValue + mapstructure for a target field of Go type string (WeaklyTypedInput=false):
   an expandedValue yields its Original, a plain string itself, anything else is a decode error
   (nil leaves the field at its zero value). *)
Definition decode_string_field (v : cv) : option str :=
  match v with
  | CExp _ o => Some o
  | CStr s => Some s
  | CNil => Some []
  | _ => None
  end.

(* target field of Go type int: an expandedValue yields its Value (nil -> zero value); int from int only.
   A float64 is truncated by mapstructure (decodeInt, kind Float32): not modelled, the outer [None]. *)
Definition decode_int_field (v : cv) : option (option Z) :=
  let plain (x : cv) :=
    match x with
    | CNil => Some (Some 0%Z)
    | CInt z => Some (Some z)
    | CFloat _ => None
    | _ => Some None
    end in
  match v with
  | CExp x _ => plain x
  | _ => plain v
  end.

(* strings.Split(s, sep) for a one-character separator *)
Fixpoint split_on (c : ascii) (s : str) : list str :=
  match s with
  | [] => [[]]
  | x :: s' =>
      if Ascii.eqb x c then [] :: split_on c s'
      else match split_on c s' with
           | h :: t => (x :: h) :: t
           | [] => [[x]]
           end
  end.

Fixpoint all_some {A} (l : list (option A)) : option (list A) :=
  match l with
  | [] => Some []
  | Some a :: r => match all_some r with Some r' => Some (a :: r') | None => None end
  | None :: _ => None
  end.

(* target field of Go type []string.  useExpandValue: an expandedValue yields its Value (not sanitised:
   its elements meet the hook again when they are decoded as strings), any other data is
   sanitizeToStr'ed because []string is a "stringy structure"; StringToSliceHookFunc(",") splits a
   string; decodeSlice takes a list element by element and refuses anything else. *)
Definition decode_strlist_data (d : cv) : option (list str) :=
  match d with
  | CNil => Some []
  | CStr s => Some (match s with [] => [] | _ => split_on ","%char s end)
  | CList l => all_some (map decode_string_field l)
  | _ => None
  end.
Definition decode_strlist_field (v : cv) : option (list str) :=
  match v with
  | CExp x _ => decode_strlist_data x
  | _ => decode_strlist_data (sanitize_to_str v)
  end.

(* target field of Go type map[string]string *)
Definition decode_strmap_data (d : cv) : option (list (str * str)) :=
  match d with
  | CNil => Some []
  | CMap m =>
      match all_some (map (fun kv : str * cv => decode_string_field (snd kv)) m) with
      | Some vs => Some (combine (map fst m) vs)
      | None => None
      end
  | _ => None
  end.
Definition decode_strmap_field (v : cv) : option (list (str * str)) :=
  match v with
  | CExp x _ => decode_strmap_data x
  | _ => decode_strmap_data (sanitize_to_str v)
  end.
