(* C12/Proofs1.v — string basics, un-escaping, merge. *)
From Verif Require Import Common.Base C12.Model.
From Coq Require Import Ascii.

(* ---- equality on strings ---------------------------------------------------------------------- *)
Lemma str_eqb_eq a b : str_eqb a b = true <-> a = b.
Proof. apply list_eqb_spec. intros; apply Ascii.eqb_eq. Qed.

Lemma str_eqb_refl a : str_eqb a a = true.
Proof. now apply str_eqb_eq. Qed.

Lemma str_eqb_neq a b : a <> b -> str_eqb a b = false.
Proof. intros H. destruct (str_eqb a b) eqn:E; [|reflexivity]. apply str_eqb_eq in E. contradiction. Qed.

Lemma is_dollar_true c : is_dollar c = true <-> c = cDollar.
Proof. unfold is_dollar. apply Ascii.eqb_eq. Qed.

Lemma is_dollar_false c : is_dollar c = false <-> c <> cDollar.
Proof. unfold is_dollar. apply Ascii.eqb_neq. Qed.

Lemma has_char_app c a b : has_char c (a ++ b) = has_char c a || has_char c b.
Proof. unfold has_char. apply existsb_app. Qed.

Lemma has_char_false_in c s : has_char c s = false -> forall x, In x s -> x <> c.
Proof.
  unfold has_char. intros H x Hx ->.
  assert (existsb (Ascii.eqb c) s = true) by (apply existsb_exists; exists c; split; [assumption|apply Ascii.eqb_refl]).
  congruence.
Qed.

(* ---- un-escaping -------------------------------------------------------------------------------- *)
Lemma unescape_cons_nd c s : is_dollar c = false -> unescape (c :: s) = c :: unescape s.
Proof. intros H. simpl. rewrite H. destruct s; reflexivity. Qed.

Lemma unescape_dd s : unescape (cDollar :: cDollar :: s) = cDollar :: unescape s.
Proof. reflexivity. Qed.

Lemma unescape_d_nd c s : is_dollar c = false -> unescape (cDollar :: c :: s) = cDollar :: unescape (c :: s).
Proof. intros H. cbn [unescape]. rewrite H. rewrite andb_false_r. reflexivity. Qed.

(* no "$$" in s *)
Fixpoint no_dd (s : str) : bool :=
  match s with
  | c :: ((d :: _) as s') => negb (is_dollar c && is_dollar d) && no_dd s'
  | _ => true
  end.

Lemma unescape_no_dd s : no_dd s = true -> unescape s = s.
Proof.
  induction s as [|c s IH]; [reflexivity|].
  destruct s as [|d r]; [reflexivity|].
  intros H. cbn [no_dd] in H. apply andb_true_iff in H as [H1 H2].
  cbn [unescape]. apply negb_true_iff in H1. rewrite H1. f_equal. exact (IH H2).
Qed.

(* a run of n dollars followed by something that does not start with a dollar: ceil(n/2) dollars remain *)
Lemma unescape_run n rest :
  match rest with c :: _ => is_dollar c = false | [] => True end ->
  unescape (repeat cDollar n ++ rest) = repeat cDollar (Nat.div2 (S n)) ++ unescape rest.
Proof.
  intros Hr. revert rest Hr.
  induction n as [n IH] using (well_founded_induction lt_wf). intros rest Hr.
  destruct n as [|[|n]].
  - reflexivity.
  - cbn [repeat app Nat.div2]. destruct rest as [|c r]; [reflexivity|]. now rewrite unescape_d_nd.
  - cbn [repeat app]. rewrite unescape_dd. rewrite IH by (auto; lia). reflexivity.
Qed.

(* ---- lookup / merge ------------------------------------------------------------------------------- *)
Lemma lookup_app k l1 l2 :
  lookup k (l1 ++ l2) = match lookup k l1 with Some v => Some v | None => lookup k l2 end.
Proof.
  induction l1 as [|[k' v] l1 IH]; simpl; [reflexivity|]. destruct (str_eqb k k'); auto.
Qed.

Definition merged_val (new : list (str * cv)) (k : str) (xv : cv) : cv :=
  match lookup k new with None => xv | Some yv => merge_cv xv yv end.

Lemma merge_map_unfold old new :
  merge_map old new =
  map (fun kv : str * cv => (fst kv, merged_val new (fst kv) (snd kv))) old
  ++ filter (fun kv => negb (has_key (fst kv) old)) new.
Proof.
  unfold merge_map. f_equal. apply map_ext. intros [k v]. reflexivity.
Qed.

Lemma merge_cv_maps xm ym : merge_cv (CMap xm) (CMap ym) = CMap (merge_map xm ym).
Proof. reflexivity. Qed.

Lemma merge_cv_replace x y :
  match x, y with CMap _, CMap _ => False | _, _ => True end -> merge_cv x y = y.
Proof. destruct x, y; simpl; tauto. Qed.

Lemma lookup_merged_old k old new :
  lookup k (map (fun kv : str * cv => (fst kv, merged_val new (fst kv) (snd kv))) old)
  = option_map (merged_val new k) (lookup k old).
Proof.
  induction old as [|[k' v] old IH]; simpl; [reflexivity|].
  destruct (str_eqb k k') eqn:E; [|exact IH].
  apply str_eqb_eq in E. subst. reflexivity.
Qed.

Lemma lookup_filter_new k old new :
  lookup k (filter (fun kv => negb (has_key (fst kv) old)) new)
  = if has_key k old then None else lookup k new.
Proof.
  induction new as [|[k' v] new IH]; simpl.
  - destruct (has_key k old); reflexivity.
  - destruct (has_key k' old) eqn:Hk'; simpl.
    + destruct (str_eqb k k') eqn:E.
      * apply str_eqb_eq in E. subst. rewrite Hk' in *. exact IH.
      * exact IH.
    + destruct (str_eqb k k') eqn:E.
      * apply str_eqb_eq in E. subst. rewrite Hk'. reflexivity.
      * exact IH.
Qed.

Lemma lookup_merge_map k a b :
  lookup k (merge_map a b) =
  match lookup k b with
  | Some y => match lookup k a with Some x => Some (merge_cv x y) | None => Some y end
  | None => lookup k a
  end.
Proof.
  rewrite merge_map_unfold, lookup_app, lookup_merged_old, lookup_filter_new.
  unfold has_key, merged_val.
  destruct (lookup k a) as [x|]; simpl; destruct (lookup k b); reflexivity.
Qed.

Lemma merge_map_nil_r m : merge_map m [] = m.
Proof.
  unfold merge_map. simpl. rewrite app_nil_r.
  induction m as [|[k v] m IH]; simpl; [reflexivity|]. now rewrite IH.
Qed.

Lemma merge_map_nil_l m : merge_map [] m = m.
Proof.
  unfold merge_map. simpl. induction m as [|[k v] m IH]; simpl; [reflexivity|]. now rewrite IH.
Qed.

Lemma merge_sources_fold ms : forall acc,
  merge_sources acc (map CMap ms) = Ok (fold_left merge_map ms acc).
Proof. induction ms as [|m ms IH]; intros acc; simpl; [reflexivity|apply IH]. Qed.

Lemma merge_sources_nil_source acc rest :
  merge_sources acc (CNil :: rest) = merge_sources acc rest.
Proof. simpl. now rewrite merge_map_nil_r. Qed.

Lemma merge_sources_empty_source acc rest :
  merge_sources acc (CMap [] :: rest) = merge_sources acc rest.
Proof. simpl. now rewrite merge_map_nil_r. Qed.
