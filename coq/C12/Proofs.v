From Verif Require Import Common.Base C12.Model.
From Coq Require Import Ascii.

Lemma merge_map_nil_r m : merge_map m [] = m.
Proof.
  unfold merge_map. simpl. rewrite app_nil_r.
  induction m as [|[k v] m IH]; simpl; [reflexivity|]. now rewrite IH.
Qed.
