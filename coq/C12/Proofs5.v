(* C12/Proofs5.v — regression witnesses of the two repaired findings: 1000 distinct references in one value
   resolve (C12-MANYREFS), a cycle that doubles per round is refused after 14 rounds (C12-EXPCYCLE). *)
From Verif Require Import Common.Base C12.Model C12.Proofs1 C12.Proofs2 C12.Proofs3.
From Coq Require Import Ascii.

Definition w_def : str := ["e"; "v"]%char.
Definition w_text : str := ["w"]%char.
Definition w_retrieve (sch opq : str) : res retrieved := Ok (mkRet (CStr w_text) None).
Definition w_val (n : str) : str := w_text.
Definition w_pfx : str := ["e"; "v"; ":"]%char.

Definition w_alpha : str :=
  ["a";"b";"c";"d";"e";"f";"g";"h";"i";"j";"k";"l";"m";"n";"o";"p";"q";"r";"s";"t";"u";"v";"w";"x";"y";"z";
   "A";"B";"C";"D";"E";"F"]%char.
(* two letters: 1024 distinct names *)
Definition w_name (i : nat) : str := [nth (i mod 32) w_alpha "a"%char; nth (i / 32) w_alpha "a"%char].
Definition w_names (count : nat) : list str := map w_name (seq 0 count).
Definition w_ref (x : str) : tok := TRef (w_pfx ++ x).
Definition w_tokens (count : nat) : list tok := TChar "x"%char :: map w_ref (w_names count).

Definition w_ok (x : str) : bool := negb (has_char cDollar x) && negb (has_char cClose x).

Lemma w_good x : w_ok x = true -> ref_good w_def w_retrieve w_val (w_pfx ++ x).
Proof.
  unfold w_ok. intros H. apply andb_true_iff in H as [H1 H2]. apply negb_true_iff in H1, H2.
  unfold ref_good. split; [|split].
  - unfold name_ok. rewrite !has_char_app, H1, H2. reflexivity.
  - unfold ref_ok. rewrite has_char_app. reflexivity.
  - exists (mkRet (CStr w_text) None). split; [|reflexivity].
    change (w_pfx ++ x) with (w_def ++ cColon :: x).
    rewrite expand_uri_full by reflexivity. now rewrite H1.
Qed.

Lemma w_wf xs : forallb w_ok xs = true -> wf_from w_def w_retrieve w_val false (map w_ref xs).
Proof.
  induction xs as [|x xs IH]; [exact (fun _ => I)|].
  cbn [forallb]. intros H. apply andb_true_iff in H as [H1 H2].
  cbn [map w_ref wf_from]. split; [reflexivity|]. split; [now apply w_good|now apply IH].
Qed.

Lemma w_tokens_wf count : forallb w_ok (w_names count) = true -> wf w_def w_retrieve w_val (w_tokens count).
Proof.
  intros H. unfold wf, w_tokens. cbn [wf_from]. split; [reflexivity|]. split; [discriminate|now apply w_wf].
Qed.

(* 1000 distinct references in one value resolve (regression of finding C12-MANYREFS, repaired by 536781a48:
   before the repair this was the witness of expansion_refines_tokens_unbounded_refuted) *)
Lemma many_refs_resolve :
  resolve_string w_def w_retrieve (flatten (w_tokens 1000)) = Ok (CStr (sem w_val (w_tokens 1000))).
Proof.
  apply tokens_main.
  - apply w_tokens_wf. vm_cast_no_check (eq_refl true).
  - intros n _. reflexivity.
  - left. reflexivity.
  - assert (H : nrefs (w_tokens 1000) = 1000) by (vm_cast_no_check (eq_refl 1000)). rewrite H.
    unfold max_expansions. apply Nat.leb_le. vm_compute. reflexivity.
Qed.

Lemma w_plain ts : plain w_val ts.
Proof. intros n _. reflexivity. Qed.

(* ---- C12-EXPCYCLE (regression of finding C12-EXPCYCLE, repaired by 536781a48): a value that doubles per round is refused after a few rounds -------- *)
Fixpoint trace_r (def : str) (retrieve : str -> str -> res retrieved) (fuel used rounds : nat) (v : cv) : res cv * nat :=
  match fuel with
  | 0 => (Err [ETooMany], rounds)
  | S f =>
      match expand_value def retrieve v with
      | Err e => (Err e, rounds)
      | Ok (v', changed) =>
          if changed then
            let used' := used + spent def retrieve v in
            if max_expansions <? used' then (Err [ETooMany], S rounds) else trace_r def retrieve f used' (S rounds) v'
          else (Ok v', S rounds)
      end
  end.

Lemma trace_r_result def retrieve fuel : forall used rounds v,
  fst (trace_r def retrieve fuel used rounds v) = expand_rec def retrieve fuel used v.
Proof.
  induction fuel as [|f IH]; intros used rounds v; [reflexivity|]. cbn [trace_r expand_rec].
  destruct (expand_value def retrieve v) as [[v' c]|e]; [|reflexivity].
  destruct c; [|reflexivity]. destruct (max_expansions <? used + spent def retrieve v); [reflexivity|apply IH].
Qed.

Definition dbl_text : str := ref_text w_pfx ++ ref_text w_pfx.
Definition dbl_retrieve (sch opq : str) : res retrieved := Ok (mkRet (CStr dbl_text) None).

Definition doubling_outcome : res cv * nat :=
  Eval vm_compute in trace_r w_def dbl_retrieve (S (S max_expansions)) 0 0 (CStr (ref_text w_pfx)).

Lemma doubling_refused_early :
  expand_rec w_def dbl_retrieve (S (S max_expansions)) 0 (CStr (ref_text w_pfx)) = Err [ETooMany] /\
  snd doubling_outcome = 14.
Proof.
  split; [|reflexivity]. rewrite <- (trace_r_result w_def dbl_retrieve _ 0 0).
  change (trace_r w_def dbl_retrieve (S (S max_expansions)) 0 0 (CStr (ref_text w_pfx))) with doubling_outcome.
  reflexivity.
Qed.

