(* C12/Proofs5.v — the bound of 1000 rounds is visible: a value with 1000 distinct (perfectly
   resolvable) references is refused, because every round expands ONE distinct reference. *)
From Verif Require Import Common.Base C12.Model C12.Proofs1 C12.Proofs2 C12.Proofs3.
From Coq Require Import Ascii.

Definition w_def : str := ["e"; "v"]%char.
Definition w_text : str := ["w"]%char.
Definition w_retrieve (sch opq : str) : res retrieved := Ok (mkRet (CStr w_text) None).
Definition w_val (n : str) : str := w_text.
Definition w_pfx : str := ["e"; "v"; ":"]%char.

Definition w_alpha : str :=
  ["a";"b";"c";"d";"e";"f";"g";"h";"i";"j";"k";"l";"m";"n";"o";"p";"q";"r";"s";"t";"u";"v";"w";"x";"y";"z";
   "A";"B";"C";"D";"E";"F"]%char.
(* two letters: 1024 distinct names *)
Definition w_name (i : nat) : str := [nth (i mod 32) w_alpha "a"%char; nth (i / 32) w_alpha "a"%char].
Definition w_names (count : nat) : list str := map w_name (seq 0 count).
Definition w_ref (x : str) : tok := TRef (w_pfx ++ x).
Definition w_tokens (count : nat) : list tok := TChar "x"%char :: map w_ref (w_names count).

Definition w_ok (x : str) : bool := negb (has_char cDollar x) && negb (has_char cClose x).

Lemma w_good x : w_ok x = true -> ref_good w_def w_retrieve w_val (w_pfx ++ x).
Proof.
  unfold w_ok. intros H. apply andb_true_iff in H as [H1 H2]. apply negb_true_iff in H1, H2.
  unfold ref_good. split; [|split].
  - unfold name_ok. rewrite !has_char_app, H1, H2. reflexivity.
  - unfold ref_ok. rewrite has_char_app. reflexivity.
  - exists (mkRet (CStr w_text) None). split; [|reflexivity].
    change (w_pfx ++ x) with (w_def ++ cColon :: x).
    rewrite expand_uri_full by reflexivity. now rewrite H1.
Qed.

Lemma w_wf xs : forallb w_ok xs = true -> wf_from w_def w_retrieve w_val false (map w_ref xs).
Proof.
  induction xs as [|x xs IH]; [exact (fun _ => I)|].
  cbn [forallb]. intros H. apply andb_true_iff in H as [H1 H2].
  cbn [map w_ref wf_from]. split; [reflexivity|]. split; [now apply w_good|now apply IH].
Qed.

Lemma w_tokens_wf count : forallb w_ok (w_names count) = true -> wf w_def w_retrieve w_val (w_tokens count).
Proof.
  intros H. unfold wf, w_tokens. cbn [wf_from]. split; [reflexivity|]. split; [discriminate|now apply w_wf].
Qed.

Lemma w_1000_refused : resolve_string w_def w_retrieve (flatten (w_tokens 1000)) = Err [ETooMany].
Proof. vm_cast_no_check (eq_refl (@Err cv [ETooMany])). Qed.

Lemma w_names_distinct : NoDup (w_names 1000).
Proof.
  assert (H : forall l : list str, (fix nd (l : list str) : bool :=
               match l with [] => true | x :: r => negb (existsb (str_eqb x) r) && nd r end) l = true -> NoDup l).
  { induction l as [|x r IH]; intros Hl; [constructor|].
    apply andb_true_iff in Hl as [H1 H2]. constructor; [|now apply IH].
    intros Hin. apply negb_true_iff in H1.
    assert (existsb (str_eqb x) r = true) by (apply existsb_exists; exists x; split; [exact Hin|apply str_eqb_refl]).
    congruence. }
  apply H. vm_cast_no_check (eq_refl true).
Qed.

Lemma w_plain ts : plain w_val ts.
Proof. intros n _. reflexivity. Qed.

Lemma many_refs_refused :
  wf w_def w_retrieve w_val (w_tokens 1000) /\
  plain w_val (w_tokens 1000) /\
  has_text (w_tokens 1000) = true /\
  nrefs (w_tokens 1000) = 1000 /\
  resolve_string w_def w_retrieve (flatten (w_tokens 1000)) = Err [ETooMany].
Proof.
  split; [apply w_tokens_wf; vm_cast_no_check (eq_refl true)|].
  split; [apply w_plain|].
  split; [reflexivity|]. split; [vm_cast_no_check (eq_refl 1000)|exact w_1000_refused].
Qed.

(* one reference fewer and the same string resolves (an instance of the general theorem) *)
Lemma just_below_resolves :
  resolve_string w_def w_retrieve (flatten (w_tokens 999)) = Ok (CStr (sem w_val (w_tokens 999))).
Proof.
  apply tokens_main.
  - apply w_tokens_wf. vm_cast_no_check (eq_refl true).
  - apply w_plain.
  - left. reflexivity.
  - assert (H : nrefs (w_tokens 999) = 999) by (vm_cast_no_check (eq_refl 999)). rewrite H. lia.
Qed.
