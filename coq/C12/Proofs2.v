(* C12/Proofs2.v — findURI on strings without a complete reference, whole-value references,
   embedded references (one round), divergence = "too many expansions", '$' in names. *)
From Verif Require Import Common.Base C12.Model C12.Proofs1.
From Coq Require Import Ascii.

(* ---- specifications of the string primitives ---------------------------------------------------- *)
Lemma split_close_spec s b a : split_close s = Some (b, a) -> s = b ++ cClose :: a /\ has_char cClose b = false.
Proof.
  revert b a. induction s as [|c s IH]; intros b a H; cbn [split_close] in H; [discriminate|].
  destruct (Ascii.eqb c cClose) eqn:E.
  - inversion H; subst. apply Ascii.eqb_eq in E. subst. split; reflexivity.
  - destruct (split_close s) as [[b' a']|]; [|discriminate]. inversion H; subst.
    destruct (IH _ _ eq_refl) as [-> Hb]. split; [reflexivity|].
    unfold has_char in *. cbn [existsb]. rewrite Hb. rewrite (Ascii.eqb_sym cClose c), E. reflexivity.
Qed.

Lemma split_close_none s : split_close s = None -> has_char cClose s = false.
Proof.
  induction s as [|c s IH]; cbn [split_close]; [reflexivity|].
  destruct (Ascii.eqb c cClose) eqn:E; [discriminate|].
  destruct (split_close s) as [[b a]|]; [discriminate|]. intros _.
  unfold has_char in *. cbn [existsb]. rewrite (Ascii.eqb_sym cClose c), E. now apply IH.
Qed.

Lemma split_close_app x r : has_char cClose x = false -> split_close (x ++ cClose :: r) = Some (x, r).
Proof.
  induction x as [|c x IH]; intros H; simpl.
  - reflexivity.
  - unfold has_char in H. cbn [existsb] in H. apply orb_false_iff in H as [H1 H2].
    cbn [app split_close]. rewrite Ascii.eqb_sym, H1. unfold has_char in IH. now rewrite (IH H2).
Qed.

Lemma slo_cons c s :
  split_last_open (c :: s) =
  match split_last_open s with
  | Some (b, a) => Some (c :: b, a)
  | None => match s with
            | d :: a => if Ascii.eqb c cDollar && Ascii.eqb d cOpen then Some ([], a) else None
            | [] => None
            end
  end.
Proof. reflexivity. Qed.

Lemma slo_spec s pre body : split_last_open s = Some (pre, body) -> s = pre ++ cDollar :: cOpen :: body.
Proof.
  revert pre body. induction s as [|c s IH]; intros pre body H; simpl in H; [discriminate|].
  destruct (split_last_open s) as [[b a]|].
  - inversion H; subst. now rewrite (IH _ _ eq_refl) at 1.
  - destruct s as [|d t]; [discriminate|].
    destruct (Ascii.eqb c cDollar && Ascii.eqb d cOpen) eqn:E; [|discriminate].
    inversion H; subst. apply andb_true_iff in E as [E1 E2].
    apply Ascii.eqb_eq in E1, E2. subst. reflexivity.
Qed.

Lemma slo_dollar_free s : has_char cDollar s = false -> split_last_open s = None.
Proof.
  induction s as [|c s IH]; intros H; [reflexivity|].
  unfold has_char in H. cbn [existsb] in H. apply orb_false_iff in H as [H1 H2].
  rewrite slo_cons. unfold has_char in IH. rewrite (IH H2). destruct s; [reflexivity|].
  rewrite (Ascii.eqb_sym c cDollar), H1. reflexivity.
Qed.

Lemma slo_last pre body :
  has_char cDollar body = false ->
  split_last_open (pre ++ cDollar :: cOpen :: body) = Some (pre, body).
Proof.
  intros Hb. induction pre as [|c pre IH].
  - cbn [app]. rewrite slo_cons.
    assert (H : split_last_open (cOpen :: body) = None).
    { apply slo_dollar_free. unfold has_char in *. cbn [existsb]. rewrite Hb. reflexivity. }
    rewrite H. reflexivity.
  - cbn [app]. rewrite slo_cons, IH. reflexivity.
Qed.

(* split_last_open (x ++ [c]): a new "${" appears exactly when c = '{' and x ends with '$' *)
Fixpoint last_dollar (x : str) : bool :=
  match x with
  | [] => false
  | [d] => is_dollar d
  | _ :: t => last_dollar t
  end.

Lemma last_dollar_cons a d t : last_dollar (a :: d :: t) = last_dollar (d :: t).
Proof. reflexivity. Qed.

Lemma last_dollar_true x : last_dollar x = true -> exists x', x = x' ++ [cDollar].
Proof.
  induction x as [|a x IH]; [discriminate|].
  destruct x as [|d t].
  - simpl. intros H. apply is_dollar_true in H. subst. exists []. reflexivity.
  - rewrite last_dollar_cons. intros H. destruct (IH H) as [x' Hx']. exists (a :: x'). now rewrite Hx'.
Qed.

Lemma last_dollar_snoc x c : last_dollar (x ++ [c]) = is_dollar c.
Proof.
  induction x as [|a x IH]; [reflexivity|].
  destruct x as [|d t]; [reflexivity|]. exact IH.
Qed.

Definition snoc_body (c : ascii) (o : option (str * str)) : option (str * str) :=
  match o with Some (p, b) => Some (p, b ++ [c]) | None => None end.

Lemma slo_snoc x c :
  Ascii.eqb c cOpen && last_dollar x = false ->
  split_last_open (x ++ [c]) = snoc_body c (split_last_open x).
Proof.
  induction x as [|a x IH]; intros Hc.
  - reflexivity.
  - destruct x as [|d t].
    + cbn [app]. rewrite !slo_cons. cbn [last_dollar] in Hc. unfold is_dollar in Hc.
      rewrite andb_comm in Hc. rewrite Hc. reflexivity.
    + rewrite last_dollar_cons in Hc. specialize (IH Hc).
      change ((a :: d :: t) ++ [c]) with (a :: ((d :: t) ++ [c])).
      rewrite slo_cons, IH. rewrite (slo_cons a (d :: t)).
      destruct (split_last_open (d :: t)) as [[p b]|]; cbn [snoc_body]; [reflexivity|].
      cbn [app]. destruct (Ascii.eqb a cDollar && Ascii.eqb d cOpen); reflexivity.
Qed.

Lemma trailing_dollars_snoc x c :
  trailing_dollars (x ++ [c]) = if is_dollar c then S (trailing_dollars x) else 0.
Proof. unfold trailing_dollars. rewrite rev_unit. reflexivity. Qed.

Lemma trailing_dollars_nil : trailing_dollars [] = 0.
Proof. reflexivity. Qed.

(* ---- strings without a complete reference --------------------------------------------------------
   [no_ref_b s]: no occurrence of "${" in s has a "}" anywhere after it. *)
Fixpoint no_ref_b (s : str) : bool :=
  match s with
  | [] => true
  | c :: s' => negb (prefix [cDollar; cOpen] s && has_char cClose s') && no_ref_b s'
  end.

Lemma no_ref_b_suffix a b : no_ref_b (a ++ b) = true -> no_ref_b b = true.
Proof.
  induction a as [|c a IH]; [auto|]. cbn [app no_ref_b]. intros H.
  apply andb_true_iff in H as [_ H]. auto.
Qed.

Lemma no_ref_b_open pre body :
  no_ref_b (pre ++ cDollar :: cOpen :: body) = true -> has_char cClose body = false.
Proof.
  intros H. apply no_ref_b_suffix in H. cbn [no_ref_b] in H.
  apply andb_true_iff in H as [H _]. apply negb_true_iff in H.
  cbn [prefix] in H. rewrite !Ascii.eqb_refl in H. cbn [andb] in H.
  unfold has_char in *. cbn [existsb] in H. exact H.
Qed.

Section Expansion.
  Variable def : str.
  Variable retrieve : str -> str -> res retrieved.

  Lemma find_uri_f_unfold f input :
    find_uri_f def (S f) input =
    match split_close input with
    | None => None
    | Some (before, remaining) =>
        let next := if has_char cClose remaining then find_uri_f def f remaining else None in
        match split_last_open (before ++ [cClose]) with
        | None => next
        | Some (pre, body) =>
            let cand := cDollar :: cOpen :: body in
            if str_empty def && negb (has_char cColon cand) then next
            else if Nat.odd (trailing_dollars pre) then next
            else Some cand
        end
    end.
  Proof. reflexivity. Qed.

  Lemma find_uri_none fuel : forall s, no_ref_b s = true -> find_uri_f def fuel s = None.
  Proof.
    induction fuel as [|f IH]; intros s Hs; [reflexivity|].
    rewrite find_uri_f_unfold.
    destruct (split_close s) as [[before remaining]|] eqn:Esc; [|reflexivity].
    apply split_close_spec in Esc as [-> Hb].
    assert (Hrem : no_ref_b remaining = true).
    { apply (no_ref_b_suffix (before ++ [cClose])). now rewrite <- app_assoc. }
    cbv zeta.
    assert (Hnext : (if has_char cClose remaining then find_uri_f def f remaining else None) = None).
    { destruct (has_char cClose remaining); [now apply IH|reflexivity]. }
    rewrite Hnext.
    destruct (split_last_open (before ++ [cClose])) as [[pre body]|] eqn:Eslo; [|reflexivity].
    exfalso. apply slo_spec in Eslo.
    assert (Hbody : has_char cClose body = true).
    { destruct body as [|x body'] using rev_ind.
      - change (pre ++ [cDollar; cOpen]) with (pre ++ [cDollar] ++ [cOpen]) in Eslo.
        rewrite app_assoc in Eslo. apply app_inj_tail in Eslo as [_ E]. discriminate.
      - change (pre ++ cDollar :: cOpen :: body' ++ [x]) with (pre ++ (cDollar :: cOpen :: body') ++ [x]) in Eslo.
        rewrite app_assoc in Eslo. apply app_inj_tail in Eslo as [_ E]. subst x.
        rewrite has_char_app. unfold has_char at 2. cbn. apply orb_true_r. }
    assert (H2 : has_char cClose (body ++ remaining) = false).
    { apply (no_ref_b_open pre).
      replace (pre ++ cDollar :: cOpen :: body ++ remaining) with ((pre ++ cDollar :: cOpen :: body) ++ remaining)
        by (rewrite <- app_assoc; reflexivity).
      rewrite <- Eslo, <- app_assoc. exact Hs. }
    rewrite has_char_app, Hbody in H2. discriminate.
  Qed.

  Lemma expand_string_no_ref s : no_ref_b s = true -> expand_string def retrieve s = Ok (CStr s, false).
  Proof.
    intros H. unfold expand_string.
    destruct (negb (contains [cDollar; cOpen] s) || negb (has_char cClose s)); [reflexivity|].
    unfold find_and_expand, find_uri. now rewrite find_uri_none.
  Qed.

  Lemma expand_rec_unchanged f used v v' :
    expand_value def retrieve v = Ok (v', false) -> expand_rec def retrieve (S f) used v = Ok v'.
  Proof. intros H. cbn [expand_rec]. now rewrite H. Qed.

  Lemma budget_ok used c : used + c <= max_expansions -> (max_expansions <? used + c) = false.
  Proof. intros H. now apply Nat.ltb_ge. Qed.

  (* a round that changes the value, within the budget *)
  Lemma expand_rec_changed f used v v' :
    expand_value def retrieve v = Ok (v', true) -> used + spent def retrieve v <= max_expansions ->
    expand_rec def retrieve (S f) used v = expand_rec def retrieve f (used + spent def retrieve v) v'.
  Proof. intros H Hb. cbn [expand_rec]. now rewrite H, (budget_ok _ _ Hb). Qed.

  Lemma expand_rec_error f used v e :
    expand_value def retrieve v = Err e -> expand_rec def retrieve (S f) used v = Err e.
  Proof. intros H. cbn [expand_rec]. now rewrite H. Qed.

  (* the same for the plain iteration of rounds (expand_rec_old) *)
  Lemma expand_rec_old_unchanged f v v' :
    expand_value def retrieve v = Ok (v', false) -> expand_rec_old def retrieve (S f) v = Ok v'.
  Proof. intros H. cbn [expand_rec_old]. now rewrite H. Qed.

  Lemma expand_rec_old_changed f v v' :
    expand_value def retrieve v = Ok (v', true) -> expand_rec_old def retrieve (S f) v = expand_rec_old def retrieve f v'.
  Proof. intros H. cbn [expand_rec_old]. now rewrite H. Qed.

  Lemma expand_rec_old_error f v e :
    expand_value def retrieve v = Err e -> expand_rec_old def retrieve (S f) v = Err e.
  Proof. intros H. cbn [expand_rec_old]. now rewrite H. Qed.

  Lemma max_expansions_pos : 2 <= max_expansions.
  Proof. unfold max_expansions. lia. Qed.

  Lemma expand_value_str s : expand_value def retrieve (CStr s) = expand_string def retrieve s.
  Proof. reflexivity. Qed.

  Lemma rec_fuel_S : rec_fuel = S (S max_expansions).
  Proof. reflexivity. Qed.

  Lemma resolve_string_no_ref s :
    no_ref_b s = true -> resolve_string def retrieve s = Ok (CStr (unescape s)).
  Proof.
    intros H. unfold resolve_string, resolve_leaf. rewrite rec_fuel_S.
    rewrite (expand_rec_unchanged _ _ _ (CStr s)); [reflexivity|].
    rewrite expand_value_str. now apply expand_string_no_ref.
  Qed.

  Lemma resolve_string_plain s :
    no_ref_b s = true -> no_dd s = true -> resolve_string def retrieve s = Ok (CStr s).
  Proof. intros H1 H2. rewrite resolve_string_no_ref by assumption. now rewrite unescape_no_dd. Qed.
End Expansion.

(* ---- one reference ----------------------------------------------------------------------------------- *)
Definition ref_text (n : str) : str := cDollar :: cOpen :: n ++ [cClose].

(* a reference name the token grammar admits: no '$', no '}' *)
Definition name_ok (n : str) : bool := negb (has_char cDollar n) && negb (has_char cClose n).

Definition scalar (v : cv) : bool :=
  match v with CNil | CBool _ | CInt _ | CFloat _ => true | _ => false end.

Lemma has_char_snoc_self c s : has_char c (s ++ [c]) = true.
Proof. rewrite has_char_app. unfold has_char at 2. cbn [existsb]. rewrite Ascii.eqb_refl. apply orb_true_r. Qed.

Lemma ref_text_has_close n : has_char cClose (ref_text n) = true.
Proof. unfold ref_text. change (cDollar :: cOpen :: n ++ [cClose]) with ((cDollar :: cOpen :: n) ++ [cClose]). apply has_char_snoc_self. Qed.

Lemma ref_text_contains_open n r : contains [cDollar; cOpen] (ref_text n ++ r) = true.
Proof. reflexivity. Qed.

Lemma contains_app_r p a b : contains p b = true -> contains p (a ++ b) = true.
Proof.
  intros H. induction a as [|c a IH]; [exact H|].
  cbn [app]. destruct (c :: a ++ b) eqn:E; [discriminate|]. inversion E; subst.
  cbn [contains]. rewrite IH. apply orb_true_r.
Qed.

Lemma removelast_snoc {A} (l : list A) x : removelast (l ++ [x]) = l.
Proof. apply removelast_last. Qed.

Lemma ref_text_strip n : removelast (skipn 2 (ref_text n)) = n.
Proof. unfold ref_text. cbn [skipn]. apply removelast_last. Qed.

Section OneRef.
  Variable def : str.
  Variable retrieve : str -> str -> res retrieved.

  (* the reference is recognised: it has a scheme, or there is a default scheme *)
  Definition ref_ok (n : str) : bool := has_char cColon n || negb (str_empty def).

  Lemma cand_colon n : has_char cColon (cDollar :: cOpen :: n ++ [cClose]) = has_char cColon n.
  Proof.
    change (cDollar :: cOpen :: n ++ [cClose]) with ([cDollar; cOpen] ++ n ++ [cClose]).
    rewrite !has_char_app. unfold has_char at 1 3. cbn. now rewrite orb_false_r.
  Qed.

  (* a reference that follows a prefix x without '}' whose trailing run of '$' is even is found *)
  Lemma find_uri_ref_here f x n r :
    has_char cClose x = false -> name_ok n = true -> ref_ok n = true ->
    Nat.even (trailing_dollars x) = true ->
    find_uri_f def (S f) (x ++ ref_text n ++ r) = Some (ref_text n).
  Proof.
    intros Hx Hn Hok Hev. unfold name_ok in Hn. apply andb_true_iff in Hn as [Hn1 Hn2].
    apply negb_true_iff in Hn1, Hn2.
    rewrite find_uri_f_unfold.
    assert (E1 : split_close (x ++ ref_text n ++ r) = Some (x ++ cDollar :: cOpen :: n, r)).
    { unfold ref_text.
      replace (x ++ (cDollar :: cOpen :: n ++ [cClose]) ++ r) with ((x ++ cDollar :: cOpen :: n) ++ cClose :: r)
        by (rewrite <- !app_assoc; cbn [app]; rewrite <- app_assoc; reflexivity).
      apply split_close_app.
      change (x ++ cDollar :: cOpen :: n) with (x ++ [cDollar; cOpen] ++ n).
      rewrite !has_char_app, Hx, Hn2. reflexivity. }
    rewrite E1. cbv zeta.
    assert (E2 : split_last_open ((x ++ cDollar :: cOpen :: n) ++ [cClose]) = Some (x, n ++ [cClose])).
    { rewrite <- app_assoc. cbn [app]. apply slo_last. rewrite has_char_app, Hn1. reflexivity. }
    rewrite E2. rewrite cand_colon.
    unfold ref_ok in Hok.
    assert (E3 : str_empty def && negb (has_char cColon n) = false).
    { destruct (has_char cColon n); [apply andb_false_r|]. cbn [orb] in Hok.
      apply negb_true_iff in Hok. rewrite Hok. reflexivity. }
    rewrite E3. rewrite <- Nat.negb_even, Hev. reflexivity.
  Qed.

  Lemma find_uri_whole n :
    name_ok n = true -> ref_ok n = true -> find_uri def (ref_text n) = Some (ref_text n).
  Proof.
    intros Hn Hok. unfold find_uri.
    replace (ref_text n) with ([] ++ ref_text n ++ []) at 2 by (cbn [app]; apply app_nil_r).
    now apply find_uri_ref_here.
  Qed.

  Lemma guard_ref n : negb (contains [cDollar; cOpen] (ref_text n)) || negb (has_char cClose (ref_text n)) = false.
  Proof. rewrite ref_text_has_close. reflexivity. Qed.

  (* round 1 on a value that IS one reference *)
  Lemma expand_string_whole n ret :
    name_ok n = true -> ref_ok n = true ->
    expand_uri def retrieve (ref_text n) = Ok ret ->
    expand_string def retrieve (ref_text n) =
      Ok (match as_string ret with Some s => CExp (r_raw ret) s | None => r_raw ret end, true).
  Proof.
    intros Hn Hok He. unfold expand_string. rewrite guard_ref.
    unfold find_and_expand. rewrite find_uri_whole by assumption.
    rewrite str_eqb_refl, He. destruct (as_string ret); reflexivity.
  Qed.

  Lemma expand_string_whole_err n e :
    name_ok n = true -> ref_ok n = true ->
    expand_uri def retrieve (ref_text n) = Err e ->
    expand_string def retrieve (ref_text n) = Err e.
  Proof.
    intros Hn Hok He. unfold expand_string. rewrite guard_ref.
    unfold find_and_expand. rewrite find_uri_whole by assumption.
    now rewrite str_eqb_refl, He.
  Qed.

  Lemma expand_value_scalar v : scalar v = true -> expand_value def retrieve v = Ok (v, false).
  Proof. destruct v; try discriminate; reflexivity. Qed.

  Lemma escape_scalar v : scalar v = true -> escape_dollars v = v.
  Proof. destruct v; try discriminate; reflexivity. Qed.

  Lemma spent_whole n ret :
    name_ok n = true -> ref_ok n = true ->
    expand_uri def retrieve (ref_text n) = Ok ret ->
    spent def retrieve (CStr (ref_text n)) = 1.
  Proof.
    intros Hn Hok He. cbn [spent]. unfold spent_string.
    rewrite (expand_string_whole n ret Hn Hok He), guard_ref, (find_uri_whole n Hn Hok), str_eqb_refl. reflexivity.
  Qed.

  (* typed value + original text *)
  Lemma resolve_whole_typed n ret o :
    name_ok n = true -> ref_ok n = true ->
    expand_uri def retrieve (ref_text n) = Ok ret ->
    scalar (r_raw ret) = true -> as_string ret = Some o -> no_ref_b o = true ->
    resolve_string def retrieve (ref_text n) = Ok (CExp (r_raw ret) (unescape o)).
  Proof.
    intros Hn Hok He Hs Ho Hno. unfold resolve_string, resolve_leaf. rewrite rec_fuel_S.
    rewrite (expand_rec_changed def retrieve _ _ _ (CExp (r_raw ret) o)).
    2:{ rewrite expand_value_str, (expand_string_whole n ret) by assumption. now rewrite Ho. }
    2:{ rewrite (spent_whole n ret) by assumption. pose proof max_expansions_pos. lia. }
    rewrite (expand_rec_unchanged def retrieve _ _ _ (CExp (r_raw ret) o)).
    - cbn [escape_dollars]. now rewrite escape_scalar.
    - cbn [expand_value]. rewrite (expand_value_scalar _ Hs).
      rewrite (expand_string_no_ref def retrieve o Hno).
      destruct (r_raw ret); try discriminate; reflexivity.
  Qed.

  (* a provider that returns a plain string: the string itself (its own text re-examined, un-escaped) *)
  Lemma resolve_whole_string n ret v o :
    name_ok n = true -> ref_ok n = true ->
    expand_uri def retrieve (ref_text n) = Ok ret ->
    r_raw ret = CStr v -> as_string ret = Some o -> no_ref_b v = true ->
    resolve_string def retrieve (ref_text n) = Ok (CStr (unescape v)).
  Proof.
    intros Hn Hok He Hv Ho Hno. unfold resolve_string, resolve_leaf. rewrite rec_fuel_S.
    rewrite (expand_rec_changed def retrieve _ _ _ (CExp (CStr v) o)).
    2:{ rewrite expand_value_str, (expand_string_whole n ret) by assumption. now rewrite Ho, Hv. }
    2:{ rewrite (spent_whole n ret) by assumption. pose proof max_expansions_pos. lia. }
    rewrite (expand_rec_unchanged def retrieve _ _ _ (CStr v)); [reflexivity|].
    cbn [expand_value]. now rewrite (expand_string_no_ref def retrieve v Hno).
  Qed.

  (* embedded reference, one round (findAndExpandURI) *)
  Lemma find_and_expand_embedded s uri ret repl :
    find_uri def s = Some uri -> uri <> s ->
    expand_uri def retrieve uri = Ok ret -> as_string ret = Some repl ->
    find_and_expand def retrieve s = Ok (CStr (replace_unescaped s uri repl), true).
  Proof.
    intros Hf Hne He Hs. unfold find_and_expand. rewrite Hf, (str_eqb_neq _ _ Hne), He, Hs. reflexivity.
  Qed.

  Lemma find_and_expand_no_string s uri ret :
    find_uri def s = Some uri -> uri <> s ->
    expand_uri def retrieve uri = Ok ret -> as_string ret = None ->
    find_and_expand def retrieve s = Err [ENoString].
  Proof.
    intros Hf Hne He Hs. unfold find_and_expand. rewrite Hf, (str_eqb_neq _ _ Hne), He, Hs. reflexivity.
  Qed.

  Lemma find_and_expand_uri_error s uri e :
    find_uri def s = Some uri -> expand_uri def retrieve uri = Err e ->
    find_and_expand def retrieve s = Err e.
  Proof.
    intros Hf He. unfold find_and_expand. rewrite Hf.
    destruct (str_eqb uri s) eqn:E.
    - apply str_eqb_eq in E. subst. now rewrite He.
    - now rewrite He.
  Qed.

  (* ---- divergence: a value that keeps changing is refused (budget or fuel, whichever ends first) ---------- *)
  Lemma expand_rec_diverges (P : cv -> Prop) :
    (forall v, P v -> exists v', expand_value def retrieve v = Ok (v', true) /\ P v') ->
    forall fuel used v, P v -> expand_rec def retrieve fuel used v = Err [ETooMany].
  Proof.
    intros Hstep fuel. induction fuel as [|f IH]; intros used v Hv; [reflexivity|].
    destruct (Hstep v Hv) as [v' [E Hv']]. cbn [expand_rec]. rewrite E.
    destruct (max_expansions <? used + spent def retrieve v); [reflexivity|now apply IH].
  Qed.

  Lemma self_cycle_rejected n ret :
    name_ok n = true -> ref_ok n = true ->
    expand_uri def retrieve (ref_text n) = Ok ret ->
    r_raw ret = CStr (ref_text n) -> as_string ret = Some (ref_text n) ->
    resolve_string def retrieve (ref_text n) = Err [ETooMany].
  Proof.
    intros Hn Hok He Hraw Hs. unfold resolve_string, resolve_leaf.
    set (u := ref_text n) in *.
    rewrite (expand_rec_diverges (fun v => v = CStr u \/ v = CExp (CStr u) u)); [reflexivity| |now left].
    assert (Hu : expand_value def retrieve (CStr u) = Ok (CExp (CStr u) u, true)).
    { rewrite expand_value_str. unfold u. rewrite (expand_string_whole n ret) by assumption.
      fold u. now rewrite Hs, Hraw. }
    intros v [->| ->].
    - exists (CExp (CStr u) u). split; [exact Hu|now right].
    - exists (CExp (CStr u) u). split; [|now right].
      cbn [expand_value]. change (expand_string def retrieve u) with (expand_value def retrieve (CStr u)).
      rewrite Hu. reflexivity.
  Qed.

  (* ---- '$' in the name ------------------------------------------------------------------------------- *)
  Lemma is_scheme_char_not_colon x : is_scheme_char x = true -> x <> cColon.
  Proof. intros H ->. discriminate. Qed.

  Lemma valid_scheme_no_colon sch : valid_scheme sch = true -> has_char cColon sch = false.
  Proof.
    destruct sch as [|c [|d r]]; try discriminate. cbn [valid_scheme]. intros H.
    apply andb_true_iff in H as [Ha Hr].
    assert (Hc : is_scheme_char c = true) by (unfold is_scheme_char; rewrite Ha; reflexivity).
    unfold has_char. cbn [existsb].
    assert (E : forall x, is_scheme_char x = true -> Ascii.eqb cColon x = false).
    { intros x Hx. apply Ascii.eqb_neq. intros <-. discriminate. }
    rewrite (E c Hc). cbn [orb].
    change (existsb (Ascii.eqb cColon) (d :: r) = false).
    rewrite forallb_forall in Hr.
    destruct (existsb (Ascii.eqb cColon) (d :: r)) eqn:Ex; [|reflexivity].
    apply existsb_exists in Ex as [x [Hin Hx]]. rewrite (E x (Hr x Hin)) in Hx. discriminate.
  Qed.

  Lemma split_colon_app a b : has_char cColon a = false -> split_colon (a ++ cColon :: b) = Some (a, b).
  Proof.
    induction a as [|c a IH]; intros H; [reflexivity|].
    unfold has_char in H. cbn [existsb] in H. apply orb_false_iff in H as [H1 H2].
    cbn [app split_colon]. rewrite (Ascii.eqb_sym c cColon), H1. unfold has_char in IH. now rewrite (IH H2).
  Qed.

  Lemma new_location_ok sch opq : valid_scheme sch = true -> new_location (sch ++ cColon :: opq) = Some (sch, opq).
  Proof.
    intros H. unfold new_location. rewrite split_colon_app by now apply valid_scheme_no_colon. now rewrite H.
  Qed.

  Lemma expand_uri_full sch opq :
    valid_scheme sch = true ->
    expand_uri def retrieve (ref_text (sch ++ cColon :: opq)) =
    if has_char cDollar opq then Err [EDollarInName] else retrieve sch opq.
  Proof.
    intros H. unfold expand_uri. rewrite ref_text_strip.
    assert (Hc : has_char cColon (sch ++ cColon :: opq) = true).
    { change (sch ++ cColon :: opq) with (sch ++ [cColon] ++ opq). rewrite !has_char_app.
      unfold has_char at 2. cbn. apply orb_true_r. }
    rewrite Hc. now rewrite new_location_ok.
  Qed.

  Lemma expand_uri_default opq :
    has_char cColon opq = false -> valid_scheme def = true ->
    expand_uri def retrieve (ref_text opq) =
    if has_char cDollar opq then Err [EDollarInName] else retrieve def opq.
  Proof.
    intros Hc H. unfold expand_uri. rewrite ref_text_strip, Hc. now rewrite new_location_ok.
  Qed.
End OneRef.
