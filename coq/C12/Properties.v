From Verif Require Import Common.Base C12.Model C12.Proofs.

Theorem merge_empty_r : forall m, merge_map m [] = m.
Proof. exact merge_map_nil_r. Qed.
Print Assumptions merge_empty_r.
