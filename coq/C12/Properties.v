(* C12/Properties.v — the clauses of property C12 as theorems over the model of confmap
   (Model.v: merge of sources, expandValueRecursively, findURI, replaceUnescaped, escapeDollarSigns,
   useExpandValue).  Every theorem quantifies over ALL default schemes, ALL provider functions
   [retrieve : scheme -> opaque -> result] and all strings / token lists / source lists.
   Vocabulary (defined in Proofs2/3/4.v):
     ref_text n           the text "${n}"
     no_ref_b s           no "${" in s has a "}" after it (no complete reference)
     no_dd s              no "$$" in s
     tok, flatten, sem    the token grammar (char | '}' | "$$" | lone '$' | "${name}"), its text, its meaning
     wf                   well-formed token list whose references are recognised and resolvable to the text [val n]
     plain                the texts of the references contain no '$' (flat theorem only)
     anchored             the token list cannot shrink to one bare reference
     inert                a value without '$' and without expandedValue nodes *)
From Verif Require Import Common.Base C12.Model C12.Proofs1 C12.Proofs2 C12.Proofs3 C12.Proofs4 C12.Proofs5 C12.Proofs6 C12.Proofs7.
From Coq Require Import Ascii.

(* ================= clause 1: recursive right-biased merge ================= *)

Theorem merge_right_biased : forall k a b,
  lookup k (merge_map a b) =
  match lookup k b with
  | Some y => match lookup k a with Some x => Some (merge_cv x y) | None => Some y end
  | None => lookup k a
  end.
Proof. exact lookup_merge_map. Qed.
Print Assumptions merge_right_biased.

Theorem merge_maps_key_by_key : forall xm ym, merge_cv (CMap xm) (CMap ym) = CMap (merge_map xm ym).
Proof. exact merge_cv_maps. Qed.
Print Assumptions merge_maps_key_by_key.

Theorem merge_replaces_scalars_and_lists : forall x y,
  match x, y with CMap _, CMap _ => False | _, _ => True end -> merge_cv x y = y.
Proof. exact merge_cv_replace. Qed.
Print Assumptions merge_replaces_scalars_and_lists.

Theorem merge_untouched_keys_survive : forall k a b,
  lookup k b = None -> lookup k (merge_map a b) = lookup k a.
Proof. exact untouched_l. Qed.
Print Assumptions merge_untouched_keys_survive.

Theorem merge_empty_r : forall m, merge_map m [] = m.
Proof. exact merge_map_nil_r. Qed.
Print Assumptions merge_empty_r.

Theorem merge_empty_l : forall m, merge_map [] m = m.
Proof. exact merge_map_nil_l. Qed.
Print Assumptions merge_empty_l.

Theorem empty_source_changes_nothing : forall acc rest,
  merge_sources acc (CNil :: rest) = merge_sources acc rest /\
  merge_sources acc (CMap [] :: rest) = merge_sources acc rest.
Proof. exact empty_source_l. Qed.
Print Assumptions empty_source_changes_nothing.

Theorem resolve_sources_fold : forall ms acc,
  merge_sources acc (map CMap ms) = Ok (fold_left merge_map ms acc).
Proof. exact merge_sources_fold. Qed.
Print Assumptions resolve_sources_fold.

(* Resolve = merge all sources, then resolve the merged tree leaf by leaf *)
Theorem resolve_is_merge_then_expand : forall def retrieve srcs,
  resolve def retrieve srcs =
  match merge_sources [] srcs with
  | Err e => Err e
  | Ok [] => Ok (CMap [])
  | Ok ((_ :: _) as m) => resolve_node def retrieve (CMap m)
  end.
Proof. exact resolve_unfold_l. Qed.
Print Assumptions resolve_is_merge_then_expand.

Theorem resolve_tree_leafwise : forall def retrieve m m',
  m <> [] ->
  Forall2 (fun kv kv' => fst kv = fst kv' /\ resolve_node def retrieve (snd kv) = Ok (snd kv')) m m' ->
  resolve_node def retrieve (CMap m) = Ok (CMap m').
Proof. exact resolve_node_map_ok. Qed.
Print Assumptions resolve_tree_leafwise.

Theorem resolve_tree_error : forall def retrieve m k x e,
  In (k, x) m -> resolve_node def retrieve x = Err e ->
  exists e', resolve_node def retrieve (CMap m) = Err e' /\ incl e e'.
Proof. exact resolve_node_map_err. Qed.
Print Assumptions resolve_tree_error.

(* on sources without any '$' the result of Resolve IS the right-biased merge *)
Theorem resolve_reference_free_is_merge : forall def retrieve ms,
  forallb inert_map ms = true ->
  resolve def retrieve (map CMap ms) = Ok (CMap (fold_left merge_map ms [])).
Proof. exact resolve_inert_is_merge. Qed.
Print Assumptions resolve_reference_free_is_merge.

(* the DESIGN planned merge_assoc; the merge of the code is NOT associative (a scalar in the middle
   forgets the map on its left) — irrelevant for Resolve, which folds from the left *)
Theorem merge_assoc_refuted : exists a b c,
  merge_map (merge_map a b) c <> merge_map a (merge_map b c).
Proof. exact merge_not_assoc_l. Qed.
Print Assumptions merge_assoc_refuted.

(* ================= clause 4: text without reference and without $$ is unchanged ================= *)

Theorem plain_text_unchanged : forall def retrieve s,
  no_ref_b s = true -> no_dd s = true -> resolve_string def retrieve s = Ok (CStr s).
Proof. exact resolve_string_plain. Qed.
Print Assumptions plain_text_unchanged.

Theorem no_reference_only_unescaped : forall def retrieve s,
  no_ref_b s = true -> resolve_string def retrieve s = Ok (CStr (unescape s)).
Proof. exact resolve_string_no_ref. Qed.
Print Assumptions no_reference_only_unescaped.

(* ================= clause 3: $$ ================= *)

(* a run of n '$' (not followed by another '$'): ceil(n/2) remain *)
Theorem dollar_dollar : forall n rest,
  match rest with c :: _ => is_dollar c = false | [] => True end ->
  unescape (repeat cDollar n ++ rest) = repeat cDollar (Nat.div2 (S n)) ++ unescape rest.
Proof. exact unescape_run. Qed.
Print Assumptions dollar_dollar.

(* ================= clause 2: references ================= *)

(* CENTRAL: on every well-formed token string resolution is the token-by-token meaning:
   char -> itself, "$$" -> "$", lone '$' -> "$", "${name}" -> the provider's text *)
Theorem expansion_refines_tokens : forall def retrieve val ts,
  wf def retrieve val ts -> plain val ts -> anchored val ts -> nrefs ts < 1000 ->
  resolve_string def retrieve (flatten ts) = Ok (CStr (sem val ts)).
Proof. exact tokens_main. Qed.
Print Assumptions expansion_refines_tokens.

(* NESTED: provider texts that themselves contain references.  [txt n] = the token list of the text the
   provider returns for n; [good d ts]: every provider text reachable from ts within depth d is a well-formed
   token string not ending in a lone '$', and no reference sits deeper than d (so the reachable reference
   graph is acyclic); [cost d ts] = number of reference nodes of the full expansion tree (the model's measure:
   each round of expandValueRecursively removes at least one); [mean d ts] = the recursive token meaning
   (meaning of a reference = meaning of its provider's text). *)
Theorem expansion_refines_tokens_nested : forall def retrieve txt d ts,
  wf def retrieve (nval txt) ts -> good def retrieve txt d ts -> has_text ts = true ->
  cost txt d ts < 1000 ->
  resolve_string def retrieve (flatten ts) = Ok (CStr (mean txt d ts)).
Proof. exact nested_main. Qed.
Print Assumptions expansion_refines_tokens_nested.

(* the measure bounds the rounds: fuel cost+1 is enough, whatever the 1000 of the code *)
Theorem nested_rounds_bounded_by_cost : forall def retrieve txt d ts,
  wf def retrieve (nval txt) ts -> good def retrieve txt d ts -> has_text ts = true ->
  exists s, expand_rec def retrieve (S (cost txt d ts)) (CStr (flatten ts)) = Ok (CStr s) /\
            unescape s = mean txt d ts.
Proof. exact nested_rounds_within_cost. Qed.
Print Assumptions nested_rounds_bounded_by_cost.

(* without the bound the statement is false: 1000 distinct resolvable references are refused *)
Theorem expansion_refines_tokens_unbounded_refuted : exists def retrieve val ts,
  wf def retrieve val ts /\ plain val ts /\ has_text ts = true /\ nrefs ts = 1000 /\
  resolve_string def retrieve (flatten ts) = Err [ETooMany].
Proof. exact many_refs_l. Qed.
Print Assumptions expansion_refines_tokens_unbounded_refuted.

(* an escaped reference "$${n}" is kept as the text "${n}" wherever it stands *)
Theorem escaped_ref_kept : forall def retrieve val pre n post,
  wf def retrieve val (pre ++ esc_ref n ++ post) -> plain val (pre ++ esc_ref n ++ post) ->
  nrefs (pre ++ esc_ref n ++ post) < 1000 ->
  resolve_string def retrieve (flatten pre ++ cDollar :: ref_text n ++ flatten post)
  = Ok (CStr (sem val pre ++ ref_text n ++ sem val post)).
Proof. exact escaped_ref_kept_l. Qed.
Print Assumptions escaped_ref_kept.

(* a value that IS one reference to a non-string: typed value + original text *)
Theorem whole_value_typed : forall def retrieve n ret o,
  name_ok n = true -> ref_ok def n = true ->
  expand_uri def retrieve (ref_text n) = Ok ret ->
  scalar (r_raw ret) = true -> as_string ret = Some o -> no_ref_b o = true ->
  exists v, resolve_string def retrieve (ref_text n) = Ok v /\
            sanitize v = r_raw ret /\                       (* ToStringMap / non-string targets: typed *)
            decode_string_field v = Some (unescape o).     (* string targets: the original text *)
Proof. exact whole_value_typed_l. Qed.
Print Assumptions whole_value_typed.

Theorem whole_value_string : forall def retrieve n ret v o,
  name_ok n = true -> ref_ok def n = true ->
  expand_uri def retrieve (ref_text n) = Ok ret ->
  r_raw ret = CStr v -> as_string ret = Some o -> no_ref_b v = true ->
  resolve_string def retrieve (ref_text n) = Ok (CStr (unescape v)).
Proof. exact resolve_whole_string. Qed.
Print Assumptions whole_value_string.

(* when the recursion stops, the ORIGINAL TEXT kept beside a typed value has itself no expandable reference
   left (a string target receives fully expanded text): the result of expand_rec is the output of a round
   that reported "unchanged", and such a round on an expandedValue leaves its text as it was *)
Theorem expand_rec_stops_on_unchanged_round : forall def retrieve f v v',
  expand_rec def retrieve f v = Ok v' -> exists vk, expand_value def retrieve vk = Ok (v', false).
Proof. exact expand_rec_last_round. Qed.
Print Assumptions expand_rec_stops_on_unchanged_round.

Theorem original_text_fully_expanded : forall def retrieve x o x' o',
  structured x = true ->
  expand_value def retrieve (CExp x o) = Ok (CExp x' o', false) ->
  o' = o /\ expand_string def retrieve o = Ok (CStr o, false) /\ expand_value def retrieve x = Ok (x', false).
Proof. exact original_settled. Qed.
Print Assumptions original_text_fully_expanded.

(* inside a longer string the provider's TEXT is spliced in (every unescaped occurrence), and the
   result is expanded again by the same function: provider output is subject to the same rules *)
Theorem embedded_uses_text : forall def retrieve s uri ret repl,
  find_uri def s = Some uri -> uri <> s ->
  expand_uri def retrieve uri = Ok ret -> as_string ret = Some repl ->
  expand_string def retrieve s = Ok (CStr (replace_unescaped s uri repl), true).
Proof. exact embedded_uses_text_l. Qed.
Print Assumptions embedded_uses_text.

Theorem provider_output_reexpanded : forall def retrieve f s uri ret repl,
  find_uri def s = Some uri -> uri <> s ->
  expand_uri def retrieve uri = Ok ret -> as_string ret = Some repl ->
  expand_rec def retrieve (S f) (CStr s) = expand_rec def retrieve f (CStr (replace_unescaped s uri repl)).
Proof. exact embedded_then_again. Qed.
Print Assumptions provider_output_reexpanded.

Theorem embedded_without_text_is_error : forall def retrieve s uri ret,
  find_uri def s = Some uri -> uri <> s ->
  expand_uri def retrieve uri = Ok ret -> as_string ret = None ->
  resolve_string def retrieve s = Err [ENoString].
Proof. exact embedded_without_text_refused. Qed.
Print Assumptions embedded_without_text_is_error.

(* which reference findURI picks in a token string: the first one, never an escaped one *)
Theorem find_uri_first_unescaped : forall def retrieve val ts,
  wf def retrieve val ts -> find_uri def (flatten ts) = option_map ref_text (first_ref ts).
Proof. exact find_uri_wf. Qed.
Print Assumptions find_uri_first_unescaped.

(* ================= clause 5: termination, cycles, '$' in names ================= *)

(* the model is a total function with an explicit bound of 1000 rounds; a value that changes in
   every round — in particular every reference cycle — is refused *)
Theorem unbounded_expansion_refused : forall def retrieve (P : cv -> Prop),
  (forall v, P v -> exists v', expand_value def retrieve v = Ok (v', true) /\ P v') ->
  forall fuel v, P v -> expand_rec def retrieve fuel v = Err [ETooMany].
Proof. exact expand_rec_diverges. Qed.
Print Assumptions unbounded_expansion_refused.

Theorem self_cycle_rejected : forall def retrieve n ret,
  name_ok n = true -> ref_ok def n = true ->
  expand_uri def retrieve (ref_text n) = Ok ret ->
  r_raw ret = CStr (ref_text n) -> as_string ret = Some (ref_text n) ->
  resolve_string def retrieve (ref_text n) = Err [ETooMany].
Proof. exact Proofs2.self_cycle_rejected. Qed.
Print Assumptions self_cycle_rejected.

Theorem resolve_terminates : forall def retrieve srcs,
  (exists v, resolve def retrieve srcs = Ok v) \/ (exists e, resolve def retrieve srcs = Err e).
Proof. exact resolve_total_l. Qed.
Print Assumptions resolve_terminates.

Theorem dollar_in_name_rejected : forall def retrieve sch opq,
  valid_scheme sch = true -> has_char cDollar opq = true ->
  expand_uri def retrieve (ref_text (sch ++ cColon :: opq)) = Err [EDollarInName].
Proof. exact dollar_in_name_l. Qed.
Print Assumptions dollar_in_name_rejected.

Theorem dollar_in_name_rejected_in_string : forall def retrieve s sch opq,
  find_uri def s = Some (ref_text (sch ++ cColon :: opq)) ->
  valid_scheme sch = true -> has_char cDollar opq = true ->
  resolve_string def retrieve s = Err [EDollarInName].
Proof. exact dollar_in_name_string_l. Qed.
Print Assumptions dollar_in_name_rejected_in_string.

Theorem any_reference_error_is_reported : forall def retrieve s uri e,
  find_uri def s = Some uri -> expand_uri def retrieve uri = Err e ->
  resolve_string def retrieve s = Err e.
Proof. exact uri_error_refused. Qed.
Print Assumptions any_reference_error_is_reported.
