(* C12/Properties.v — the clauses of property C12 as theorems over the model of confmap
   (Model.v: merge of sources, expandValueRecursively, findURI, replaceUnescaped, escapeDollarSigns,
   useExpandValue).  Every theorem quantifies over ALL default schemes, ALL provider functions
   [retrieve : scheme -> opaque -> result] and all strings / token lists / source lists.
   Vocabulary (defined in Proofs2/3/4.v):
     ref_text n           the text "${n}"
     no_ref_b s           no "${" in s has a "}" after it (no complete reference)
     no_dd s              no "$$" in s
     tok, flatten, sem    the token grammar (char | '}' | "$$" | lone '$' | "${name}"), its text, its meaning
     wf                   well-formed token list whose references are recognised and resolvable to the text [val n]
     plain                the texts of the references contain no '$' (flat theorem only)
     anchored             the token list cannot shrink to one bare reference
     inert                a value without '$' and without expandedValue nodes *)
From Verif Require Import Common.Base C12.Model C12.Proofs1 C12.Proofs2 C12.Proofs3 C12.Proofs4 C12.Proofs5 C12.Proofs6 C12.Proofs7 C12.Proofs8 C12.Proofs9 C12.Proofs10 C12.Tie Generated.C12Tables C12.Harness C12.Clauses.
From Coq Require Import Ascii.

(* ================= clause 1: recursive right-biased merge ================= *)

Theorem merge_right_biased : forall k a b,
  lookup k (merge_map a b) =
  match lookup k b with
  | Some y => match lookup k a with Some x => Some (merge_cv x y) | None => Some y end
  | None => lookup k a
  end.
Proof. exact lookup_merge_map. Qed.
Print Assumptions merge_right_biased.

Theorem merge_maps_key_by_key : forall xm ym, merge_cv (CMap xm) (CMap ym) = CMap (merge_map xm ym).
Proof. exact merge_cv_maps. Qed.
Print Assumptions merge_maps_key_by_key.

Theorem merge_replaces_scalars_and_lists : forall x y,
  match x, y with CMap _, CMap _ => False | _, _ => True end -> merge_cv x y = y.
Proof. exact merge_cv_replace. Qed.
Print Assumptions merge_replaces_scalars_and_lists.

Theorem merge_untouched_keys_survive : forall k a b,
  lookup k b = None -> lookup k (merge_map a b) = lookup k a.
Proof. exact untouched_l. Qed.
Print Assumptions merge_untouched_keys_survive.

Theorem merge_empty_r : forall m, merge_map m [] = m.
Proof. exact merge_map_nil_r. Qed.
Print Assumptions merge_empty_r.

Theorem merge_empty_l : forall m, merge_map [] m = m.
Proof. exact merge_map_nil_l. Qed.
Print Assumptions merge_empty_l.

Theorem empty_source_changes_nothing : forall acc rest,
  merge_sources acc (CNil :: rest) = merge_sources acc rest /\
  merge_sources acc (CMap [] :: rest) = merge_sources acc rest.
Proof. exact empty_source_l. Qed.
Print Assumptions empty_source_changes_nothing.

Theorem resolve_sources_fold : forall ms acc,
  merge_sources acc (map CMap ms) = Ok (fold_left merge_map ms acc).
Proof. exact merge_sources_fold. Qed.
Print Assumptions resolve_sources_fold.

(* Resolve = merge all sources, then resolve the merged tree leaf by leaf *)
Theorem resolve_is_merge_then_expand : forall def retrieve srcs,
  resolve def retrieve srcs =
  match merge_sources [] srcs with
  | Err e => Err e
  | Ok [] => Ok (CMap [])
  | Ok ((_ :: _) as m) => resolve_node def retrieve (CMap m)
  end.
Proof. exact resolve_unfold_l. Qed.
Print Assumptions resolve_is_merge_then_expand.

Theorem resolve_tree_leafwise : forall def retrieve m m',
  m <> [] ->
  Forall2 (fun kv kv' => fst kv = fst kv' /\ resolve_node def retrieve (snd kv) = Ok (snd kv')) m m' ->
  resolve_node def retrieve (CMap m) = Ok (CMap m').
Proof. exact resolve_node_map_ok. Qed.
Print Assumptions resolve_tree_leafwise.

Theorem resolve_tree_error : forall def retrieve m k x e,
  In (k, x) m -> resolve_node def retrieve x = Err e ->
  exists e', resolve_node def retrieve (CMap m) = Err e' /\ incl e e'.
Proof. exact resolve_node_map_err. Qed.
Print Assumptions resolve_tree_error.

(* on sources without any '$' the result of Resolve IS the right-biased merge *)
Theorem resolve_reference_free_is_merge : forall def retrieve ms,
  forallb inert_map ms = true ->
  resolve def retrieve (map CMap ms) = Ok (CMap (fold_left merge_map ms [])).
Proof. exact resolve_inert_is_merge. Qed.
Print Assumptions resolve_reference_free_is_merge.

(* the DESIGN planned merge_assoc; the merge of the code is NOT associative (a scalar in the middle
   forgets the map on its left) — irrelevant for Resolve, which folds from the left *)
Theorem merge_assoc_refuted : exists a b c,
  merge_map (merge_map a b) c <> merge_map a (merge_map b c).
Proof. exact merge_not_assoc_l. Qed.
Print Assumptions merge_assoc_refuted.

(* ================= clause 4: text without reference and without $$ is unchanged ================= *)

Theorem plain_text_unchanged : forall def retrieve s,
  no_ref_b s = true -> no_dd s = true -> resolve_string def retrieve s = Ok (CStr s).
Proof. exact resolve_string_plain. Qed.
Print Assumptions plain_text_unchanged.

Theorem no_reference_only_unescaped : forall def retrieve s,
  no_ref_b s = true -> resolve_string def retrieve s = Ok (CStr (unescape s)).
Proof. exact resolve_string_no_ref. Qed.
Print Assumptions no_reference_only_unescaped.

(* ================= clause 3: $$ ================= *)

(* a run of n '$' (not followed by another '$'): ceil(n/2) remain *)
Theorem dollar_dollar : forall n rest,
  match rest with c :: _ => is_dollar c = false | [] => True end ->
  unescape (repeat cDollar n ++ rest) = repeat cDollar (Nat.div2 (S n)) ++ unescape rest.
Proof. exact unescape_run. Qed.
Print Assumptions dollar_dollar.

(* ================= clause 2: references ================= *)

(* CENTRAL: on every well-formed token string resolution is the token-by-token meaning:
   char -> itself, "$$" -> "$", lone '$' -> "$", "${name}" -> the provider's text *)
Theorem expansion_refines_tokens : forall def retrieve val ts,
  wf def retrieve val ts -> plain val ts -> anchored val ts -> nrefs ts <= max_expansions ->
  resolve_string def retrieve (flatten ts) = Ok (CStr (sem val ts)).
Proof. exact tokens_main. Qed.
Print Assumptions expansion_refines_tokens.

(* NESTED: provider texts that themselves contain references.  [txt n] = the token list of the text the
   provider returns for n; [good d ts]: every provider text reachable from ts within depth d is a well-formed
   token string not ending in a lone '$', and no reference sits deeper than d (so the reachable reference
   graph is acyclic); [cost d ts] = number of reference nodes of the full expansion tree (the model's measure:
   each round of expandValueRecursively removes at least one); [mean d ts] = the recursive token meaning
   (meaning of a reference = meaning of its provider's text); [nanchored d ts]: ts has a non-reference token or
   at least two tokens whose final meaning is not empty, so it never shrinks to ONE bare reference (which would
   make the value typed) — inputs made of references only are covered. *)
Theorem expansion_refines_tokens_nested : forall def retrieve txt d ts,
  wf def retrieve (nval txt) ts -> good def retrieve txt d ts -> nanchored txt d ts ->
  cost txt d ts <= max_expansions ->
  resolve_string def retrieve (flatten ts) = Ok (CStr (mean txt d ts)).
Proof. exact nested_main. Qed.
Print Assumptions expansion_refines_tokens_nested.

(* the measure bounds the rounds AND the work: cost+1 rounds are enough and exactly [cost] expansions are counted *)
Theorem nested_rounds_bounded_by_cost : forall def retrieve txt d ts,
  wf def retrieve (nval txt) ts -> good def retrieve txt d ts -> nanchored txt d ts ->
  cost txt d ts <= max_expansions ->
  exists s, expand_rec def retrieve (S (cost txt d ts)) 0 (CStr (flatten ts)) = Ok (CStr s) /\
            unescape s = mean txt d ts.
Proof. exact nested_rounds_within_cost. Qed.
Print Assumptions nested_rounds_bounded_by_cost.

(* ---- values with structure (lists, maps, expandedValue): generic, no assumption on the members ----------
   stated on the ROUNDS ([expand_rec_old f] = iterate expandValue at most f times, no budget); [rounds_within_budget]
   carries a run of rounds to expandValueRecursively when what the rounds spend ([total_spent]) fits the budget *)

(* a round that reports "unchanged" has produced a fixpoint of expandValue *)
Theorem unchanged_round_is_fixpoint : forall def retrieve v v',
  expand_value def retrieve v = Ok (v', false) -> expand_value def retrieve v' = Ok (v', false).
Proof. exact stable. Qed.
Print Assumptions unchanged_round_is_fixpoint.

(* a list resolves member by member: each member ends where it would end on its own (they only share the
   round counter) *)
Theorem list_value_memberwise : forall def retrieve f xs ys,
  Forall2 (fun x y => expand_rec_old def retrieve (S f) x = Ok y) xs ys ->
  expand_rec_old def retrieve (S f) (CList xs) = Ok (CList ys).
Proof. exact list_memberwise. Qed.
Print Assumptions list_value_memberwise.

Theorem map_value_memberwise : forall def retrieve f m m',
  Forall2 (entry_ok def retrieve (S f)) m m' ->
  expand_rec_old def retrieve (S f) (CMap m) = Ok (CMap m').
Proof. exact map_memberwise. Qed.
Print Assumptions map_value_memberwise.

(* the typed value and the original text of an expandedValue resolve independently *)
Theorem expanded_value_halves_independent : forall def retrieve f x o y o',
  structured x = true -> expand_rec_old def retrieve (S f) x = Ok y -> str_rec def retrieve (S f) o = Some o' ->
  expand_rec_old def retrieve (S f) (CExp x o) = Ok (CExp y o').
Proof. exact exp_parallel. Qed.
Print Assumptions expanded_value_halves_independent.

Theorem rounds_within_budget : forall def retrieve f fuel used v y,
  expand_rec_old def retrieve f v = Ok y -> used + total_spent def retrieve f v <= max_expansions -> f <= fuel ->
  expand_rec def retrieve fuel used v = Ok y.
Proof. exact bridge. Qed.
Print Assumptions rounds_within_budget.

Theorem whole_value_structured : forall def retrieve n ret o y o',
  name_ok n = true -> ref_ok def n = true ->
  expand_uri def retrieve (ref_text n) = Ok ret -> as_string ret = Some o ->
  structured (r_raw ret) = true ->
  expand_rec_old def retrieve 999 (r_raw ret) = Ok y -> str_rec def retrieve 999 o = Some o' ->
  1 + total_spent def retrieve 999 (CExp (r_raw ret) o) <= max_expansions ->
  resolve_string def retrieve (ref_text n) = Ok (CExp (escape_dollars y) (unescape o')).
Proof. exact Proofs8.whole_value_structured. Qed.
Print Assumptions whole_value_structured.

(* CLOSED FORM for a provider value that is a list / map of strings with references inside (nested allowed):
   the typed value is the member-wise token meaning, the original text is the meaning of the text
   ([tok_ok d ts] = the hypotheses of the nested theorem with at most 998 reference nodes) *)
Theorem whole_value_list_of_token_strings : forall def retrieve txt n ret d tss tso,
  name_ok n = true -> ref_ok def n = true ->
  expand_uri def retrieve (ref_text n) = Ok ret ->
  r_raw ret = CList (map (fun ts => CStr (flatten ts)) tss) ->
  as_string ret = Some (flatten tso) ->
  Forall (tok_ok def retrieve txt d) tss -> tok_ok def retrieve txt d tso ->
  1 + csum txt d tss + cost txt d tso <= max_expansions ->
  resolve_string def retrieve (ref_text n)
  = Ok (CExp (CList (map (fun ts => CStr (mean txt d ts)) tss)) (mean txt d tso)).
Proof. exact list_of_token_strings. Qed.
Print Assumptions whole_value_list_of_token_strings.

Theorem whole_value_map_of_token_strings : forall def retrieve txt n ret d kvs tso,
  name_ok n = true -> ref_ok def n = true ->
  expand_uri def retrieve (ref_text n) = Ok ret ->
  r_raw ret = CMap (map (fun kv => (fst kv, CStr (flatten (snd kv)))) kvs) ->
  as_string ret = Some (flatten tso) ->
  Forall (fun kv : str * list tok => tok_ok def retrieve txt d (snd kv)) kvs -> tok_ok def retrieve txt d tso ->
  1 + total_spent def retrieve 999 (CExp (r_raw ret) (flatten tso)) <= max_expansions ->
  resolve_string def retrieve (ref_text n)
  = Ok (CExp (CMap (map (fun kv => (fst kv, CStr (mean txt d (snd kv)))) kvs)) (mean txt d tso)).
Proof. exact map_of_token_strings. Qed.
Print Assumptions whole_value_map_of_token_strings.

(* the members of a list and the text of an expandedValue share the expansion counter: for token strings the whole
   run spends at most the SUM of the members' measures plus the text's (closed form; used by the list theorem above) *)
Theorem shared_expansion_counter_bound : forall def retrieve txt f d tss tso,
  Forall (tinv def retrieve txt d) tss -> tinv def retrieve txt d tso ->
  total_spent def retrieve f (V tss tso) <= csum txt d tss + cost txt d tso.
Proof. exact shared_counter_bound. Qed.
Print Assumptions shared_expansion_counter_bound.


(* regression of the repaired finding C12-MANYREFS: 1000 distinct resolvable references in one value resolve
   (before fix 536781a48 this was the witness of expansion_refines_tokens_unbounded_refuted) *)
Theorem many_distinct_references_resolve :
  resolve_string w_def w_retrieve (flatten (w_tokens 1000)) = Ok (CStr (sem w_val (w_tokens 1000))).
Proof. exact many_refs_resolve. Qed.
Print Assumptions many_distinct_references_resolve.

(* an escaped reference "$${n}" is kept as the text "${n}" wherever it stands *)
Theorem escaped_ref_kept : forall def retrieve val pre n post,
  wf def retrieve val (pre ++ esc_ref n ++ post) -> plain val (pre ++ esc_ref n ++ post) ->
  nrefs (pre ++ esc_ref n ++ post) <= max_expansions ->
  resolve_string def retrieve (flatten pre ++ cDollar :: ref_text n ++ flatten post)
  = Ok (CStr (sem val pre ++ ref_text n ++ sem val post)).
Proof. exact escaped_ref_kept_l. Qed.
Print Assumptions escaped_ref_kept.

(* a value that IS one reference to a non-string: typed value + original text *)
Theorem whole_value_typed : forall def retrieve n ret o,
  name_ok n = true -> ref_ok def n = true ->
  expand_uri def retrieve (ref_text n) = Ok ret ->
  scalar (r_raw ret) = true -> as_string ret = Some o -> no_ref_b o = true ->
  exists v, resolve_string def retrieve (ref_text n) = Ok v /\
            sanitize v = r_raw ret /\                       (* ToStringMap / non-string targets: typed *)
            decode_string_field v = Some (unescape o).     (* string targets: the original text *)
Proof. exact whole_value_typed_l. Qed.
Print Assumptions whole_value_typed.

Theorem whole_value_string : forall def retrieve n ret v o,
  name_ok n = true -> ref_ok def n = true ->
  expand_uri def retrieve (ref_text n) = Ok ret ->
  r_raw ret = CStr v -> as_string ret = Some o -> no_ref_b v = true ->
  resolve_string def retrieve (ref_text n) = Ok (CStr (unescape v)).
Proof. exact resolve_whole_string. Qed.
Print Assumptions whole_value_string.

(* when the recursion stops, the ORIGINAL TEXT kept beside a typed value has itself no expandable reference
   left (a string target receives fully expanded text): the result of expand_rec is the output of a round
   that reported "unchanged", and such a round on an expandedValue leaves its text as it was *)
Theorem expand_rec_stops_on_unchanged_round : forall def retrieve f used v v',
  expand_rec def retrieve f used v = Ok v' -> exists vk, expand_value def retrieve vk = Ok (v', false).
Proof. exact expand_rec_last_round. Qed.
Print Assumptions expand_rec_stops_on_unchanged_round.

Theorem original_text_fully_expanded : forall def retrieve x o x' o',
  structured x = true ->
  expand_value def retrieve (CExp x o) = Ok (CExp x' o', false) ->
  o' = o /\ expand_string def retrieve o = Ok (CStr o, false) /\ expand_value def retrieve x = Ok (x', false).
Proof. exact original_settled. Qed.
Print Assumptions original_text_fully_expanded.

(* inside a longer string the provider's TEXT is spliced in (every unescaped occurrence), and the
   result is expanded again by the same function: provider output is subject to the same rules *)
Theorem embedded_uses_text : forall def retrieve s uri ret repl,
  find_uri def s = Some uri -> uri <> s ->
  expand_uri def retrieve uri = Ok ret -> as_string ret = Some repl ->
  expand_string def retrieve s = Ok (CStr (replace_unescaped s uri repl), true).
Proof. exact embedded_uses_text_l. Qed.
Print Assumptions embedded_uses_text.

Theorem provider_output_reexpanded : forall def retrieve f used s uri ret repl,
  find_uri def s = Some uri -> uri <> s ->
  expand_uri def retrieve uri = Ok ret -> as_string ret = Some repl ->
  used + count_unescaped s uri <= max_expansions ->
  expand_rec def retrieve (S f) used (CStr s)
  = expand_rec def retrieve f (used + count_unescaped s uri) (CStr (replace_unescaped s uri repl)).
Proof. exact embedded_then_again. Qed.
Print Assumptions provider_output_reexpanded.

Theorem embedded_without_text_is_error : forall def retrieve s uri ret,
  find_uri def s = Some uri -> uri <> s ->
  expand_uri def retrieve uri = Ok ret -> as_string ret = None ->
  resolve_string def retrieve s = Err [ENoString].
Proof. exact embedded_without_text_refused. Qed.
Print Assumptions embedded_without_text_is_error.

(* which reference findURI picks in a token string: the first one, never an escaped one *)
Theorem find_uri_first_unescaped : forall def retrieve val ts,
  wf def retrieve val ts -> find_uri def (flatten ts) = option_map ref_text (first_ref ts).
Proof. exact find_uri_wf. Qed.
Print Assumptions find_uri_first_unescaped.

(* ================= clause 5: termination, cycles, '$' in names ================= *)

(* the model is a total function with an explicit bound of 1000 rounds; a value that changes in
   every round — in particular every reference cycle — is refused *)
Theorem unbounded_expansion_refused : forall def retrieve (P : cv -> Prop),
  (forall v, P v -> exists v', expand_value def retrieve v = Ok (v', true) /\ P v') ->
  forall fuel used v, P v -> expand_rec def retrieve fuel used v = Err [ETooMany].
Proof. exact expand_rec_diverges. Qed.
Print Assumptions unbounded_expansion_refused.

Theorem self_cycle_rejected : forall def retrieve n ret,
  name_ok n = true -> ref_ok def n = true ->
  expand_uri def retrieve (ref_text n) = Ok ret ->
  r_raw ret = CStr (ref_text n) -> as_string ret = Some (ref_text n) ->
  resolve_string def retrieve (ref_text n) = Err [ETooMany].
Proof. exact Proofs2.self_cycle_rejected. Qed.
Print Assumptions self_cycle_rejected.

(* a reference answered with the text of that very reference (the string reproduces itself every round) is
   refused as a cycle, wherever it stands in a token string *)
Theorem identity_cycle_rejected : forall def retrieve txt d ts n,
  wf def retrieve (nval txt) ts -> nanchored txt d ts -> first_ref ts = Some n -> txt n = [TRef n] ->
  resolve_string def retrieve (flatten ts) = Err [ETooMany].
Proof. exact identity_cycle_refused. Qed.
Print Assumptions identity_cycle_rejected.

(* EVERY reference cycle among well-formed provider texts is refused: [core] is any set of names each of whose
   texts mentions a member of the set again (a cycle of any length, with anything around the references); a
   token string that mentions a member of the core never becomes reference-free, so it is refused *)
Theorem cyclic_core_rejected : forall def retrieve txt,
  (forall n, wf_from def retrieve (nval txt) false (txt n) /\ flag_after false (txt n) = false) ->
  forall core : str -> Prop,
  (forall n, core n -> exists m, core m /\ In (TRef m) (txt n)) ->
  forall ts,
  wf def retrieve (nval txt) ts -> has_text ts = true -> (exists k, core k /\ In (TRef k) ts) ->
  resolve_string def retrieve (flatten ts) = Err [ETooMany].
Proof. exact cyclic_core_refused. Qed.
Print Assumptions cyclic_core_rejected.

(* without a default scheme, "${NAME}" is not a reference: a string without ':' is only un-escaped *)
Theorem no_default_scheme_name_is_text : forall retrieve s,
  has_char cColon s = false -> resolve_string [] retrieve s = Ok (CStr (unescape s)).
Proof. exact no_default_colon_free. Qed.
Print Assumptions no_default_scheme_name_is_text.

Theorem resolve_terminates : forall def retrieve srcs,
  (exists v, resolve def retrieve srcs = Ok v) \/ (exists e, resolve def retrieve srcs = Err e).
Proof. exact resolve_total_l. Qed.
Print Assumptions resolve_terminates.

Theorem dollar_in_name_rejected : forall def retrieve sch opq,
  valid_scheme sch = true -> has_char cDollar opq = true ->
  expand_uri def retrieve (ref_text (sch ++ cColon :: opq)) = Err [EDollarInName].
Proof. exact dollar_in_name_l. Qed.
Print Assumptions dollar_in_name_rejected.

Theorem dollar_in_name_rejected_in_string : forall def retrieve s sch opq,
  find_uri def s = Some (ref_text (sch ++ cColon :: opq)) ->
  valid_scheme sch = true -> has_char cDollar opq = true ->
  resolve_string def retrieve s = Err [EDollarInName].
Proof. exact dollar_in_name_string_l. Qed.
Print Assumptions dollar_in_name_rejected_in_string.

Theorem any_reference_error_is_reported : forall def retrieve s uri e,
  find_uri def s = Some uri -> expand_uri def retrieve uri = Err e ->
  resolve_string def retrieve s = Err e.
Proof. exact uri_error_refused. Qed.
Print Assumptions any_reference_error_is_reported.

(* ================= tie to the CURRENT source: the model equals tables dumped by running the code ================= *)
(* coq/Generated/C12Tables.v is rewritten from /repo on every run (harness/C12/dump_test.go); proofs in Tie.v *)

Theorem scheme_first_class_is_code :
  map (fun n => is_alpha (ascii_of_nat n)) (seq 0 256) = go_scheme_first.
Proof. exact tie_scheme_first. Qed.
Print Assumptions scheme_first_class_is_code.

Theorem scheme_rest_class_is_code :
  map (fun n => is_scheme_char (ascii_of_nat n)) (seq 0 256) = go_scheme_rest.
Proof. exact tie_scheme_rest. Qed.
Print Assumptions scheme_rest_class_is_code.

Theorem scheme_pattern_shape_is_code :
  forallb (fun p : String.string * bool => Bool.eqb (valid_scheme (t2l (fst p))) (snd p)) go_scheme_small = true.
Proof. exact tie_scheme_small. Qed.
Print Assumptions scheme_pattern_shape_is_code.

Theorem new_location_is_code :
  forallb (fun p => loc_eqb (new_location (t2l (fst p))) (snd p)) go_new_location = true.
Proof. exact tie_new_location. Qed.
Print Assumptions new_location_is_code.

Theorem find_uri_is_code :
  forallb (fun p : String.string * String.string * String.string =>
             let '(d, i, r) := p in uri_eqb (find_uri (t2l d) (t2l i)) r) go_find_uri = true.
Proof. exact tie_find_uri. Qed.
Print Assumptions find_uri_is_code.

Theorem replace_unescaped_is_code :
  forallb (fun p : String.string * String.string =>
             str_eqb (replace_unescaped (t2l (fst p)) (t2l go_replace_uri) (t2l go_replace_repl)) (t2l (snd p)))
          go_replace = true.
Proof. exact tie_replace_unescaped. Qed.
Print Assumptions replace_unescaped_is_code.

Theorem replace_count_is_code :
  forallb (fun p : String.string * N =>
             N.eqb (N.of_nat (count_unescaped (t2l (fst p)) (t2l go_replace_uri))) (snd p)) go_replace_count = true.
Proof. exact tie_replace_count. Qed.
Print Assumptions replace_count_is_code.

Theorem unescape_is_code :
  forallb (fun p : String.string * String.string => str_eqb (unescape (t2l (fst p))) (t2l (snd p))) go_unescape = true.
Proof. exact tie_unescape. Qed.
Print Assumptions unescape_is_code.

Theorem max_expansions_is_code :
  N.of_nat max_expansions = go_max_expansions /\ (N.of_nat max_expansions + 1)%N = go_cycle_rounds.
Proof. exact tie_max_expansions. Qed.
Print Assumptions max_expansions_is_code.

Theorem tables_are_populated :
  N.of_nat (length go_scheme_small) = 1555%N /\ N.of_nat (length go_new_location) = 1365%N /\
  (3000 <=? N.of_nat (length go_find_uri))%N = true /\
  N.of_nat (length go_replace) = 5461%N /\ N.of_nat (length go_unescape) = 1023%N.
Proof. exact tie_tables_populated. Qed.
Print Assumptions tables_are_populated.

(* ================= the clause checker and the model speak about the same thing ================= *)
(* coq/C12/Clauses.v: [tokenize] is complete (a string with a well-formed tokenization is tokenized, to exactly that
   token list), and whatever the MODEL produces passes the decidable clause checker that check.py runs over the
   observed cases of the implementation — for every default scheme, provider table and list of sources whose single
   source has distinct keys (a Go map). *)

Theorem tokenizer_complete : forall def retrieve val ts,
  wf def retrieve val ts -> tokenize (flatten ts) = Some ts.
Proof. exact tokenize_complete. Qed.
Print Assumptions tokenizer_complete.

Theorem tokenizer_sound : forall s ts, tokenize s = Some ts -> flatten ts = s.
Proof. exact tokenize_flatten. Qed.
Print Assumptions tokenizer_sound.

Theorem model_passes_clause_checker : forall def retrieve srcs,
  keys_distinct srcs -> codes_cv def retrieve srcs (observe (resolve def retrieve srcs)) = [].
Proof. exact model_passes_checker. Qed.
Print Assumptions model_passes_clause_checker.

(* the same at the level of the recorded case: [model_case] builds the case record from the model's own run the way
   the harness builds it from the implementation's *)
Theorem model_case_passes_prop_ok : forall cfg srcs,
  keys_distinct (map of_w srcs) -> prop_ok (model_case cfg srcs) = true.
Proof. exact model_case_passes. Qed.
Print Assumptions model_case_passes_prop_ok.

(* ================= the public views never show the internal pair (finding C12-WRAPPERLEAK, repaired by 43b4ee065) ===== *)
Theorem tostringmap_typed : forall v, has_exp (sanitize v) = false.
Proof. exact sanitize_wrapper_free. Qed.
Print Assumptions tostringmap_typed.

(* the former witness (receivers: ${file:r}, file r = {port: ${env:P}}): the port is typed now *)
Theorem tostringmap_typed_regression :
  exists t, resolve leak_def leak_retrieve leak_srcs = Ok t /\ sanitize t = leak_typed_view.
Proof. exact wrapper_leak_regression. Qed.
Print Assumptions tostringmap_typed_regression.

(* ================= round 7: whole configurations, default scheme ================= *)

(* the work budget is PER VALUE: a configuration of any number of values, each within the budget, resolves — however
   many references it holds in total (leaf-wise resolution: resolve_leaf starts every leaf with a used count of 0) *)
Theorem resolve_many_values : forall def retrieve txt d (kts : list (str * list tok)),
  kts <> [] ->
  Forall (fun kt => wf def retrieve (nval txt) (snd kt) /\ good def retrieve txt d (snd kt) /\
                    nanchored txt d (snd kt) /\ cost txt d (snd kt) <= max_expansions) kts ->
  resolve def retrieve [CMap (map (fun kt => (fst kt, CStr (flatten (snd kt)))) kts)]
  = Ok (CMap (map (fun kt => (fst kt, CStr (mean txt d (snd kt)))) kts)).
Proof. exact many_values. Qed.
Print Assumptions resolve_many_values.

(* a name without scheme is answered by the provider of the CONFIGURED default scheme, whatever it is called *)
Theorem scheme_less_name_uses_default_scheme : forall def retrieve opq,
  has_char cColon opq = false -> valid_scheme def = true ->
  expand_uri def retrieve (ref_text opq) =
  if has_char cDollar opq then Err [EDollarInName] else retrieve def opq.
Proof. exact expand_uri_default. Qed.
Print Assumptions scheme_less_name_uses_default_scheme.
