(* C12/Proofs6.v — corollaries stated in Properties.v. *)
From Verif Require Import Common.Base C12.Model C12.Proofs1 C12.Proofs2 C12.Proofs3 C12.Proofs4 C12.Proofs5.
From Coq Require Import Ascii.

Lemma empty_source_l acc rest :
  merge_sources acc (CNil :: rest) = merge_sources acc rest /\
  merge_sources acc (CMap [] :: rest) = merge_sources acc rest.
Proof. split; [apply merge_sources_nil_source|apply merge_sources_empty_source]. Qed.

Lemma resolve_unfold_l def retrieve srcs :
  resolve def retrieve srcs =
  match merge_sources [] srcs with
  | Err e => Err e
  | Ok [] => Ok (CMap [])
  | Ok ((_ :: _) as m) => resolve_node def retrieve (CMap m)
  end.
Proof. unfold resolve. destruct (merge_sources [] srcs) as [[|kv m]|e]; reflexivity. Qed.

Lemma untouched_l k a b : lookup k b = None -> lookup k (merge_map a b) = lookup k a.
Proof. intros H. now rewrite lookup_merge_map, H. Qed.

Lemma merge_not_assoc_l : exists a b c,
  merge_map (merge_map a b) c <> merge_map a (merge_map b c).
Proof.
  exists [(["k"%char], CMap [(["a"%char], CInt 1)])], [(["k"%char], CInt 5)], [(["k"%char], CMap [(["b"%char], CInt 2)])].
  vm_compute. discriminate.
Qed.

Lemma escaped_ref_kept_l def retrieve val pre n post :
  wf def retrieve val (pre ++ esc_ref n ++ post) -> plain val (pre ++ esc_ref n ++ post) ->
  nrefs (pre ++ esc_ref n ++ post) <= max_expansions ->
  resolve_string def retrieve (flatten pre ++ cDollar :: ref_text n ++ flatten post)
  = Ok (CStr (sem val pre ++ ref_text n ++ sem val post)).
Proof.
  intros Hwf Hp Hn.
  assert (E1 : flatten pre ++ cDollar :: ref_text n ++ flatten post = flatten (pre ++ esc_ref n ++ post)).
  { rewrite !flatten_app, flatten_esc_ref. reflexivity. }
  assert (E2 : sem val pre ++ ref_text n ++ sem val post = sem val (pre ++ esc_ref n ++ post)).
  { rewrite !sem_app, sem_esc_ref. reflexivity. }
  rewrite E1, E2. apply tokens_main; [exact Hwf|exact Hp| |exact Hn].
  left. unfold has_text. rewrite !existsb_app. unfold esc_ref. cbn [existsb is_ref negb].
  rewrite orb_true_r. reflexivity.
Qed.

Lemma whole_value_typed_l def retrieve n ret o :
  name_ok n = true -> ref_ok def n = true ->
  expand_uri def retrieve (ref_text n) = Ok ret ->
  scalar (r_raw ret) = true -> as_string ret = Some o -> no_ref_b o = true ->
  exists v, resolve_string def retrieve (ref_text n) = Ok v /\
            sanitize v = r_raw ret /\
            decode_string_field v = Some (unescape o).
Proof.
  intros Hn Hok He Hs Ho Hno.
  exists (CExp (r_raw ret) (unescape o)). split; [now apply resolve_whole_typed|split; [|reflexivity]].
  unfold sanitize. cbn [sanitize_gen]. destruct (r_raw ret); try discriminate; reflexivity.
Qed.

Lemma embedded_uses_text_l def retrieve s uri ret repl :
  find_uri def s = Some uri -> uri <> s ->
  expand_uri def retrieve uri = Ok ret -> as_string ret = Some repl ->
  expand_string def retrieve s = Ok (CStr (replace_unescaped s uri repl), true).
Proof.
  intros. rewrite (expand_string_found def retrieve s uri) by assumption.
  now apply (find_and_expand_embedded def retrieve s uri ret repl).
Qed.

Lemma resolve_total_l def retrieve srcs :
  (exists v, resolve def retrieve srcs = Ok v) \/ (exists e, resolve def retrieve srcs = Err e).
Proof. destruct (resolve def retrieve srcs) as [v|e]; [left|right]; eauto. Qed.

Lemma dollar_in_name_l def retrieve sch opq :
  valid_scheme sch = true -> has_char cDollar opq = true ->
  expand_uri def retrieve (ref_text (sch ++ cColon :: opq)) = Err [EDollarInName].
Proof. intros H H0. rewrite expand_uri_full by assumption. now rewrite H0. Qed.

Lemma dollar_in_name_string_l def retrieve s sch opq :
  find_uri def s = Some (ref_text (sch ++ cColon :: opq)) ->
  valid_scheme sch = true -> has_char cDollar opq = true ->
  resolve_string def retrieve s = Err [EDollarInName].
Proof.
  intros Hf Hs Hd. apply (uri_error_refused def retrieve s _ _ Hf).
  rewrite expand_uri_full by assumption. now rewrite Hd.
Qed.
