(* C12/Proofs7.v — provider texts that themselves contain references (nested expansion).
   [txt n] is the token list of the text the provider returns for the reference n.  The reference graph
   reachable from a token list is required to have finite depth d ([good d]: no cycle); the meaning of a
   reference is the meaning of its provider's text, recursively. *)
From Verif Require Import Common.Base C12.Model C12.Proofs1 C12.Proofs2 C12.Proofs3 C12.Proofs4 C12.Proofs8.
From Coq Require Import Ascii.

Section Nested.
  Variable def : str.
  Variable retrieve : str -> str -> res retrieved.
  Variable txt : str -> list tok.

  (* the provider's text *)
  Definition nval (n : str) : str := flatten (txt n).

  Definition tsem0 (t : tok) : str :=
    match t with
    | TChar c => [c]
    | TClose => [cClose]
    | TEsc => [cDollar]
    | TDollar => [cDollar]
    | TRef _ => []
    end.

  (* recursive token meaning, depth-indexed *)
  Fixpoint tmean (d : nat) (t : tok) : str :=
    match t with
    | TRef n => match d with 0 => [] | S d' => concat (map (tmean d') (txt n)) end
    | _ => tsem0 t
    end.
  Definition mean (d : nat) (ts : list tok) : str := concat (map (tmean d) ts).

  (* the model's measure: the number of reference nodes of the full expansion tree; every round of
     expandValueRecursively removes at least one of them *)
  Fixpoint tcost (d : nat) (t : tok) : nat :=
    match t with
    | TRef n => match d with 0 => 0 | S d' => S (list_sum (map (tcost d') (txt n))) end
    | _ => 0
    end.
  Definition cost (d : nat) (ts : list tok) : nat := list_sum (map (tcost d) ts).

  (* every provider text reachable within depth d is a well-formed token string that does not end with a
     lone '$' (which could form a new reference with what follows in the host string); depth 0 = no reference *)
  Fixpoint tgood (d : nat) (t : tok) : Prop :=
    match t with
    | TRef n =>
        match d with
        | 0 => False
        | S d' => wf_from def retrieve nval false (txt n) /\ flag_after false (txt n) = false /\
                  Forall (tgood d') (txt n)
        end
    | _ => True
    end.
  Definition good (d : nat) (ts : list tok) : Prop := Forall (tgood d) ts.

  (* one round at the level of tokens: every occurrence of the reference n becomes its provider's tokens *)
  Definition nsubst1 (n : str) (t : tok) : list tok :=
    match t with
    | TRef m => if str_eqb m n then txt n else [t]
    | _ => [t]
    end.
  Definition nsubst (n : str) (ts : list tok) : list tok := flat_map (nsubst1 n) ts.

  Lemma flatten_nsubst n ts : flatten (subst nval n ts) = flatten (nsubst n ts).
  Proof.
    induction ts as [|t ts IH]; [reflexivity|].
    unfold subst, nsubst in *. cbn [flat_map]. rewrite !flatten_app, IH. f_equal.
    destruct t; try reflexivity. cbn [subst1 nsubst1]. destruct (str_eqb name n); [|reflexivity].
    apply flatten_lit.
  Qed.

  (* ---- monotonicity in the depth index ------------------------------------------------------------- *)
  Lemma mono d : forall t, tgood d t ->
    tmean (S d) t = tmean d t /\ tcost (S d) t = tcost d t /\ tgood (S d) t.
  Proof.
    induction d as [|d IH]; intros t Hg.
    - destruct t; cbn in Hg; try contradiction; repeat split; exact I.
    - destruct t; try (repeat split; exact I).
      cbn [tgood] in Hg. destruct Hg as [Hw [Hf Hall]].
      assert (H : forall l, Forall (tgood d) l ->
                  map (tmean (S d)) l = map (tmean d) l /\ map (tcost (S d)) l = map (tcost d) l /\
                  Forall (tgood (S d)) l).
      { induction l as [|x l IHl]; intros Hl; [repeat split; constructor|].
        inversion Hl; subst. destruct (IH x H1) as [E1 [E2 E3]]. destruct (IHl H2) as [F1 [F2 F3]].
        cbn [map]. rewrite E1, E2, F1, F2. repeat split. now constructor. }
      destruct (H _ Hall) as [E1 [E2 E3]].
      split; [|split].
      + change (tmean (S (S d)) (TRef name)) with (concat (map (tmean (S d)) (txt name))).
        change (tmean (S d) (TRef name)) with (concat (map (tmean d) (txt name))). now rewrite E1.
      + change (tcost (S (S d)) (TRef name)) with (S (list_sum (map (tcost (S d)) (txt name)))).
        change (tcost (S d) (TRef name)) with (S (list_sum (map (tcost d) (txt name)))). now rewrite E2.
      + cbn [tgood]. auto.
  Qed.

  Lemma lsum_cons a l : list_sum (a :: l) = a + list_sum l.
  Proof. reflexivity. Qed.

  Lemma mono_list d l : Forall (tgood d) l ->
    mean (S d) l = mean d l /\ cost (S d) l = cost d l /\ good (S d) l.
  Proof.
    unfold mean, cost, good. induction l as [|x l IH]; intros Hl; [repeat split; constructor|].
    inversion Hl; subst. destruct (mono d x H1) as [E1 [E2 E3]]. destruct (IH H2) as [F1 [F2 F3]].
    cbn [map concat]. rewrite !lsum_cons, E1, E2, F1, F2. repeat split. now constructor.
  Qed.

  Lemma mean_app d a b : mean d (a ++ b) = mean d a ++ mean d b.
  Proof. unfold mean. now rewrite map_app, concat_app. Qed.

  Lemma cost_app d a b : cost d (a ++ b) = cost d a + cost d b.
  Proof. unfold cost. rewrite map_app. induction (map (tcost d) a) as [|x l IH]; [reflexivity|]. cbn [app]. rewrite !lsum_cons, IH. lia. Qed.

  Lemma good_app d a b : good d a -> good d b -> good d (a ++ b).
  Proof. unfold good. intros. apply Forall_app. auto. Qed.

  (* what a reference at depth S d' gives *)
  Lemma good_ref d n : tgood d (TRef n) ->
    exists d', d = S d' /\ wf_from def retrieve nval false (txt n) /\ flag_after false (txt n) = false /\
               good d' (txt n).
  Proof. destruct d as [|d']; cbn [tgood]; [contradiction|]. intros [H1 [H2 H3]]. exists d'. auto. Qed.

  (* ---- well-formedness is preserved by a round ------------------------------------------------------ *)
  Lemma wf_join a : forall pd b,
    wf_from def retrieve nval pd a -> wf_from def retrieve nval (flag_after pd a) b ->
    wf_from def retrieve nval pd (a ++ b).
  Proof.
    induction a as [|t a IH]; intros pd b Ha Hb; [exact Hb|].
    destruct t; cbn [app wf_from flag_after] in *.
    - destruct Ha as [H1 [H2 H3]]. auto.
    - auto.
    - destruct Ha as [H1 H3]. auto.
    - destruct Ha as [H1 H3]. auto.
    - destruct Ha as [H1 [H2 H3]]. auto.
  Qed.

  Lemma wf_nsubst n d ts : forall pd,
    wf_from def retrieve nval pd ts -> good d ts -> wf_from def retrieve nval pd (nsubst n ts).
  Proof.
    induction ts as [|t ts IH]; intros pd Hwf Hg; [exact Hwf|].
    inversion Hg as [|? ? Ht Hts]; subst.
    unfold nsubst in *. cbn [flat_map].
    destruct t; cbn [nsubst1 app wf_from] in *.
    - destruct Hwf as [H1 [H2 H3]]. auto.
    - auto.
    - destruct Hwf as [H1 H3]. auto.
    - destruct Hwf as [H1 H3]. auto.
    - destruct Hwf as [H1 [H2 H3]]. subst pd.
      destruct (str_eqb name n) eqn:E.
      + apply str_eqb_eq in E. subst name.
        destruct (good_ref d n Ht) as [d' [-> [Hw [Hf _]]]].
        apply wf_join; [exact Hw|]. rewrite Hf. now apply IH.
      + cbn [app wf_from]. auto.
  Qed.

  Lemma good_nsubst n d ts : good d ts -> good d (nsubst n ts).
  Proof.
    induction ts as [|t ts IH]; intros Hg; [exact Hg|].
    inversion Hg as [|? ? Ht Hts]; subst.
    unfold nsubst in *. cbn [flat_map]. apply good_app; [|now apply IH].
    destruct t; cbn [nsubst1]; try (constructor; [exact Ht|constructor]).
    destruct (str_eqb name n) eqn:E; [|constructor; [exact Ht|constructor]].
    apply str_eqb_eq in E. subst name.
    destruct (good_ref d n Ht) as [d' [-> [_ [_ Hg']]]].
    now destruct (mono_list d' _ Hg') as [_ [_ H]].
  Qed.

  Lemma has_text_nsubst n ts : has_text ts = true -> has_text (nsubst n ts) = true.
  Proof.
    unfold has_text, nsubst. intros H. apply existsb_exists in H as [t [Hin Ht]].
    apply existsb_exists. exists t. split; [|exact Ht].
    apply in_flat_map. exists t. split; [exact Hin|]. destruct t; try (now left). discriminate.
  Qed.

  Lemma mean_nsubst n d ts : good d ts -> mean d (nsubst n ts) = mean d ts.
  Proof.
    induction ts as [|t ts IH]; intros Hg; [reflexivity|].
    inversion Hg as [|? ? Ht Hts]; subst.
    unfold nsubst in *. cbn [flat_map]. rewrite mean_app, (IH Hts).
    change (t :: ts) with ([t] ++ ts). rewrite (mean_app d [t] ts). f_equal.
    destruct t; try reflexivity. cbn [nsubst1]. destruct (str_eqb name n) eqn:E; [|reflexivity].
    apply str_eqb_eq in E. subst name.
    destruct (good_ref d n Ht) as [d' [-> [_ [_ Hg']]]].
    destruct (mono_list d' _ Hg') as [E1 _]. rewrite E1.
    unfold mean. cbn [map concat tmean]. now rewrite app_nil_r.
  Qed.

  Lemma cost_nsubst_le n d ts : good d ts -> cost d (nsubst n ts) <= cost d ts.
  Proof.
    induction ts as [|t ts IH]; intros Hg; [apply le_n|].
    inversion Hg as [|? ? Ht Hts]; subst.
    unfold nsubst in *. cbn [flat_map]. rewrite cost_app.
    change (t :: ts) with ([t] ++ ts). rewrite (cost_app d [t] ts).
    apply Nat.add_le_mono; [|now apply IH].
    destruct t; try apply le_n. cbn [nsubst1]. destruct (str_eqb name n) eqn:E; [|apply le_n].
    apply str_eqb_eq in E. subst name.
    destruct (good_ref d n Ht) as [d' [-> [_ [_ Hg']]]].
    destruct (mono_list d' _ Hg') as [_ [E2 _]]. rewrite E2.
    unfold cost at 2. cbn [map tcost]. rewrite lsum_cons. fold (cost d' (txt n)). cbn [list_sum fold_right]. lia.
  Qed.

  Lemma cost_nsubst_lt n d ts : good d ts -> first_ref ts = Some n -> cost d (nsubst n ts) < cost d ts.
  Proof.
    induction ts as [|t ts IH]; intros Hg Hf; [discriminate|].
    inversion Hg as [|? ? Ht Hts]; subst.
    unfold nsubst in *. cbn [flat_map]. rewrite cost_app.
    change (t :: ts) with ([t] ++ ts). rewrite (cost_app d [t] ts).
    destruct t; cbn [first_ref] in Hf; try (apply Nat.add_lt_mono_l; now apply IH).
    inversion Hf; subst name. cbn [nsubst1]. rewrite str_eqb_refl.
    destruct (good_ref d n Ht) as [d' [-> [_ [_ Hg']]]].
    destruct (mono_list d' _ Hg') as [_ [E2 _]]. rewrite E2.
    pose proof (cost_nsubst_le n (S d') ts Hts) as Hle. unfold nsubst in Hle.
    unfold cost at 3. cbn [map tcost]. rewrite lsum_cons. fold (cost d' (txt n)). cbn [list_sum fold_right]. lia.
  Qed.

  Lemma mean_no_ref d ts : first_ref ts = None -> mean d ts = sem nval ts.
  Proof.
    induction ts as [|t ts IH]; intros H; [reflexivity|].
    change (t :: ts) with ([t] ++ ts). rewrite mean_app, sem_app.
    destruct t; cbn [first_ref] in H; try discriminate; rewrite (IH H); f_equal;
      unfold mean, sem; destruct d; reflexivity.
  Qed.

  (* ---- anchoring, nested: the token list can never shrink to ONE bare reference ------------------------ *)
  (* a token whose final meaning is not empty *)
  Definition nheavy (d : nat) (t : tok) : bool :=
    match t with TRef _ => negb (str_empty (tmean d t)) | _ => true end.
  Definition nweight (d : nat) (ts : list tok) : nat := length (filter (nheavy d) ts).
  Definition nanchored (d : nat) (ts : list tok) : Prop := has_text ts = true \/ 2 <= nweight d ts.

  Lemma nweight_app d a b : nweight d (a ++ b) = nweight d a + nweight d b.
  Proof. unfold nweight. now rewrite filter_app, app_length. Qed.

  Lemma tmean_nonref d t : is_ref t = false -> tmean d t = tsem0 t.
  Proof. destruct t; try discriminate; destruct d; reflexivity. Qed.

  Lemma nheavy_mono d t : tgood d t -> nheavy (S d) t = nheavy d t.
  Proof. intros H. destruct t; try reflexivity. unfold nheavy. now destruct (mono d _ H) as [-> _]. Qed.

  (* a non-empty concatenation has a non-empty member *)
  Lemma mean_nonempty_weight d l : mean d l <> [] -> 1 <= nweight d l.
  Proof.
    unfold mean, nweight. induction l as [|t l IH]; intros H; [now contradiction H|].
    cbn [map concat filter] in *. destruct (nheavy d t) eqn:E; [cbn [length]; lia|].
    destruct t; try discriminate. unfold nheavy in E. apply negb_false_iff in E.
    destruct (tmean d (TRef name)); [|discriminate]. now apply IH.
  Qed.

  Lemma nweight_nsubst n d ts : good d ts -> nweight d ts <= nweight d (nsubst n ts).
  Proof.
    induction ts as [|t ts IH]; intros Hg; [apply le_n|].
    inversion Hg as [|? ? Ht Hts]; subst.
    unfold nsubst in *. cbn [flat_map]. rewrite nweight_app.
    change (t :: ts) with ([t] ++ ts). rewrite (nweight_app d [t] ts).
    apply Nat.add_le_mono; [|now apply IH].
    destruct t; try apply le_n. cbn [nsubst1]. destruct (str_eqb name n) eqn:E; [|apply le_n].
    apply str_eqb_eq in E. subst name.
    destruct (good_ref d n Ht) as [d' [-> [_ [_ Hg']]]].
    unfold nweight at 1. cbn [filter]. destruct (nheavy (S d') (TRef n)) eqn:Eh; [|apply Nat.le_0_l].
    cbn [length]. unfold nheavy in Eh. apply negb_true_iff in Eh.
    assert (Hne : mean d' (txt n) <> []).
    { change (tmean (S d') (TRef n)) with (mean d' (txt n)) in Eh. intros E0. rewrite E0 in Eh. discriminate. }
    pose proof (mean_nonempty_weight d' _ Hne) as Hw.
    assert (Hmono : nweight (S d') (txt n) = nweight d' (txt n)).
    { unfold nweight. f_equal. clear -Hg'. induction Hg' as [|x l Hx Hl IHl]; [reflexivity|].
      cbn [filter]. now rewrite (nheavy_mono d' x Hx), IHl. }
    lia.
  Qed.

  Lemma nanchored_nsubst n d ts : good d ts -> nanchored d ts -> nanchored d (nsubst n ts).
  Proof.
    intros Hg [H|H]; [left; now apply has_text_nsubst|right].
    pose proof (nweight_nsubst n d ts Hg). lia.
  Qed.

  Lemma nheavy_heavy d t : nheavy d t = true -> heavy nval t = true.
  Proof.
    destruct t; try reflexivity. unfold nheavy, heavy, nval. intros H. apply negb_true_iff in H.
    apply negb_true_iff. destruct (txt name) as [|t0 l] eqn:E.
    - destruct d; cbn [tmean] in H; [discriminate|]. rewrite E in H. discriminate.
    - pose proof (tok_text_len t0). rewrite flatten_cons. destruct (tok_text t0); [cbn in *; lia|reflexivity].
  Qed.

  Lemma nanchored_anchored d ts : nanchored d ts -> anchored nval ts.
  Proof.
    intros [H|H]; [now left|right]. unfold nweight in H. unfold weight.
    assert (Hle : length (filter (nheavy d) ts) <= length (filter (heavy nval) ts)).
    { clear H. induction ts as [|t ts IH]; [apply le_n|]. cbn [filter].
      destruct (nheavy d t) eqn:E.
      - rewrite (nheavy_heavy d t E). cbn [length]. lia.
      - destruct (heavy nval t); cbn [length]; lia. }
    lia.
  Qed.

  (* ---- rounds ------------------------------------------------------------------------------------------ *)
  Lemma nested_round ts n d :
    wf def retrieve nval ts -> nanchored d ts -> first_ref ts = Some n ->
    expand_string def retrieve (flatten ts) = Ok (CStr (flatten (nsubst n ts)), true).
  Proof.
    intros Hwf Ht Hf. rewrite <- flatten_nsubst. apply one_round; [exact Hwf|now apply (nanchored_anchored d)|exact Hf].
  Qed.

  Lemma nested_rounds k : forall d ts,
    cost d ts <= k -> wf def retrieve nval ts -> good d ts -> nanchored d ts ->
    exists s, str_rec def retrieve (S k) (flatten ts) = Some s /\ unescape s = mean d ts.
  Proof.
    induction k as [|k IH]; intros d ts Hk Hwf Hg Ht; destruct (first_ref ts) as [n|] eqn:Hf.
    - pose proof (cost_nsubst_lt n d ts Hg Hf). lia.
    - exists (flatten ts). split.
      + cbn [str_rec]. now rewrite (last_round def retrieve nval).
      + rewrite (unescape_tokens def retrieve nval ts false Hwf Hf). symmetry. now apply mean_no_ref.
    - destruct (IH d (nsubst n ts)) as [s [Hs Hm]].
      + pose proof (cost_nsubst_lt n d ts Hg Hf). lia.
      + now apply (wf_nsubst n d).
      + now apply good_nsubst.
      + now apply nanchored_nsubst.
      + exists s. split; [|now rewrite Hm, mean_nsubst].
        change (str_rec def retrieve (S (S k)) (flatten ts)) with
          (match expand_string def retrieve (flatten ts) with
           | Ok (CStr o1, true) => str_rec def retrieve (S k) o1 | Ok (CStr o1, false) => Some o1 | _ => None end).
        now rewrite (nested_round ts n d Hwf Ht Hf).
    - exists (flatten ts). split.
      + cbn [str_rec]. now rewrite (last_round def retrieve nval).
      + rewrite (unescape_tokens def retrieve nval ts false Hwf Hf). symmetry. now apply mean_no_ref.
  Qed.

  (* every occurrence of the expanded reference is one node of the expansion tree less *)
  Lemma cost_nsubst_exact n d ts : good d ts -> cost d (nsubst n ts) + cntref n ts = cost d ts.
  Proof.
    induction ts as [|t ts IH]; intros Hg; [reflexivity|].
    inversion Hg as [|? ? Ht Hts]; subst. specialize (IH Hts).
    unfold nsubst in *. cbn [flat_map]. rewrite cost_app.
    change (t :: ts) with ([t] ++ ts). rewrite (cost_app d [t] ts).
    unfold cntref in *. cbn [app filter].
    destruct t; cbn [nsubst1]; try (unfold cost at 1 3; destruct d; cbn; lia).
    destruct (str_eqb name n) eqn:E.
    - apply str_eqb_eq in E. subst name.
      destruct (good_ref d n Ht) as [d' [-> [_ [_ Hg']]]].
      destruct (mono_list d' _ Hg') as [_ [E2 _]]. rewrite E2.
      unfold cost at 3. cbn [map tcost]. rewrite lsum_cons. fold (cost d' (txt n)).
      cbn [list_sum fold_right length]. lia.
    - lia.
  Qed.

  Lemma nested_rounds_b fuel : forall d ts used,
    cost d ts < fuel -> used + cost d ts <= max_expansions ->
    wf def retrieve nval ts -> good d ts -> nanchored d ts ->
    exists s, expand_rec def retrieve fuel used (CStr (flatten ts)) = Ok (CStr s) /\ unescape s = mean d ts.
  Proof.
    induction fuel as [|f IH]; intros d ts used Hk Hb Hwf Hg Ht; [lia|].
    destruct (first_ref ts) as [n|] eqn:Hf.
    - pose proof (cost_nsubst_exact n d ts Hg) as He.
      pose proof (cost_nsubst_lt n d ts Hg Hf) as Hlt.
      pose proof (spent_round def retrieve nval ts n Hwf (nanchored_anchored d ts Ht) Hf) as Hs.
      destruct (IH d (nsubst n ts) (used + cntref n ts)) as [s [Hs' Hm]]; try lia.
      + now apply (wf_nsubst n d).
      + now apply good_nsubst.
      + now apply nanchored_nsubst.
      + exists s. split; [|now rewrite Hm, mean_nsubst].
        rewrite (expand_rec_changed def retrieve _ _ _ (CStr (flatten (nsubst n ts)))).
        * now rewrite Hs.
        * rewrite expand_value_str. now apply (nested_round ts n d).
        * rewrite Hs. lia.
    - exists (flatten ts). split.
      + apply expand_rec_unchanged. rewrite expand_value_str. now apply (last_round def retrieve nval).
      + rewrite (unescape_tokens def retrieve nval ts false Hwf Hf). symmetry. now apply mean_no_ref.
  Qed.

  Lemma nested_main d ts :
    wf def retrieve nval ts -> good d ts -> nanchored d ts -> cost d ts <= max_expansions ->
    resolve_string def retrieve (flatten ts) = Ok (CStr (mean d ts)).
  Proof.
    intros Hwf Hg Ht Hc. unfold resolve_string, resolve_leaf. rewrite rec_fuel_S.
    destruct (nested_rounds_b (S (S max_expansions)) d ts 0) as [s [Hs Hm]]; auto; try lia.
    rewrite Hs. cbn [escape_dollars]. now rewrite Hm.
  Qed.

  (* the number of rounds really is bounded by the measure: with fuel S (cost d ts) the recursion ends *)
  Lemma nested_rounds_within_cost d ts :
    wf def retrieve nval ts -> good d ts -> nanchored d ts -> cost d ts <= max_expansions ->
    exists s, expand_rec def retrieve (S (cost d ts)) 0 (CStr (flatten ts)) = Ok (CStr s) /\ unescape s = mean d ts.
  Proof. intros Hwf Hg Ht Hc. apply nested_rounds_b; auto; lia. Qed.

  (* a reference answered with the text of that very reference: every round reproduces the string *)
  Lemma nsubst_identity n ts : txt n = [TRef n] -> nsubst n ts = ts.
  Proof.
    intros Hn. induction ts as [|t ts IH]; [reflexivity|]. unfold nsubst in *. cbn [flat_map]. rewrite IH.
    destruct t; try reflexivity. cbn [nsubst1]. destruct (str_eqb name n) eqn:E; [|reflexivity].
    apply str_eqb_eq in E. subst. now rewrite Hn.
  Qed.

  Lemma identity_cycle_refused d ts n :
    wf def retrieve nval ts -> nanchored d ts -> first_ref ts = Some n -> txt n = [TRef n] ->
    resolve_string def retrieve (flatten ts) = Err [ETooMany].
  Proof.
    intros Hwf Ha Hf Hn. unfold resolve_string, resolve_leaf.
    rewrite (expand_rec_diverges def retrieve (fun v => v = CStr (flatten ts))); [reflexivity| |reflexivity].
    intros v ->. exists (CStr (flatten ts)). split; [|reflexivity].
    rewrite expand_value_str, (nested_round ts n d Hwf Ha Hf), (nsubst_identity n ts Hn). reflexivity.
  Qed.
End Nested.
