(* C12/Clauses.v — DECIDABLE checkers of the property's clauses over the OBSERVED behaviour of the
   implementation (a recorded case = configuration, sources, observation).  They do not run the model's step
   functions (expand_value / find_uri / replace_unescaped): the reference side is the token meaning
   ([tokenize] + [mean]), [unescape], [merge_map].  Soundness lemmas relate every checker to the Prop-level
   clause stated by the theorem of the same name in Properties.v.  Evaluated over ALL cases by props/C12/check.py
   (independent oracle) and used to name the violated clause when model and implementation disagree. *)
From Verif Require Import Common.Base C12.Model C12.Proofs1 C12.Proofs2 C12.Proofs3 C12.Proofs4 C12.Proofs7 C12.Harness.
From Coq Require Import Ascii.

(* ---- tokenizer --------------------------------------------------------------------------------------- *)
Fixpoint tokenize_f (fuel : nat) (s : str) : option (list tok) :=
  match fuel with
  | 0 => None
  | S f =>
      match s with
      | [] => Some []
      | c :: r =>
          if is_dollar c then
            match r with
            | [] => Some [TDollar]
            | d :: r' =>
                if is_dollar d then option_map (cons TEsc) (tokenize_f f r')
                else if Ascii.eqb d cOpen then
                  match split_close r' with
                  | Some (name, rest) =>
                      if has_char cDollar name then None
                      else option_map (cons (TRef name)) (tokenize_f f rest)
                  | None => None
                  end
                else option_map (cons TDollar) (tokenize_f f r)
            end
          else if Ascii.eqb c cClose then option_map (cons TClose) (tokenize_f f r)
          else option_map (cons (TChar c)) (tokenize_f f r)
      end
  end.
Definition tokenize (s : str) : option (list tok) := tokenize_f (S (length s)) s.

Lemma tokenize_f_flatten f : forall s ts, tokenize_f f s = Some ts -> flatten ts = s.
Proof.
  induction f as [|f IH]; intros s ts H; [discriminate|]. cbn [tokenize_f] in H.
  destruct s as [|c r]; [inversion H; reflexivity|].
  destruct (is_dollar c) eqn:Ec.
  - apply is_dollar_true in Ec. subst c. destruct r as [|d r']; [inversion H; reflexivity|].
    destruct (is_dollar d) eqn:Ed.
    + apply is_dollar_true in Ed. subst d.
      destruct (tokenize_f f r') as [t|] eqn:E; [|discriminate]. inversion H; subst.
      rewrite flatten_cons, (IH _ _ E). reflexivity.
    + destruct (Ascii.eqb d cOpen) eqn:Eo.
      * apply Ascii.eqb_eq in Eo. subst d.
        destruct (split_close r') as [[name rest]|] eqn:Es; [|discriminate].
        destruct (has_char cDollar name); [discriminate|].
        destruct (tokenize_f f rest) as [t|] eqn:E; [|discriminate]. inversion H; subst.
        apply split_close_spec in Es as [-> _].
        rewrite flatten_cons, (IH _ _ E). unfold tok_text, ref_text. cbn [app]. now rewrite <- app_assoc.
      * destruct (tokenize_f f (d :: r')) as [t|] eqn:E; [|discriminate]. inversion H; subst.
        rewrite flatten_cons, (IH _ _ E). reflexivity.
  - destruct (Ascii.eqb c cClose) eqn:Ecl.
    + apply Ascii.eqb_eq in Ecl. subst c.
      destruct (tokenize_f f r) as [t|] eqn:E; [|discriminate]. inversion H; subst.
      rewrite flatten_cons, (IH _ _ E). reflexivity.
    + destruct (tokenize_f f r) as [t|] eqn:E; [|discriminate]. inversion H; subst.
      rewrite flatten_cons, (IH _ _ E). reflexivity.
Qed.

Lemma tokenize_flatten s ts : tokenize s = Some ts -> flatten ts = s.
Proof. apply tokenize_f_flatten. Qed.

(* completeness: a string that HAS a well-formed tokenization is tokenized, and to exactly that token list (so the
   tokenization is unique and the checker is never silent on a string the token theorems speak about) *)
Lemma tokenize_f_complete def retrieve val ts : forall pd fuel,
  wf_from def retrieve val pd ts -> length (flatten ts) < fuel -> tokenize_f fuel (flatten ts) = Some ts.
Proof.
  induction ts as [|t ts IH]; intros pd fuel Hwf Hlen.
  - destruct fuel; [cbn in Hlen; lia|reflexivity].
  - destruct fuel as [|f]; [lia|]. rewrite flatten_cons in *. rewrite app_length in Hlen.
    destruct t; cbn [wf_from tok_text app] in *.
    + destruct Hwf as [Hc [_ Hr]]. cbn [tokenize_f]. rewrite (char_ok_nd c Hc), (char_ok_nc c Hc).
      rewrite (IH false f Hr) by (cbn [length] in *; rewrite ?app_length in *; cbn [length] in *; lia). reflexivity.
    + cbn [tokenize_f]. change (is_dollar cClose) with false. cbv iota. rewrite Ascii.eqb_refl.
      rewrite (IH false f Hwf) by (cbn [length] in *; rewrite ?app_length in *; cbn [length] in *; lia). reflexivity.
    + destruct Hwf as [_ Hr]. cbn [tokenize_f]. change (is_dollar cDollar) with true. cbv iota.
      rewrite (IH false f Hr) by (cbn [length] in *; rewrite ?app_length in *; cbn [length] in *; lia). reflexivity.
    + destruct Hwf as [_ Hr]. cbn [tokenize_f]. change (is_dollar cDollar) with true. cbv iota.
      destruct ts as [|t2 ts2]; [reflexivity|].
      pose proof (IH true f Hr) as IH'. rewrite flatten_cons in *.
      destruct t2; cbn [wf_from tok_text app] in *.
      * destruct Hr as [Hc [Hne _]]. rewrite (char_ok_nd c Hc).
        assert (Ho : Ascii.eqb c cOpen = false) by (apply Ascii.eqb_neq; auto).
        rewrite Ho. rewrite IH' by (cbn [length] in *; rewrite ?app_length in *; cbn [length] in *; lia). reflexivity.
      * change (is_dollar cClose) with false. cbv iota. change (Ascii.eqb cClose cOpen) with false. cbv iota.
        rewrite IH' by (cbn [length] in *; rewrite ?app_length in *; cbn [length] in *; lia). reflexivity.
      * destruct Hr as [Hr _]. discriminate.
      * destruct Hr as [Hr _]. discriminate.
      * destruct Hr as [Hr _]. discriminate.
    + destruct Hwf as [_ [[Hn _] Hr]]. unfold name_ok in Hn. apply andb_true_iff in Hn as [H1 H2].
      apply negb_true_iff in H1, H2.
      unfold ref_text in *. cbn [app tokenize_f]. change (is_dollar cDollar) with true. cbv iota.
      change (is_dollar cOpen) with false. cbv iota. rewrite Ascii.eqb_refl.
      rewrite <- app_assoc. cbn [app]. rewrite (split_close_app name (flatten ts) H2), H1.
      rewrite (IH false f Hr). reflexivity.
      cbn [length] in Hlen. rewrite app_length in Hlen. cbn [length] in Hlen. lia.
Qed.

Lemma tokenize_complete def retrieve val ts :
  wf def retrieve val ts -> tokenize (flatten ts) = Some ts.
Proof. intros H. apply (tokenize_f_complete def retrieve val ts false); [exact H|lia]. Qed.

(* ---- equality on values ---------------------------------------------------------------------------------- *)
Lemma cv_eqb_eq a : forall c, cv_eqb a c = true <-> a = c.
Proof.
  induction a as [|b0|z0|z0|s|l IH|m IH|x o IH] using cv_ind'; intros c; destruct c; cbn [cv_eqb];
    try (split; [discriminate|intros E; inversion E]); try (split; reflexivity).
  - rewrite Bool.eqb_true_iff. split; [now intros ->|now inversion 1].
  - rewrite Z.eqb_eq. split; [now intros ->|now inversion 1].
  - rewrite Z.eqb_eq. split; [now intros ->|now inversion 1].
  - rewrite str_eqb_eq. split; [now intros ->|now inversion 1].
  - revert l0. induction IH as [|x r Hx Hr IHr]; intros [|y r'].
    + split; reflexivity.
    + split; [discriminate|inversion 1].
    + split; [discriminate|inversion 1].
    + rewrite andb_true_iff, Hx. specialize (IHr r'). split.
      * intros [-> H]. apply IHr in H. now inversion H.
      * inversion 1; subst. split; [reflexivity|]. now apply IHr.
  - revert m0. induction IH as [|[k x] r Hx Hr IHr]; intros [|[k' y] r'].
    + split; reflexivity.
    + split; [discriminate|inversion 1].
    + split; [discriminate|inversion 1].
    + cbn [snd] in Hx. rewrite !andb_true_iff, str_eqb_eq, Hx. specialize (IHr r'). split.
      * intros [[-> ->] H]. apply IHr in H. now inversion H.
      * inversion 1; subst. split; [split; reflexivity|]. now apply IHr.
  - rewrite andb_true_iff, IH, str_eqb_eq. split; [now intros [-> ->]|now inversion 1].
Qed.

Section Clauses.
  Variable def : str.
  Variable retrieve : str -> str -> res retrieved.

  (* the provider's text for a reference, and its tokens *)
  Definition ref_text_of (n : str) : option str :=
    match expand_uri def retrieve (ref_text n) with
    | Ok ret => as_string ret
    | Err _ => None
    end.
  Definition ctxt (n : str) : list tok :=
    match ref_text_of n with
    | Some t => match tokenize t with Some ts => ts | None => [] end
    | None => []
    end.
  Definition ref_good_b (n : str) : bool :=
    name_ok n && ref_ok def n &&
    match ref_text_of n with
    | Some t => match tokenize t with Some _ => true | None => false end
    | None => false
    end.

  Lemma ref_good_b_sound n : ref_good_b n = true -> ref_good def retrieve (nval ctxt) n.
  Proof.
    unfold ref_good_b, ref_good, nval, ctxt, ref_text_of. intros H.
    apply andb_true_iff in H as [H H3]. apply andb_true_iff in H as [H1 H2].
    split; [exact H1|split; [exact H2|]].
    destruct (expand_uri def retrieve (ref_text n)) as [ret|e]; [|discriminate].
    exists ret. split; [reflexivity|].
    destruct (as_string ret) as [t|]; [|discriminate].
    destruct (tokenize t) as [ts|] eqn:E; [|discriminate]. now rewrite (tokenize_flatten _ _ E).
  Qed.

  Fixpoint wf_b (pd : bool) (ts : list tok) : bool :=
    match ts with
    | [] => true
    | TChar c :: r => char_ok c && (negb pd || negb (Ascii.eqb c cOpen)) && wf_b false r
    | TClose :: r => wf_b false r
    | TEsc :: r => negb pd && wf_b false r
    | TDollar :: r => negb pd && wf_b true r
    | TRef n :: r => negb pd && ref_good_b n && wf_b false r
    end.

  Lemma wf_b_sound ts : forall pd, wf_b pd ts = true -> wf_from def retrieve (nval ctxt) pd ts.
  Proof.
    induction ts as [|t ts IH]; intros pd H; [exact I|].
    destruct t; cbn [wf_b wf_from] in *.
    - apply andb_true_iff in H as [H H3]. apply andb_true_iff in H as [H1 H2].
      split; [exact H1|split; [|auto]]. intros -> E. subst c. discriminate.
    - auto.
    - apply andb_true_iff in H as [H1 H2]. apply negb_true_iff in H1. auto.
    - apply andb_true_iff in H as [H1 H2]. apply negb_true_iff in H1. auto.
    - apply andb_true_iff in H as [H H3]. apply andb_true_iff in H as [H1 H2]. apply negb_true_iff in H1.
      split; [exact H1|split; [now apply ref_good_b_sound|auto]].
  Qed.

  Fixpoint tgood_b (d : nat) (t : tok) : bool :=
    match t with
    | TRef n =>
        match d with
        | 0 => false
        | S d' => wf_b false (ctxt n) && negb (flag_after false (ctxt n)) && forallb (tgood_b d') (ctxt n)
        end
    | _ => true
    end.

  Lemma tgood_b_sound d : forall t, tgood_b d t = true -> tgood def retrieve ctxt d t.
  Proof.
    induction d as [|d IH]; intros t H; destruct t; try exact I; cbn [tgood_b tgood] in *; [discriminate|].
    apply andb_true_iff in H as [H H3]. apply andb_true_iff in H as [H1 H2]. apply negb_true_iff in H2.
    split; [now apply wf_b_sound|split; [exact H2|]].
    apply Forall_forall. intros x Hx. apply IH. rewrite forallb_forall in H3. auto.
  Qed.

  Definition applicable (d : nat) (ts : list tok) : bool :=
    wf_b false ts && forallb (tgood_b d) ts &&
    (has_text ts || (2 <=? nweight ctxt d ts)) && (cost ctxt d ts <=? max_expansions).

  Lemma applicable_sound d ts : applicable d ts = true ->
    wf def retrieve (nval ctxt) ts /\ good def retrieve ctxt d ts /\ nanchored ctxt d ts /\ cost ctxt d ts <= max_expansions.
  Proof.
    unfold applicable. intros H. apply andb_true_iff in H as [H H4]. apply andb_true_iff in H as [H H3].
    apply andb_true_iff in H as [H1 H2]. repeat split.
    - now apply wf_b_sound.
    - apply Forall_forall. intros x Hx. apply tgood_b_sound. rewrite forallb_forall in H2. auto.
    - apply orb_true_iff in H3 as [H3|H3]; [now left|right; now apply Nat.leb_le].
    - now apply Nat.leb_le.
  Qed.

  (* ---- clause: a string that tokenizes resolves to its (recursive) token meaning ----------------------- *)
  Definition depth : nat := 6.

  (* what the clause says about the observed leaf [obs] (None = the key is missing from the result) *)
  Definition TokClause (s : str) (obs : option cv) : Prop :=
    forall d ts, flatten ts = s -> wf def retrieve (nval ctxt) ts -> good def retrieve ctxt d ts ->
                 nanchored ctxt d ts -> cost ctxt d ts <= max_expansions -> obs = Some (CStr (mean ctxt d ts)).

  Definition tok_applicable (s : str) : bool :=
    match tokenize s with Some ts => applicable depth ts | None => false end.

  Definition tok_clause (s : str) (obs : option cv) : bool :=
    match tokenize s with
    | Some ts => if applicable depth ts then option_eqb cv_eqb obs (Some (CStr (mean ctxt depth ts))) else true
    | None => true
    end.

  Lemma option_cv_eqb_eq a b : option_eqb cv_eqb a b = true <-> a = b.
  Proof.
    destruct a, b; cbn; try (split; [discriminate|inversion 1]); try (split; reflexivity).
    rewrite cv_eqb_eq. split; [now intros ->|now inversion 1].
  Qed.

  (* where the checker speaks it decides the clause; a reported violation is a real violation *)
  Lemma tok_clause_sound s obs : tok_applicable s = true -> (tok_clause s obs = true <-> TokClause s obs).
  Proof.
    unfold tok_applicable, tok_clause. destruct (tokenize s) as [ts|] eqn:E; [|discriminate].
    intros Ha. rewrite Ha. pose proof (tokenize_flatten _ _ E) as Hf.
    destruct (applicable_sound _ _ Ha) as [Hw [Hg [Hn Hc]]].
    rewrite option_cv_eqb_eq. split.
    - intros -> d' ts' Hf' Hw' Hg' Hn' Hc'.
      pose proof (nested_main def retrieve ctxt depth ts Hw Hg Hn Hc) as R1.
      pose proof (nested_main def retrieve ctxt d' ts' Hw' Hg' Hn' Hc') as R2.
      rewrite Hf in R1. rewrite Hf' in R2. rewrite R1 in R2. inversion R2. reflexivity.
    - intros H. now apply (H depth ts).
  Qed.

  Lemma tok_clause_violation_is_real s obs : tok_clause s obs = false -> ~ TokClause s obs.
  Proof.
    intros H Hc. assert (Ha : tok_applicable s = true).
    { unfold tok_applicable, tok_clause in *. destruct (tokenize s); [|discriminate].
      destruct (applicable depth l); [reflexivity|discriminate]. }
    apply (tok_clause_sound s obs Ha) in Hc. congruence.
  Qed.

  (* ---- clause: text without a complete reference is only un-escaped ---------------------------------------- *)
  Definition PlainClause (s : str) (obs : option cv) : Prop := no_ref_b s = true -> obs = Some (CStr (unescape s)).
  Definition plain_clause (s : str) (obs : option cv) : bool :=
    if no_ref_b s then option_eqb cv_eqb obs (Some (CStr (unescape s))) else true.
  Lemma plain_clause_sound s obs : plain_clause s obs = true <-> PlainClause s obs.
  Proof.
    unfold plain_clause, PlainClause. destruct (no_ref_b s).
    - rewrite option_cv_eqb_eq. split; [auto|intros H; now apply H].
    - split; [discriminate|reflexivity].
  Qed.

  (* ---- clause: a value that IS one reference to a typed scalar with a text -------------------------------- *)
  Definition typed_target (s : str) : option (cv * str) :=
    match tokenize s with
    | Some [TRef n] =>
        if name_ok n && ref_ok def n then
          match expand_uri def retrieve (ref_text n) with
          | Ok ret =>
              match as_string ret with
              | Some o => if scalar (r_raw ret) && no_ref_b o then Some (r_raw ret, o) else None
              | None => None
              end
          | Err _ => None
          end
        else None
    | _ => None
    end.
  Definition TypedClause (s : str) (obs : option cv) : Prop :=
    forall n ret o, s = ref_text n -> name_ok n = true -> ref_ok def n = true ->
      expand_uri def retrieve (ref_text n) = Ok ret -> scalar (r_raw ret) = true -> as_string ret = Some o ->
      no_ref_b o = true -> obs = Some (CExp (r_raw ret) (unescape o)).
  Definition typed_clause (s : str) (obs : option cv) : bool :=
    match typed_target s with
    | Some (raw, o) => option_eqb cv_eqb obs (Some (CExp raw (unescape o)))
    | None => true
    end.
  Lemma ref_text_inj n m : ref_text n = ref_text m -> n = m.
  Proof. unfold ref_text. intros H. inversion H as [H1]. now apply app_inj_tail in H1 as [-> _]. Qed.
  Lemma typed_clause_violation_is_real s obs : typed_clause s obs = false -> ~ TypedClause s obs.
  Proof.
    unfold typed_clause, typed_target, TypedClause. intros H Hc.
    destruct (tokenize s) as [[|[] [|]]|] eqn:E; try discriminate.
    pose proof (tokenize_flatten _ _ E) as Hf. unfold flatten in Hf. cbn in Hf. rewrite app_nil_r in Hf.
    destruct (name_ok name && ref_ok def name) eqn:En; [|discriminate]. apply andb_true_iff in En as [E1 E2].
    destruct (expand_uri def retrieve (ref_text name)) as [ret|] eqn:Er; [|discriminate].
    destruct (as_string ret) as [o|] eqn:Eo; [|discriminate].
    destruct (scalar (r_raw ret) && no_ref_b o) eqn:Es; [|discriminate]. apply andb_true_iff in Es as [E3 E4].
    rewrite (Hc name ret o (eq_sym Hf) E1 E2 Er E3 Eo E4) in H.
    assert (option_eqb cv_eqb (Some (CExp (r_raw ret) (unescape o))) (Some (CExp (r_raw ret) (unescape o))) = true)
      by now apply option_cv_eqb_eq.
    congruence.
  Qed.

  (* ---- clause: a value that keeps reproducing itself must be refused --------------------------------------- *)
  (* the first reference of the string is answered with the text of that very reference *)
  Definition identity_cycle (s : str) : bool :=
    match tokenize s with
    | Some ts =>
        wf_b false ts && has_text ts &&
        match first_ref ts with
        | Some n => match ctxt n with [TRef m] => str_eqb m n | _ => false end
        | None => false
        end
    | None => false
    end.
  Lemma identity_cycle_sound s : identity_cycle s = true -> resolve_string def retrieve s = Err [ETooMany].
  Proof.
    unfold identity_cycle. destruct (tokenize s) as [ts|] eqn:E; [|discriminate]. intros H.
    apply andb_true_iff in H as [H H3]. apply andb_true_iff in H as [H1 H2].
    destruct (first_ref ts) as [n|] eqn:Ef; [|discriminate].
    destruct (ctxt n) as [|[] [|]] eqn:Ec; try discriminate. apply str_eqb_eq in H3. subst name.
    rewrite <- (tokenize_flatten _ _ E).
    apply (identity_cycle_refused def retrieve ctxt 0 ts n); auto.
    - now apply wf_b_sound.
    - now left.
  Qed.
End Clauses.

(* no internal pair anywhere in a value *)
Fixpoint has_exp (v : cv) : bool :=
  match v with
  | CExp _ _ => true
  | CList l => existsb has_exp l
  | CMap m => existsb (fun kv => has_exp (snd kv)) m
  | _ => false
  end.


(* ---- the checker on values, and the LINK back to the model -------------------------------------------------- *)
Section Link.
  Variable def : str.
  Variable retrieve : str -> str -> res retrieved.

  Definition leaves_of (m : list (str * cv)) : list (str * str) :=
    flat_map (fun kv : str * cv => match snd kv with CStr s => [(fst kv, s)] | _ => [] end) m.

  (* observation: (unsanitised tree, ToStringMap) or an error *)
  Definition cobs : Type := res (cv * cv).

  Definition codes_single (m : list (str * cv)) (o : cobs) : list nat :=
    let leaves := leaves_of m in
    match o with
    | Ok (t, _) =>
        let look k := match t with CMap tm => lookup k tm | _ => None end in
        (if forallb (fun ks => tok_clause def retrieve (snd ks) (look (fst ks))) leaves then [] else [1])
        ++ (if forallb (fun ks => plain_clause (snd ks) (look (fst ks))) leaves then [] else [2])
        ++ (if forallb (fun ks => typed_clause def retrieve (snd ks) (look (fst ks))) leaves then [] else [3])
        ++ (if existsb (fun ks => identity_cycle def retrieve (snd ks)) leaves then [4] else [])
    | Err _ =>
        (* every leaf is a string that certainly resolves: Resolve must not fail *)
        if Nat.eqb (length leaves) (length m) && negb (Nat.eqb (length m) 0) &&
           forallb (fun ks => tok_applicable def retrieve (snd ks) || no_ref_b (snd ks)) leaves
        then [5] else []
    end.

  (* several sources without any '$': the result is their right-biased merge *)
  Definition codes_multi (srcs : list cv) (o : cobs) : list nat :=
    let ms := flat_map (fun w => match w with CMap mm => [mm] | _ => [] end) srcs in
    if Nat.eqb (length ms) (length srcs) && forallb inert_map ms then
      match o with
      | Ok (_, tsm) => if cv_eqb (canon tsm) (canon (CMap (fold_left merge_map ms []))) then [] else [6]
      | Err _ => [6]
      end
    else [].

  (* clause 7: the public view ToStringMap holds typed values, never the internal expandedValue pair *)
  Definition code_wrapper (o : cobs) : list nat :=
    match o with Ok (_, tsm) => if has_exp tsm then [7] else [] | Err _ => [] end.

  Definition codes_cv (srcs : list cv) (o : cobs) : list nat :=
    match srcs with
    | [CMap m] => codes_single m o
    | _ => codes_multi srcs o
    end ++ code_wrapper o.

  (* the observation the harness would record if the implementation WERE the model *)
  Definition observe (r : res cv) : cobs :=
    match r with Ok t => Ok (t, sanitize t) | Err e => Err e end.

  (* ---- resolve on one source, entry by entry --------------------------------------------------------------- *)
  Lemma resolve_single m :
    resolve def retrieve [CMap m] =
    match m with
    | [] => Ok (CMap [])
    | _ => match resolve_entries def retrieve m with Ok m' => Ok (CMap m') | Err e => Err e end
    end.
  Proof.
    unfold resolve. cbn [merge_sources as_conf]. rewrite merge_map_nil_l. destruct m as [|kv m]; [reflexivity|].
    now rewrite resolve_node_map.
  Qed.

  Lemma lookup_not_in k (m : list (str * cv)) : ~ In k (map fst m) -> lookup k m = None.
  Proof.
    induction m as [|[k' v] m IH]; [reflexivity|]. cbn [map fst In lookup]. intros H.
    destruct (str_eqb k k') eqn:E; [apply str_eqb_eq in E; subst; exfalso; auto|]. apply IH. auto.
  Qed.

  Lemma entries_keys m : forall m', resolve_entries def retrieve m = Ok m' -> map fst m' = map fst m.
  Proof.
    induction m as [|[k x] m IH]; intros m' H; cbn [resolve_entries] in H; [inversion H; reflexivity|].
    destruct (resolve_node def retrieve x) as [x'|e]; destruct (resolve_entries def retrieve m) as [r|e']; try discriminate.
    inversion H; subst. cbn [map fst]. now rewrite (IH r eq_refl).
  Qed.

  Lemma entries_lookup m : forall m' k x,
    resolve_entries def retrieve m = Ok m' -> NoDup (map fst m) -> In (k, x) m ->
    exists v, resolve_node def retrieve x = Ok v /\ lookup k m' = Some v.
  Proof.
    induction m as [|[k0 x0] m IH]; intros m' k x H Hnd Hin; [contradiction|].
    cbn [resolve_entries] in H.
    destruct (resolve_node def retrieve x0) as [x0'|e] eqn:E0;
      destruct (resolve_entries def retrieve m) as [r|e'] eqn:Er; try discriminate.
    inversion H; subst. cbn [map fst] in Hnd. inversion Hnd as [|? ? Hni Hnd']; subst.
    destruct Hin as [Heq|Hin].
    - inversion Heq; subst. exists x0'. split; [exact E0|]. cbn [lookup]. now rewrite str_eqb_refl.
    - destruct (IH r k x eq_refl Hnd' Hin) as [v [Hv Hl]]. exists v. split; [exact Hv|].
      cbn [lookup]. destruct (str_eqb k k0) eqn:E; [|exact Hl].
      apply str_eqb_eq in E. subst. exfalso. apply Hni. change k0 with (fst (k0, x)). now apply in_map.
  Qed.

  Lemma entries_all_ok m :
    (forall k x, In (k, x) m -> exists v, resolve_node def retrieve x = Ok v) ->
    exists m', resolve_entries def retrieve m = Ok m'.
  Proof.
    induction m as [|[k x] m IH]; intros H; [exists []; reflexivity|].
    destruct (H k x (or_introl eq_refl)) as [v Hv]. destruct IH as [r Hr]; [intros; eapply H; right; eauto|].
    exists ((k, v) :: r). cbn [resolve_entries]. now rewrite Hv, Hr.
  Qed.

  Lemma leaves_in m k s : In (k, s) (leaves_of m) -> In (k, CStr s) m.
  Proof.
    unfold leaves_of. intros H. apply in_flat_map in H as [[k' x] [Hin Hx]]. cbn [fst snd] in Hx.
    destruct x; try contradiction. destruct Hx as [Hx|[]]. inversion Hx; subst. exact Hin.
  Qed.

  Lemma leaves_all m : length (leaves_of m) = length m -> forall k x, In (k, x) m -> exists s, x = CStr s.
  Proof.
    unfold leaves_of. induction m as [|[k0 x0] m IH]; intros H k x Hin; [contradiction|].
    cbn [flat_map fst snd] in H. rewrite app_length in H.
    assert (Hle : length (flat_map (fun kv : str * cv => match snd kv with CStr s => [(fst kv, s)] | _ => [] end) m) <= length m).
    { clear. induction m as [|[k x] m IH]; [apply le_n|]. cbn [flat_map fst snd]. rewrite app_length.
      destruct x; cbn [length]; lia. }
    destruct Hin as [Heq|Hin].
    - inversion Heq; subst. destruct x; cbn [length] in H; try lia. eauto.
    - apply (IH) with (k := k); [|exact Hin]. destruct x0; cbn [length] in H; lia.
  Qed.

  Lemma resolve_node_str s : resolve_node def retrieve (CStr s) = resolve_string def retrieve s.
  Proof. reflexivity. Qed.

  (* what each kind of "certainly fine" leaf resolves to *)
  Lemma tok_applicable_resolves s : tok_applicable def retrieve s = true ->
    exists ts, tokenize s = Some ts /\ resolve_string def retrieve s = Ok (CStr (mean (ctxt def retrieve) depth ts)).
  Proof.
    unfold tok_applicable. destruct (tokenize s) as [ts|] eqn:E; [|discriminate]. intros Ha.
    destruct (applicable_sound def retrieve _ _ Ha) as [Hw [Hg [Hn Hc]]].
    exists ts. split; [reflexivity|]. rewrite <- (tokenize_flatten _ _ E). now apply nested_main.
  Qed.

  Lemma sanitize_inert v : inert v = true -> sanitize v = v.
  Proof.
    induction v as [| | | |s|l IH|m IH|v o IH] using cv_ind'; intros Hi; try reflexivity.
    - cbn [inert] in Hi. unfold sanitize. cbn [sanitize_gen]. f_equal.
      induction IH as [|x r Hx Hr IHr]; [reflexivity|].
      cbn [forallb] in Hi. apply andb_true_iff in Hi as [Hi1 Hi2]. cbn [map]. f_equal; [now apply Hx|now apply IHr].
    - cbn [inert] in Hi. unfold sanitize. cbn [sanitize_gen]. f_equal.
      induction IH as [|[k x] r Hx Hr IHr]; [reflexivity|].
      cbn [forallb snd] in Hi. apply andb_true_iff in Hi as [Hi1 Hi2]. cbn [snd] in Hx.
      cbn [map fst snd]. f_equal; [f_equal; now apply Hx|now apply IHr].
    - discriminate.
  Qed.

  (* after fix 43b4ee065: ToStringMap / Get never show the internal pair, whatever the value *)
  Lemma sanitize_wrapper_free v : has_exp (sanitize v) = false.
  Proof.
    unfold sanitize. induction v as [| | | |s|l IH|m IH|x o IH] using cv_ind'; try reflexivity.
    - cbn [sanitize_gen has_exp]. induction IH as [|y r Hy Hr IHr]; [reflexivity|].
      cbn [map existsb]. now rewrite Hy, IHr.
    - cbn [sanitize_gen has_exp]. induction IH as [|[k y] r Hy Hr IHr]; [reflexivity|].
      cbn [map existsb snd] in *. now rewrite Hy, IHr.
    - cbn [sanitize_gen]. exact IH.
  Qed.

  Lemma cv_eqb_refl v : cv_eqb v v = true.
  Proof. now apply cv_eqb_eq. Qed.

  (* ---- THE LINK: what the model produces always passes the checker ------------------------------------------- *)
  Theorem model_passes_single m :
    NoDup (map fst m) -> codes_single m (observe (resolve def retrieve [CMap m])) = [].
  Proof.
    intros Hnd. rewrite resolve_single. destruct m as [|kv0 m0]; [reflexivity|].
    set (m := kv0 :: m0) in *.
    destruct (resolve_entries def retrieve m) as [m'|e] eqn:Er; cbn [observe codes_single].
    - (* the model answers: every clause holds of its answer *)
      assert (Hleaf : forall k s, In (k, s) (leaves_of m) ->
                exists v, resolve_string def retrieve s = Ok v /\ lookup k m' = Some v).
      { intros k s Hin. apply leaves_in in Hin.
        destruct (entries_lookup m m' k (CStr s) Er Hnd Hin) as [v [Hv Hl]]. exists v. now rewrite <- resolve_node_str. }
      assert (H1 : forallb (fun ks => tok_clause def retrieve (snd ks) (lookup (fst ks) m')) (leaves_of m) = true).
      { apply forallb_forall. intros [k s] Hin. cbn [fst snd]. destruct (Hleaf k s Hin) as [v [Hv Hl]].
        unfold tok_clause. destruct (tokenize s) as [ts|] eqn:E; [|reflexivity].
        destruct (applicable def retrieve depth ts) eqn:Ea; [|reflexivity].
        destruct (tok_applicable_resolves s) as [ts' [E' R]]; [unfold tok_applicable; now rewrite E|].
        rewrite E in E'. inversion E'; subst ts'. rewrite Hv in R. inversion R; subst. rewrite Hl.
        now apply option_cv_eqb_eq. }
      assert (H2 : forallb (fun ks => plain_clause (snd ks) (lookup (fst ks) m')) (leaves_of m) = true).
      { apply forallb_forall. intros [k s] Hin. cbn [fst snd]. destruct (Hleaf k s Hin) as [v [Hv Hl]].
        unfold plain_clause. destruct (no_ref_b s) eqn:En; [|reflexivity].
        rewrite (resolve_string_no_ref def retrieve s En) in Hv. inversion Hv; subst. rewrite Hl.
        now apply option_cv_eqb_eq. }
      assert (H3 : forallb (fun ks => typed_clause def retrieve (snd ks) (lookup (fst ks) m')) (leaves_of m) = true).
      { apply forallb_forall. intros [k s] Hin. cbn [fst snd]. destruct (Hleaf k s Hin) as [v [Hv Hl]].
        unfold typed_clause, typed_target.
        destruct (tokenize s) as [[|[] [|]]|] eqn:E; try reflexivity.
        pose proof (tokenize_flatten _ _ E) as Hf. unfold flatten in Hf. cbn in Hf. rewrite app_nil_r in Hf.
        destruct (name_ok name && ref_ok def name) eqn:En; [|reflexivity]. apply andb_true_iff in En as [E1 E2].
        destruct (expand_uri def retrieve (ref_text name)) as [ret|] eqn:Eu; [|reflexivity].
        destruct (as_string ret) as [o|] eqn:Eo; [|reflexivity].
        destruct (scalar (r_raw ret) && no_ref_b o) eqn:Es; [|reflexivity]. apply andb_true_iff in Es as [E3 E4].
        assert (Hs : s = ref_text name) by (rewrite <- Hf; reflexivity).
        rewrite Hs, (resolve_whole_typed def retrieve name ret o E1 E2 Eu E3 Eo E4) in Hv. inversion Hv; subst v.
        rewrite Hl. now apply option_cv_eqb_eq. }
      assert (H4 : existsb (fun ks => identity_cycle def retrieve (snd ks)) (leaves_of m) = false).
      { destruct (existsb _ _) eqn:Ex; [|reflexivity]. apply existsb_exists in Ex as [[k s] [Hin Hc]].
        cbn [snd] in Hc. destruct (Hleaf k s Hin) as [v [Hv _]].
        rewrite (identity_cycle_sound def retrieve s Hc) in Hv. discriminate. }
      rewrite H1, H2, H3, H4. reflexivity.
    - (* the model refuses: then some leaf is not "certainly fine" *)
      destruct (Nat.eqb (length (leaves_of m)) (length m) && negb (Nat.eqb (length m) 0) &&
                forallb (fun ks => tok_applicable def retrieve (snd ks) || no_ref_b (snd ks)) (leaves_of m)) eqn:Ec;
        [|reflexivity].
      exfalso. apply andb_true_iff in Ec as [Ec Hall]. apply andb_true_iff in Ec as [Hlen _].
      apply Nat.eqb_eq in Hlen.
      destruct (entries_all_ok m) as [m' Hm']; [|congruence].
      intros k x Hin. destruct (leaves_all m Hlen k x Hin) as [s ->].
      assert (Hl : In (k, s) (leaves_of m)).
      { unfold leaves_of. apply in_flat_map. exists (k, CStr s). split; [exact Hin|now left]. }
      rewrite forallb_forall in Hall. specialize (Hall (k, s) Hl). cbn [snd] in Hall.
      rewrite resolve_node_str. apply orb_true_iff in Hall as [Ha|Hp].
      + destruct (tok_applicable_resolves s Ha) as [ts [_ R]]. eauto.
      + rewrite (resolve_string_no_ref def retrieve s Hp). eauto.
  Qed.

  Theorem model_passes_multi srcs : codes_multi srcs (observe (resolve def retrieve srcs)) = [].
  Proof.
    unfold codes_multi.
    set (ms := flat_map (fun w => match w with CMap mm => [mm] | _ => [] end) srcs).
    destruct (Nat.eqb (length ms) (length srcs) && forallb inert_map ms) eqn:E; [|reflexivity].
    apply andb_true_iff in E as [Hlen Hin]. apply Nat.eqb_eq in Hlen.
    assert (Hs : srcs = map CMap ms).
    { unfold ms in *. clear Hin. induction srcs as [|w r IH]; [reflexivity|].
      cbn [flat_map] in *. rewrite app_length in Hlen.
      assert (Hle : length (flat_map (fun w => match w with CMap mm => [mm] | _ => [] end) r) <= length r).
      { clear. induction r as [|w r IH]; [apply le_n|]. cbn [flat_map]. rewrite app_length. destruct w; cbn [length]; lia. }
      destruct w; cbn [length] in Hlen; try lia. cbn [app map]. f_equal. apply IH. lia. }
    rewrite Hs, (resolve_inert_is_merge def retrieve ms Hin). cbn [observe].
    rewrite sanitize_inert; [now rewrite cv_eqb_refl|].
    change (inert (CMap (fold_left merge_map ms [])) = true) with (inert_map (fold_left merge_map ms []) = true).
    now apply inert_fold.
  Qed.

  (* one source: its keys are distinct (a Go map); any number of sources otherwise *)
  Definition keys_distinct (srcs : list cv) : Prop :=
    match srcs with [CMap m] => NoDup (map fst m) | _ => True end.

  Theorem model_passes_checker srcs :
    keys_distinct srcs -> codes_cv srcs (observe (resolve def retrieve srcs)) = [].
  Proof.
    intros H. unfold codes_cv.
    assert (Hw : code_wrapper (observe (resolve def retrieve srcs)) = []).
    { unfold code_wrapper, observe. destruct (resolve def retrieve srcs) as [t|e]; [|reflexivity].
      now rewrite sanitize_wrapper_free. }
    rewrite Hw, app_nil_r. destruct srcs as [|w [|w2 r]].
    - exact (model_passes_multi []).
    - destruct w; try exact (model_passes_multi [_]). cbn [keys_distinct] in H. now apply model_passes_single.
    - destruct w; exact (model_passes_multi (_ :: w2 :: r)).
  Qed.
End Link.

(* ---- the recorded case ------------------------------------------------------------------------------------- *)
Definition clause_codes (c : wcase) : list nat :=
  let '(cfg, srcs, obs) := c in
  let '(wdef, schemes, tbl) := cfg in
  codes_cv (s2l wdef) (retrieve_tbl schemes tbl) (map of_w srcs)
           (match obs with
            | WObsOk tree tsm _ => Ok (of_w tree, of_w tsm)
            | WObsErr _ => Err []
            end).

Definition prop_ok (c : wcase) : bool := match clause_codes c with [] => true | _ => false end.

(* the case the harness would record if the implementation were the model *)
Definition model_case (cfg : wcfg) (srcs : list wcv) : wcase :=
  (cfg, srcs,
   match run_model cfg srcs with
   | Ok t => WObsOk (to_w t) (to_w (sanitize t)) []
   | Err _ => WObsErr 0
   end).

Lemma s2l_l2s s : s2l (l2s s) = s.
Proof. apply String.list_ascii_of_string_of_list_ascii. Qed.

Lemma of_w_to_w v : of_w (to_w v) = v.
Proof.
  induction v as [| | | |s|l IH|m IH|x o IH] using cv_ind'; cbn [to_w of_w]; try reflexivity.
  - now rewrite s2l_l2s.
  - f_equal. induction IH as [|x r Hx Hr IHr]; [reflexivity|]. cbn [map]. now rewrite Hx, IHr.
  - f_equal. induction IH as [|[k x] r Hx Hr IHr]; [reflexivity|]. cbn [map fst snd] in *. now rewrite s2l_l2s, Hx, IHr.
  - now rewrite IH, s2l_l2s.
Qed.

Lemma codes_err_irrel def retrieve srcs e e' : codes_cv def retrieve srcs (Err e) = codes_cv def retrieve srcs (Err e').
Proof. unfold codes_cv. destruct srcs as [|w [|w2 r]]; try reflexivity; destruct w; reflexivity. Qed.

Theorem model_case_passes cfg srcs :
  keys_distinct (map of_w srcs) -> prop_ok (model_case cfg srcs) = true.
Proof.
  intros H. unfold prop_ok, model_case, clause_codes, run_model. destruct cfg as [[wdef schemes] tbl].
  pose proof (model_passes_checker (s2l wdef) (retrieve_tbl schemes tbl) (map of_w srcs) H) as Hm.
  destruct (resolve (s2l wdef) (retrieve_tbl schemes tbl) (map of_w srcs)) as [t|e]; cbn [observe] in Hm.
  - now rewrite !of_w_to_w, Hm.
  - now rewrite (codes_err_irrel _ _ _ [] e), Hm.
Qed.

(* ---- regression witness of finding C12-WRAPPERLEAK (repaired by 43b4ee065) ---------------------------------------------------------- *)
(* receivers: ${file:r}   with   file:r = {port: "${env:P}"}   and   env:P = 4317 *)
Require Coq.Strings.String.
Import Coq.Strings.String.StringSyntax.
Local Open Scope string_scope.
Definition leak_retrieve (sch opq : str) : res retrieved :=
  if str_eqb sch (s2l "file") then Ok (mkRet (CMap [(s2l "port", CStr (s2l "${env:P}"))]) (Some (s2l "port: ${env:P}")))
  else Ok (mkRet (CInt 4317) (Some (s2l "4317"))).
Definition leak_srcs : list cv := [CMap [(s2l "receivers", CStr (s2l "${file:r}"))]].

Definition leak_def : str := s2l "env".
(* regression of the repaired finding C12-WRAPPERLEAK: the port is typed in ToStringMap *)
Definition leak_typed_view : cv := CMap [(s2l "receivers", CMap [(s2l "port", CInt 4317)])].
Lemma wrapper_leak_regression :
  exists t, resolve leak_def leak_retrieve leak_srcs = Ok t /\ sanitize t = leak_typed_view.
Proof. eexists. split; vm_compute; reflexivity. Qed.
