(* C12/Proofs4.v — trees: resolution works leaf by leaf on the merged tree; on reference-free
   sources it IS the merge; guard lemma for findURI; '$' in a name at the level of a string. *)
From Verif Require Import Common.Base C12.Model C12.Proofs1 C12.Proofs2.
From Coq Require Import Ascii.

(* ---- induction over values ------------------------------------------------------------------------- *)
Section CvInd.
  Variable P : cv -> Prop.
  Hypothesis Hnil : P CNil.
  Hypothesis Hbool : forall b, P (CBool b).
  Hypothesis Hint : forall z, P (CInt z).
  Hypothesis Hfloat : forall z, P (CFloat z).
  Hypothesis Hstr : forall s, P (CStr s).
  Hypothesis Hlist : forall l, Forall P l -> P (CList l).
  Hypothesis Hmap : forall m, Forall (fun kv => P (snd kv)) m -> P (CMap m).
  Hypothesis Hexp : forall v o, P v -> P (CExp v o).

  Fixpoint cv_ind' (v : cv) : P v :=
    match v with
    | CNil => Hnil
    | CBool b => Hbool b
    | CInt z => Hint z
    | CFloat z => Hfloat z
    | CStr s => Hstr s
    | CList l =>
        Hlist l ((fix go (l : list cv) : Forall P l :=
                    match l with
                    | [] => Forall_nil _
                    | x :: r => Forall_cons x (cv_ind' x) (go r)
                    end) l)
    | CMap m =>
        Hmap m ((fix go (m : list (str * cv)) : Forall (fun kv => P (snd kv)) m :=
                   match m with
                   | [] => Forall_nil _
                   | kv :: r => Forall_cons kv (cv_ind' (snd kv)) (go r)
                   end) m)
    | CExp x o => Hexp x o (cv_ind' x)
    end.
End CvInd.

(* a value without '$' anywhere and without expandedValue nodes: nothing to expand, nothing to un-escape *)
Fixpoint inert (v : cv) : bool :=
  match v with
  | CStr s => negb (has_char cDollar s)
  | CList l => forallb inert l
  | CMap m => forallb (fun kv => inert (snd kv)) m
  | CExp _ _ => false
  | _ => true
  end.

Definition inert_map (m : list (str * cv)) : bool := forallb (fun kv => inert (snd kv)) m.

Lemma dollar_free_no_open s : has_char cDollar s = false -> contains [cDollar; cOpen] s = false.
Proof.
  induction s as [|c s IH]; intros H; [reflexivity|].
  unfold has_char in H. cbn [existsb] in H. apply orb_false_iff in H as [H1 H2].
  cbn [contains prefix]. rewrite (Ascii.eqb_sym cDollar c) in H1. rewrite Ascii.eqb_sym, H1.
  unfold has_char in IH. now rewrite (IH H2).
Qed.

Lemma dollar_free_no_dd s : has_char cDollar s = false -> no_dd s = true.
Proof.
  induction s as [|c s IH]; intros H; [reflexivity|].
  unfold has_char in H. cbn [existsb] in H. apply orb_false_iff in H as [H1 H2].
  destruct s as [|d r]; [reflexivity|]. cbn [no_dd].
  unfold is_dollar at 1. rewrite (Ascii.eqb_sym c cDollar), H1. cbn [andb negb].
  unfold has_char in IH. now apply IH.
Qed.

Section Trees.
  Variable def : str.
  Variable retrieve : str -> str -> res retrieved.

  Lemma expand_value_inert v : inert v = true -> expand_value def retrieve v = Ok (v, false).
  Proof.
    induction v as [| | | |s|l IH|m IH|v o IH] using cv_ind'; intros Hi; try reflexivity.
    - cbn [inert] in Hi. apply negb_true_iff in Hi. cbn [expand_value]. unfold expand_string.
      now rewrite (dollar_free_no_open s Hi).
    - cbn [inert] in Hi. cbn [expand_value].
      match goal with |- match ?g l with _ => _ end = _ => assert (Hg : g l = Ok (l, false)) end.
      { induction IH as [|x r Hx Hr IHr]; [reflexivity|].
        cbn [forallb] in Hi. apply andb_true_iff in Hi as [Hi1 Hi2].
        rewrite (Hx Hi1), (IHr Hi2). reflexivity. }
      now rewrite Hg.
    - cbn [inert] in Hi. cbn [expand_value].
      match goal with |- match ?g m with _ => _ end = _ => assert (Hg : g m = Ok (m, false)) end.
      { induction IH as [|[k x] r Hx Hr IHr]; [reflexivity|].
        cbn [forallb snd] in Hi. apply andb_true_iff in Hi as [Hi1 Hi2]. cbn [snd] in Hx.
        rewrite (Hx Hi1), (IHr Hi2). reflexivity. }
      now rewrite Hg.
    - discriminate.
  Qed.

  Lemma escape_inert v : inert v = true -> escape_dollars v = v.
  Proof.
    induction v as [| | | |s|l IH|m IH|v o IH] using cv_ind'; intros Hi; try reflexivity.
    - cbn [inert] in Hi. apply negb_true_iff in Hi. cbn [escape_dollars].
      now rewrite (unescape_no_dd s (dollar_free_no_dd s Hi)).
    - cbn [inert] in Hi. cbn [escape_dollars]. f_equal.
      induction IH as [|x r Hx Hr IHr]; [reflexivity|].
      cbn [forallb] in Hi. apply andb_true_iff in Hi as [Hi1 Hi2].
      cbn [map]. now rewrite (Hx Hi1), (IHr Hi2).
    - cbn [inert] in Hi. cbn [escape_dollars]. f_equal.
      induction IH as [|[k x] r Hx Hr IHr]; [reflexivity|].
      cbn [forallb snd] in Hi. apply andb_true_iff in Hi as [Hi1 Hi2]. cbn [snd] in Hx.
      cbn [map fst snd]. now rewrite (Hx Hi1), (IHr Hi2).
    - discriminate.
  Qed.

  Lemma resolve_leaf_inert v : inert v = true -> resolve_leaf def retrieve v = Ok v.
  Proof.
    intros Hi. unfold resolve_leaf. rewrite rec_fuel_S.
    rewrite (expand_rec_unchanged def retrieve _ _ v v (expand_value_inert v Hi)).
    now rewrite escape_inert.
  Qed.

  (* resolve_node on a non-empty map: entry by entry *)
  Fixpoint resolve_entries (m : list (str * cv)) : res (list (str * cv)) :=
    match m with
    | [] => Ok []
    | (k, x) :: ms =>
        match resolve_node def retrieve x, resolve_entries ms with
        | Err e1, Err e2 => Err (e1 ++ e2)
        | Err e1, Ok _ => Err e1
        | Ok _, Err e2 => Err e2
        | Ok x', Ok ms' => Ok ((k, x') :: ms')
        end
    end.

  Lemma resolve_node_map kv m :
    resolve_node def retrieve (CMap (kv :: m)) =
    match resolve_entries (kv :: m) with Err e => Err e | Ok m' => Ok (CMap m') end.
  Proof. reflexivity. Qed.

  Lemma resolve_node_map_ok m m' :
    m <> [] ->
    Forall2 (fun kv kv' => fst kv = fst kv' /\ resolve_node def retrieve (snd kv) = Ok (snd kv')) m m' ->
    resolve_node def retrieve (CMap m) = Ok (CMap m').
  Proof.
    intros Hne H. destruct m as [|kv0 m0]; [contradiction|]. rewrite resolve_node_map.
    assert (Hg : resolve_entries (kv0 :: m0) = Ok m').
    { clear Hne. induction H as [|[k x] [k' x'] r r' [Hk Hx] Hr IHr]; [reflexivity|].
      cbn [fst snd] in Hk, Hx. subst k'. cbn [resolve_entries]. rewrite Hx, IHr. reflexivity. }
    now rewrite Hg.
  Qed.

  Lemma resolve_node_map_err m k x e :
    In (k, x) m -> resolve_node def retrieve x = Err e ->
    exists e', resolve_node def retrieve (CMap m) = Err e' /\ incl e e'.
  Proof.
    intros Hin Hx. destruct m as [|kv0 m0]; [contradiction|]. rewrite resolve_node_map.
    assert (Hg : exists e', resolve_entries (kv0 :: m0) = Err e' /\ incl e e').
    { induction (kv0 :: m0) as [|[k1 x1] r IHr]; [contradiction|].
      cbn [resolve_entries]. destruct Hin as [Heq|Hin].
      - inversion Heq; subst. rewrite Hx.
        destruct (resolve_entries r) as [r'|e2].
        + exists e. split; [reflexivity|apply incl_refl].
        + exists (e ++ e2). split; [reflexivity|apply incl_appl, incl_refl].
      - destruct (IHr Hin) as [e2 [He2 Hincl]]. rewrite He2.
        destruct (resolve_node def retrieve x1) as [x1'|e1].
        + exists e2. split; [reflexivity|exact Hincl].
        + exists (e1 ++ e2). split; [reflexivity|apply incl_appr, Hincl]. }
    destruct Hg as [e' [Hg Hincl]]. exists e'. now rewrite Hg.
  Qed.

  Lemma resolve_node_inert v : inert v = true -> resolve_node def retrieve v = Ok v.
  Proof.
    induction v as [| | | |s|l IH|m IH|v o IH] using cv_ind'; intros Hi;
      try (now apply resolve_leaf_inert).
    destruct m as [|kv0 m0]; [now apply resolve_leaf_inert|].
    apply resolve_node_map_ok; [discriminate|].
    cbn [inert] in Hi. induction IH as [|[k x] r Hx Hr IHr]; [constructor|].
    cbn [forallb snd] in Hi. apply andb_true_iff in Hi as [Hi1 Hi2]. cbn [snd] in Hx.
    constructor; [split; [reflexivity|now apply Hx]|now apply IHr].
  Qed.

  (* inertness is preserved by the merge *)
  Lemma inert_lookup k m v : inert_map m = true -> lookup k m = Some v -> inert v = true.
  Proof.
    unfold inert_map. induction m as [|[k' x] m IH]; [discriminate|].
    cbn [forallb snd lookup]. intros H. apply andb_true_iff in H as [H1 H2].
    destruct (str_eqb k k'); [intros E; inversion E; now subst|auto].
  Qed.

  Lemma inert_merge_cv x : forall y, inert x = true -> inert y = true -> inert (merge_cv x y) = true.
  Proof.
    induction x as [| | | |s|l IH|m IH|v o IH] using cv_ind'; intros y Hx Hy;
      try (destruct y; exact Hy).
    destruct y as [| | | | | |ym|]; try exact Hy.
    cbn [merge_cv inert]. rewrite forallb_app. apply andb_true_iff. split.
    - cbn [inert] in Hx. induction IH as [|[k xv] r Hxv Hr IHr]; [reflexivity|].
      cbn [forallb snd] in Hx. apply andb_true_iff in Hx as [Hx1 Hx2]. cbn [snd] in Hxv.
      cbn [map forallb snd]. apply andb_true_iff. split; [|now apply IHr].
      destruct (lookup k ym) as [yv|] eqn:El; [|exact Hx1].
      apply Hxv; [exact Hx1|]. exact (inert_lookup k ym yv Hy El).
    - cbn [inert] in Hy. clear IH Hx. induction ym as [|[k yv] r IHr]; [reflexivity|].
      cbn [forallb snd] in Hy. apply andb_true_iff in Hy as [Hy1 Hy2].
      cbn [filter fst]. destruct (negb (has_key k m)); [cbn [forallb snd]; rewrite Hy1|]; now apply IHr.
  Qed.

  Lemma inert_merge_map a b : inert_map a = true -> inert_map b = true -> inert_map (merge_map a b) = true.
  Proof.
    intros Ha Hb. change (inert (CMap (merge_map a b)) = true).
    rewrite <- merge_cv_maps. now apply inert_merge_cv.
  Qed.

  Lemma inert_fold ms : forall acc,
    inert_map acc = true -> forallb inert_map ms = true -> inert_map (fold_left merge_map ms acc) = true.
  Proof.
    induction ms as [|m ms IH]; intros acc Ha Hms; [exact Ha|].
    cbn [forallb] in Hms. apply andb_true_iff in Hms as [H1 H2].
    cbn [fold_left]. apply IH; [now apply inert_merge_map|exact H2].
  Qed.

  (* Resolve on reference-free sources is the right-biased merge of the sources *)
  Lemma resolve_inert_is_merge ms :
    forallb inert_map ms = true ->
    resolve def retrieve (map CMap ms) = Ok (CMap (fold_left merge_map ms [])).
  Proof.
    intros H. unfold resolve. rewrite merge_sources_fold.
    pose proof (inert_fold ms [] eq_refl H) as Hi.
    destruct (fold_left merge_map ms []) as [|kv m] eqn:E; [reflexivity|].
    now apply resolve_node_inert.
  Qed.

  (* ---- findURI finds something only when the guard of expandValue holds -------------------------------- *)
  Lemma prefix_app_l p : forall a b, prefix p a = true -> prefix p (a ++ b) = true.
  Proof.
    induction p as [|c p IH]; intros a b H; [reflexivity|].
    destruct a as [|d a]; [discriminate|]. cbn [prefix app] in *.
    apply andb_true_iff in H as [H1 H2]. rewrite H1. now apply IH.
  Qed.

  Lemma contains_app_l p a b : contains p a = true -> contains p (a ++ b) = true.
  Proof.
    induction a as [|c a IH]; intros H.
    - cbn [contains] in H. rewrite orb_false_r in H. destruct p; [|discriminate].
      destruct b; reflexivity.
    - cbn [contains app] in *. apply orb_true_iff in H as [H|H].
      + change (c :: a ++ b) with ((c :: a) ++ b). rewrite (prefix_app_l p _ b H). reflexivity.
      + rewrite (IH H). apply orb_true_r.
  Qed.

  Lemma contains_open_at pre body : contains [cDollar; cOpen] (pre ++ cDollar :: cOpen :: body) = true.
  Proof. apply contains_app_r. reflexivity. Qed.

  Lemma find_uri_some_guard fuel : forall s u,
    find_uri_f def fuel s = Some u ->
    contains [cDollar; cOpen] s = true /\ has_char cClose s = true.
  Proof.
    induction fuel as [|f IH]; intros s u H; [discriminate|].
    rewrite find_uri_f_unfold in H.
    destruct (split_close s) as [[before remaining]|] eqn:Esc; [|discriminate].
    apply split_close_spec in Esc as [-> _].
    split; [|change (cClose :: remaining) with ([cClose] ++ remaining); rewrite !has_char_app; cbn;
             apply orb_true_r].
    cbv zeta in H.
    assert (Hnext : (if has_char cClose remaining then find_uri_f def f remaining else None) = Some u ->
                    contains [cDollar; cOpen] (before ++ cClose :: remaining) = true).
    { destruct (has_char cClose remaining); [|discriminate]. intros Hn.
      apply IH in Hn as [Hn _].
      change (before ++ cClose :: remaining) with (before ++ [cClose] ++ remaining).
      rewrite app_assoc. now apply contains_app_r. }
    destruct (split_last_open (before ++ [cClose])) as [[pre body]|] eqn:Eslo; [|auto].
    apply slo_spec in Eslo.
    change (before ++ cClose :: remaining) with (before ++ [cClose] ++ remaining).
    rewrite app_assoc, Eslo. apply contains_app_l, contains_open_at.
  Qed.

  Lemma expand_string_found s u :
    find_uri def s = Some u -> expand_string def retrieve s = find_and_expand def retrieve s.
  Proof.
    intros H. unfold expand_string. unfold find_uri in H.
    destruct (find_uri_some_guard _ _ _ H) as [H1 H2]. now rewrite H1, H2.
  Qed.

  (* an embedded reference is replaced by the provider's text and the RESULT is expanded again *)
  Lemma spent_embedded s uri ret repl :
    find_uri def s = Some uri -> uri <> s ->
    expand_uri def retrieve uri = Ok ret -> as_string ret = Some repl ->
    spent def retrieve (CStr s) = count_unescaped s uri.
  Proof.
    intros Hf Hne He Hs. cbn [spent]. unfold spent_string.
    rewrite (expand_string_found s uri Hf), (find_and_expand_embedded def retrieve s uri ret repl Hf Hne He Hs).
    unfold find_uri in Hf. destruct (find_uri_some_guard _ _ _ Hf) as [H1 H2]. rewrite H1, H2.
    cbn [negb orb]. fold (find_uri def s). unfold find_uri. rewrite Hf. now rewrite (str_eqb_neq _ _ Hne).
  Qed.

  Lemma embedded_then_again f used s uri ret repl :
    find_uri def s = Some uri -> uri <> s ->
    expand_uri def retrieve uri = Ok ret -> as_string ret = Some repl ->
    used + count_unescaped s uri <= max_expansions ->
    expand_rec def retrieve (S f) used (CStr s)
    = expand_rec def retrieve f (used + count_unescaped s uri) (CStr (replace_unescaped s uri repl)).
  Proof.
    intros Hf Hne He Hs Hb. rewrite <- (spent_embedded s uri ret repl Hf Hne He Hs) in *.
    apply expand_rec_changed; [|exact Hb].
    rewrite expand_value_str, (expand_string_found s uri Hf).
    now apply (find_and_expand_embedded def retrieve s uri ret repl).
  Qed.

  Lemma embedded_without_text_refused s uri ret :
    find_uri def s = Some uri -> uri <> s ->
    expand_uri def retrieve uri = Ok ret -> as_string ret = None ->
    resolve_string def retrieve s = Err [ENoString].
  Proof.
    intros Hf Hne He Hs. unfold resolve_string, resolve_leaf. rewrite rec_fuel_S.
    rewrite (expand_rec_error def retrieve _ _ _ [ENoString]); [reflexivity|].
    rewrite expand_value_str, (expand_string_found s uri Hf).
    now apply (find_and_expand_no_string def retrieve s uri ret).
  Qed.

  Lemma uri_error_refused s uri e :
    find_uri def s = Some uri -> expand_uri def retrieve uri = Err e ->
    resolve_string def retrieve s = Err e.
  Proof.
    intros Hf He. unfold resolve_string, resolve_leaf. rewrite rec_fuel_S.
    rewrite (expand_rec_error def retrieve _ _ _ e); [reflexivity|].
    rewrite expand_value_str, (expand_string_found s uri Hf).
    now apply (find_and_expand_uri_error def retrieve s uri e).
  Qed.


  (* ---- the last round: the original text of an expandedValue has settled ------------------------------ *)
  Definition structured (x : cv) : bool := match x with CStr _ | CExp _ _ => false | _ => true end.

  Lemma expand_string_unchanged o v : expand_string def retrieve o = Ok (v, false) -> v = CStr o.
  Proof.
    unfold expand_string.
    destruct (negb (contains [cDollar; cOpen] o) || negb (has_char cClose o)); [intros H; now inversion H|].
    unfold find_and_expand. destruct (find_uri def o) as [uri|]; [|intros H; now inversion H].
    destruct (str_eqb uri o).
    - destruct (expand_uri def retrieve o) as [ret|e]; [|discriminate].
      destruct (as_string ret); intros H; inversion H.
    - destruct (expand_uri def retrieve uri) as [ret|e]; [|discriminate].
      destruct (as_string ret); intros H; inversion H.
  Qed.

  Lemma expand_value_structured x e c :
    structured x = true -> expand_value def retrieve x = Ok (e, c) -> structured e = true.
  Proof.
    destruct x; try discriminate; intros _ H; cbn [expand_value] in H; try (inversion H; reflexivity).
    - match type of H with match ?g with _ => _ end = _ => destruct g as [[l' c']|e'] end;
        inversion H; reflexivity.
    - match type of H with match ?g with _ => _ end = _ => destruct g as [[l' c']|e'] end;
        inversion H; reflexivity.
  Qed.

  Lemma original_settled x o x' o' :
    structured x = true ->
    expand_value def retrieve (CExp x o) = Ok (CExp x' o', false) ->
    o' = o /\ expand_string def retrieve o = Ok (CStr o, false) /\ expand_value def retrieve x = Ok (x', false).
  Proof.
    intros Hs H. cbn [expand_value] in H.
    destruct (expand_value def retrieve x) as [[e c]|err] eqn:Ex; [|discriminate].
    pose proof (expand_value_structured x e c Hs Ex) as He.
    destruct e; try discriminate;
      (destruct (expand_string def retrieve o) as [[w oc]|err] eqn:Eo; [|inversion H];
       destruct w; inversion H; subst;
       match goal with Hc : _ || _ = false |- _ => apply orb_false_iff in Hc as [-> ->] end;
       pose proof (expand_string_unchanged _ _ Eo) as Hw; inversion Hw; subst; auto).
  Qed.

  Lemma expand_rec_last_round f : forall used v v',
    expand_rec def retrieve f used v = Ok v' -> exists vk, expand_value def retrieve vk = Ok (v', false).
  Proof.
    induction f as [|f IH]; intros used v v' H; [discriminate|]. cbn [expand_rec] in H.
    destruct (expand_value def retrieve v) as [[w c]|e] eqn:E; [|discriminate].
    destruct c; [|inversion H; subst; now exists v].
    destruct (max_expansions <? used + spent def retrieve v); [discriminate|]. exact (IH _ w v' H).
  Qed.

  (* a single source with one string leaf: what Resolve returns is what the leaf resolves to *)
  Lemma resolve_one_leaf k s v :
    resolve_string def retrieve s = Ok v ->
    resolve def retrieve [CMap [(k, CStr s)]] = Ok (CMap [(k, v)]).
  Proof.
    intros H. unfold resolve. cbn [merge_sources as_conf]. rewrite merge_map_nil_l.
    apply resolve_node_map_ok; [discriminate|].
    constructor; [|constructor]. split; [reflexivity|exact H].
  Qed.
End Trees.
