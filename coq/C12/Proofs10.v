(* C12/Proofs10.v — clause audit (round 5): no default scheme => "${NAME}" is text; every cyclic core is refused. *)
From Verif Require Import Common.Base C12.Model C12.Proofs1 C12.Proofs2 C12.Proofs3 C12.Proofs4 C12.Proofs8 C12.Proofs7.
From Coq Require Import Ascii.

(* ---- without a default scheme a string without ':' contains no reference at all --------------------------- *)
Lemma has_char_suffix c a b : has_char c (a ++ b) = false -> has_char c b = false.
Proof. rewrite has_char_app. intros H. now apply orb_false_iff in H as [_ H]. Qed.

Lemma find_uri_no_colon fuel : forall s, has_char cColon s = false -> find_uri_f [] fuel s = None.
Proof.
  induction fuel as [|f IH]; intros s Hs; [reflexivity|]. rewrite find_uri_f_unfold.
  destruct (split_close s) as [[before remaining]|] eqn:E; [|reflexivity].
  apply split_close_spec in E as [-> _]. cbv zeta.
  assert (Hr : has_char cColon remaining = false).
  { apply (has_char_suffix _ (before ++ [cClose])). now rewrite <- app_assoc. }
  assert (Hnext : (if has_char cClose remaining then find_uri_f [] f remaining else None) = None).
  { destruct (has_char cClose remaining); [now apply IH|reflexivity]. }
  rewrite Hnext.
  destruct (split_last_open (before ++ [cClose])) as [[pre body]|] eqn:Es; [|reflexivity].
  apply slo_spec in Es.
  assert (Hb : has_char cColon (cDollar :: cOpen :: body) = false).
  { assert (H1 : has_char cColon (before ++ [cClose]) = false).
    { rewrite has_char_app in Hs. apply orb_false_iff in Hs as [H1 H2].
      rewrite has_char_app, H1. reflexivity. }
    rewrite Es in H1. now apply has_char_suffix in H1. }
  rewrite Hb. reflexivity.
Qed.

Lemma no_default_colon_free (retrieve : str -> str -> res retrieved) s :
  has_char cColon s = false -> resolve_string [] retrieve s = Ok (CStr (unescape s)).
Proof.
  intros H. unfold resolve_string, resolve_leaf. rewrite rec_fuel_S.
  rewrite (expand_rec_unchanged [] retrieve _ _ _ (CStr s)); [reflexivity|].
  rewrite expand_value_str. unfold expand_string.
  destruct (negb (contains [cDollar; cOpen] s) || negb (has_char cClose s)); [reflexivity|].
  unfold find_and_expand, find_uri. now rewrite find_uri_no_colon.
Qed.

(* ---- every cyclic core is refused ----------------------------------------------------------------------------- *)
Section Cycles.
  Variable def : str.
  Variable retrieve : str -> str -> res retrieved.
  Variable txt : str -> list tok.
  (* every provider text is a well-formed token string that does not end with a lone '$' *)
  Hypothesis world : forall n, wf_from def retrieve (nval txt) false (txt n) /\ flag_after false (txt n) = false.
  (* a cyclic core: a set of names each of whose texts mentions a member of the set again *)
  Variable core : str -> Prop.
  Hypothesis core_closed : forall n, core n -> exists m, core m /\ In (TRef m) (txt n).

  Lemma wf_nsubst_world n ts : forall pd,
    wf_from def retrieve (nval txt) pd ts -> wf_from def retrieve (nval txt) pd (nsubst txt n ts).
  Proof.
    induction ts as [|t ts IH]; intros pd Hwf; [exact Hwf|].
    unfold nsubst in *. cbn [flat_map].
    destruct t; cbn [nsubst1 app wf_from] in *.
    - destruct Hwf as [H1 [H2 H3]]. auto.
    - auto.
    - destruct Hwf as [H1 H3]. auto.
    - destruct Hwf as [H1 H3]. auto.
    - destruct Hwf as [H1 [H2 H3]]. subst pd.
      destruct (str_eqb name n) eqn:E.
      + apply str_eqb_eq in E. subst name. destruct (world n) as [Hw Hf].
        apply (wf_join def retrieve txt); [exact Hw|]. rewrite Hf. now apply IH.
      + cbn [app wf_from]. auto.
  Qed.

  Lemma core_survives n ts : (exists k, core k /\ In (TRef k) ts) -> exists k, core k /\ In (TRef k) (nsubst txt n ts).
  Proof.
    intros [k [Hk Hin]]. unfold nsubst.
    destruct (str_eqb k n) eqn:E.
    - apply str_eqb_eq in E. subst k. destruct (core_closed n Hk) as [m [Hm Hmin]].
      exists m. split; [exact Hm|]. apply in_flat_map. exists (TRef n). split; [exact Hin|].
      cbn [nsubst1]. now rewrite str_eqb_refl.
    - exists k. split; [exact Hk|]. apply in_flat_map. exists (TRef k). split; [exact Hin|].
      cbn [nsubst1]. rewrite E. now left.
  Qed.

  Lemma in_ref_first ts k : In (TRef k) ts -> exists n, first_ref ts = Some n.
  Proof.
    induction ts as [|t ts IH]; [contradiction|]. intros [H|H].
    - subst t. exists k. reflexivity.
    - destruct t; cbn [first_ref]; eauto.
  Qed.

  Lemma cyclic_core_refused ts :
    wf def retrieve (nval txt) ts -> has_text ts = true -> (exists k, core k /\ In (TRef k) ts) ->
    resolve_string def retrieve (flatten ts) = Err [ETooMany].
  Proof.
    intros Hwf Ht Hc. unfold resolve_string, resolve_leaf.
    rewrite (expand_rec_diverges def retrieve
               (fun v => exists us, v = CStr (flatten us) /\ wf def retrieve (nval txt) us /\ has_text us = true /\
                                    exists k, core k /\ In (TRef k) us)); [reflexivity| |].
    - intros v [us [-> [Hw [Hh [k [Hk Hin]]]]]].
      destruct (in_ref_first us k Hin) as [n Hf].
      exists (CStr (flatten (nsubst txt n us))). split.
      + rewrite expand_value_str. apply (nested_round def retrieve txt us n 0 Hw); [now left|exact Hf].
      + exists (nsubst txt n us). split; [reflexivity|]. split; [now apply wf_nsubst_world|].
        split; [now apply has_text_nsubst|]. apply core_survives. eauto.
    - exists ts. auto.
  Qed.
End Cycles.

(* ---- a whole configuration: every value has its own budget ----------------------------------------------------- *)
Lemma many_values def retrieve txt d (kts : list (str * list tok)) :
  kts <> [] ->
  Forall (fun kt => wf def retrieve (nval txt) (snd kt) /\ good def retrieve txt d (snd kt) /\
                    nanchored txt d (snd kt) /\ cost txt d (snd kt) <= max_expansions) kts ->
  resolve def retrieve [CMap (map (fun kt => (fst kt, CStr (flatten (snd kt)))) kts)]
  = Ok (CMap (map (fun kt => (fst kt, CStr (mean txt d (snd kt)))) kts)).
Proof.
  intros Hne H. unfold resolve. cbn [merge_sources as_conf]. rewrite merge_map_nil_l.
  destruct kts as [|kt0 r0] eqn:E; [contradiction|]. rewrite <- E in *. clear Hne.
  assert (Hm : map (fun kt : str * list tok => (fst kt, CStr (flatten (snd kt)))) kts <> []) by (rewrite E; discriminate).
  destruct (map (fun kt : str * list tok => (fst kt, CStr (flatten (snd kt)))) kts) as [|e0 m0] eqn:Em; [contradiction|].
  rewrite <- Em. apply resolve_node_map_ok; [rewrite Em; discriminate|].
  clear Em Hm E. induction H as [|[k ts] l [Hw [Hg [Ha Hc]]] Hl IH]; [constructor|].
  cbn [map fst snd] in *. constructor; [split; [reflexivity|]|exact IH].
  cbn [fst snd]. change (resolve_node def retrieve (CStr (flatten ts))) with (resolve_string def retrieve (flatten ts)).
  now apply nested_main.
Qed.
