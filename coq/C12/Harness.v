(* C12/Harness.v — comparison of the model with the recorded behaviour of the real Resolver
   (cases written by harness/C12/resolve_test.go, evaluated in work/C12/Cases_k.v). *)
From Verif Require Import Common.Base C12.Model.
From Coq Require Import Ascii.
Require Coq.Strings.String.

Notation wstr := String.string.
Definition s2l (s : wstr) : str := String.list_ascii_of_string s.

(* wire form of values (Coq string literals instead of ascii lists) *)
Inductive wcv :=
| WNil
| WBool (b : bool)
| WInt (z : Z)
| WFloat (bits : Z)
| WStr (s : wstr)
| WList (l : list wcv)
| WMap (m : list (wstr * wcv))
| WExp (v : wcv) (orig : wstr).

Fixpoint of_w (w : wcv) : cv :=
  match w with
  | WNil => CNil
  | WBool b => CBool b
  | WInt z => CInt z
  | WFloat z => CFloat z
  | WStr s => CStr (s2l s)
  | WList l => CList (map of_w l)
  | WMap m => CMap (map (fun kv => (s2l (fst kv), of_w (snd kv))) m)
  | WExp v o => CExp (of_w v) (s2l o)
  end.

(* provider table entry: error, or Retrieved{rawConf, stringRepresentation if set} *)
Inductive wpret :=
| WPErr
| WPVal (v : wcv) (s : option wstr).

(* observation: error class, or (unsanitised tree, ToStringMap(), decodes of every top-level key into
   a field of type string / int / []string / map[string]string: None = Unmarshal returned an error) *)
Definition wdec : Type :=
  wstr * option wstr * option Z * option (list wstr) * option (list (wstr * wstr)).
Inductive wobs :=
| WObsErr (class : nat)
| WObsOk (tree : wcv) (tsm : wcv) (dec : list wdec).

(* configuration: default scheme, registered schemes, provider table keyed by "scheme:opaque" *)
Definition wcfg : Type := wstr * list wstr * list (wstr * wpret).
Definition wcase : Type := wcfg * list wcv * wobs.

Definition eclass_code (e : eclass) : nat :=
  match e with
  | EInvalidURI => 0 | EDollarInName => 1 | ENoScheme => 2 | EProvider => 3
  | ENoString => 4 | ETooMany => 5 | ENotConf => 6
  end.

Fixpoint tbl_lookup (k : str) (t : list (str * wpret)) : option wpret :=
  match t with
  | [] => None
  | (k', v) :: t' => if str_eqb k k' then Some v else tbl_lookup k t'
  end.

(* the table and the scheme list are converted once (vm_compute is call-by-value) *)
Definition retrieve_tbl (schemes : list wstr) (tbl : list (wstr * wpret)) : str -> str -> res retrieved :=
  let schemes' := map s2l schemes in
  let tbl' := map (fun kv : wstr * wpret => (s2l (fst kv), snd kv)) tbl in
  fun sch opaque =>
    if existsb (str_eqb sch) schemes' then
      match tbl_lookup (sch ++ cColon :: opaque) tbl' with
      | Some (WPVal v s) => Ok (mkRet (of_w v) (option_map s2l s))
      | _ => Err [EProvider]
      end
    else Err [ENoScheme].

(* ---- canonical form: map entries sorted by key (bytewise), recursively ------------------------ *)
Fixpoint str_ltb (a b : str) : bool :=
  match a, b with
  | [], [] => false
  | [], _ :: _ => true
  | _ :: _, [] => false
  | x :: a', y :: b' =>
      let nx := nat_of_ascii x in let ny := nat_of_ascii y in
      if nx <? ny then true else if ny <? nx then false else str_ltb a' b'
  end.

Fixpoint ins (kv : str * cv) (l : list (str * cv)) : list (str * cv) :=
  match l with
  | [] => [kv]
  | h :: t => if str_ltb (fst h) (fst kv) then h :: ins kv t else kv :: l
  end.

Fixpoint canon (v : cv) : cv :=
  match v with
  | CList l => CList (map canon l)
  | CMap m => CMap (fold_right ins [] (map (fun kv => (fst kv, canon (snd kv))) m))
  | CExp x o => CExp (canon x) o
  | _ => v
  end.

Fixpoint cv_eqb (a b : cv) {struct a} : bool :=
  match a, b with
  | CNil, CNil => true
  | CBool x, CBool y => Bool.eqb x y
  | CInt x, CInt y => Z.eqb x y
  | CFloat x, CFloat y => Z.eqb x y
  | CStr x, CStr y => str_eqb x y
  | CList x, CList y =>
      (fix go (x y : list cv) : bool :=
         match x, y with
         | [], [] => true
         | a :: x', b :: y' => cv_eqb a b && go x' y'
         | _, _ => false
         end) x y
  | CMap x, CMap y =>
      (fix go (x y : list (str * cv)) : bool :=
         match x, y with
         | [], [] => true
         | (ka, a) :: x', (kb, b) :: y' => str_eqb ka kb && cv_eqb a b && go x' y'
         | _, _ => false
         end) x y
  | CExp x xo, CExp y yo => cv_eqb x y && str_eqb xo yo
  | _, _ => false
  end.

Definition run_model (c : wcfg) (srcs : list wcv) : res cv :=
  let '(def, schemes, tbl) := c in
  resolve (s2l def) (retrieve_tbl schemes tbl) (map of_w srcs).

Definition top_lookup (k : str) (t : cv) : cv :=
  match t with
  | CMap m => match lookup k m with Some v => v | None => CNil end
  | _ => CNil
  end.

Definition strmap_cv (m : list (str * str)) : cv := CMap (map (fun kv => (fst kv, CStr (snd kv))) m).

Definition check_dec (t : cv) (d : wdec) : bool :=
  let '(k, ds, di, dl, dm) := d in
  let v := top_lookup (s2l k) t in
  option_eqb str_eqb (decode_string_field v) (option_map s2l ds)
  && match decode_int_field v with
     | None => true                      (* float64 -> int truncation: not modelled *)
     | Some mi => option_eqb Z.eqb mi di
     end
  && option_eqb (list_eqb str_eqb) (decode_strlist_field v) (option_map (map s2l) dl)
  && option_eqb cv_eqb (option_map (fun m => canon (strmap_cv m)) (decode_strmap_field v))
                (option_map (fun m => canon (strmap_cv (map (fun kv => (s2l (fst kv), s2l (snd kv))) m))) dm).

Definition check_case (c : wcase) : bool :=
  let '(cfg, srcs, obs) := c in
  match run_model cfg srcs, obs with
  | Err l, WObsErr code => existsb (fun e => Nat.eqb (eclass_code e) code) l
  | Ok t, WObsOk tree tsm dec =>
      cv_eqb (canon t) (canon (of_w tree))
      && cv_eqb (canon (sanitize t)) (canon (of_w tsm))
      && forallb (check_dec t) dec
  | _, _ => false
  end.

(* for replay files: the model's answer in canonical form, strings printed as literals *)
Definition l2s (s : str) : wstr := String.string_of_list_ascii s.
Fixpoint to_w (v : cv) : wcv :=
  match v with
  | CNil => WNil
  | CBool b => WBool b
  | CInt z => WInt z
  | CFloat z => WFloat z
  | CStr s => WStr (l2s s)
  | CList l => WList (map to_w l)
  | CMap m => WMap (map (fun kv => (l2s (fst kv), to_w (snd kv))) m)
  | CExp x o => WExp (to_w x) (l2s o)
  end.

Inductive mout :=
| MErr (classes : list nat)
| MOk (tree : wcv).

Definition model_out (c : wcase) : mout :=
  let '(cfg, srcs, _) := c in
  match run_model cfg srcs with
  | Err l => MErr (map eclass_code l)
  | Ok t => MOk (to_w (canon t))
  end.
