(* C12/Witness.v — non-vacuity of the hypotheses of Properties.v and concrete instances
   (all by computation). *)
From Verif Require Import Common.Base C12.Model C12.Proofs1 C12.Proofs2 C12.Proofs3 C12.Proofs4 C12.Proofs5 C12.Proofs7 C12.Proofs8 C12.Proofs9 C12.Proofs10 C12.Harness C12.Clauses.
From Coq Require Import Ascii.
Require Coq.Strings.String.
Import Coq.Strings.String.StringSyntax.

Definition L (s : String.string) : str := String.list_ascii_of_string s.
Local Open Scope string_scope.

(* a small provider table: scheme env *)
Definition tbl : list (str * retrieved) :=
  [ (L"A", mkRet (CStr (L"va")) None);
    (L"B", mkRet (CStr (L"vb")) None);
    (L"N", mkRet (CInt 42) (Some (L"42")));
    (L"E", mkRet (CStr (L"")) None);
    (L"P", mkRet (CStr (L"A")) None);
    (L"M", mkRet (CMap [(L"a", CInt 1)]) None);
    (L"R", mkRet (CStr (L"<${env:A}>")) None);
    (L"S", mkRet (CStr (L"[${env:R}$$${R}]")) None);
    (L"DOL", mkRet (CStr (L"$")) None);
    (L"YL", mkRet (CList [CStr (L"a${env:R}"); CStr (L"${env:A}b")]) (Some (L"[a${env:R}, ${env:A}b]")));
    (L"CY", mkRet (CStr (L"${env:CY}")) None);
    (L"CA", mkRet (CStr (L"${env:CB}")) None);
    (L"CB", mkRet (CStr (L"b${env:CA}")) None) ].

Fixpoint tlookup (k : str) (t : list (str * retrieved)) : res retrieved :=
  match t with
  | [] => Err [EProvider]
  | (k', v) :: t' => if str_eqb k k' then Ok v else tlookup k t'
  end.

Definition env : str := L"env".
Definition retr (sch opq : str) : res retrieved :=
  if str_eqb sch env then tlookup opq tbl else Err [ENoScheme].
Definition vals (n : str) : str :=
  if str_eqb n (L"env:A") then L"va" else if str_eqb n (L"A") then L"va"
  else if str_eqb n (L"env:B") then L"vb" else if str_eqb n (L"env:N") then L"42" else L"".

Definition rs (s : String.string) : res cv := resolve_string env retr (L s).

(* the two repaired defects (F9, F11) and the probe strings *)
Example ex_f9 : rs "${env:A} $${env:A}" = Ok (CStr (L"va ${env:A}")).
Proof. vm_compute. reflexivity. Qed.
Example ex_f11 : rs "$${env:A} ${env:B}" = Ok (CStr (L"${env:A} vb")).
Proof. vm_compute. reflexivity. Qed.
Example ex_mixed : rs "${env:A}-$$-${B}" = Ok (CStr (L"va-$-vb")).
Proof. vm_compute. reflexivity. Qed.
Example ex_three_dollars : rs "$$${env:A}" = Ok (CStr (L"$va")).
Proof. vm_compute. reflexivity. Qed.
Example ex_four_dollars : rs "$$$${env:A}" = Ok (CStr (L"$${env:A}")).
Proof. vm_compute. reflexivity. Qed.
Example ex_typed : rs "${env:N}" = Ok (CExp (CInt 42) (L"42")).
Proof. vm_compute. reflexivity. Qed.
Example ex_embedded_typed : rs "x${env:N}" = Ok (CStr (L"x42")).
Proof. vm_compute. reflexivity. Qed.
Example ex_reexpanded : rs "${env:R}" = Ok (CStr (L"<va>")).
Proof. vm_compute. reflexivity. Qed.
Example ex_nested : rs "${env:${env:P}}" = Ok (CStr (L"va")).
Proof. vm_compute. reflexivity. Qed.
Example ex_map_embedded : rs "x${env:M}" = Err [ENoString].
Proof. vm_compute. reflexivity. Qed.
Example ex_dollar_name : rs "${env:A$}" = Err [EDollarInName].
Proof. vm_compute. reflexivity. Qed.
Example ex_unknown_scheme : rs "${nope:A}" = Err [ENoScheme].
Proof. vm_compute. reflexivity. Qed.
Example ex_bad_scheme : rs "${x:A}" = Err [EInvalidURI].
Proof. vm_compute. reflexivity. Qed.
(* by the theorem, not by evaluating the 10 001 rounds of the work budget *)
Example ex_cycle1 : rs "${env:CY}" = Err [ETooMany].
Proof.
  apply (self_cycle_rejected env retr (L"env:CY") (mkRet (CStr (ref_text (L"env:CY"))) None)); reflexivity.
Qed.
(* the 2-cycle CA -> CB -> CA (growing text) is proved refused below: ex_cyclic_core (evaluating 10 000 rounds of
   a growing string inside Coq is too slow to be a witness) *)
Example ex_unterminated : rs "${env:A" = Ok (CStr (L"${env:A")).
Proof. vm_compute. reflexivity. Qed.
(* no default scheme: ${A} is not a reference *)
Example ex_no_default : resolve_string [] retr (L"${A} ${env:A}") = Ok (CStr (L"${A} va")).
Proof. vm_compute. reflexivity. Qed.

(* adjacent references whose neighbours expand to nothing collapse to ONE reference and become typed:
   outside [anchored], and the reason for that hypothesis *)
Example ex_collapse_typed : rs "${env:E}${env:N}" = Ok (CExp (CInt 42) (L"42")).
Proof. vm_compute. reflexivity. Qed.

(* hypotheses of expansion_refines_tokens are satisfiable: "x${env:A}$$${A}$y}$${env:B}${env:N}" *)
Definition ex_ts : list tok :=
  [TChar "x"%char; TRef (L"env:A"); TEsc; TRef (L"A"); TDollar; TChar "y"%char; TClose; TEsc; TChar "{"%char;
   TChar "e"%char; TClose; TRef (L"env:N")].

Lemma good_name n :
  name_ok n = true -> ref_ok env n = true ->
  (exists ret, expand_uri env retr (ref_text n) = Ok ret /\ as_string ret = Some (vals n)) ->
  ref_good env retr vals n.
Proof. intros. unfold ref_good. auto. Qed.

Example ex_ts_wf : wf env retr vals ex_ts.
Proof.
  unfold wf, ex_ts. cbn [wf_from].
  repeat match goal with
         | |- _ /\ _ => split
         | |- ref_good _ _ _ _ => apply good_name; try reflexivity; eexists; split; vm_compute; reflexivity
         | |- _ = _ => reflexivity
         | |- _ -> _ <> _ => discriminate
         | |- True => exact I
         end.
Qed.
Example ex_ts_plain : plain vals ex_ts.
Proof. intros n Hn. unfold ex_ts in Hn. cbn [In] in Hn.
  repeat (destruct Hn as [Hn|Hn]; [try discriminate; inversion Hn; subst; reflexivity|]). contradiction. Qed.
Example ex_ts_anchored : anchored vals ex_ts.
Proof. left. reflexivity. Qed.
Example ex_ts_text : flatten ex_ts = L"x${env:A}$$${A}$y}$${e}${env:N}".
Proof. reflexivity. Qed.
Example ex_ts_sem : sem vals ex_ts = L"xva$va$y}${e}42".
Proof. vm_compute. reflexivity. Qed.
Example ex_ts_resolved : resolve_string env retr (flatten ex_ts) = Ok (CStr (sem vals ex_ts)).
Proof. vm_compute. reflexivity. Qed.
(* anchored by weight only: two references with non-empty text *)
Example ex_two_refs : anchored vals [TRef (L"env:A"); TRef (L"env:B")].
Proof. right. vm_compute. lia. Qed.

(* whole_value_typed / whole_value_string / self_cycle_rejected: hypotheses satisfiable *)
Example ex_typed_hyp :
  name_ok (L"env:N") = true /\ ref_ok env (L"env:N") = true /\
  expand_uri env retr (ref_text (L"env:N")) = Ok (mkRet (CInt 42) (Some (L"42"))) /\
  scalar (CInt 42) = true /\ no_ref_b (L"42") = true.
Proof. repeat split; vm_compute; reflexivity. Qed.
Example ex_cycle_hyp :
  expand_uri env retr (ref_text (L"env:CY")) = Ok (mkRet (CStr (ref_text (L"env:CY"))) None).
Proof. vm_compute. reflexivity. Qed.
Example ex_find_uri : find_uri env (L"a$${x}b}${env:A$}") = Some (ref_text (L"env:A$")).
Proof. vm_compute. reflexivity. Qed.

(* plain text: hypotheses satisfiable, and both are needed *)
Example ex_plain : no_ref_b (L"a$b{}c ${env:A") = true /\ no_dd (L"a$b{}c ${env:A") = true.
Proof. split; vm_compute; reflexivity. Qed.
Example ex_not_plain : no_ref_b (L"${x}") = false /\ no_dd (L"a$$b") = false.
Proof. split; vm_compute; reflexivity. Qed.

(* merge: nested maps merge, a list replaces, nil replaces, untouched keys survive *)
Definition m1 : list (str * cv) :=
  [(L"a", CMap [(L"x", CInt 1); (L"y", CInt 2)]); (L"l", CList [CInt 1; CInt 2]); (L"k", CStr (L"keep")); (L"n", CInt 7)].
Definition m2 : list (str * cv) :=
  [(L"a", CMap [(L"y", CInt 20); (L"z", CInt 30)]); (L"l", CList [CInt 9]); (L"n", CNil); (L"new", CBool true)].
Example ex_merge :
  merge_map m1 m2 =
  [(L"a", CMap [(L"x", CInt 1); (L"y", CInt 20); (L"z", CInt 30)]); (L"l", CList [CInt 9]); (L"k", CStr (L"keep"));
   (L"n", CNil); (L"new", CBool true)].
Proof. vm_compute. reflexivity. Qed.
Example ex_inert : forallb inert_map [m1; m2] = true.
Proof. vm_compute. reflexivity. Qed.
Example ex_resolve_tree :
  resolve env retr [CMap [(L"k", CStr (L"${env:N}")); (L"s", CMap [(L"t", CStr (L"$$${env:A}"))])]; CNil;
                    CMap [(L"s", CMap [(L"u", CList [CStr (L"${env:M}")])])]]
  = Ok (CMap [(L"k", CExp (CInt 42) (L"42"));
              (L"s", CMap [(L"t", CStr (L"$va")); (L"u", CList [CMap [(L"a", CInt 1)]])])]).
Proof. vm_compute. reflexivity. Qed.

(* a cycle whose member mentions itself twice doubles in every round (finding C12-EXPCYCLE, model only) *)
Definition retr2 (sch opq : str) : res retrieved := Ok (mkRet (CStr (L"${env:X}${env:X}")) None).
Fixpoint iter_expand (k : nat) (v : cv) : option cv :=
  match k with
  | 0 => Some v
  | S k' => match expand_value env retr2 v with
            | Ok (v', true) => iter_expand k' v'
            | _ => None
            end
  end.
Definition cv_len (v : cv) : nat := match v with CStr s => length s | CExp _ o => length o | _ => 0 end.
Example ex_exponential_growth :
  map (fun k => option_map cv_len (iter_expand k (CStr (L"${env:X}")))) [2; 3; 4; 5; 8]
  = [Some 32; Some 64; Some 128; Some 256; Some 2048].
Proof. vm_compute. reflexivity. Qed.

(* ---- nested provider texts: hypotheses of expansion_refines_tokens_nested are satisfiable --------------- *)
Definition chars (s : String.string) : list tok := lit_tokens (L s).
Definition ntxt (n : str) : list tok :=
  if str_eqb n (L"env:A") || str_eqb n (L"A") then chars "va"
  else if str_eqb n (L"env:R") || str_eqb n (L"R") then [TChar "<"%char; TRef (L"env:A"); TChar ">"%char]
  else if str_eqb n (L"env:S") then [TChar "["%char; TRef (L"env:R"); TEsc; TRef (L"R"); TChar "]"%char]
  else [].
Definition ex_deep : list tok := [TChar "x"%char; TRef (L"env:S"); TDollar; TChar "."%char; TRef (L"env:A"); TRef (L"env:S")].

Ltac wf_tac :=
  cbn [wf_from];
  repeat match goal with
         | |- _ /\ _ => split
         | |- ref_good _ _ _ _ => unfold ref_good; split; [reflexivity|split; [reflexivity|eexists; split; vm_compute; reflexivity]]
         | |- _ = _ => reflexivity
         | |- _ -> _ <> _ => discriminate
         | |- True => exact I
         end.

Example ex_deep_wf : wf env retr (nval ntxt) ex_deep.
Proof. unfold wf, ex_deep. wf_tac. Qed.
Lemma good_chars d str0 : Forall (tgood env retr ntxt d) (chars str0).
Proof.
  unfold chars, lit_tokens. induction (L str0) as [|c l IH]; [constructor|]. cbn [map]. constructor; [|exact IH].
  unfold lit_tok. destruct (Ascii.eqb c cClose); destruct d; exact I.
Qed.
Lemma gA d : tgood env retr ntxt (S d) (TRef (L"env:A")).
Proof.
  cbn [tgood]. change (ntxt (L"env:A")) with (chars "va"). split; [|split].
  - vm_compute. repeat split; try exact I; intros; discriminate.
  - reflexivity.
  - apply good_chars.
Qed.
Lemma gR d : tgood env retr ntxt (S (S d)) (TRef (L"env:R")) /\ tgood env retr ntxt (S (S d)) (TRef (L"R")).
Proof.
  split; cbn [tgood];
    (match goal with |- context [ntxt ?x] => let t := eval vm_compute in (ntxt x) in change (ntxt x) with t end;
     split; [|split]; [wf_tac | reflexivity | repeat (apply Forall_cons; [first [exact I | apply gA]|]); apply Forall_nil]).
Qed.
Lemma gS d : tgood env retr ntxt (S (S (S d))) (TRef (L"env:S")).
Proof.
  cbn [tgood]. match goal with |- context [ntxt ?x] => let t := eval vm_compute in (ntxt x) in change (ntxt x) with t end.
  split; [|split]; [wf_tac | reflexivity | repeat (apply Forall_cons; [first [exact I | apply gR]|]); apply Forall_nil].
Qed.
Example ex_deep_good : good env retr ntxt 3 ex_deep.
Proof. unfold good, ex_deep. repeat (apply Forall_cons; [first [exact I | apply gS | apply (gA 2)]|]). apply Forall_nil. Qed.
Example ex_deep_cost : cost ntxt 3 ex_deep = 11.
Proof. vm_compute. reflexivity. Qed.
Example ex_deep_text : flatten ex_deep = L"x${env:S}$.${env:A}${env:S}".
Proof. reflexivity. Qed.
Example ex_deep_mean : mean ntxt 3 ex_deep = L"x[<va>$<va>]$.va[<va>$<va>]".
Proof. vm_compute. reflexivity. Qed.
Example ex_deep_resolved : resolve_string env retr (flatten ex_deep) = Ok (CStr (mean ntxt 3 ex_deep)).
Proof. vm_compute. reflexivity. Qed.
(* why provider texts must not end with a lone '$': it forms a NEW reference with what follows in the host *)
Example ex_formed_reference : rs "${env:DOL}{env:A}" = Ok (CStr (L"va")).
Proof. vm_compute. reflexivity. Qed.

(* the same source listed again after a conflicting one is merged again: [A; B; A] is not [A; B] *)
Example ex_source_listed_again :
  let A := CMap [(L"k", CInt 1); (L"m", CMap [(L"x", CInt 1)])] in
  let B := CMap [(L"k", CInt 2); (L"m", CMap [(L"x", CInt 2); (L"y", CInt 2)])] in
  resolve env retr [A; B; A] = Ok (CMap [(L"k", CInt 1); (L"m", CMap [(L"x", CInt 1); (L"y", CInt 2)])]) /\
  resolve env retr [A; B] = Ok (CMap [(L"k", CInt 2); (L"m", CMap [(L"x", CInt 2); (L"y", CInt 2)])]).
Proof. split; vm_compute; reflexivity. Qed.

(* a provider text that is the YAML null scalar: value nil, text "null"; a string field receives the text,
   every other target the zero value *)
Example ex_null_text :
  let v := CExp CNil (L"null") in
  decode_string_field v = Some (L"null") /\ decode_int_field v = Some (Some 0%Z) /\
  decode_strlist_field v = Some [] /\ decode_strmap_field v = Some [] /\ sanitize v = CNil.
Proof. repeat split. Qed.

(* inputs made of references only: anchored by weight (two tokens with non-empty final meaning) *)
Definition ex_refs_only : list tok := [TRef (L"env:R"); TRef (L"env:S")].
Example ex_refs_only_anchored : nanchored ntxt 3 ex_refs_only.
Proof. right. vm_compute. lia. Qed.
Example ex_refs_only_wf : wf env retr (nval ntxt) ex_refs_only.
Proof. unfold wf, ex_refs_only. wf_tac. Qed.
Example ex_refs_only_good : good env retr ntxt 3 ex_refs_only.
Proof. unfold good, ex_refs_only. repeat (apply Forall_cons; [first [apply gS | apply (proj1 (gR 1))]|]). apply Forall_nil. Qed.
Example ex_refs_only_resolved :
  resolve_string env retr (flatten ex_refs_only) = Ok (CStr (mean ntxt 3 ex_refs_only)) /\
  mean ntxt 3 ex_refs_only = L"<va>[<va>$<va>]".
Proof. split; vm_compute; reflexivity. Qed.

(* a provider value that is a LIST of strings with (nested) references: hypotheses of
   whole_value_list_of_token_strings are satisfiable, and the closed form is what the model computes *)
Definition ex_tss : list (list tok) := [[TChar "a"%char; TRef (L"env:R")]; [TRef (L"env:A"); TChar "b"%char]].
Definition ex_tso : list tok := chars "[a" ++ [TRef (L"env:R")] ++ chars ", " ++ [TRef (L"env:A")] ++ chars "b]".
Lemma ex_tok_ok ts :
  wf env retr (nval ntxt) ts -> good env retr ntxt 3 ts -> has_text ts = true -> cost ntxt 3 ts <= 998 ->
  tok_ok env retr ntxt 3 ts.
Proof. intros. unfold tok_ok. repeat split; auto. now left. Qed.
Example ex_list_members : Forall (tok_ok env retr ntxt 3) ex_tss.
Proof.
  unfold ex_tss. repeat (apply Forall_cons; [|]); try apply Forall_nil; apply ex_tok_ok;
    try reflexivity; try (vm_compute; lia); try (unfold wf; wf_tac);
    unfold good; repeat (apply Forall_cons; [first [exact I | apply (proj1 (gR 1)) | apply (gA 2)]|]); apply Forall_nil.
Qed.
Example ex_list_text : tok_ok env retr ntxt 3 ex_tso.
Proof.
  apply ex_tok_ok; try reflexivity; try (vm_compute; lia).
  - vm_compute. repeat match goal with
         | |- _ /\ _ => split
         | |- exists _, _ => eexists
         | |- _ = _ => reflexivity
         | |- True => exact I
         | |- _ -> _ => intros; discriminate
         end.
  - unfold good, ex_tso. repeat (apply Forall_app; split); try apply good_chars;
      (apply Forall_cons; [first [apply (proj1 (gR 1)) | apply (gA 2)]|apply Forall_nil]).
Qed.
Example ex_list_closed_form :
  resolve_string env retr (ref_text (L"env:YL"))
  = Ok (CExp (CList (map (fun ts => CStr (mean ntxt 3 ts)) ex_tss)) (mean ntxt 3 ex_tso)).
Proof.
  apply (list_of_token_strings env retr ntxt (L"env:YL") (mkRet (CList [CStr (L"a${env:R}"); CStr (L"${env:A}b")]) (Some (L"[a${env:R}, ${env:A}b]")))).
  - reflexivity.
  - reflexivity.
  - vm_compute. reflexivity.
  - reflexivity.
  - reflexivity.
  - exact ex_list_members.
  - exact ex_list_text.
  - apply Nat.leb_le. vm_compute. reflexivity.
Qed.
Example ex_list_value :
  resolve_string env retr (ref_text (L"env:YL")) = Ok (CExp (CList [CStr (L"a<va>"); CStr (L"vab")]) (L"[a<va>, vab]")).
Proof. vm_compute. reflexivity. Qed.

(* cyclic_core_rejected: hypotheses satisfiable (2-cycle CA -> CB -> CA of the table), embedded use *)
Definition cyc_txt (n : str) : list tok :=
  if str_eqb n (L"env:CA") then [TRef (L"env:CB")]
  else if str_eqb n (L"env:CB") then [TChar "b"%char; TRef (L"env:CA")] else [].
Definition cyc_core (n : str) : Prop := n = L"env:CA" \/ n = L"env:CB".
Lemma cyc_world n : wf_from env retr (nval cyc_txt) false (cyc_txt n) /\ flag_after false (cyc_txt n) = false.
Proof.
  unfold cyc_txt. destruct (str_eqb n (L"env:CA")); [split; [wf_tac|reflexivity]|].
  destruct (str_eqb n (L"env:CB")); split; try reflexivity; try exact I. wf_tac.
Qed.
Lemma cyc_closed n : cyc_core n -> exists m, cyc_core m /\ In (TRef m) (cyc_txt n).
Proof.
  intros [->| ->]; [exists (L"env:CB")|exists (L"env:CA")]; (split; [unfold cyc_core; auto|vm_compute; auto]).
Qed.
Example ex_cyclic_core :
  resolve_string env retr (flatten [TChar "a"%char; TRef (L"env:CA")]) = Err [ETooMany].
Proof.
  apply (cyclic_core_refused env retr cyc_txt cyc_world cyc_core cyc_closed).
  - unfold wf. wf_tac.
  - reflexivity.
  - exists (L"env:CA"). split; [now left|right; now left].
Qed.
Example ex_no_default_text : resolve_string [] retr (L"${A} $$ ${B}x}") = Ok (CStr (L"${A} $ ${B}x}")).
Proof. apply no_default_colon_free. reflexivity. Qed.

(* the link theorem is not vacuous: a case on which every clause checker SPEAKS (token meaning with a nested
   reference, plain text, typed whole value), built from the model's own run, passes *)
Definition ex_cfg : wcfg :=
  ("env", ["env"],
   [("env:A", WPVal (WStr "va") None); ("env:R", WPVal (WStr "<${env:A}>") None);
    ("env:N", WPVal (WInt 42) (Some "42"))]).
Definition ex_srcs : list wcv :=
  [WMap [("k0", WStr "x${env:R}$$${A}"); ("k1", WStr "plain $$ text}"); ("k2", WStr "${env:N}")]].
Example ex_link_speaks :
  tok_applicable (L"env") (retrieve_tbl ["env"] (snd ex_cfg)) (L"x${env:R}$$${A}") = true /\
  no_ref_b (L"plain $$ text}") = true /\
  typed_target (L"env") (retrieve_tbl ["env"] (snd ex_cfg)) (L"${env:N}") = Some (CInt 42, L"42").
Proof. repeat split; vm_compute; reflexivity. Qed.
Example ex_link_passes : prop_ok (model_case ex_cfg ex_srcs) = true.
Proof. apply model_case_passes. vm_compute. repeat constructor; intros H; repeat (destruct H as [H|H]; try discriminate); exact H. Qed.
Example ex_link_model_answer :
  model_out (ex_cfg, ex_srcs, WObsErr 0)
  = MOk (WMap [("k0", WStr "x<va>$va"); ("k1", WStr "plain $ text}"); ("k2", WExp (WInt 42) "42")]).
Proof. vm_compute. reflexivity. Qed.
(* the checker is not trivially true: a wrong observation is rejected, with the clause *)
Example ex_checker_rejects :
  clause_codes (ex_cfg, ex_srcs, WObsOk (WMap [("k0", WStr "x<va>$va"); ("k1", WStr "plain $$ text}"); ("k2", WInt 42)]) WNil [])
  = [1; 2; 3].
Proof. vm_compute. reflexivity. Qed.
