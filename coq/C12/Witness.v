From Verif Require Import Common.Base C12.Model.
