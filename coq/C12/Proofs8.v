(* C12/Proofs8.v — values with structure: lists and maps are resolved member by member, an expandedValue
   {typed value, original text} resolves its two halves independently (they only share the round counter).
   Generic: no assumption on what the members are. *)
From Verif Require Import Common.Base C12.Model C12.Proofs1 C12.Proofs2 C12.Proofs4.
From Coq Require Import Ascii.

Section Parallel.
  Variable def : str.
  Variable retrieve : str -> str -> res retrieved.

  Notation ev := (expand_value def retrieve).
  (* [er] = plain iteration of rounds (no budget): the structure theorems are about the rounds; [bridge] below
     carries them to expandValueRecursively with its work budget *)
  Notation er := (expand_rec_old def retrieve).

  (* the two anonymous loops of expandValue as functions of their own *)
  Fixpoint expand_list (l : list cv) : res (list cv * bool) :=
    match l with
    | [] => Ok ([], false)
    | x :: xs =>
        match ev x with
        | Err e => Err e
        | Ok (x', c) =>
            match expand_list xs with
            | Err e => Err e
            | Ok (xs', c') => Ok (x' :: xs', c || c')
            end
        end
    end.

  Fixpoint expand_entries (m : list (str * cv)) : res (list (str * cv) * bool) :=
    match m with
    | [] => Ok ([], false)
    | (k, x) :: ms =>
        match ev x, expand_entries ms with
        | Err e1, Err e2 => Err (e1 ++ e2)
        | Err e1, Ok _ => Err e1
        | Ok _, Err e2 => Err e2
        | Ok (x', c), Ok (ms', c') => Ok ((k, x') :: ms', c || c')
        end
    end.

  Lemma ev_list l :
    ev (CList l) = match expand_list l with Err e => Err e | Ok (l', c) => Ok (CList l', c) end.
  Proof. reflexivity. Qed.

  Lemma ev_map m :
    ev (CMap m) = match expand_entries m with Err e => Err e | Ok (m', c) => Ok (CMap m', c) end.
  Proof. reflexivity. Qed.

  Lemma ev_exp x o :
    ev (CExp x o) =
    match ev x with
    | Err e => Err e
    | Ok (expanded, changed) =>
        match expanded with
        | CExp _ _ | CStr _ => Ok (expanded, changed)
        | _ =>
            match expand_string def retrieve o with
            | Err _ => Ok (expanded, changed)
            | Ok (CStr o', oc) => Ok (CExp expanded o', changed || oc)
            | Ok (_, _) => Ok (expanded, changed)
            end
        end
    end.
  Proof. reflexivity. Qed.

  (* ---- a round that reports "unchanged" returns a fixpoint ------------------------------------------ *)
  Lemma stable v : forall v', ev v = Ok (v', false) -> ev v' = Ok (v', false).
  Proof.
    induction v as [| | | |s|l IH|m IH|x o IH] using cv_ind'; intros v' H;
      try (cbn [expand_value] in H; inversion H; subst; reflexivity).
    - (* string *)
      rewrite expand_value_str in H. pose proof (expand_string_unchanged def retrieve s v' H). subst v'.
      rewrite expand_value_str. exact H.
    - (* list *)
      rewrite ev_list in H. destruct (expand_list l) as [[l' c]|e] eqn:El; [|discriminate].
      inversion H; subst. rewrite ev_list.
      assert (Hl : expand_list l' = Ok (l', false)).
      { clear H. revert l' El. induction IH as [|x r Hx Hr IHr]; intros l' El.
        - cbn in El. inversion El. reflexivity.
        - cbn [expand_list] in El. destruct (ev x) as [[x' c]|e] eqn:Ex; [|discriminate].
          destruct (expand_list r) as [[r' c']|e] eqn:Er; [|discriminate].
          inversion El; subst. match goal with Hc : _ || _ = false |- _ => apply orb_false_iff in Hc as [-> ->] end.
          cbn [expand_list]. rewrite (Hx _ eq_refl), (IHr _ eq_refl). reflexivity. }
      now rewrite Hl.
    - (* map *)
      rewrite ev_map in H. destruct (expand_entries m) as [[m' c]|e] eqn:Em; [|discriminate].
      inversion H; subst. rewrite ev_map.
      assert (Hm : expand_entries m' = Ok (m', false)).
      { clear H. revert m' Em. induction IH as [|[k x] r Hx Hr IHr]; intros m' Em.
        - cbn in Em. inversion Em. reflexivity.
        - cbn [expand_entries snd] in *. destruct (ev x) as [[x' c]|e] eqn:Ex.
          + destruct (expand_entries r) as [[r' c']|e] eqn:Er; [|discriminate].
            inversion Em; subst. match goal with Hc : _ || _ = false |- _ => apply orb_false_iff in Hc as [-> ->] end.
            cbn [expand_entries]. rewrite (Hx _ eq_refl), (IHr _ eq_refl). reflexivity.
          + destruct (expand_entries r) as [[r' c']|e']; discriminate. }
      now rewrite Hm.
    - (* expandedValue *)
      rewrite ev_exp in H.
      destruct (ev x) as [[e c]|err] eqn:Ex; [|discriminate].
      destruct e;
        try (inversion H; subst; (apply IH; reflexivity));
        (destruct (expand_string def retrieve o) as [[w oc]|err] eqn:Eo;
         [destruct w; inversion H; subst; try ((apply IH; reflexivity));
          match goal with Hc : _ || _ = false |- _ => apply orb_false_iff in Hc as [-> ->] end;
          pose proof (expand_string_unchanged def retrieve _ _ Eo) as Hw; inversion Hw; subst;
          rewrite ev_exp, (IH _ eq_refl), Eo; reflexivity
         |inversion H; subst; (apply IH; reflexivity)]).
  Qed.

  Lemma er_stable f v : ev v = Ok (v, false) -> er (S f) v = Ok v.
  Proof. intros H. now apply expand_rec_old_unchanged. Qed.

  Lemma er_mono f : forall v y, er f v = Ok y -> er (S f) v = Ok y.
  Proof.
    induction f as [|f IH]; intros v y H; [discriminate|].
    cbn [expand_rec_old] in H. destruct (ev v) as [[v' c]|e] eqn:E; [|discriminate].
    destruct c.
    - rewrite (expand_rec_old_changed def retrieve _ _ _ E). now apply IH.
    - now rewrite (expand_rec_old_unchanged def retrieve _ _ _ E).
  Qed.

  Lemma er_mono_le f g v y : f <= g -> er f v = Ok y -> er g v = Ok y.
  Proof. induction 1; [auto|]. intros. apply er_mono. auto. Qed.

  Lemma er_zero v y : er 0 v = Ok y -> False.
  Proof. discriminate. Qed.

  Lemma expand_list_unchanged_fix xs : forall ys,
    expand_list xs = Ok (ys, false) -> forall f, Forall2 (fun x y => er (S f) x = Ok y) ys ys.
  Proof.
    induction xs as [|a l IH]; intros ys E f.
    - cbn in E. inversion E. constructor.
    - cbn [expand_list] in E. destruct (ev a) as [[a' ca]|e] eqn:Ea; [|discriminate].
      destruct (expand_list l) as [[l1 cl]|e] eqn:El; [|discriminate].
      inversion E; subst. match goal with Hc : _ || _ = false |- _ => apply orb_false_iff in Hc as [-> ->] end.
      constructor; [apply er_stable; exact (stable _ _ Ea)|]. now apply IH.
  Qed.

  (* ---- lists: member by member ---------------------------------------------------------------------- *)
  Lemma list_memberwise f : forall xs ys,
    Forall2 (fun x y => er (S f) x = Ok y) xs ys -> er (S f) (CList xs) = Ok (CList ys).
  Proof.
    induction f as [|f IH]; intros xs ys H.
    - (* one round: nobody may change *)
      assert (Hl : expand_list xs = Ok (ys, false)).
      { induction H as [|x y r r' Hx Hr IHr]; [reflexivity|].
        cbn [expand_rec_old] in Hx. destruct (ev x) as [[x' c]|e] eqn:Ex; [|discriminate].
        destruct c; [discriminate|]. inversion Hx; subst.
        cbn [expand_list]. rewrite Ex, IHr. reflexivity. }
      apply expand_rec_old_unchanged. now rewrite ev_list, Hl.
    - (* first round, then the induction hypothesis on what the members have become *)
      assert (Hl : exists xs' c, expand_list xs = Ok (xs', c) /\
                   (c = false -> xs' = ys) /\
                   (c = true -> Forall2 (fun x y => er (S f) x = Ok y) xs' ys)).
      { induction H as [|x y r r' Hx Hr IHr].
        - exists [], false. repeat split; auto; discriminate.
        - destruct IHr as [r1 [c1 [E1 [F1 T1]]]].
          cbn [expand_rec_old] in Hx. destruct (ev x) as [[x' c]|e] eqn:Ex; [|discriminate].
          exists (x' :: r1), (c || c1). cbn [expand_list]. rewrite Ex, E1. split; [reflexivity|].
          assert (Hx' : er (S f) x' = Ok y).
          { destruct c; [exact Hx|]. inversion Hx; subst. apply er_stable. exact (stable _ _ Ex). }
          split.
          + intros Hc. apply orb_false_iff in Hc as [-> ->]. inversion Hx; subst. now rewrite (F1 eq_refl).
          + intros _. constructor; [exact Hx'|].
            destruct c1; [now apply T1|]. rewrite (F1 eq_refl) in *.
            exact (expand_list_unchanged_fix _ _ E1 f).
      }
      destruct Hl as [xs' [c [E [F T]]]].
      destruct c.
      + rewrite (expand_rec_old_changed def retrieve _ _ (CList xs')) by (now rewrite ev_list, E).
        apply IH. now apply T.
      + rewrite (F eq_refl) in E. apply expand_rec_old_unchanged. now rewrite ev_list, E.
  Qed.

  (* ---- maps: entry by entry ------------------------------------------------------------------------------ *)
  Definition entry_ok (f : nat) (kx ky : str * cv) : Prop := fst kx = fst ky /\ er f (snd kx) = Ok (snd ky).

  Lemma expand_entries_unchanged_fix m : forall m',
    expand_entries m = Ok (m', false) -> forall f, Forall2 (entry_ok (S f)) m' m'.
  Proof.
    induction m as [|[k a] l IH]; intros m' E f.
    - cbn in E. inversion E. constructor.
    - cbn [expand_entries] in E. destruct (ev a) as [[a' ca]|e] eqn:Ea.
      + destruct (expand_entries l) as [[l1 cl]|e] eqn:El; [|discriminate].
        inversion E; subst. match goal with Hc : _ || _ = false |- _ => apply orb_false_iff in Hc as [-> ->] end.
        constructor; [split; [reflexivity|apply er_stable; exact (stable _ _ Ea)]|]. now apply IH.
      + destruct (expand_entries l) as [[l1 cl]|e']; discriminate.
  Qed.

  Lemma map_memberwise f : forall m m',
    Forall2 (entry_ok (S f)) m m' -> er (S f) (CMap m) = Ok (CMap m').
  Proof.
    induction f as [|f IH]; intros m m' H.
    - assert (Hl : expand_entries m = Ok (m', false)).
      { induction H as [|[k x] [k' y] r r' [Hk Hx] Hr IHr]; [reflexivity|].
        cbn [fst snd] in Hk, Hx. subst k'.
        cbn [expand_rec_old] in Hx. destruct (ev x) as [[x' c]|e] eqn:Ex; [|discriminate].
        destruct c; [discriminate|]. inversion Hx; subst.
        cbn [expand_entries]. rewrite Ex, IHr. reflexivity. }
      apply expand_rec_old_unchanged. now rewrite ev_map, Hl.
    - assert (Hl : exists m1 c, expand_entries m = Ok (m1, c) /\
                   (c = false -> m1 = m') /\
                   (c = true -> Forall2 (entry_ok (S f)) m1 m')).
      { induction H as [|[k x] [k' y] r r' [Hk Hx] Hr IHr].
        - exists [], false. repeat split; auto; discriminate.
        - destruct IHr as [r1 [c1 [E1 [F1 T1]]]].
          cbn [fst snd] in Hk, Hx. subst k'.
          cbn [expand_rec_old] in Hx. destruct (ev x) as [[x' c]|e] eqn:Ex; [|discriminate].
          exists ((k, x') :: r1), (c || c1). cbn [expand_entries]. rewrite Ex, E1. split; [reflexivity|].
          assert (Hx' : er (S f) x' = Ok y).
          { destruct c; [exact Hx|]. inversion Hx; subst. apply er_stable. exact (stable _ _ Ex). }
          split.
          + intros Hc. apply orb_false_iff in Hc as [-> ->]. inversion Hx; subst. now rewrite (F1 eq_refl).
          + intros _. constructor; [split; [reflexivity|exact Hx']|].
            destruct c1; [now apply T1|]. rewrite (F1 eq_refl) in *.
            exact (expand_entries_unchanged_fix _ _ E1 f).
      }
      destruct Hl as [m1 [c [E [F T]]]].
      destruct c.
      + rewrite (expand_rec_old_changed def retrieve _ _ (CMap m1)) by (now rewrite ev_map, E).
        apply IH. now apply T.
      + rewrite (F eq_refl) in E. apply expand_rec_old_unchanged. now rewrite ev_map, E.
  Qed.

  (* ---- strings that stay strings: the rounds of a text ----------------------------------------------------- *)
  Fixpoint str_rec (f : nat) (o : str) : option str :=
    match f with
    | 0 => None
    | S f' =>
        match expand_string def retrieve o with
        | Ok (CStr o1, true) => str_rec f' o1
        | Ok (CStr o1, false) => Some o1
        | _ => None
        end
    end.

  Lemma str_rec_er f : forall o o', str_rec f o = Some o' -> er f (CStr o) = Ok (CStr o').
  Proof.
    induction f as [|f IH]; intros o o' H; [discriminate|]. cbn [str_rec] in H.
    destruct (expand_string def retrieve o) as [[w c]|e] eqn:E; [|discriminate].
    destruct w; try discriminate. destruct c.
    - rewrite (expand_rec_old_changed def retrieve _ _ (CStr s)) by (now rewrite expand_value_str). now apply IH.
    - inversion H; subst. apply expand_rec_old_unchanged. now rewrite expand_value_str.
  Qed.

  Lemma str_rec_mono f : forall o o', str_rec f o = Some o' -> str_rec (S f) o = Some o'.
  Proof.
    induction f as [|f IH]; intros o o' H; [discriminate|]. cbn [str_rec] in H.
    change (str_rec (S (S f)) o) with
      (match expand_string def retrieve o with
       | Ok (CStr o1, true) => str_rec (S f) o1 | Ok (CStr o1, false) => Some o1 | _ => None end).
    destruct (expand_string def retrieve o) as [[w c]|e]; [|discriminate].
    destruct w; try discriminate. destruct c; [now apply IH|exact H].
  Qed.

  Lemma str_rec_mono_le f g o o' : f <= g -> str_rec f o = Some o' -> str_rec g o = Some o'.
  Proof. induction 1; [auto|]. intros. apply str_rec_mono. auto. Qed.

  (* ---- an expandedValue: typed value and original text side by side ---------------------------------------- *)
  Lemma exp_parallel f : forall x o y o',
    structured x = true -> er (S f) x = Ok y -> str_rec (S f) o = Some o' ->
    er (S f) (CExp x o) = Ok (CExp y o').
  Proof.
    induction f as [|f IH]; intros x o y o' Hs Hx Ho.
    - cbn [expand_rec_old] in Hx. destruct (ev x) as [[e c]|err] eqn:Ex; [|discriminate].
      destruct c; [discriminate|]. inversion Hx; subst e.
      cbn [str_rec] in Ho. destruct (expand_string def retrieve o) as [[w oc]|err] eqn:Eo; [|discriminate].
      destruct w; try discriminate. destruct oc; [discriminate|]. inversion Ho; subst s.
      pose proof (expand_value_structured def retrieve x y false Hs Ex) as Hy.
      apply expand_rec_old_unchanged. rewrite ev_exp, Ex, Eo. destruct y; try discriminate; reflexivity.
    - cbn [expand_rec_old] in Hx. destruct (ev x) as [[e c]|err] eqn:Ex; [|discriminate].
      pose proof (expand_value_structured def retrieve x e c Hs Ex) as He.
      change (str_rec (S (S f)) o) with
        (match expand_string def retrieve o with
         | Ok (CStr o1, true) => str_rec (S f) o1 | Ok (CStr o1, false) => Some o1 | _ => None end) in Ho.
      destruct (expand_string def retrieve o) as [[w oc]|err] eqn:Eo; [|discriminate].
      destruct w as [| | | |o1| | |]; try discriminate.
      assert (Hev : ev (CExp x o) = Ok (CExp e o1, c || oc)).
      { rewrite ev_exp, Ex, Eo. destruct e; try discriminate; reflexivity. }
      assert (He' : er (S f) e = Ok y).
      { destruct c; [exact Hx|]. inversion Hx; subst. apply er_stable. exact (stable _ _ Ex). }
      assert (Ho' : str_rec (S f) o1 = Some o').
      { destruct oc; [exact Ho|]. inversion Ho; subst.
        pose proof (expand_string_unchanged def retrieve _ _ Eo) as Hw. inversion Hw; subst.
        cbn [str_rec]. now rewrite Eo. }
      destruct (c || oc) eqn:Ec.
      + rewrite (expand_rec_old_changed def retrieve _ _ _ Hev). now apply IH.
      + apply orb_false_iff in Ec as [-> ->]. inversion Hx; inversion Ho; subst.
        now apply expand_rec_old_unchanged.
  Qed.

  (* ---- from rounds to the budgeted loop --------------------------------------------------------------------- *)
  (* what the rounds of [er f v] add to Resolver.expansions *)
  Fixpoint total_spent (f : nat) (v : cv) : nat :=
    match f with
    | 0 => 0
    | S f' =>
        match ev v with
        | Ok (v', true) => spent def retrieve v + total_spent f' v'
        | _ => 0
        end
    end.

  Lemma bridge f : forall fuel used v y,
    er f v = Ok y -> used + total_spent f v <= max_expansions -> f <= fuel ->
    expand_rec def retrieve fuel used v = Ok y.
  Proof.
    induction f as [|f IH]; intros fuel used v y H Hb Hf; [discriminate|].
    destruct fuel as [|fuel]; [lia|]. cbn [expand_rec_old] in H. cbn [total_spent] in Hb. cbn [expand_rec].
    destruct (ev v) as [[v' c]|e]; [|discriminate]. destruct c; [|exact H].
    rewrite (budget_ok used (spent def retrieve v)) by lia.
    apply IH; [exact H|lia|lia].
  Qed.

  (* a value that IS one reference to a structured value (list / map / scalar) with a text; the budget
     hypothesis is stated on what the rounds spend *)
  Lemma whole_value_structured n ret o y o' :
    name_ok n = true -> ref_ok def n = true ->
    expand_uri def retrieve (ref_text n) = Ok ret -> as_string ret = Some o ->
    structured (r_raw ret) = true ->
    er 999 (r_raw ret) = Ok y -> str_rec 999 o = Some o' ->
    1 + total_spent 999 (CExp (r_raw ret) o) <= max_expansions ->
    resolve_string def retrieve (ref_text n) = Ok (CExp (escape_dollars y) (unescape o')).
  Proof.
    intros Hn Hok He Ho Hs Hy Ho' Hb. unfold resolve_string, resolve_leaf. rewrite rec_fuel_S.
    rewrite (Proofs2.expand_rec_changed def retrieve _ _ _ (CExp (r_raw ret) o)).
    2:{ rewrite expand_value_str, (expand_string_whole def retrieve n ret) by assumption. now rewrite Ho. }
    2:{ rewrite (spent_whole def retrieve n ret) by assumption. pose proof max_expansions_pos. lia. }
    rewrite (spent_whole def retrieve n ret) by assumption.
    change 999 with (S 998) in *.
    rewrite (bridge (S 998) _ _ _ (CExp y o')); [reflexivity| | |].
    - now apply exp_parallel.
    - cbn [Nat.add]. lia.
    - unfold max_expansions. lia.
  Qed.
End Parallel.
