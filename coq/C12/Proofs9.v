(* C12/Proofs9.v — a whole-value reference to a list / map whose members are token strings (provider texts
   may contain references again): the typed value is the member-wise meaning, the original text the meaning
   of the text. *)
From Verif Require Import Common.Base C12.Model C12.Proofs1 C12.Proofs2 C12.Proofs3 C12.Proofs4 C12.Proofs8 C12.Proofs7.
From Coq Require Import Ascii.

Section Structured.
  Variable def : str.
  Variable retrieve : str -> str -> res retrieved.
  Variable txt : str -> list tok.

  (* a token string the nested theorem covers, with at most 998 reference nodes *)
  Definition tok_ok (d : nat) (ts : list tok) : Prop :=
    wf def retrieve (nval txt) ts /\ good def retrieve txt d ts /\ nanchored txt d ts /\ cost txt d ts <= 998.

  Lemma tok_ok_str d ts : tok_ok d ts ->
    exists s, str_rec def retrieve 999 (flatten ts) = Some s /\ unescape s = mean txt d ts.
  Proof. intros [Hw [Hg [Ha Hc]]]. now apply (nested_rounds def retrieve txt 998 d ts). Qed.

  Lemma members_resolve d tss : Forall (tok_ok d) tss ->
    exists ss, Forall2 (fun x y => expand_rec def retrieve 999 x = Ok y)
                       (map (fun ts => CStr (flatten ts)) tss) (map CStr ss) /\
               map unescape ss = map (mean txt d) tss.
  Proof.
    induction 1 as [|ts l Hts Hl [ss [IH1 IH2]]]; [exists []; split; constructor|].
    destruct (tok_ok_str d ts Hts) as [s [Hs Hm]]. exists (s :: ss). split.
    - cbn [map]. constructor; [now apply str_rec_er|exact IH1].
    - cbn [map]. now rewrite Hm, IH2.
  Qed.

  Lemma escape_strs ss : escape_dollars (CList (map CStr ss)) = CList (map CStr (map unescape ss)).
  Proof. cbn [escape_dollars]. f_equal. rewrite !map_map. reflexivity. Qed.

  Lemma list_of_token_strings n ret d tss tso :
    name_ok n = true -> ref_ok def n = true ->
    expand_uri def retrieve (ref_text n) = Ok ret ->
    r_raw ret = CList (map (fun ts => CStr (flatten ts)) tss) ->
    as_string ret = Some (flatten tso) ->
    Forall (tok_ok d) tss -> tok_ok d tso ->
    resolve_string def retrieve (ref_text n)
    = Ok (CExp (CList (map (fun ts => CStr (mean txt d ts)) tss)) (mean txt d tso)).
  Proof.
    intros Hn Hok He Hraw Hs Hm Ho.
    destruct (members_resolve d tss Hm) as [ss [Hss Hun]].
    destruct (tok_ok_str d tso Ho) as [so [Hso Huo]].
    rewrite (whole_value_structured def retrieve n ret (flatten tso) (CList (map CStr ss)) so); auto.
    - rewrite escape_strs, Hun, Huo, map_map. reflexivity.
    - now rewrite Hraw.
    - rewrite Hraw. change 999 with (S 998) in *. now apply list_memberwise.
  Qed.

  (* maps: entries (key, token string) *)
  Lemma entries_resolve d kvs : Forall (fun kv : str * list tok => tok_ok d (snd kv)) kvs ->
    exists ss, Forall2 (entry_ok def retrieve 999)
                       (map (fun kv => (fst kv, CStr (flatten (snd kv)))) kvs)
                       (map (fun ks : str * str => (fst ks, CStr (snd ks))) ss) /\
               map (fun ks : str * str => (fst ks, unescape (snd ks))) ss
               = map (fun kv => (fst kv, mean txt d (snd kv))) kvs.
  Proof.
    induction 1 as [|[k ts] l Hts Hl [ss [IH1 IH2]]]; [exists []; split; constructor|].
    cbn [snd] in Hts. destruct (tok_ok_str d ts Hts) as [s [Hs Hm]]. exists ((k, s) :: ss). split.
    - cbn [map fst snd]. constructor; [split; [reflexivity|now apply str_rec_er]|exact IH1].
    - cbn [map fst snd]. now rewrite Hm, IH2.
  Qed.

  Lemma escape_entries (ss : list (str * str)) :
    escape_dollars (CMap (map (fun ks : str * str => (fst ks, CStr (snd ks))) ss))
    = CMap (map (fun ks : str * str => (fst ks, CStr (snd ks)))
                (map (fun ks : str * str => (fst ks, unescape (snd ks))) ss)).
  Proof. cbn [escape_dollars]. f_equal. rewrite !map_map. reflexivity. Qed.

  Lemma map_of_token_strings n ret d kvs tso :
    name_ok n = true -> ref_ok def n = true ->
    expand_uri def retrieve (ref_text n) = Ok ret ->
    r_raw ret = CMap (map (fun kv => (fst kv, CStr (flatten (snd kv)))) kvs) ->
    as_string ret = Some (flatten tso) ->
    Forall (fun kv : str * list tok => tok_ok d (snd kv)) kvs -> tok_ok d tso ->
    resolve_string def retrieve (ref_text n)
    = Ok (CExp (CMap (map (fun kv => (fst kv, CStr (mean txt d (snd kv)))) kvs)) (mean txt d tso)).
  Proof.
    intros Hn Hok He Hraw Hs Hm Ho.
    destruct (entries_resolve d kvs Hm) as [ss [Hss Hun]].
    destruct (tok_ok_str d tso Ho) as [so [Hso Huo]].
    rewrite (whole_value_structured def retrieve n ret (flatten tso)
               (CMap (map (fun ks : str * str => (fst ks, CStr (snd ks))) ss)) so); auto.
    - rewrite escape_entries, Hun, Huo, map_map. reflexivity.
    - now rewrite Hraw.
    - rewrite Hraw. change 999 with (S 998) in *. now apply map_memberwise.
  Qed.
End Structured.
