(* C12/Proofs9.v — a whole-value reference to a list / map whose members are token strings (provider texts
   may contain references again): the typed value is the member-wise meaning, the original text the meaning
   of the text. *)
From Verif Require Import Common.Base C12.Model C12.Proofs1 C12.Proofs2 C12.Proofs3 C12.Proofs4 C12.Proofs8 C12.Proofs7.
From Coq Require Import Ascii.

Section Structured.
  Variable def : str.
  Variable retrieve : str -> str -> res retrieved.
  Variable txt : str -> list tok.

  (* a token string the nested theorem covers, with at most 998 reference nodes *)
  Definition tok_ok (d : nat) (ts : list tok) : Prop :=
    wf def retrieve (nval txt) ts /\ good def retrieve txt d ts /\ nanchored txt d ts /\ cost txt d ts <= 998.

  Lemma tok_ok_str d ts : tok_ok d ts ->
    exists s, str_rec def retrieve 999 (flatten ts) = Some s /\ unescape s = mean txt d ts.
  Proof. intros [Hw [Hg [Ha Hc]]]. now apply (nested_rounds def retrieve txt 998 d ts). Qed.

  Lemma members_resolve d tss : Forall (tok_ok d) tss ->
    exists ss, Forall2 (fun x y => expand_rec_old def retrieve 999 x = Ok y)
                       (map (fun ts => CStr (flatten ts)) tss) (map CStr ss) /\
               map unescape ss = map (mean txt d) tss.
  Proof.
    induction 1 as [|ts l Hts Hl [ss [IH1 IH2]]]; [exists []; split; constructor|].
    destruct (tok_ok_str d ts Hts) as [s [Hs Hm]]. exists (s :: ss). split.
    - cbn [map]. constructor; [now apply str_rec_er|exact IH1].
    - cbn [map]. now rewrite Hm, IH2.
  Qed.

  Lemma escape_strs ss : escape_dollars (CList (map CStr ss)) = CList (map CStr (map unescape ss)).
  Proof. cbn [escape_dollars]. f_equal. rewrite !map_map. reflexivity. Qed.

  (* ---- the shared expansion counter: a closed-form bound -------------------------------------------------------
     Members of a list and the text of an expandedValue share Resolver.expansions.  For token strings every member
     spends exactly its own measure [cost], so the whole run spends at most the SUM of the measures. *)
  Definition tinv (d : nat) (ts : list tok) : Prop :=
    wf def retrieve (nval txt) ts /\ good def retrieve txt d ts /\ nanchored txt d ts.

  Definition step (ts : list tok) : list tok :=
    match first_ref ts with Some n => nsubst txt n ts | None => ts end.
  Definition has_ref (ts : list tok) : bool := match first_ref ts with Some _ => true | None => false end.
  Definition CF (ts : list tok) : cv := CStr (flatten ts).

  Lemma spent_no_ref ts : wf def retrieve (nval txt) ts -> first_ref ts = None -> spent def retrieve (CF ts) = 0.
  Proof.
    intros Hwf Hf. unfold CF. cbn [spent]. unfold spent_string.
    rewrite (last_round def retrieve (nval txt) ts Hwf Hf).
    destruct (negb (contains [cDollar; cOpen] (flatten ts)) || negb (has_char cClose (flatten ts))); [reflexivity|].
    now rewrite (find_uri_wf def retrieve (nval txt) ts Hwf), Hf.
  Qed.

  Lemma ev_tok d ts : tinv d ts ->
    expand_value def retrieve (CF ts) = Ok (CF (step ts), has_ref ts) /\
    spent def retrieve (CF ts) + cost txt d (step ts) = cost txt d ts /\ tinv d (step ts).
  Proof.
    intros [Hwf [Hg Ha]]. unfold step, has_ref, CF. destruct (first_ref ts) as [n|] eqn:Hf.
    - split; [|split].
      + rewrite expand_value_str. now apply (nested_round def retrieve txt ts n d).
      + rewrite (spent_round def retrieve (nval txt) ts n Hwf (nanchored_anchored txt d ts Ha) Hf).
        pose proof (cost_nsubst_exact def retrieve txt n d ts Hg). lia.
      + split; [now apply (wf_nsubst def retrieve txt n d)|split; [now apply good_nsubst|now apply (nanchored_nsubst def retrieve txt)]].
    - split; [|split].
      + rewrite expand_value_str. now apply (last_round def retrieve (nval txt)).
      + fold (CF ts). rewrite (spent_no_ref ts Hwf Hf). reflexivity.
      + repeat split; assumption.
  Qed.

  Definition csum (d : nat) (tss : list (list tok)) : nat := list_sum (map (cost txt d) tss).

  Lemma ev_toks d tss : Forall (tinv d) tss ->
    expand_list def retrieve (map CF tss) = Ok (map CF (map step tss), existsb has_ref tss) /\
    spent def retrieve (CList (map CF tss)) + csum d (map step tss) = csum d tss /\ Forall (tinv d) (map step tss).
  Proof.
    induction 1 as [|ts l Hts Hl [IH1 [IH2 IH3]]]; [repeat split; constructor|].
    destruct (ev_tok d ts Hts) as [E1 [E2 E3]].
    cbn [map expand_list existsb]. rewrite E1, IH1. split; [reflexivity|]. split; [|now constructor].
    cbn [spent map] in *. unfold csum in *. cbn [map]. rewrite !lsum_cons. lia.
  Qed.

  Definition V (tss : list (list tok)) (tso : list tok) : cv := CExp (CList (map CF tss)) (flatten tso).

  Lemma ev_V d tss tso : Forall (tinv d) tss -> tinv d tso ->
    expand_value def retrieve (V tss tso) = Ok (V (map step tss) (step tso), existsb has_ref tss || has_ref tso) /\
    spent def retrieve (V tss tso) + (csum d (map step tss) + cost txt d (step tso)) = csum d tss + cost txt d tso /\
    Forall (tinv d) (map step tss) /\ tinv d (step tso).
  Proof.
    intros Hm Ho. destruct (ev_toks d tss Hm) as [E1 [E2 E3]]. destruct (ev_tok d tso Ho) as [F1 [F2 F3]].
    unfold V. rewrite ev_exp, ev_list, E1.
    unfold CF in F1. rewrite expand_value_str in F1. rewrite F1.
    split; [reflexivity|]. split; [|auto].
    cbn [spent]. rewrite ev_list, E1. fold (spent def retrieve (CList (map CF tss))).
    change (spent_string def retrieve (flatten tso)) with (spent def retrieve (CF tso)). change (list_sum (map (spent def retrieve) (map CF tss))) with (spent def retrieve (CList (map CF tss))). lia.
  Qed.

  Lemma shared_counter_bound f : forall d tss tso,
    Forall (tinv d) tss -> tinv d tso ->
    total_spent def retrieve f (V tss tso) <= csum d tss + cost txt d tso.
  Proof.
    induction f as [|f IH]; intros d tss tso Hm Ho; [apply Nat.le_0_l|].
    destruct (ev_V d tss tso Hm Ho) as [E [Hs [Hm' Ho']]].
    cbn [total_spent]. rewrite E. destruct (existsb has_ref tss || has_ref tso); [|apply Nat.le_0_l].
    specialize (IH d _ _ Hm' Ho'). lia.
  Qed.

  Lemma tok_ok_tinv d ts : tok_ok d ts -> tinv d ts.
  Proof. intros [H1 [H2 [H3 _]]]. repeat split; assumption. Qed.

  Lemma list_of_token_strings n ret d tss tso :
    name_ok n = true -> ref_ok def n = true ->
    expand_uri def retrieve (ref_text n) = Ok ret ->
    r_raw ret = CList (map (fun ts => CStr (flatten ts)) tss) ->
    as_string ret = Some (flatten tso) ->
    Forall (tok_ok d) tss -> tok_ok d tso ->
    1 + csum d tss + cost txt d tso <= max_expansions ->
    resolve_string def retrieve (ref_text n)
    = Ok (CExp (CList (map (fun ts => CStr (mean txt d ts)) tss)) (mean txt d tso)).
  Proof.
    intros Hn Hok He Hraw Hs Hm Ho Hb.
    assert (Hb' : 1 + total_spent def retrieve 999 (CExp (r_raw ret) (flatten tso)) <= max_expansions).
    { rewrite Hraw.
      pose proof (shared_counter_bound 999 d tss tso (Forall_impl _ (tok_ok_tinv d) Hm) (tok_ok_tinv d tso Ho)) as Hc.
      unfold V, CF in Hc. lia. }
    destruct (members_resolve d tss Hm) as [ss [Hss Hun]].
    destruct (tok_ok_str d tso Ho) as [so [Hso Huo]].
    rewrite (whole_value_structured def retrieve n ret (flatten tso) (CList (map CStr ss)) so); auto.
    - rewrite escape_strs, Hun, Huo, map_map. reflexivity.
    - now rewrite Hraw.
    - rewrite Hraw. change 999 with (S 998) in *. now apply list_memberwise.
  Qed.

  (* maps: entries (key, token string) *)
  Lemma entries_resolve d kvs : Forall (fun kv : str * list tok => tok_ok d (snd kv)) kvs ->
    exists ss, Forall2 (entry_ok def retrieve 999)
                       (map (fun kv => (fst kv, CStr (flatten (snd kv)))) kvs)
                       (map (fun ks : str * str => (fst ks, CStr (snd ks))) ss) /\
               map (fun ks : str * str => (fst ks, unescape (snd ks))) ss
               = map (fun kv => (fst kv, mean txt d (snd kv))) kvs.
  Proof.
    induction 1 as [|[k ts] l Hts Hl [ss [IH1 IH2]]]; [exists []; split; constructor|].
    cbn [snd] in Hts. destruct (tok_ok_str d ts Hts) as [s [Hs Hm]]. exists ((k, s) :: ss). split.
    - cbn [map fst snd]. constructor; [split; [reflexivity|now apply str_rec_er]|exact IH1].
    - cbn [map fst snd]. now rewrite Hm, IH2.
  Qed.

  Lemma escape_entries (ss : list (str * str)) :
    escape_dollars (CMap (map (fun ks : str * str => (fst ks, CStr (snd ks))) ss))
    = CMap (map (fun ks : str * str => (fst ks, CStr (snd ks)))
                (map (fun ks : str * str => (fst ks, unescape (snd ks))) ss)).
  Proof. cbn [escape_dollars]. f_equal. rewrite !map_map. reflexivity. Qed.

  Lemma map_of_token_strings n ret d kvs tso :
    name_ok n = true -> ref_ok def n = true ->
    expand_uri def retrieve (ref_text n) = Ok ret ->
    r_raw ret = CMap (map (fun kv => (fst kv, CStr (flatten (snd kv)))) kvs) ->
    as_string ret = Some (flatten tso) ->
    Forall (fun kv : str * list tok => tok_ok d (snd kv)) kvs -> tok_ok d tso ->
    1 + total_spent def retrieve 999 (CExp (r_raw ret) (flatten tso)) <= max_expansions ->
    resolve_string def retrieve (ref_text n)
    = Ok (CExp (CMap (map (fun kv => (fst kv, CStr (mean txt d (snd kv)))) kvs)) (mean txt d tso)).
  Proof.
    intros Hn Hok He Hraw Hs Hm Ho Hb.
    destruct (entries_resolve d kvs Hm) as [ss [Hss Hun]].
    destruct (tok_ok_str d tso Ho) as [so [Hso Huo]].
    rewrite (whole_value_structured def retrieve n ret (flatten tso)
               (CMap (map (fun ks : str * str => (fst ks, CStr (snd ks))) ss)) so); auto.
    - rewrite escape_entries, Hun, Huo, map_map. reflexivity.
    - now rewrite Hraw.
    - rewrite Hraw. change 999 with (S 998) in *. now apply map_memberwise.
  Qed.
End Structured.
