(* C12/Tie.v — OBLIGATIONS that tie the hand-written model to tables regenerated from the CURRENT Go
   source on every run (coq/Generated/C12Tables.v, written by harness/C12/dump_test.go through P.translate).
   An edit of schemePattern / uriRegexp / findURI / replaceUnescaped / escapeDollarSigns / the loop bound
   changes the generated file and breaks the obligation named after it. *)
From Verif Require Import Common.Base C12.Model Generated.C12Tables.
From Coq Require Import Ascii.
Require Coq.Strings.String.

Definition t2l (s : String.string) : str := String.list_ascii_of_string s.

(* schemePattern: the two character classes, on all 256 bytes *)
Lemma tie_scheme_first : map (fun n => is_alpha (ascii_of_nat n)) (seq 0 256) = go_scheme_first.
Proof. vm_compute. reflexivity. Qed.

Lemma tie_scheme_rest : map (fun n => is_scheme_char (ascii_of_nat n)) (seq 0 256) = go_scheme_rest.
Proof. vm_compute. reflexivity. Qed.

(* ... and its shape (first class, then one or more of the second), on every string over {a,Z,1,+,:,_}, length <= 4 *)
Lemma tie_scheme_small : forallb (fun p : String.string * bool => Bool.eqb (valid_scheme (t2l (fst p))) (snd p)) go_scheme_small = true.
Proof. vm_compute. reflexivity. Qed.

(* newLocation (uriRegexp) on every string over {a,1,:,$}, length <= 5 *)
Definition loc_eqb (a : option (str * str)) (b : option (String.string * String.string)) : bool :=
  match a, b with
  | None, None => true
  | Some (s, o), Some (s', o') => str_eqb s (t2l s') && str_eqb o (t2l o')
  | _, _ => false
  end.
Lemma tie_new_location : forallb (fun p => loc_eqb (new_location (t2l (fst p))) (snd p)) go_new_location = true.
Proof. vm_compute. reflexivity. Qed.

(* findURI on every string over {$,{,},a,:} of length <= 5 containing '}', with and without default scheme *)
Definition uri_eqb (a : option str) (b : String.string) : bool :=
  match a with
  | None => str_eqb [] (t2l b)
  | Some u => str_eqb u (t2l b) && negb (str_eqb [] u)
  end.
Lemma tie_find_uri :
  forallb (fun p : String.string * String.string * String.string =>
             let '(d, i, r) := p in uri_eqb (find_uri (t2l d) (t2l i)) r) go_find_uri = true.
Proof. vm_compute. reflexivity. Qed.

(* replaceUnescaped(input, "${a}", "X$") on every string over {$,{,},a}, length <= 6 *)
Lemma tie_replace_unescaped :
  forallb (fun p : String.string * String.string =>
             str_eqb (replace_unescaped (t2l (fst p)) (t2l go_replace_uri) (t2l go_replace_repl)) (t2l (snd p)))
          go_replace = true.
Proof. vm_compute. reflexivity. Qed.

(* ... and the count it returns *)
Lemma tie_replace_count :
  forallb (fun p : String.string * N =>
             N.eqb (N.of_nat (count_unescaped (t2l (fst p)) (t2l go_replace_uri))) (snd p)) go_replace_count = true.
Proof. vm_compute. reflexivity. Qed.

(* escapeDollarSigns on every string over {$,a}, length <= 9 *)
Lemma tie_unescape :
  forallb (fun p : String.string * String.string => str_eqb (unescape (t2l (fst p))) (t2l (snd p))) go_unescape = true.
Proof. vm_compute. reflexivity. Qed.

(* the work budget of expandValueRecursively: the constant, and the number of rounds the code makes on a value that
   changes in every round and expands one occurrence per round (a whole-value self-cycle): budget + 1 *)
Lemma tie_max_expansions :
  N.of_nat max_expansions = go_max_expansions /\ (N.of_nat max_expansions + 1)%N = go_cycle_rounds.
Proof. split; vm_compute; reflexivity. Qed.

(* the tables are not empty (an empty dump would make the obligations vacuous) *)
Lemma tie_tables_populated :
  N.of_nat (length go_scheme_small) = 1555%N /\ N.of_nat (length go_new_location) = 1365%N /\
  (3000 <=? N.of_nat (length go_find_uri))%N = true /\
  N.of_nat (length go_replace) = 5461%N /\ N.of_nat (length go_unescape) = 1023%N.
Proof. repeat split; vm_compute; reflexivity. Qed.
