(* GENERATED on every check run by harness/C08 (TestVerifC08Schema) from the struct tags,
   XXX_OneofWrappers and the marshalled field order of pdata/internal/data/protogen/**.
   Do not edit. *)
From Verif Require Import Common.Base C08.Model.
From Coq Require Import String.
Local Open Scope N_scope.
Local Open Scope string_scope.

Definition m_collector_logs_v1_ExportLogsServiceRequest : nat := 0%nat.
Definition m_logs_v1_ResourceLogs : nat := 1%nat.
Definition m_logs_v1_ScopeLogs : nat := 2%nat.
Definition m_common_v1_InstrumentationScope : nat := 3%nat.
Definition m_common_v1_KeyValue : nat := 4%nat.
Definition m_common_v1_AnyValue : nat := 5%nat.
Definition m_common_v1_ArrayValue : nat := 6%nat.
Definition m_common_v1_KeyValueList : nat := 7%nat.
Definition m_logs_v1_LogRecord : nat := 8%nat.
Definition m_resource_v1_Resource : nat := 9%nat.
Definition m_collector_logs_v1_ExportLogsServiceResponse : nat := 10%nat.
Definition m_collector_logs_v1_ExportLogsPartialSuccess : nat := 11%nat.
Definition m_logs_v1_LogsData : nat := 12%nat.
Definition m_collector_metrics_v1_ExportMetricsServiceRequest : nat := 13%nat.
Definition m_metrics_v1_ResourceMetrics : nat := 14%nat.
Definition m_metrics_v1_ScopeMetrics : nat := 15%nat.
Definition m_metrics_v1_Metric : nat := 16%nat.
Definition m_metrics_v1_Gauge : nat := 17%nat.
Definition m_metrics_v1_NumberDataPoint : nat := 18%nat.
Definition m_metrics_v1_Exemplar : nat := 19%nat.
Definition m_metrics_v1_Sum : nat := 20%nat.
Definition m_metrics_v1_Histogram : nat := 21%nat.
Definition m_metrics_v1_HistogramDataPoint : nat := 22%nat.
Definition m_metrics_v1_ExponentialHistogram : nat := 23%nat.
Definition m_metrics_v1_ExponentialHistogramDataPoint : nat := 24%nat.
Definition m_metrics_v1_ExponentialHistogramDataPoint_Buckets : nat := 25%nat.
Definition m_metrics_v1_Summary : nat := 26%nat.
Definition m_metrics_v1_SummaryDataPoint : nat := 27%nat.
Definition m_metrics_v1_SummaryDataPoint_ValueAtQuantile : nat := 28%nat.
Definition m_collector_metrics_v1_ExportMetricsServiceResponse : nat := 29%nat.
Definition m_collector_metrics_v1_ExportMetricsPartialSuccess : nat := 30%nat.
Definition m_metrics_v1_MetricsData : nat := 31%nat.
Definition m_collector_trace_v1_ExportTraceServiceRequest : nat := 32%nat.
Definition m_trace_v1_ResourceSpans : nat := 33%nat.
Definition m_trace_v1_ScopeSpans : nat := 34%nat.
Definition m_trace_v1_Span : nat := 35%nat.
Definition m_trace_v1_Span_Event : nat := 36%nat.
Definition m_trace_v1_Span_Link : nat := 37%nat.
Definition m_trace_v1_Status : nat := 38%nat.
Definition m_collector_trace_v1_ExportTraceServiceResponse : nat := 39%nat.
Definition m_collector_trace_v1_ExportTracePartialSuccess : nat := 40%nat.
Definition m_trace_v1_TracesData : nat := 41%nat.
Definition m_collector_profiles_v1development_ExportProfilesServiceRequest : nat := 42%nat.
Definition m_profiles_v1development_ResourceProfiles : nat := 43%nat.
Definition m_profiles_v1development_ScopeProfiles : nat := 44%nat.
Definition m_profiles_v1development_Profile : nat := 45%nat.
Definition m_profiles_v1development_ValueType : nat := 46%nat.
Definition m_profiles_v1development_Sample : nat := 47%nat.
Definition m_profiles_v1development_Mapping : nat := 48%nat.
Definition m_profiles_v1development_Location : nat := 49%nat.
Definition m_profiles_v1development_Line : nat := 50%nat.
Definition m_profiles_v1development_Function : nat := 51%nat.
Definition m_profiles_v1development_AttributeUnit : nat := 52%nat.
Definition m_profiles_v1development_Link : nat := 53%nat.
Definition m_collector_profiles_v1development_ExportProfilesServiceResponse : nat := 54%nat.
Definition m_collector_profiles_v1development_ExportProfilesPartialSuccess : nat := 55%nat.
Definition m_profiles_v1development_ProfilesData : nat := 56%nat.

Definition OtlpSchema : schema := [
  (* 0 *) mkM "collector/logs/v1.ExportLogsServiceRequest" [
      mkF 1 (TMsg 1) (CRep) "resourceLogs" "resource_logs"
    ] [VRep []];
  (* 1 *) mkM "logs/v1.ResourceLogs" [
      mkF 1 (TMsg 9) (COpt) "resource" "resource";
      mkF 2 (TMsg 2) (CRep) "scopeLogs" "scope_logs";
      mkF 3 (TStr) (COpt) "schemaUrl" "schema_url";
      mkF 1000 (TMsg 2) (CRep) "deprecatedScopeLogs" "deprecated_scope_logs"
    ] [VMsg [VRep []; VInt 0]; VRep []; VBytes []; VRep []];
  (* 2 *) mkM "logs/v1.ScopeLogs" [
      mkF 1 (TMsg 3) (COpt) "scope" "scope";
      mkF 2 (TMsg 8) (CRep) "logRecords" "log_records";
      mkF 3 (TStr) (COpt) "schemaUrl" "schema_url"
    ] [VMsg [VBytes []; VBytes []; VRep []; VInt 0]; VRep []; VBytes []];
  (* 3 *) mkM "common/v1.InstrumentationScope" [
      mkF 1 (TStr) (COpt) "name" "name";
      mkF 2 (TStr) (COpt) "version" "version";
      mkF 3 (TMsg 4) (CRep) "attributes" "attributes";
      mkF 4 (TScalar SU32) (COpt) "droppedAttributesCount" "dropped_attributes_count"
    ] [VBytes []; VBytes []; VRep []; VInt 0];
  (* 4 *) mkM "common/v1.KeyValue" [
      mkF 1 (TStr) (COpt) "key" "key";
      mkF 2 (TMsg 5) (COpt) "value" "value"
    ] [VBytes []; VMsg [VNone; VNone; VNone; VNone; VNone; VNone; VNone]];
  (* 5 *) mkM "common/v1.AnyValue" [
      mkF 1 (TStr) (COneof 0) "stringValue" "string_value";
      mkF 2 (TScalar SBool) (COneof 0) "boolValue" "bool_value";
      mkF 3 (TScalar SI64) (COneof 0) "intValue" "int_value";
      mkF 4 (TScalar SDouble) (COneof 0) "doubleValue" "double_value";
      mkF 5 (TMsg 6) (COneof 0) "arrayValue" "array_value";
      mkF 6 (TMsg 7) (COneof 0) "kvlistValue" "kvlist_value";
      mkF 7 (TBytes) (COneof 0) "bytesValue" "bytes_value"
    ] [VNone; VNone; VNone; VNone; VNone; VNone; VNone];
  (* 6 *) mkM "common/v1.ArrayValue" [
      mkF 1 (TMsg 5) (CRep) "values" "values"
    ] [VRep []];
  (* 7 *) mkM "common/v1.KeyValueList" [
      mkF 1 (TMsg 4) (CRep) "values" "values"
    ] [VRep []];
  (* 8 *) mkM "logs/v1.LogRecord" [
      mkF 1 (TScalar SFix64) (COpt) "timeUnixNano" "time_unix_nano";
      mkF 2 (TScalar SEnum) (COpt) "severityNumber" "severity_number";
      mkF 3 (TStr) (COpt) "severityText" "severity_text";
      mkF 5 (TMsg 5) (COpt) "body" "body";
      mkF 6 (TMsg 4) (CRep) "attributes" "attributes";
      mkF 7 (TScalar SU32) (COpt) "droppedAttributesCount" "dropped_attributes_count";
      mkF 8 (TScalar SFix32) (COpt) "flags" "flags";
      mkF 9 (TId 16) (COpt) "traceId" "trace_id";
      mkF 10 (TId 8) (COpt) "spanId" "span_id";
      mkF 11 (TScalar SFix64) (COpt) "observedTimeUnixNano" "observed_time_unix_nano";
      mkF 12 (TStr) (COpt) "eventName" "event_name"
    ] [VInt 0; VInt 0; VBytes []; VMsg [VNone; VNone; VNone; VNone; VNone; VNone; VNone]; VRep []; VInt 0; VInt 0; VBytes []; VBytes []; VInt 0; VBytes []];
  (* 9 *) mkM "resource/v1.Resource" [
      mkF 1 (TMsg 4) (CRep) "attributes" "attributes";
      mkF 2 (TScalar SU32) (COpt) "droppedAttributesCount" "dropped_attributes_count"
    ] [VRep []; VInt 0];
  (* 10 *) mkM "collector/logs/v1.ExportLogsServiceResponse" [
      mkF 1 (TMsg 11) (COpt) "partialSuccess" "partial_success"
    ] [VMsg [VInt 0; VBytes []]];
  (* 11 *) mkM "collector/logs/v1.ExportLogsPartialSuccess" [
      mkF 1 (TScalar SI64) (COpt) "rejectedLogRecords" "rejected_log_records";
      mkF 2 (TStr) (COpt) "errorMessage" "error_message"
    ] [VInt 0; VBytes []];
  (* 12 *) mkM "logs/v1.LogsData" [
      mkF 1 (TMsg 1) (CRep) "resourceLogs" "resource_logs"
    ] [VRep []];
  (* 13 *) mkM "collector/metrics/v1.ExportMetricsServiceRequest" [
      mkF 1 (TMsg 14) (CRep) "resourceMetrics" "resource_metrics"
    ] [VRep []];
  (* 14 *) mkM "metrics/v1.ResourceMetrics" [
      mkF 1 (TMsg 9) (COpt) "resource" "resource";
      mkF 2 (TMsg 15) (CRep) "scopeMetrics" "scope_metrics";
      mkF 3 (TStr) (COpt) "schemaUrl" "schema_url";
      mkF 1000 (TMsg 15) (CRep) "deprecatedScopeMetrics" "deprecated_scope_metrics"
    ] [VMsg [VRep []; VInt 0]; VRep []; VBytes []; VRep []];
  (* 15 *) mkM "metrics/v1.ScopeMetrics" [
      mkF 1 (TMsg 3) (COpt) "scope" "scope";
      mkF 2 (TMsg 16) (CRep) "metrics" "metrics";
      mkF 3 (TStr) (COpt) "schemaUrl" "schema_url"
    ] [VMsg [VBytes []; VBytes []; VRep []; VInt 0]; VRep []; VBytes []];
  (* 16 *) mkM "metrics/v1.Metric" [
      mkF 1 (TStr) (COpt) "name" "name";
      mkF 2 (TStr) (COpt) "description" "description";
      mkF 3 (TStr) (COpt) "unit" "unit";
      mkF 5 (TMsg 17) (COneof 0) "gauge" "gauge";
      mkF 7 (TMsg 20) (COneof 0) "sum" "sum";
      mkF 9 (TMsg 21) (COneof 0) "histogram" "histogram";
      mkF 10 (TMsg 23) (COneof 0) "exponentialHistogram" "exponential_histogram";
      mkF 11 (TMsg 26) (COneof 0) "summary" "summary";
      mkF 12 (TMsg 4) (CRep) "metadata" "metadata"
    ] [VBytes []; VBytes []; VBytes []; VNone; VNone; VNone; VNone; VNone; VRep []];
  (* 17 *) mkM "metrics/v1.Gauge" [
      mkF 1 (TMsg 18) (CRep) "dataPoints" "data_points"
    ] [VRep []];
  (* 18 *) mkM "metrics/v1.NumberDataPoint" [
      mkF 2 (TScalar SFix64) (COpt) "startTimeUnixNano" "start_time_unix_nano";
      mkF 3 (TScalar SFix64) (COpt) "timeUnixNano" "time_unix_nano";
      mkF 5 (TMsg 19) (CRep) "exemplars" "exemplars";
      mkF 4 (TScalar SDouble) (COneof 0) "asDouble" "as_double";
      mkF 6 (TScalar SSFix64) (COneof 0) "asInt" "as_int";
      mkF 7 (TMsg 4) (CRep) "attributes" "attributes";
      mkF 8 (TScalar SU32) (COpt) "flags" "flags"
    ] [VInt 0; VInt 0; VRep []; VNone; VNone; VRep []; VInt 0];
  (* 19 *) mkM "metrics/v1.Exemplar" [
      mkF 2 (TScalar SFix64) (COpt) "timeUnixNano" "time_unix_nano";
      mkF 4 (TId 8) (COpt) "spanId" "span_id";
      mkF 5 (TId 16) (COpt) "traceId" "trace_id";
      mkF 3 (TScalar SDouble) (COneof 0) "asDouble" "as_double";
      mkF 6 (TScalar SSFix64) (COneof 0) "asInt" "as_int";
      mkF 7 (TMsg 4) (CRep) "filteredAttributes" "filtered_attributes"
    ] [VInt 0; VBytes []; VBytes []; VNone; VNone; VRep []];
  (* 20 *) mkM "metrics/v1.Sum" [
      mkF 1 (TMsg 18) (CRep) "dataPoints" "data_points";
      mkF 2 (TScalar SEnum) (COpt) "aggregationTemporality" "aggregation_temporality";
      mkF 3 (TScalar SBool) (COpt) "isMonotonic" "is_monotonic"
    ] [VRep []; VInt 0; VInt 0];
  (* 21 *) mkM "metrics/v1.Histogram" [
      mkF 1 (TMsg 22) (CRep) "dataPoints" "data_points";
      mkF 2 (TScalar SEnum) (COpt) "aggregationTemporality" "aggregation_temporality"
    ] [VRep []; VInt 0];
  (* 22 *) mkM "metrics/v1.HistogramDataPoint" [
      mkF 2 (TScalar SFix64) (COpt) "startTimeUnixNano" "start_time_unix_nano";
      mkF 3 (TScalar SFix64) (COpt) "timeUnixNano" "time_unix_nano";
      mkF 4 (TScalar SFix64) (COpt) "count" "count";
      mkF 5 (TScalar SDouble) (COneof 0) "sum" "sum";
      mkF 6 (TScalar SFix64) (CPacked) "bucketCounts" "bucket_counts";
      mkF 7 (TScalar SDouble) (CPacked) "explicitBounds" "explicit_bounds";
      mkF 8 (TMsg 19) (CRep) "exemplars" "exemplars";
      mkF 9 (TMsg 4) (CRep) "attributes" "attributes";
      mkF 10 (TScalar SU32) (COpt) "flags" "flags";
      mkF 11 (TScalar SDouble) (COneof 1) "min" "min";
      mkF 12 (TScalar SDouble) (COneof 2) "max" "max"
    ] [VInt 0; VInt 0; VInt 0; VNone; VRep []; VRep []; VRep []; VRep []; VInt 0; VNone; VNone];
  (* 23 *) mkM "metrics/v1.ExponentialHistogram" [
      mkF 1 (TMsg 24) (CRep) "dataPoints" "data_points";
      mkF 2 (TScalar SEnum) (COpt) "aggregationTemporality" "aggregation_temporality"
    ] [VRep []; VInt 0];
  (* 24 *) mkM "metrics/v1.ExponentialHistogramDataPoint" [
      mkF 1 (TMsg 4) (CRep) "attributes" "attributes";
      mkF 2 (TScalar SFix64) (COpt) "startTimeUnixNano" "start_time_unix_nano";
      mkF 3 (TScalar SFix64) (COpt) "timeUnixNano" "time_unix_nano";
      mkF 4 (TScalar SFix64) (COpt) "count" "count";
      mkF 5 (TScalar SDouble) (COneof 0) "sum" "sum";
      mkF 6 (TScalar SZig32) (COpt) "scale" "scale";
      mkF 7 (TScalar SFix64) (COpt) "zeroCount" "zero_count";
      mkF 8 (TMsg 25) (COpt) "positive" "positive";
      mkF 9 (TMsg 25) (COpt) "negative" "negative";
      mkF 10 (TScalar SU32) (COpt) "flags" "flags";
      mkF 11 (TMsg 19) (CRep) "exemplars" "exemplars";
      mkF 12 (TScalar SDouble) (COneof 1) "min" "min";
      mkF 13 (TScalar SDouble) (COneof 2) "max" "max";
      mkF 14 (TScalar SDouble) (COpt) "zeroThreshold" "zero_threshold"
    ] [VRep []; VInt 0; VInt 0; VInt 0; VNone; VInt 0; VInt 0; VMsg [VInt 0; VRep []]; VMsg [VInt 0; VRep []]; VInt 0; VRep []; VNone; VNone; VInt 0];
  (* 25 *) mkM "metrics/v1.ExponentialHistogramDataPoint_Buckets" [
      mkF 1 (TScalar SZig32) (COpt) "offset" "offset";
      mkF 2 (TScalar SU64) (CPacked) "bucketCounts" "bucket_counts"
    ] [VInt 0; VRep []];
  (* 26 *) mkM "metrics/v1.Summary" [
      mkF 1 (TMsg 27) (CRep) "dataPoints" "data_points"
    ] [VRep []];
  (* 27 *) mkM "metrics/v1.SummaryDataPoint" [
      mkF 2 (TScalar SFix64) (COpt) "startTimeUnixNano" "start_time_unix_nano";
      mkF 3 (TScalar SFix64) (COpt) "timeUnixNano" "time_unix_nano";
      mkF 4 (TScalar SFix64) (COpt) "count" "count";
      mkF 5 (TScalar SDouble) (COpt) "sum" "sum";
      mkF 6 (TMsg 28) (CRep) "quantileValues" "quantile_values";
      mkF 7 (TMsg 4) (CRep) "attributes" "attributes";
      mkF 8 (TScalar SU32) (COpt) "flags" "flags"
    ] [VInt 0; VInt 0; VInt 0; VInt 0; VRep []; VRep []; VInt 0];
  (* 28 *) mkM "metrics/v1.SummaryDataPoint_ValueAtQuantile" [
      mkF 1 (TScalar SDouble) (COpt) "quantile" "quantile";
      mkF 2 (TScalar SDouble) (COpt) "value" "value"
    ] [VInt 0; VInt 0];
  (* 29 *) mkM "collector/metrics/v1.ExportMetricsServiceResponse" [
      mkF 1 (TMsg 30) (COpt) "partialSuccess" "partial_success"
    ] [VMsg [VInt 0; VBytes []]];
  (* 30 *) mkM "collector/metrics/v1.ExportMetricsPartialSuccess" [
      mkF 1 (TScalar SI64) (COpt) "rejectedDataPoints" "rejected_data_points";
      mkF 2 (TStr) (COpt) "errorMessage" "error_message"
    ] [VInt 0; VBytes []];
  (* 31 *) mkM "metrics/v1.MetricsData" [
      mkF 1 (TMsg 14) (CRep) "resourceMetrics" "resource_metrics"
    ] [VRep []];
  (* 32 *) mkM "collector/trace/v1.ExportTraceServiceRequest" [
      mkF 1 (TMsg 33) (CRep) "resourceSpans" "resource_spans"
    ] [VRep []];
  (* 33 *) mkM "trace/v1.ResourceSpans" [
      mkF 1 (TMsg 9) (COpt) "resource" "resource";
      mkF 2 (TMsg 34) (CRep) "scopeSpans" "scope_spans";
      mkF 3 (TStr) (COpt) "schemaUrl" "schema_url";
      mkF 1000 (TMsg 34) (CRep) "deprecatedScopeSpans" "deprecated_scope_spans"
    ] [VMsg [VRep []; VInt 0]; VRep []; VBytes []; VRep []];
  (* 34 *) mkM "trace/v1.ScopeSpans" [
      mkF 1 (TMsg 3) (COpt) "scope" "scope";
      mkF 2 (TMsg 35) (CRep) "spans" "spans";
      mkF 3 (TStr) (COpt) "schemaUrl" "schema_url"
    ] [VMsg [VBytes []; VBytes []; VRep []; VInt 0]; VRep []; VBytes []];
  (* 35 *) mkM "trace/v1.Span" [
      mkF 1 (TId 16) (COpt) "traceId" "trace_id";
      mkF 2 (TId 8) (COpt) "spanId" "span_id";
      mkF 3 (TStr) (COpt) "traceState" "trace_state";
      mkF 4 (TId 8) (COpt) "parentSpanId" "parent_span_id";
      mkF 5 (TStr) (COpt) "name" "name";
      mkF 6 (TScalar SEnum) (COpt) "kind" "kind";
      mkF 7 (TScalar SFix64) (COpt) "startTimeUnixNano" "start_time_unix_nano";
      mkF 8 (TScalar SFix64) (COpt) "endTimeUnixNano" "end_time_unix_nano";
      mkF 9 (TMsg 4) (CRep) "attributes" "attributes";
      mkF 10 (TScalar SU32) (COpt) "droppedAttributesCount" "dropped_attributes_count";
      mkF 11 (TMsg 36) (CRep) "events" "events";
      mkF 12 (TScalar SU32) (COpt) "droppedEventsCount" "dropped_events_count";
      mkF 13 (TMsg 37) (CRep) "links" "links";
      mkF 14 (TScalar SU32) (COpt) "droppedLinksCount" "dropped_links_count";
      mkF 15 (TMsg 38) (COpt) "status" "status";
      mkF 16 (TScalar SFix32) (COpt) "flags" "flags"
    ] [VBytes []; VBytes []; VBytes []; VBytes []; VBytes []; VInt 0; VInt 0; VInt 0; VRep []; VInt 0; VRep []; VInt 0; VRep []; VInt 0; VMsg [VBytes []; VInt 0]; VInt 0];
  (* 36 *) mkM "trace/v1.Span_Event" [
      mkF 1 (TScalar SFix64) (COpt) "timeUnixNano" "time_unix_nano";
      mkF 2 (TStr) (COpt) "name" "name";
      mkF 3 (TMsg 4) (CRep) "attributes" "attributes";
      mkF 4 (TScalar SU32) (COpt) "droppedAttributesCount" "dropped_attributes_count"
    ] [VInt 0; VBytes []; VRep []; VInt 0];
  (* 37 *) mkM "trace/v1.Span_Link" [
      mkF 1 (TId 16) (COpt) "traceId" "trace_id";
      mkF 2 (TId 8) (COpt) "spanId" "span_id";
      mkF 3 (TStr) (COpt) "traceState" "trace_state";
      mkF 4 (TMsg 4) (CRep) "attributes" "attributes";
      mkF 5 (TScalar SU32) (COpt) "droppedAttributesCount" "dropped_attributes_count";
      mkF 6 (TScalar SFix32) (COpt) "flags" "flags"
    ] [VBytes []; VBytes []; VBytes []; VRep []; VInt 0; VInt 0];
  (* 38 *) mkM "trace/v1.Status" [
      mkF 2 (TStr) (COpt) "message" "message";
      mkF 3 (TScalar SEnum) (COpt) "code" "code"
    ] [VBytes []; VInt 0];
  (* 39 *) mkM "collector/trace/v1.ExportTraceServiceResponse" [
      mkF 1 (TMsg 40) (COpt) "partialSuccess" "partial_success"
    ] [VMsg [VInt 0; VBytes []]];
  (* 40 *) mkM "collector/trace/v1.ExportTracePartialSuccess" [
      mkF 1 (TScalar SI64) (COpt) "rejectedSpans" "rejected_spans";
      mkF 2 (TStr) (COpt) "errorMessage" "error_message"
    ] [VInt 0; VBytes []];
  (* 41 *) mkM "trace/v1.TracesData" [
      mkF 1 (TMsg 33) (CRep) "resourceSpans" "resource_spans"
    ] [VRep []];
  (* 42 *) mkM "collector/profiles/v1development.ExportProfilesServiceRequest" [
      mkF 1 (TMsg 43) (CRep) "resourceProfiles" "resource_profiles"
    ] [VRep []];
  (* 43 *) mkM "profiles/v1development.ResourceProfiles" [
      mkF 1 (TMsg 9) (COpt) "resource" "resource";
      mkF 2 (TMsg 44) (CRep) "scopeProfiles" "scope_profiles";
      mkF 3 (TStr) (COpt) "schemaUrl" "schema_url"
    ] [VMsg [VRep []; VInt 0]; VRep []; VBytes []];
  (* 44 *) mkM "profiles/v1development.ScopeProfiles" [
      mkF 1 (TMsg 3) (COpt) "scope" "scope";
      mkF 2 (TMsg 45) (CRep) "profiles" "profiles";
      mkF 3 (TStr) (COpt) "schemaUrl" "schema_url"
    ] [VMsg [VBytes []; VBytes []; VRep []; VInt 0]; VRep []; VBytes []];
  (* 45 *) mkM "profiles/v1development.Profile" [
      mkF 1 (TMsg 46) (CRep) "sampleType" "sample_type";
      mkF 2 (TMsg 47) (CRep) "sample" "sample";
      mkF 3 (TMsg 48) (CRep) "mappingTable" "mapping_table";
      mkF 4 (TMsg 49) (CRep) "locationTable" "location_table";
      mkF 5 (TScalar SI32) (CPacked) "locationIndices" "location_indices";
      mkF 6 (TMsg 51) (CRep) "functionTable" "function_table";
      mkF 7 (TMsg 4) (CRep) "attributeTable" "attribute_table";
      mkF 8 (TMsg 52) (CRep) "attributeUnits" "attribute_units";
      mkF 9 (TMsg 53) (CRep) "linkTable" "link_table";
      mkF 10 (TStr) (CRep) "stringTable" "string_table";
      mkF 11 (TScalar SI64) (COpt) "timeNanos" "time_nanos";
      mkF 12 (TScalar SI64) (COpt) "durationNanos" "duration_nanos";
      mkF 13 (TMsg 46) (COpt) "periodType" "period_type";
      mkF 14 (TScalar SI64) (COpt) "period" "period";
      mkF 15 (TScalar SI32) (CPacked) "commentStrindices" "comment_strindices";
      mkF 16 (TScalar SI32) (COpt) "defaultSampleTypeStrindex" "default_sample_type_strindex";
      mkF 17 (TId 16) (COpt) "profileId" "profile_id";
      mkF 19 (TScalar SU32) (COpt) "droppedAttributesCount" "dropped_attributes_count";
      mkF 20 (TStr) (COpt) "originalPayloadFormat" "original_payload_format";
      mkF 21 (TBytes) (COpt) "originalPayload" "original_payload";
      mkF 22 (TScalar SI32) (CPacked) "attributeIndices" "attribute_indices"
    ] [VRep []; VRep []; VRep []; VRep []; VRep []; VRep []; VRep []; VRep []; VRep []; VRep []; VInt 0; VInt 0; VMsg [VInt 0; VInt 0; VInt 0]; VInt 0; VRep []; VInt 0; VBytes []; VInt 0; VBytes []; VBytes []; VRep []];
  (* 46 *) mkM "profiles/v1development.ValueType" [
      mkF 1 (TScalar SI32) (COpt) "typeStrindex" "type_strindex";
      mkF 2 (TScalar SI32) (COpt) "unitStrindex" "unit_strindex";
      mkF 3 (TScalar SEnum) (COpt) "aggregationTemporality" "aggregation_temporality"
    ] [VInt 0; VInt 0; VInt 0];
  (* 47 *) mkM "profiles/v1development.Sample" [
      mkF 1 (TScalar SI32) (COpt) "locationsStartIndex" "locations_start_index";
      mkF 2 (TScalar SI32) (COpt) "locationsLength" "locations_length";
      mkF 3 (TScalar SI64) (CPacked) "value" "value";
      mkF 4 (TScalar SI32) (CPacked) "attributeIndices" "attribute_indices";
      mkF 5 (TScalar SI32) (COneof 0) "linkIndex" "link_index";
      mkF 6 (TScalar SU64) (CPacked) "timestampsUnixNano" "timestamps_unix_nano"
    ] [VInt 0; VInt 0; VRep []; VRep []; VNone; VRep []];
  (* 48 *) mkM "profiles/v1development.Mapping" [
      mkF 1 (TScalar SU64) (COpt) "memoryStart" "memory_start";
      mkF 2 (TScalar SU64) (COpt) "memoryLimit" "memory_limit";
      mkF 3 (TScalar SU64) (COpt) "fileOffset" "file_offset";
      mkF 4 (TScalar SI32) (COpt) "filenameStrindex" "filename_strindex";
      mkF 5 (TScalar SI32) (CPacked) "attributeIndices" "attribute_indices";
      mkF 6 (TScalar SBool) (COpt) "hasFunctions" "has_functions";
      mkF 7 (TScalar SBool) (COpt) "hasFilenames" "has_filenames";
      mkF 8 (TScalar SBool) (COpt) "hasLineNumbers" "has_line_numbers";
      mkF 9 (TScalar SBool) (COpt) "hasInlineFrames" "has_inline_frames"
    ] [VInt 0; VInt 0; VInt 0; VInt 0; VRep []; VInt 0; VInt 0; VInt 0; VInt 0];
  (* 49 *) mkM "profiles/v1development.Location" [
      mkF 1 (TScalar SI32) (COneof 0) "mappingIndex" "mapping_index";
      mkF 2 (TScalar SU64) (COpt) "address" "address";
      mkF 3 (TMsg 50) (CRep) "line" "line";
      mkF 4 (TScalar SBool) (COpt) "isFolded" "is_folded";
      mkF 5 (TScalar SI32) (CPacked) "attributeIndices" "attribute_indices"
    ] [VNone; VInt 0; VRep []; VInt 0; VRep []];
  (* 50 *) mkM "profiles/v1development.Line" [
      mkF 1 (TScalar SI32) (COpt) "functionIndex" "function_index";
      mkF 2 (TScalar SI64) (COpt) "line" "line";
      mkF 3 (TScalar SI64) (COpt) "column" "column"
    ] [VInt 0; VInt 0; VInt 0];
  (* 51 *) mkM "profiles/v1development.Function" [
      mkF 1 (TScalar SI32) (COpt) "nameStrindex" "name_strindex";
      mkF 2 (TScalar SI32) (COpt) "systemNameStrindex" "system_name_strindex";
      mkF 3 (TScalar SI32) (COpt) "filenameStrindex" "filename_strindex";
      mkF 4 (TScalar SI64) (COpt) "startLine" "start_line"
    ] [VInt 0; VInt 0; VInt 0; VInt 0];
  (* 52 *) mkM "profiles/v1development.AttributeUnit" [
      mkF 1 (TScalar SI32) (COpt) "attributeKeyStrindex" "attribute_key_strindex";
      mkF 2 (TScalar SI32) (COpt) "unitStrindex" "unit_strindex"
    ] [VInt 0; VInt 0];
  (* 53 *) mkM "profiles/v1development.Link" [
      mkF 1 (TId 16) (COpt) "traceId" "trace_id";
      mkF 2 (TId 8) (COpt) "spanId" "span_id"
    ] [VBytes []; VBytes []];
  (* 54 *) mkM "collector/profiles/v1development.ExportProfilesServiceResponse" [
      mkF 1 (TMsg 55) (COpt) "partialSuccess" "partial_success"
    ] [VMsg [VInt 0; VBytes []]];
  (* 55 *) mkM "collector/profiles/v1development.ExportProfilesPartialSuccess" [
      mkF 1 (TScalar SI64) (COpt) "rejectedProfiles" "rejected_profiles";
      mkF 2 (TStr) (COpt) "errorMessage" "error_message"
    ] [VInt 0; VBytes []];
  (* 56 *) mkM "profiles/v1development.ProfilesData" [
      mkF 1 (TMsg 43) (CRep) "resourceProfiles" "resource_profiles"
    ] [VRep []]
]%list.
