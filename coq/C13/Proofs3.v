(* C13/Proofs3.v — strict decoding: for EVERY type descriptor and every configuration value, the
   keys reported by ErrorUnused are exactly the written keys that no field accepts, each with the
   path of its struct level, at any depth. *)
From Verif Require Import Common.Base C13.Model C13.Spec C13.Proofs1.
From Coq Require Import String.

Section CvInd.
  Context (P : cv -> Prop).
  Hypothesis HNull : P CNull.
  Hypothesis HScalar : forall s, P (CScalar s).
  Hypothesis HList : forall l, Forall P l -> P (CList l).
  Hypothesis HMap : forall kvs, Forall (fun kv => P (snd kv)) kvs -> P (CMap kvs).
  Fixpoint cv_ind' (v : cv) : P v :=
    match v with
    | CNull => HNull
    | CScalar s => HScalar s
    | CList l => HList l ((fix go (l : list cv) : Forall P l :=
                             match l with [] => Forall_nil _ | x :: r => Forall_cons x (cv_ind' x) (go r) end) l)
    | CMap kvs => HMap kvs ((fix go (l : list (string * cv)) : Forall (fun kv => P (snd kv)) l :=
                               match l with [] => Forall_nil _ | x :: r => Forall_cons x (cv_ind' (snd x)) (go r) end) kvs)
    end.
End CvInd.

Lemma lookup_some_in {A} k (l : list (string * A)) a : lookup k l = Some a -> In (k, a) l.
Proof.
  induction l as [|[k' a'] l IH]; cbn; [discriminate|].
  destruct (String.eqb_spec k k') as [->|Hne].
  - intros H. inversion H; subst. now left.
  - intros H. right. auto.
Qed.

Lemma lookup_none_iff {A} k (l : list (string * A)) : lookup k l = None <-> forall a, ~ In (k, a) l.
Proof.
  induction l as [|[k' a'] l IH]; cbn.
  - split; [intros _ a []|reflexivity].
  - destruct (String.eqb_spec k k') as [->|Hne].
    + split; [discriminate|]. intros H. exfalso. apply (H a'). now left.
    + rewrite IH. split.
      * intros H a [Heq|Hin]; [inversion Heq; congruence|exact (H a Hin)].
      * intros H a Hin. apply (H a). now right.
Qed.

Lemma lookup_none_accepts t k : lookup k (flat_of t) = None <-> ~ accepts t k.
Proof.
  rewrite lookup_none_iff. unfold accepts. split.
  - intros H [t' Hin]. exact (H t' Hin).
  - intros H a Hin. apply H. eauto.
Qed.

(* the three loops of [unused], named *)
Fixpoint un_elems (t' : tdesc) (i : nat) (l : list cv) : list (path * string) :=
  match l with [] => [] | x :: r => pre (itoa i) (unused t' x) ++ un_elems t' (S i) r end.
Fixpoint un_entries (t' : tdesc) (kvs : list (string * cv)) : list (path * string) :=
  match kvs with [] => [] | (k, x) :: r => pre k (unused t' x) ++ un_entries t' r end.
Fixpoint un_keys (t : tdesc) (kvs : list (string * cv)) : list (path * string) :=
  match kvs with
  | [] => []
  | (k, x) :: r =>
      key_unused (remain_of t) k (option_map (fun t' => unused t' x) (lookup k (flat_of t))) ++ un_keys t r
  end.

Lemma unused_slice t t' l : strip t = TSlice t' -> unused t (CList l) = un_elems t' 0 l.
Proof.
  intros Hs. cbn [unused]. rewrite Hs. generalize 0. induction l as [|x r IH]; intros i; cbn; [reflexivity|].
  now rewrite IH.
Qed.

Lemma unused_map t t' kvs : strip t = TMap t' -> unused t (CMap kvs) = un_entries t' kvs.
Proof.
  intros Hs. cbn [unused]. rewrite Hs. induction kvs as [|[k x] r IH]; cbn; [reflexivity|]. now rewrite IH.
Qed.

Lemma unused_struct t rem fs kvs :
  strip t = TStruct rem fs -> unused t (CMap kvs) = un_keys (TStruct rem fs) kvs.
Proof.
  intros Hs. cbn [unused]. rewrite Hs. induction kvs as [|[k x] r IH]; [reflexivity|].
  cbn [un_keys]. rewrite <- IH. reflexivity.
Qed.

Lemma strip_cases t : strip t = TLeaf \/ (exists t', strip t = TSlice t') \/ (exists t', strip t = TMap t') \/
                      (exists rem fs, strip t = TStruct rem fs).
Proof. induction t; cbn; eauto 6. Qed.

Lemma strip_not_ptr t t' : strip t <> TPtr t'.
Proof. induction t; cbn; congruence. Qed.

Lemma in_un_elems t' l i p k :
  In (p, k) (un_elems t' i l) <->
  exists j x q, nth_error l j = Some x /\ p = itoa (i + j) :: q /\ In (q, k) (unused t' x).
Proof.
  revert i. induction l as [|y r IH]; intros i; cbn.
  - split; [intros []|intros (j&?&?&H&_); destruct j; discriminate].
  - rewrite in_app_iff, IH. split.
    + intros [H|(j&x&q&Hn&Hp&Hq)].
      * apply in_pre in H. destruct H as [q [-> Hq]]. exists 0, y, q. rewrite Nat.add_0_r. auto.
      * exists (S j), x, q. cbn. rewrite Nat.add_succ_r. auto.
    + intros (j&x&q&Hn&Hp&Hq). destruct j as [|j]; cbn in Hn.
      * inversion Hn; subst. left. apply in_pre. rewrite Nat.add_0_r. eauto.
      * right. exists j, x, q. rewrite Nat.add_succ_r in Hp. auto.
Qed.

Lemma in_un_entries t' kvs p k :
  In (p, k) (un_entries t' kvs) <->
  exists key x q, In (key, x) kvs /\ p = key :: q /\ In (q, k) (unused t' x).
Proof.
  induction kvs as [|[key x] r IH]; cbn.
  - split; [intros []|intros (?&?&?&[]&_)].
  - rewrite in_app_iff, IH. split.
    + intros [H|(key'&x'&q&Hin&Hp&Hq)].
      * apply in_pre in H. destruct H as [q [-> Hq]]. exists key, x, q. auto.
      * exists key', x', q. auto.
    + intros (key'&x'&q&[Heq|Hin]&Hp&Hq).
      * inversion Heq; subst. left. apply in_pre. eauto.
      * right. exists key', x', q. auto.
Qed.

Lemma in_un_keys t kvs p k :
  In (p, k) (un_keys t kvs) <->
  exists key x, In (key, x) kvs /\
    ((lookup key (flat_of t) = None /\ remain_of t = false /\ p = [] /\ k = key) \/
     (exists t' q, lookup key (flat_of t) = Some t' /\ p = key :: q /\ In (q, k) (unused t' x))).
Proof.
  induction kvs as [|[key x] r IH]; cbn.
  - split; [intros []|intros (?&?&[]&_)].
  - rewrite in_app_iff, IH. split.
    + intros [H|(key'&x'&Hin&Hc)].
      * exists key, x. split; [now left|]. unfold key_unused in H.
        destruct (lookup key (flat_of t)) as [t'|] eqn:El; cbn in H.
        -- right. apply in_pre in H. destruct H as [q [-> Hq]]. exists t', q. auto.
        -- left. destruct (remain_of t); [destruct H|]. destruct H as [H|[]]. inversion H; subst. auto.
      * exists key', x'. auto.
    + intros (key'&x'&[Heq|Hin]&Hc).
      * inversion Heq; subst. left. unfold key_unused. destruct Hc as [(El&Er&->&->)|(t'&q&El&->&Hq)].
        -- rewrite El, Er. cbn. now left.
        -- rewrite El. cbn. apply in_pre. eauto.
      * right. exists key', x'. auto.
Qed.

Lemma unused_complete_l t v p k : unk t v p k -> In (p, k) (unused t v).
Proof.
  intros H. induction H as [t rem fs kvs k x Hs Hin Hna Hr | t rem fs kvs k x t' p k' Hs Hin Hl Hu IH
                           | t t' l i x p k Hs Hn Hu IH | t t' kvs key x p k Hs Hin Hu IH].
  - rewrite (unused_struct _ _ _ _ Hs). apply in_un_keys. exists k, x. split; [assumption|]. left.
    split; [now apply lookup_none_accepts|auto].
  - rewrite (unused_struct _ _ _ _ Hs). apply in_un_keys. exists k, x. split; [assumption|]. right.
    exists t', p. auto.
  - rewrite (unused_slice _ _ _ Hs). apply in_un_elems. exists i, x, p. auto.
  - rewrite (unused_map _ _ _ Hs). apply in_un_entries. exists key, x, p. auto.
Qed.

Lemma unused_sound_l v : forall t p k, In (p, k) (unused t v) -> unk t v p k.
Proof.
  induction v as [| s | l IH | kvs IH] using cv_ind'; intros t p k Hin.
  - cbn in Hin. destruct (strip t); destruct Hin.
  - cbn in Hin. destruct (strip t); destruct Hin.
  - destruct (strip_cases t) as [Hs|[(t'&Hs)|[(t'&Hs)|(rem&fs&Hs)]]].
    + cbn in Hin. rewrite Hs in Hin. destruct Hin.
    + rewrite (unused_slice _ _ _ Hs) in Hin. apply in_un_elems in Hin. destruct Hin as (j&x&q&Hn&->&Hq).
      cbn. rewrite Forall_forall in IH. eapply U_elem; eauto. apply IH; [eapply nth_error_In; eauto|assumption].
    + cbn in Hin. rewrite Hs in Hin. destruct Hin.
    + cbn in Hin. rewrite Hs in Hin. destruct Hin.
  - destruct (strip_cases t) as [Hs|[(t'&Hs)|[(t'&Hs)|(rem&fs&Hs)]]].
    + cbn in Hin. rewrite Hs in Hin. destruct Hin.
    + cbn in Hin. rewrite Hs in Hin. destruct Hin.
    + rewrite (unused_map _ _ _ Hs) in Hin. apply in_un_entries in Hin. destruct Hin as (key&x&q&Hk&->&Hq).
      rewrite Forall_forall in IH. eapply U_entry; eauto. apply (IH (key, x) Hk). assumption.
    + rewrite (unused_struct _ _ _ _ Hs) in Hin. apply in_un_keys in Hin.
      destruct Hin as (key&x&Hk&[(El&Er&->&->)|(t'&q&El&->&Hq)]).
      * eapply U_here; eauto. now apply lookup_none_accepts.
      * rewrite Forall_forall in IH. eapply U_field; eauto. apply (IH (key, x) Hk). assumption.
Qed.

Lemma unused_exact_l t v p k : In (p, k) (unused t v) <-> unk t v p k.
Proof. split; [apply unused_sound_l|apply unused_complete_l]. Qed.

(* the load is rejected as soon as one unknown key exists anywhere *)
Lemma decode_strict_l t v p k : unk t v p k -> decode_strict_ok t v = false /\ In (p, k) (unused t v).
Proof.
  intros H. apply unused_complete_l in H. split; [|assumption].
  unfold decode_strict_ok. destruct (unused t v); [destruct H|reflexivity].
Qed.

Lemma decode_strict_ok_iff t v : decode_strict_ok t v = true <-> forall p k, ~ unk t v p k.
Proof.
  unfold decode_strict_ok. split.
  - intros H p k Hu. apply unused_complete_l in Hu. destruct (unused t v); [destruct Hu|discriminate].
  - intros H. destruct (unused t v) as [|[p k] l] eqn:E; [reflexivity|].
    exfalso. apply (H p k). apply unused_sound_l. rewrite E. now left.
Qed.
