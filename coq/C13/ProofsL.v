(* C13/ProofsL.v — LINK: what the MODEL produces always passes the clause checkers.  For every input
   (under the well-formedness guards of the theorems) the case record built from the model's own run
   satisfies Harness.prop_ok.  So the checkers never demand more than the model delivers, and the
   checkers' verdicts and the theorems are statements about the same thing. *)
From Verif Require Import Common.Base C13.Model C13.Spec C13.Checkers C13.Harness.
From Verif Require Import C13.Proofs1 C13.Proofs2 C13.Proofs3 C13.Proofs4 C13.Proofs5 C13.Proofs6 C13.Proofs9 C13.Proofs10 C13.Proofs11 C13.ProofsC.
From Verif Require Import Generated.C13CfgSchema.
From Coq Require Import String.

(* ---- map-order-insensitive equality of configuration values ------------------------------------- *)
(* keys unique in every map *)
Inductive cv_wf : cv -> Prop :=
| CW_null : cv_wf CNull
| CW_sc s : cv_wf (CScalar s)
| CW_list l : Forall cv_wf l -> cv_wf (CList l)
| CW_map kvs : NoDup (map fst kvs) -> Forall (fun e => cv_wf (snd e)) kvs -> cv_wf (CMap kvs).

(* the same value up to the order of map entries *)
Inductive cv_equiv : cv -> cv -> Prop :=
| CE_null : cv_equiv CNull CNull
| CE_sc s : cv_equiv (CScalar s) (CScalar s)
| CE_list la lb : Forall2 cv_equiv la lb -> cv_equiv (CList la) (CList lb)
| CE_map ka kb :
    (forall k x, lookup k ka = Some x -> exists y, lookup k kb = Some y /\ cv_equiv x y) ->
    (forall k y, lookup k kb = Some y -> exists x, lookup k ka = Some x /\ cv_equiv x y) ->
    cv_equiv (CMap ka) (CMap kb).

Definition cv_both (a b : cv) : bool := cv_eqm a b && cv_eqm b a.

Section CvInd2.
  Context (P : cv -> Prop).
  Hypothesis HNull : P CNull.
  Hypothesis HScalar : forall s, P (CScalar s).
  Hypothesis HList : forall l, Forall P l -> P (CList l).
  Hypothesis HMap : forall kvs, Forall (fun kv => P (snd kv)) kvs -> P (CMap kvs).
  Definition cv_ind2 := cv_ind' P HNull HScalar HList HMap.
End CvInd2.

Fixpoint eqm_list (la lb : list cv) : bool :=
  match la, lb with
  | [], [] => true
  | x :: ra, y :: rb => cv_eqm x y && eqm_list ra rb
  | _, _ => false
  end.
Fixpoint eqm_keys (kb : list (string * cv)) (ka : list (string * cv)) : bool :=
  match ka with
  | [] => true
  | (k, x) :: r => match lookup k kb with Some y => cv_eqm x y | None => false end && eqm_keys kb r
  end.

Lemma cv_eqm_list la lb : cv_eqm (CList la) (CList lb) = eqm_list la lb.
Proof. reflexivity. Qed.

Lemma cv_eqm_map ka kb : cv_eqm (CMap ka) (CMap kb) = Nat.eqb (List.length ka) (List.length kb) && eqm_keys kb ka.
Proof. cbn [cv_eqm]. f_equal. induction ka as [|[k x] r IH]; cbn; [reflexivity|]. now rewrite IH. Qed.

Lemma in_lookup {A} k (x : A) l : NoDup (map fst l) -> In (k, x) l -> lookup k l = Some x.
Proof.
  induction l as [|[k' y] r IH]; intros Hnd Hin; [destruct Hin|]. cbn in Hnd. inversion Hnd as [|? ? Hni Hnd']; subst.
  cbn. destruct Hin as [Heq|Hin].
  - inversion Heq; subst. now rewrite String.eqb_refl.
  - destruct (String.eqb_spec k k') as [->|Hne]; [|auto]. exfalso. apply Hni. apply (in_map fst) in Hin. exact Hin.
Qed.

Lemma eqm_keys_spec kb ka : eqm_keys kb ka = true <->
  forall k x, In (k, x) ka -> exists y, lookup k kb = Some y /\ cv_eqm x y = true.
Proof.
  induction ka as [|[k x] r IH]; cbn.
  - split; [intros _ k x []|reflexivity].
  - rewrite andb_true_iff, IH. split.
    + intros [H1 H2] k' x' [Heq|Hin]; [|auto]. inversion Heq; subst.
      destruct (lookup k' kb) as [y|]; [eauto|discriminate].
    + intros H. split.
      * destruct (H k x (or_introl eq_refl)) as (y&Hl&He). now rewrite Hl.
      * intros k' x' Hin. apply H. now right.
Qed.

(* reflexivity (needs unique keys: lookup finds the FIRST entry of a key) *)
Lemma cv_eqm_refl c : cv_wf c -> cv_eqm c c = true.
Proof.
  induction c as [|s|l IH|kvs IH] using cv_ind2; intros Hw.
  - reflexivity.
  - apply String.eqb_refl.
  - rewrite cv_eqm_list. inversion Hw as [| |? Hall|]; subst.
    clear Hw. induction l as [|x r IHl]; [reflexivity|]. cbn.
    inversion IH as [|? ? Hx Hr]; inversion Hall as [|? ? Hwx Hwr]; subst.
    rewrite (Hx Hwx). cbn. exact (IHl Hr Hwr).
  - rewrite cv_eqm_map, Nat.eqb_refl. cbn [andb]. inversion Hw as [| | |? Hnd Hall]; subst.
    apply eqm_keys_spec. intros k x Hin. exists x. split; [now apply in_lookup|].
    rewrite Forall_forall in IH, Hall. exact (IH (k, x) Hin (Hall (k, x) Hin)).
Qed.

Lemma cv_both_refl c : cv_wf c -> cv_both c c = true.
Proof. intros H. unfold cv_both. now rewrite (cv_eqm_refl c H). Qed.

(* soundness: accepted by the boolean equality in both directions => the same value up to map order *)
Lemma cv_both_sound a : forall b, cv_wf a -> cv_wf b -> cv_both a b = true -> cv_equiv a b.
Proof.
  induction a as [|s|la IH|ka IH] using cv_ind2; intros b Hwa Hwb Hb; unfold cv_both in Hb;
    apply andb_true_iff in Hb; destruct Hb as [Hab Hba].
  - destruct b; try discriminate. constructor.
  - destruct b; try discriminate. cbn in Hab. apply String.eqb_eq in Hab. subst. constructor.
  - destruct b as [| |lb|]; try discriminate. rewrite cv_eqm_list in Hab, Hba.
    inversion Hwa as [| |? Ha|]; inversion Hwb as [| |? Hbw|]; subst. constructor. clear Hwa Hwb.
    revert lb Hab Hba Hbw. induction la as [|x ra IHl]; intros [|y rb] Hab Hba Hbw; try discriminate; [constructor|].
    cbn in Hab, Hba. apply andb_true_iff in Hab, Hba. destruct Hab as [H1 H2], Hba as [H3 H4].
    inversion IH as [|? ? Hx Hr]; inversion Ha as [|? ? Hwx Hwr]; inversion Hbw as [|? ? Hwy Hwrb]; subst. constructor.
    + apply Hx; try assumption. unfold cv_both. now rewrite H1, H3.
    + apply IHl; assumption.
  - destruct b as [| | |kb]; try discriminate. rewrite cv_eqm_map in Hab, Hba.
    apply andb_true_iff in Hab, Hba. destruct Hab as [_ Hab], Hba as [_ Hba].
    rewrite eqm_keys_spec in Hab, Hba.
    inversion Hwa as [| | |? Hnda Halla]; inversion Hwb as [| | |? Hndb Hallb]; subst.
    rewrite Forall_forall in IH, Halla, Hallb.
    assert (Hkey : forall k x y, In (k, x) ka -> In (k, y) kb -> cv_equiv x y).
    { intros k x y Hx Hy. apply (IH (k, x) Hx); [exact (Halla _ Hx)|exact (Hallb _ Hy)|].
      destruct (Hab k x Hx) as (y'&Hl&He). destruct (Hba k y Hy) as (x'&Hl'&He').
      rewrite (in_lookup k y kb Hndb Hy) in Hl. inversion Hl; subst y'.
      rewrite (in_lookup k x ka Hnda Hx) in Hl'. inversion Hl'; subst x'.
      unfold cv_both. cbn [snd]. now rewrite He, He'. }
    constructor.
    + intros k x Hl. pose proof (lookup_in _ _ _ Hl) as Hx. destruct (Hab k x Hx) as (y&Hly&_).
      exists y. split; [assumption|]. exact (Hkey k x y Hx (lookup_in _ _ _ Hly)).
    + intros k y Hl. pose proof (lookup_in _ _ _ Hl) as Hy. destruct (Hba k y Hy) as (x&Hlx&_).
      exists x. split; [assumption|]. exact (Hkey k x y (lookup_in _ _ _ Hlx) Hy).
Qed.

(* ---- typed trees with unique keys: the leaves enumeration is exact ------------------------------- *)
Inductive tv_wf : tv -> Prop :=
| TW_sc s : tv_wf (VSc s)
| TW_rec fs : NoDup (map fst fs) -> Forall (fun e => tv_wf (snd e)) fs -> tv_wf (VRec fs).

Lemma tv_leaves_leaf d : tv_wf d -> forall p s, In (p, s) (tv_leaves d) -> tv_get p d = Some (VSc s).
Proof.
  induction d as [s0|fs IH] using tv_ind'; intros Hw p s Hin.
  - cbn in Hin. destruct Hin as [H|[]]. inversion H; subst. reflexivity.
  - inversion Hw as [|? Hnd Hall]; subst. cbn [tv_leaves] in Hin.
    assert (Hex : exists k x q, In (k, x) fs /\ p = k :: q /\ In (q, s) (tv_leaves x)).
    { clear -Hin. induction fs as [|[k x] r IHf]; [destruct Hin|]. apply in_app_iff in Hin. destruct Hin as [Hin|Hin].
      - apply in_pre in Hin. destruct Hin as (q&->&Hq). exists k, x, q. split; [now left|auto].
      - destruct (IHf Hin) as (k'&x'&q&Hi&Hp&Hq). exists k', x', q. split; [now right|auto]. }
    destruct Hex as (k&x&q&Hi&->&Hq). cbn [tv_get]. rewrite (in_lookup k x fs Hnd Hi). cbn [opt_bind].
    rewrite Forall_forall in IH, Hall. exact (IH (k, x) Hi (Hall (k, x) Hi) q s Hq).
Qed.

(* the written-keys checker decides its clause in BOTH directions for trees with unique keys *)
Lemma written_reflected_b_iff d m obs : tv_wf d ->
  (written_reflected_b d m obs = true <->
   forall p s0 s, leaf_at d p s0 -> written (Some m) p s -> leaf_at obs p s).
Proof.
  intros Hw. split; [apply written_reflected_b_sound|].
  intros H. unfold written_reflected_b. apply forallb_forall. intros [p s0] Hin. cbn [fst].
  destruct (cv_get p (Some m)) as [[| s | |]|] eqn:Eg; try reflexivity.
  specialize (H p s0 s (tv_leaves_leaf d Hw p s0 Hin) Eg). unfold leaf_at in H. rewrite H. apply String.eqb_refl.
Qed.

(* ---- the model's own run passes every clause checker -------------------------------------------- *)
Lemma forallb_mem_self l : forallb (fun x => ps_mem x l) l = true.
Proof. apply forallb_forall. intros x Hx. now apply ps_mem_in. Qed.

Lemma link_walk t : walk_complete_b t (walk t) = true /\ walk_sound_b t (walk t) = true.
Proof. split; apply forallb_mem_self. Qed.

Lemma link_cfg g c errs : outcome g c errs ->
  (negb (is_nil errs) || wf_b g c) = true /\ (is_nil errs || negb (wf_b g c)) = true.
Proof.
  intros Ho. pose proof (outcome_nil_iff_wf g c errs Ho) as Hi. destruct (wf_b g c) eqn:Ew.
  - apply wf_b_iff in Ew. apply Hi in Ew. subst. split; reflexivity.
  - split; [|now rewrite orb_true_r]. rewrite orb_false_r. destruct errs; [|reflexivity].
    exfalso. assert (wf g c) by (apply Hi; reflexivity). apply wf_b_iff in H. congruence.
Qed.

Lemma link_pipe p : Bool.eqb (match pipe_shape_err p with None => true | Some _ => false end) (shape_ok_b p) = true.
Proof. unfold shape_ok_b. destruct (pipe_shape_err p); reflexivity. Qed.

Lemma link_dec t v : unknown_named_b t v (unused t v) = true /\ unknown_keys_named_b t v (unused t v) = true.
Proof.
  split; [apply forallb_mem_self|]. unfold unknown_keys_named_b. apply forallb_forall. intros pk Hin.
  apply str_mem_in. now apply in_map.
Qed.

Lemma link_faith name d m : tv_wf d -> written_reflected_b d m (decode_model name d m) = true.
Proof.
  intros Hw. apply (written_reflected_b_iff d m _ Hw). intros p s0 s Hl Hwr.
  exact (decode_model_written_l name d m p s0 s Hl Hwr).
Qed.

Lemma link_sec name d sec : tv_wf d -> NoDup (map fst sec) ->
  forallb (fun e => match lookup (fst e) (decode_section name d sec) with
                    | Some o => written_reflected_b d (snd e) o
                    | None => false
                    end) sec = true.
Proof.
  intros Hw Hnd. apply forallb_forall. intros [i m] Hin. cbn [fst snd].
  rewrite section_instance_l, (in_lookup i m sec Hnd Hin). cbn. now apply link_faith.
Qed.

Lemma link_eff v : no_secret_b (ev_plains v) (encode v) = true.
Proof. apply no_secret_b_iff. apply encode_no_secret_l. Qed.

Lemma link_enc_secret v : no_secret_b (x_plains v) (encode_x v) = true.
Proof. apply no_secret_b_iff. apply encoder_no_secret_l. Qed.

Lemma link_mis k w :
  (negb (fam_mismatch_b k w) || is_err (decode_leaf k w)) = true /\
  (is_err (decode_leaf k w) || is_keep (decode_leaf k w) || same_value_b w (decode_leaf k w)) = true.
Proof.
  split.
  - destruct (fam_mismatch_b k w) eqn:E; [|reflexivity]. rewrite fam_mismatch_b_eq in E.
    now rewrite (mismatch_rejected_l k w E).
  - destruct (decode_leaf k w) eqn:E; try reflexivity;
      (cbn [is_err is_keep orb]; apply same_value_b_iff; apply (no_silent_coercion_l k w _ E); discriminate).
Qed.

Lemma link_notify conf exts : cv_wf conf ->
  forallb (fun r => cv_eqm (fst r) conf && cv_eqm conf (fst r)) (fst (notify conf exts)) = true /\
  cv_eqm (snd (notify conf exts)) conf && cv_eqm conf (snd (notify conf exts)) = true.
Proof.
  intros Hw. destruct (notify_isolated_l exts conf) as [H1 H2]. split.
  - apply forallb_forall. intros r Hr. rewrite Forall_forall in H1. rewrite (H1 r Hr). now rewrite (cv_eqm_refl conf Hw).
  - rewrite H2. now rewrite (cv_eqm_refl conf Hw).
Qed.

Lemma list_eqb_refl {A} (f : A -> A -> bool) l : (forall x, In x l -> f x x = true) -> list_eqb f l l = true.
Proof. induction l as [|x r IH]; intros H; [reflexivity|]. cbn. rewrite (H x (or_introl eq_refl)). apply IH. intros y Hy. apply H. now right. Qed.

Lemma run_loads_v_wf encs : Forall (fun e => cv_wf (snd e)) encs -> Forall cv_wf (run_loads_v encs).
Proof.
  induction encs as [|[[|] e] r IH]; intros H; cbn; try constructor.
  - unfold load_effective. rewrite cv_merge_empty. inversion H; assumption.
  - apply IH. inversion H; assumption.
Qed.

Lemma link_reload encs : Forall (fun e => cv_wf (snd e)) encs ->
  forallb (fun o => existsb (fun e => fst e && cv_eqm (snd e) o && cv_eqm o (snd e)) encs) (run_loads_v encs) = true /\
  list_eqb (fun a b => cv_eqm a b && cv_eqm b a) (run_loads_v encs) (run_loads_v encs) = true.
Proof.
  intros Hw. pose proof (run_loads_v_wf encs Hw) as Hwr. rewrite Forall_forall in Hwr. split.
  - apply forallb_forall. intros o Ho. apply existsb_exists. exists (true, o). split; [now apply run_loads_v_valid_l|].
    cbn. now rewrite (cv_eqm_refl o (Hwr o Ho)).
  - apply list_eqb_refl. intros x Hx. now rewrite (cv_eqm_refl x (Hwr x Hx)).
Qed.

Lemma link_types known ids :
  match hd_error (unknown_type_ids known ids) with
  | None => is_nil (unknown_type_ids known ids)
  | Some id => str_mem id (unknown_type_ids known ids)
  end = true.
Proof.
  destruct (unknown_type_ids known ids) as [|x r]; [reflexivity|]. cbn. now rewrite String.eqb_refl.
Qed.

(* ---- the encoding of a well-formed value has unique keys ------------------------------------------ *)
Lemma encx_fields_keys k fs : In k (map fst (encx_fields fs)) -> In k (map (fun e : string * bool * xv => fst (fst e)) fs).
Proof.
  induction fs as [|[[n o] x] r IH]; cbn; [auto|]. destruct (x_skipped n o x); cbn.
  - intros H. right. auto.
  - intros [<-|H]; [now left|right; auto].
Qed.

Lemma encx_fields_nodup fs : NoDup (map (fun e : string * bool * xv => fst (fst e)) fs) -> NoDup (map fst (encx_fields fs)).
Proof.
  induction fs as [|[[n o] x] r IH]; intros H; cbn; [constructor|]. cbn in H. inversion H as [|? ? Hni Hnd]; subst.
  destruct (x_skipped n o x); cbn; [auto|]. constructor; [|auto]. intros Hin. apply Hni. now apply encx_fields_keys.
Qed.

Lemma encx_map_keys kvs : map fst (encx_map kvs) = map (fun e : xkey * xv => key_str (fst e)) kvs.
Proof. induction kvs as [|[k x] r IH]; cbn; [reflexivity|]. now rewrite IH. Qed.

Lemma Forall_encx_list l :
  Forall (fun x => x_wf x -> cv_wf (encode_x x)) l -> Forall x_wf l -> Forall cv_wf (encx_list l).
Proof.
  induction l as [|x r IH]; intros H1 H2; cbn; constructor;
    inversion H1 as [|? ? Ha Hb]; inversion H2 as [|? ? Hc Hd]; subst; auto.
Qed.

Lemma Forall_encx_map kvs :
  Forall (fun e : xkey * xv => x_wf (snd e) -> cv_wf (encode_x (snd e))) kvs -> Forall (fun e : xkey * xv => x_wf (snd e)) kvs ->
  Forall (fun e => cv_wf (snd e)) (encx_map kvs).
Proof.
  induction kvs as [|[k x] r IH]; intros H1 H2; cbn; constructor;
    inversion H1 as [|? ? Ha Hb]; inversion H2 as [|? ? Hc Hd]; subst; cbn in *; auto.
Qed.

Lemma Forall_encx_fields fs :
  Forall (fun e : string * bool * xv => x_wf (snd e) -> cv_wf (encode_x (snd e))) fs -> Forall (fun e : string * bool * xv => x_wf (snd e)) fs ->
  Forall (fun e => cv_wf (snd e)) (encx_fields fs).
Proof.
  induction fs as [|[[n o] x] r IH]; intros H1 H2; cbn; [constructor|].
  inversion H1 as [|? ? Ha Hb]; inversion H2 as [|? ? Hc Hd]; subst; cbn in *.
  destruct (x_skipped n o x); [auto|]. constructor; cbn; auto.
Qed.

Lemma encode_x_wf v : x_wf v -> cv_wf (encode_x v).
Proof.
  induction v as [|z s|z s|n l IH|l|n kvs IH|fs IH|v IH] using xv_ind'; intros Hw.
  - constructor.
  - constructor.
  - constructor.
  - rewrite encode_x_list. inversion Hw; subst. constructor. now apply Forall_encx_list.
  - cbn [encode_x]. constructor. clear Hw. induction l as [|e r IHl]; cbn; [constructor|constructor; [constructor|assumption]].
  - rewrite encode_x_map. inversion Hw; subst. constructor; [now rewrite encx_map_keys|now apply Forall_encx_map].
  - rewrite encode_x_struct. inversion Hw; subst. constructor; [now apply encx_fields_nodup|now apply Forall_encx_fields].
  - inversion Hw; subst. cbn [encode_x]. auto.
Qed.

(* ---- the theorem: the model's own observation passes every clause checker -------------------------- *)
Definition observe_model (c : vcase) : vcase :=
  match c with
  | CWalk o t _ => CWalk o t (walk t)
  | CCfg g c _ _ _ => CCfg g c (cfg_validate g c) (hd_error (pipes_candidates g c)) (full_validate g c)
  | CPipe p _ => CPipe p (pipe_shape_err p)
  | CDec paths name v _ =>
      CDec paths name v (match lookup name (schema ++ remain_levels)%list with Some t => unused t v | None => [] end)
  | CFaith name d m _ => CFaith name d m (decode_model name d m)
  | CSec name d sec _ => CSec name d sec (decode_section name d sec)
  | CEff v _ => CEff v (encode v)
  | CEnc v _ => CEnc v (marshal_x v)
  | CMis k w _ => CMis k w (decode_leaf k w)
  | CNotify conf exts _ _ => CNotify conf exts (fst (notify conf exts)) (snd (notify conf exts))
  | CReload encs _ => CReload encs (run_loads_v encs)
  | CTypes known ids _ => CTypes known ids (hd_error (unknown_type_ids known ids))
  | CRound n d v _ => CRound n d v (decode_model n (o_strip d) (encode_o v))
  end.

(* exactly the well-formedness guards of the theorems *)
Definition case_wf (c : vcase) : Prop :=
  match c with
  | CDec _ name _ _ => lookup name (schema ++ remain_levels)%list <> None
  | CFaith _ d _ _ => tv_wf d
  | CSec _ d sec _ => tv_wf d /\ NoDup (map fst sec)
  | CEnc v _ => x_wf v
  | CNotify conf _ _ _ => cv_wf conf
  | CReload encs _ => Forall (fun e => cv_wf (snd e)) encs
  | _ => True
  end.

Lemma first_clause_true l : forallb snd l = true -> first_clause l = None.
Proof.
  unfold first_clause. induction l as [|[n b] r IH]; cbn; [reflexivity|]. intros H. apply andb_true_iff in H.
  destruct H as [-> Hr]. cbn. auto.
Qed.

Lemma model_passes_checker_l c : case_wf c -> prop_ok (observe_model c) = true.
Proof.
  intros Hw. unfold prop_ok.
  assert (H : prop_clause (observe_model c) = None); [|now rewrite H].
  destruct c as [o t obs|g c oc op oall|p obs|paths name v obs|name d m obs|v obs|k w obs|name d v obs|name d sec obs|encs obs|known ids obs|v obs|conf exts obs after];
    cbn [observe_model prop_clause case_wf] in *.
  - apply first_clause_true. cbn [forallb snd]. destruct (link_walk t) as [-> ->]. reflexivity.
  - apply first_clause_true. cbn [forallb snd]. destruct (link_cfg g c _ (full_validate_outcome g c)) as [-> ->]. reflexivity.
  - apply first_clause_true. cbn [forallb snd]. now rewrite link_pipe.
  - destruct (lookup name (schema ++ remain_levels)%list) as [t|]; [|contradiction]. apply first_clause_true. cbn [forallb snd].
    destruct (link_dec t v) as [H1 H2]. destruct paths; [now rewrite H1|now rewrite H2].
  - apply first_clause_true. cbn [forallb snd]. now rewrite (link_faith name d m Hw).
  - apply first_clause_true. cbn [forallb snd]. now rewrite link_eff.
  - apply first_clause_true. cbn [forallb snd]. destruct (link_mis k w) as [-> ->]. reflexivity.
  - reflexivity.
  - destruct Hw as [Hd Hn]. apply first_clause_true. cbn [forallb snd]. now rewrite (link_sec name d sec Hd Hn).
  - apply first_clause_true. cbn [forallb snd]. destruct (link_reload encs Hw) as [-> ->]. reflexivity.
  - apply first_clause_true. cbn [forallb snd]. now rewrite link_types.
  - unfold marshal_x. destruct (x_bad v); [reflexivity|]. apply first_clause_true. cbn [forallb snd].
    rewrite link_enc_secret, (cv_eqm_refl _ (encode_x_wf v Hw)). reflexivity.
  - apply first_clause_true. cbn [forallb snd]. destruct (link_notify conf exts Hw) as [-> ->]. reflexivity.
Qed.
