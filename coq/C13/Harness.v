(* C13/Harness.v — comparison of the model with what the Go harnesses recorded from the
   implementation (cases evaluated with vm_compute in work/C13/Cases_k.v).  Imports Model only. *)
From Verif Require Export Common.Base C13.Model.
From Verif Require Import Generated.C13CfgSchema.
From Verif Require Export C13.Checkers.
From Coq Require Import String.

Definition path_eqb (a b : path) : bool := list_eqb String.eqb a b.

Definition verr_eqb (a b : verr) : bool :=
  match a, b with
  | EUser x, EUser y => String.eqb x y
  | EEmpty, EEmpty | ENoReceivers, ENoReceivers | ENoExporters, ENoExporters => true
  | EAmbigExp x, EAmbigExp y | EAmbigRecv x, EAmbigRecv y | EExtRef x, EExtRef y => String.eqb x y
  | ERecvRef p x, ERecvRef q y | EProcRef p x, EProcRef q y | EExpRef p x, EExpRef q y =>
      String.eqb p q && String.eqb x y
  | ENoPipelines, ENoPipelines => true
  | EProfilesGate x, EProfilesGate y => String.eqb x y
  | EUnknownSignal p x, EUnknownSignal q y => String.eqb p q && String.eqb x y
  | EPipeNoRecv, EPipeNoRecv | EPipeNoExp, EPipeNoExp => true
  | EDupProc x, EDupProc y => String.eqb x y
  | ETelNoReaders, ETelNoReaders | ETelViews, ETelViews => true
  | _, _ => false
  end.

Section Multiset.
  Context {A : Type} (eqb : A -> A -> bool).
  Fixpoint remove1 (x : A) (l : list A) : option (list A) :=
    match l with
    | [] => None
    | y :: r => if eqb x y then Some r else option_map (cons y) (remove1 x r)
    end.
  (* equality up to order *)
  Fixpoint perm_eqb (a b : list A) : bool :=
    match a with
    | [] => match b with [] => true | _ => false end
    | x :: r => match remove1 x b with Some b' => perm_eqb r b' | None => false end
    end.
End Multiset.

Definition pe_eqb {E} (eqb : E -> E -> bool) (a b : path * E) : bool :=
  path_eqb (fst a) (fst b) && eqb (snd a) (snd b).

(* [r] is a possible first-error of a loop over a Go map with candidate set [cs] *)
Definition pick_ok (cs : list verr) (r : option verr) : bool :=
  match r with
  | None => match cs with [] => true | _ => false end
  | Some e => existsb (verr_eqb e) cs
  end.

Definition find_at {E} (p : path) (l : list (path * E)) : option E :=
  option_map snd (find (fun pe => path_eqb (fst pe) p) l).

Fixpoint tv_eqb (a b : tv) {struct a} : bool :=
  match a, b with
  | VSc x, VSc y => String.eqb x y
  | VRec fa, VRec fb =>
      (fix go (fa fb : list (string * tv)) : bool :=
         match fa, fb with
         | [], [] => true
         | (k, x) :: ra, (k', y) :: rb => String.eqb k k' && tv_eqb x y && go ra rb
         | _, _ => false
         end) fa fb
  | _, _ => false
  end.

Fixpoint cv_eqb (a b : cv) {struct a} : bool :=
  match a, b with
  | CNull, CNull => true
  | CScalar x, CScalar y => String.eqb x y
  | CList la, CList lb =>
      (fix go (la lb : list cv) : bool :=
         match la, lb with
         | [], [] => true
         | x :: ra, y :: rb => cv_eqb x y && go ra rb
         | _, _ => false
         end) la lb
  | CMap ka, CMap kb =>
      (fix go (ka kb : list (string * cv)) : bool :=
         match ka, kb with
         | [], [] => true
         | (k, x) :: ra, (k', y) :: rb => String.eqb k k' && cv_eqb x y && go ra rb
         | _, _ => false
         end) ka kb
  | _, _ => false
  end.

Definition dres_eqb (a b : dres) : bool :=
  match a, b with
  | DErr, DErr | DKeep, DKeep | DOther, DOther => true
  | DBool x, DBool y => Bool.eqb x y
  | DNum x f, DNum y g => Z.eqb x y && Bool.eqb f g
  | DStr x, DStr y => String.eqb x y
  | DList x, DList y => list_eqb String.eqb x y
  | _, _ => false
  end.

(* equality of configuration values up to the order of map entries *)
Fixpoint cv_eqm (a b : cv) {struct a} : bool :=
  match a, b with
  | CNull, CNull => true
  | CScalar x, CScalar y => String.eqb x y
  | CList la, CList lb =>
      (fix go (la lb : list cv) : bool :=
         match la, lb with
         | [], [] => true
         | x :: ra, y :: rb => cv_eqm x y && go ra rb
         | _, _ => false
         end) la lb
  | CMap ka, CMap kb =>
      Nat.eqb (List.length ka) (List.length kb) &&
      (fix go (ka : list (string * cv)) : bool :=
         match ka with
         | [] => true
         | (k, x) :: r => match lookup k kb with Some y => cv_eqm x y | None => false end && go r
         end) ka
  | _, _ => false
  end.

Inductive vcase : Type :=
(* xconfmap.Validate on a synthetic value: the tree as reflect sees it (verdicts = what each
   node's Validate returns), and the flattened error list returned.  [ordered] = the value has
   no map with two or more entries, so the order of the errors is determined. *)
| CWalk (ordered : bool) (t : vtree string) (obs : list (path * string))
(* a generated otelcol.Config: observed results of cfg.Validate(), cfg.Service.Pipelines.Validate()
   and the flattened result of xconfmap.Validate(cfg) *)
| CCfg (g : gates) (c : topcfg) (obs_cfg obs_pipes : option verr) (obs_all : list (path * verr))
(* PipelineConfig.Validate alone *)
| CPipe (p : pipe) (obs : option verr)
(* the full loader on a configuration whose section for the schema entry [name] is [v]; observed:
   the (path relative to the entry, key) pairs of the "has invalid keys" reports ([] = no such
   report).  [paths] = false: only the keys are compared (several insertions). *)
| CDec (paths : bool) (name : string) (v : cv) (obs : list (path * string))
(* the full loader on the section [m] (canonical scalar values) of component [name] whose factory
   defaults are [d]; observed: the typed configuration after the load, same projection as [d] *)
| CFaith (name : string) (d : tv) (m : cv) (obs : tv)
(* the written settings of a loaded component as typed values (with their opaque flags taken from
   the types), and the same key paths read from the effective configuration (conf.Marshal) *)
| CEff (v : ev) (obs : cv)
(* one setting of kind [k] written with [w]; observed: rejected, or the typed value after the load *)
| CMis (k : lkind) (w : wv) (obs : dres)
(* round trip: the typed configuration [v] of component [name] (defaults [d]) is encoded, the
   encoding loaded again; observed: the typed configuration after the second load *)
| CRound (name : string) (d v : otv) (obs : tv)
(* a section with several instances of one component type (ids as written) and the typed
   configuration of each instance after the load *)
| CSec (name : string) (d : tv) (sec : list (string * cv)) (obs : list (string * tv))
(* Extensions.NotifyConfig: the collector's conf, the extensions in start order (None = no
   ConfigWatcher, Some merges = what the watcher does to its copy); observed per watcher: what it
   was handed and what it holds in the end; and the collector's conf afterwards *)
(* a collector started and reloaded: the encodings of the configurations loaded in turn, and what
   the ConfigWatcher extension was handed after each load *)
| CReload (encs : list (bool * cv)) (obs : list cv)
(* a section whose ids are [ids] loaded with factories for the types [known]; observed: the id the
   "unknown type" error names (None = the load did not fail that way) *)
| CTypes (known ids : list string) (obs : option string)
(* the encoder on a synthetic value of every shape; observed: its output (None = error) *)
| CEnc (v : xv) (obs : option cv)
| CNotify (conf : cv) (exts : list (option (list (path * cv)))) (obs : list (cv * cv)) (after : cv).

Definition check_case (c : vcase) : bool :=
  match c with
  | CWalk ordered t obs =>
      if ordered then list_eqb (pe_eqb String.eqb) (walk t) obs
      else perm_eqb (pe_eqb String.eqb) (walk t) obs
  | CCfg g c oc op oall =>
      (* the two first-error-over-a-map functions are called once directly (oc, op) and once more
         inside xconfmap.Validate, where they may pick another candidate: read that pick off the
         observed list (nondeterminism resolved by observation, then validated) *)
      let r := find_at [] oall in
      let pv := find_at ["service"; "pipelines"]%string oall in
      pick_ok (cfg_candidates g c) oc && pick_ok (pipes_candidates g c) op &&
      pick_ok (cfg_candidates g c) r && pick_ok (pipes_candidates g c) pv &&
      perm_eqb (pe_eqb verr_eqb) (walk (tree_of r pv c)) oall
  | CPipe p obs => option_eqb verr_eqb (pipe_shape_err p) obs
  | CDec paths name v obs =>
      match lookup name (schema ++ remain_levels)%list with
      | Some t =>
          if paths then perm_eqb (pe_eqb String.eqb) (unused t v) obs
          else perm_eqb String.eqb (map snd (unused t v)) (map snd obs)
      | None => false
      end
  | CFaith name d m obs => tv_eqb (decode_model name d m) obs
  | CEff v obs => cv_eqb (encode v) obs
  | CMis k w obs => dres_eqb (decode_leaf k w) obs
  | CRound name d v obs => tv_eqb (decode_model name (o_strip d) (encode_o v)) obs
  | CSec name d sec obs =>
      list_eqb (fun a b => String.eqb (fst a) (fst b) && tv_eqb (snd a) (snd b)) (decode_section name d sec) obs
  | CReload encs obs => list_eqb (fun a b => cv_eqm a b && cv_eqm b a) (run_loads_v encs) obs
  | CTypes known ids obs =>
      match obs with
      | None => is_nil (unknown_type_ids known ids)
      | Some id => str_mem id (unknown_type_ids known ids)
      end
  | CEnc v obs =>
      match obs with
      | None => x_bad v
      | Some c => negb (x_bad v) && cv_eqm (encode_x v) c && cv_eqm c (encode_x v)
      end
  | CNotify conf exts obs after =>
      let '(rs, conf') := notify conf exts in
      list_eqb (fun a b => cv_eqm (fst a) (fst b) && cv_eqm (snd a) (snd b)) rs obs && cv_eqm conf' after
  end.

(* ---- the property's clauses decided on the OBSERVED behaviour (Checkers.v; soundness ProofsC.v).
   [None]: no clause is violated by this observation; [Some clause]: the named clause is.  This is
   independent of the model's step-by-step output: a case can disagree with the model and still
   satisfy every clause (then there is no failing input), and a case that agrees is checked too. *)
Definition first_clause (l : list (string * bool)) : option string :=
  option_map fst (find (fun e => negb (snd e)) l).

Definition prop_clause (c : vcase) : option string :=
  match c with
  | CWalk _ t obs =>
      first_clause [("every nested validation rule is evaluated and reported with its path"%string, walk_complete_b t obs);
                    ("only failing reachable validators are reported"%string, walk_sound_b t obs)]
  | CCfg g c oc op oall =>
      first_clause [("a dangling / duplicated / ambiguous reference, an empty pipeline or an invalid nested value is rejected"%string,
                     negb (is_nil oall) || wf_b g c);
                    ("a well-formed configuration is accepted"%string, is_nil oall || negb (wf_b g c))]
  | CPipe p obs =>
      first_clause [("a pipeline without receivers or exporters, or with a processor listed twice, is rejected"%string,
                     Bool.eqb (match obs with None => true | Some _ => false end) (shape_ok_b p))]
  | CDec paths name v obs =>
      match lookup name (schema ++ remain_levels)%list with
      | Some t => first_clause [("an unknown key at any depth is rejected with an error naming it"%string,
                                 if paths then unknown_named_b t v obs else unknown_keys_named_b t v obs)]
      | None => Some "unknown schema entry"%string
      end
  | CFaith name d m obs =>
      first_clause [("each written key is reflected in the typed configuration"%string, written_reflected_b d m obs)]
  | CSec name d sec obs =>
      first_clause [("each written key is reflected in the typed configuration of its own instance"%string,
                     forallb (fun e => match lookup (fst e) obs with
                                       | Some o => written_reflected_b d (snd e) o
                                       | None => false
                                       end) sec)]
  | CEff v obs => first_clause [("secrets are redacted in the effective configuration"%string, no_secret_b (ev_plains v) obs)]
  | CEnc v (Some c) =>
      first_clause [("secrets are redacted in the effective configuration"%string, no_secret_b (x_plains v) c);
                    ("each visible setting is in the effective configuration with its value, and nothing else"%string,
                     cv_eqm (encode_x v) c && cv_eqm c (encode_x v))]
  | CEnc _ None => None
  | CMis k w obs =>
      first_clause [("a value of the wrong kind is rejected"%string, negb (fam_mismatch_b k w) || is_err obs);
                    ("an accepted value is the written value"%string,
                     is_err obs || is_keep obs || same_value_b w obs)]
  | CNotify conf exts obs after =>
      first_clause [("every ConfigWatcher is handed the effective configuration"%string,
                     forallb (fun r => cv_eqm (fst r) conf && cv_eqm conf (fst r)) obs);
                    ("the collector's effective configuration is not changed by the watchers"%string,
                     cv_eqm after conf && cv_eqm conf after)]
  | CReload encs obs =>
      first_clause [("a configuration that does not validate is never made effective"%string,
                     forallb (fun o => existsb (fun e => fst e && cv_eqm (snd e) o && cv_eqm o (snd e)) encs) obs);
                    ("after every (re)load the effective configuration is that of the configuration loaded last"%string,
                     list_eqb (fun a b => cv_eqm a b && cv_eqm b a) (run_loads_v encs) obs)]
  | CTypes known ids obs =>
      first_clause [("a component of a type that does not exist is rejected with an error naming it"%string,
                     match obs with
                     | None => is_nil (unknown_type_ids known ids)
                     | Some id => str_mem id (unknown_type_ids known ids)
                     end)]
  | CRound _ _ _ _ => None
  end.

Definition prop_ok (c : vcase) : bool := match prop_clause c with None => true | Some _ => false end.

(* what the check evaluates on every case: agreement with the model AND the clauses on the observation *)
Definition check_all (c : vcase) : bool := check_case c && prop_ok c.

(* model outputs, for replay files *)
Inductive vout : Type :=
| OWalk (l : list (path * string))
| OCfg (cands pcands : list verr) (det : list (path * verr))
| OPipe (e : option verr)
| ODec (l : option (list (path * string)))
| OFaith (v : tv)
| OEff (c : cv)
| OMis (r : dres)
| OSec (l : list (string * tv))
| ONotify (r : list (cv * cv) * cv)
| OEnc (c : option cv)
| OReload (l : list cv).

Definition model_out (c : vcase) : vout :=
  match c with
  | CWalk _ t _ => OWalk (walk t)
  | CCfg g c _ _ _ => OCfg (cfg_candidates g c) (pipes_candidates g c) (full_validate g c)
  | CPipe p _ => OPipe (pipe_shape_err p)
  | CDec _ name v _ => ODec (option_map (fun t => unused t v) (lookup name (schema ++ remain_levels)%list))
  | CFaith name d m _ => OFaith (decode_model name d m)
  | CEff v _ => OEff (encode v)
  | CMis k w _ => OMis (decode_leaf k w)
  | CRound name d v _ => OFaith (decode_model name (o_strip d) (encode_o v))
  | CSec name d sec _ => OSec (decode_section name d sec)
  | CNotify conf exts _ _ => ONotify (notify conf exts)
  | CEnc v _ => OEnc (marshal_x v)
  | CReload encs _ => OReload (run_loads_v encs)
  | CTypes known ids _ => OReload (map (fun s => CScalar s) (unknown_type_ids known ids))
  end.
