(* C13/Proofs9.v — instances are decoded independently of their siblings; every ConfigWatcher is
   handed exactly the effective configuration, whatever earlier watchers did to their copies. *)
From Verif Require Import Common.Base C13.Model C13.Spec C13.Proofs4.
From Coq Require Import String.

Lemma section_instance_l name d sec i :
  lookup i (decode_section name d sec) = option_map (decode_model name d) (lookup i sec).
Proof.
  unfold decode_section. induction sec as [|[k m] r IH]; [reflexivity|]. cbn.
  destruct (String.eqb i k); [reflexivity|exact IH].
Qed.

(* the typed configuration of an instance depends on nothing but the body written under its own id *)
Lemma section_independent_l name d sec sec' i :
  lookup i sec = lookup i sec' -> lookup i (decode_section name d sec) = lookup i (decode_section name d sec').
Proof. intros H. now rewrite !section_instance_l, H. Qed.

Lemma section_ids_l name d sec : map fst (decode_section name d sec) = map fst sec.
Proof. unfold decode_section. rewrite map_map. reflexivity. Qed.

(* a setting written under instance i is the value of that setting in instance i *)
Lemma section_written_l name d sec i m p s0 s :
  lookup i sec = Some m -> leaf_at d p s0 -> written (Some m) p s ->
  exists v, lookup i (decode_section name d sec) = Some v /\ leaf_at v p s.
Proof.
  intros Hl Hd Hw. exists (decode_model name d m). split.
  - now rewrite section_instance_l, Hl.
  - now apply (decode_model_written_l name d m p s0 s).
Qed.

Lemma notify_isolated_l exts : forall conf,
  Forall (fun r => fst r = conf) (fst (notify conf exts)) /\ snd (notify conf exts) = conf.
Proof.
  induction exts as [|[muts|] r IH]; intros conf; cbn [notify].
  - split; [constructor|reflexivity].
  - destruct (notify conf r) as [rest conf'] eqn:E. specialize (IH conf). rewrite E in IH. cbn in *.
    destruct IH as [IH1 IH2]. split; [constructor; [reflexivity|exact IH1]|exact IH2].
  - apply IH.
Qed.

Lemma notify_count_l exts conf :
  List.length (fst (notify conf exts)) = List.length (filter (fun e => match e with Some _ => true | None => false end) exts).
Proof.
  induction exts as [|[muts|] r IH]; cbn [notify filter]; [reflexivity| |exact IH].
  destruct (notify conf r) as [rest conf']. cbn in *. now rewrite IH.
Qed.
