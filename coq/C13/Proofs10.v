(* C13/Proofs10.v — ONE theorem about the encoder (all shapes): the effective configuration holds at
   every key path exactly the encoding of the visible value there (omitempty, "-"), AND every
   scalar in it is the marker or a non-secret value (redaction, whatever the shape). *)
From Verif Require Import Common.Base C13.Model C13.Spec C13.Proofs4 C13.Proofs5.
From Coq Require Import String.

Section XvInd.
  Context (P : xv -> Prop).
  Hypothesis H0 : P XNil.
  Hypothesis H1 : forall z s, P (XLeaf z s).
  Hypothesis H2 : forall z s, P (XOpaque z s).
  Hypothesis H3 : forall n l, Forall P l -> P (XList n l).
  Hypothesis H4 : forall l, P (XArray l).
  Hypothesis H5 : forall n kvs, Forall (fun e => P (snd e)) kvs -> P (XMap n kvs).
  Hypothesis H6 : forall fs, Forall (fun e => P (snd e)) fs -> P (XStruct fs).
  Hypothesis H7 : forall v, P v -> P (XPtr v).
  Fixpoint xv_ind' (v : xv) : P v :=
    match v with
    | XNil => H0 | XPtr v' => H7 v' (xv_ind' v') | XLeaf z s => H1 z s | XOpaque z s => H2 z s | XArray l => H4 l
    | XList n l => H3 n l ((fix go (l : list xv) : Forall P l :=
                              match l with [] => Forall_nil _ | x :: r => Forall_cons x (xv_ind' x) (go r) end) l)
    | XMap n kvs => H5 n kvs ((fix go (l : list (xkey * xv)) : Forall (fun e => P (snd e)) l :=
                                 match l with [] => Forall_nil _ | x :: r => Forall_cons x (xv_ind' (snd x)) (go r) end) kvs)
    | XStruct fs => H6 fs ((fix go (l : list (string * bool * xv)) : Forall (fun e => P (snd e)) l :=
                              match l with [] => Forall_nil _ | x :: r => Forall_cons x (xv_ind' (snd x)) (go r) end) fs)
    end.
End XvInd.

Fixpoint encx_list (l : list xv) : list cv := match l with [] => [] | x :: r => encode_x x :: encx_list r end.
Fixpoint encx_map (kvs : list (xkey * xv)) : list (string * cv) :=
  match kvs with [] => [] | (k, x) :: r => (key_str k, encode_x x) :: encx_map r end.
Fixpoint encx_fields (fs : list (string * bool * xv)) : list (string * cv) :=
  match fs with [] => [] | (n, o, x) :: r => if x_skipped n o x then encx_fields r else (n, encode_x x) :: encx_fields r end.

Lemma encode_x_list n l : encode_x (XList n l) = CList (encx_list l). Proof. reflexivity. Qed.
Lemma encode_x_map n kvs : encode_x (XMap n kvs) = CMap (encx_map kvs). Proof. reflexivity. Qed.
Lemma encode_x_struct fs : encode_x (XStruct fs) = CMap (encx_fields fs). Proof. reflexivity. Qed.

(* ---- exactness ------------------------------------------------------------------------------ *)
Lemma lookup_encx_map k kvs : lookup k (encx_map kvs) = option_map encode_x (xm_lookup k kvs).
Proof.
  induction kvs as [|[k' x] r IH]; [reflexivity|]. cbn.
  destruct (String.eqb k (key_str k')); [reflexivity|exact IH].
Qed.

Lemma lookup_encx_fields_notin k fs :
  ~ In k (map (fun e : string * bool * xv => fst (fst e)) fs) -> lookup k (encx_fields fs) = None.
Proof.
  induction fs as [|[[n o] x] r IH]; intros Hn; [reflexivity|]. cbn in *.
  assert (k <> n) by (intros ->; apply Hn; now left).
  assert (Hr : lookup k (encx_fields r) = None) by (apply IH; intros Hi; apply Hn; now right).
  destruct (x_skipped n o x); [exact Hr|]. cbn. destruct (String.eqb_spec k n); [contradiction|exact Hr].
Qed.

Lemma lookup_encx_fields k fs : NoDup (map (fun e : string * bool * xv => fst (fst e)) fs) ->
  lookup k (encx_fields fs) =
  match xs_lookup k fs with
  | Some (o, x) => if x_skipped k o x then None else Some (encode_x x)
  | None => None
  end.
Proof.
  induction fs as [|[[n o] x] r IH]; intros Hnd; [reflexivity|]. cbn in Hnd. inversion Hnd as [|? ? Hni Hnd']; subst.
  cbn [xs_lookup encx_fields]. destruct (String.eqb_spec k n) as [->|Hne].
  - destruct (x_skipped n o x).
    + now apply lookup_encx_fields_notin.
    + cbn. now rewrite String.eqb_refl.
  - destruct (x_skipped n o x); [now apply IH|]. cbn.
    destruct (String.eqb_spec k n); [contradiction|now apply IH].
Qed.

Lemma xs_lookup_in k fs o x : xs_lookup k fs = Some (o, x) -> In (k, o, x) fs.
Proof.
  induction fs as [|[[n o'] x'] r IH]; cbn; [discriminate|].
  destruct (String.eqb_spec k n) as [->|Hne]; [intros H; inversion H; now left|intros H; right; auto].
Qed.

Lemma xm_lookup_in k kvs x : xm_lookup k kvs = Some x -> exists k', In (k', x) kvs.
Proof.
  induction kvs as [|[k' x'] r IH]; cbn; [discriminate|].
  destruct (String.eqb k (key_str k')); [intros H; inversion H; subst; exists k'; now left|].
  intros H. destruct (IH H) as [k2 Hk]. exists k2. now right.
Qed.

Lemma encoder_exact_l v : x_wf v -> forall p,
  cv_get p (Some (encode_x v)) = option_map encode_x (x_get_vis p v).
Proof.
  induction v as [|z s|z s|n l IH|l|n kvs IH|fs IH|v IH] using xv_ind'; intros Hw p;
    try (destruct p as [|k r]; [reflexivity|cbn; apply cv_get_none]).
  3:{ inversion Hw; subst. destruct p as [|k r]; [reflexivity|]. exact (IH H0 (k :: r)). }
  - destruct p as [|k r]; [reflexivity|]. inversion Hw as [| | | | | |? ? Hnd Hall|]; subst.
    rewrite encode_x_map. cbn [cv_get cv_lookup x_get_vis x_unptr]. rewrite lookup_encx_map.
    destruct (xm_lookup k kvs) as [x|] eqn:El; cbn [option_map opt_bind].
    + destruct (xm_lookup_in _ _ _ El) as [k' Hin]. rewrite Forall_forall in IH, Hall.
      exact (IH (k', x) Hin (Hall (k', x) Hin) r).
    + apply cv_get_none.
  - destruct p as [|k r]; [reflexivity|]. inversion Hw as [| | | | | | |? Hnd Hall]; subst.
    rewrite encode_x_struct. cbn [cv_get cv_lookup x_get_vis x_unptr]. rewrite (lookup_encx_fields k fs Hnd).
    destruct (xs_lookup k fs) as [[o x]|] eqn:El; cbn [opt_bind fst snd].
    + destruct (x_skipped k o x); [apply cv_get_none|].
      pose proof (xs_lookup_in _ _ _ _ El) as Hin. rewrite Forall_forall in IH, Hall.
      exact (IH (k, o, x) Hin (Hall (k, o, x) Hin) r).
    + apply cv_get_none.
Qed.

(* ---- redaction ------------------------------------------------------------------------------ *)
Fixpoint scal_list (l : list cv) : list string := match l with [] => [] | x :: r => cv_scalars x ++ scal_list r end.
Lemma cv_scalars_list l : cv_scalars (CList l) = scal_list l. Proof. reflexivity. Qed.
Lemma cv_scalars_cmap kvs : cv_scalars (CMap kvs) = scal_kvs kvs. Proof. reflexivity. Qed.

Fixpoint plains_list (l : list xv) : list string := match l with [] => [] | x :: r => x_plains x ++ plains_list r end.
Fixpoint plains_map (kvs : list (xkey * xv)) : list string := match kvs with [] => [] | (_, x) :: r => x_plains x ++ plains_map r end.
Fixpoint plains_fs (fs : list (string * bool * xv)) : list string := match fs with [] => [] | (_, _, x) :: r => x_plains x ++ plains_fs r end.
Lemma x_plains_list n l : x_plains (XList n l) = plains_list l. Proof. reflexivity. Qed.
Lemma x_plains_map n kvs : x_plains (XMap n kvs) = plains_map kvs. Proof. reflexivity. Qed.
Lemma x_plains_struct fs : x_plains (XStruct fs) = plains_fs fs. Proof. reflexivity. Qed.

Lemma encoder_no_secret_l v : forall s, In s (cv_scalars (encode_x v)) -> s = redacted \/ In s (x_plains v).
Proof.
  induction v as [|z s0|z s0|n l IH|l|n kvs IH|fs IH|v IH] using xv_ind'; intros s Hin.
  8:{ exact (IH s Hin). }
  - destruct Hin.
  - cbn in Hin. destruct Hin as [<-|[]]. right. now left.
  - cbn in Hin. destruct Hin as [<-|[]]. now left.
  - rewrite encode_x_list, cv_scalars_list in Hin. rewrite x_plains_list.
    induction l as [|x r IHl]; cbn in Hin; [destruct Hin|]. inversion IH as [|? ? Hx Hr]; subst.
    apply in_app_iff in Hin. destruct Hin as [Hin|Hin].
    + destruct (Hx s Hin) as [->|Hp]; [now left|right; cbn; apply in_app_iff; now left].
    + destruct (IHl Hr Hin) as [->|Hp]; [now left|right; cbn; apply in_app_iff; now right].
  - cbn [encode_x] in Hin. rewrite cv_scalars_list in Hin. cbn [x_plains].
    induction l as [|[[o z] s0] r IHl]; cbn in Hin; [destruct Hin|].
    destruct Hin as [<-|Hin].
    + destruct o; cbn; [now left|right; now left].
    + destruct (IHl Hin) as [->|Hp]; [now left|]. right. destruct o; cbn; [exact Hp|now right].
  - rewrite encode_x_map, cv_scalars_cmap in Hin. rewrite x_plains_map.
    induction kvs as [|[k x] r IHk]; cbn in Hin; [destruct Hin|]. inversion IH as [|? ? Hx Hr]; subst.
    apply in_app_iff in Hin. destruct Hin as [Hin|Hin].
    + destruct (Hx s Hin) as [->|Hp]; [now left|right; cbn; apply in_app_iff; now left].
    + destruct (IHk Hr Hin) as [->|Hp]; [now left|right; cbn; apply in_app_iff; now right].
  - rewrite encode_x_struct, cv_scalars_cmap in Hin. rewrite x_plains_struct.
    induction fs as [|[[n o] x] r IHf]; cbn in Hin; [destruct Hin|]. inversion IH as [|? ? Hx Hr]; subst.
    cbn [plains_fs]. destruct (x_skipped n o x).
    + destruct (IHf Hr Hin) as [->|Hp]; [now left|right; apply in_app_iff; now right].
    + cbn in Hin. apply in_app_iff in Hin. destruct Hin as [Hin|Hin].
      * destruct (Hx s Hin) as [->|Hp]; [now left|right; apply in_app_iff; now left].
      * destruct (IHf Hr Hin) as [->|Hp]; [now left|right; apply in_app_iff; now right].
Qed.

(* the ONE theorem: exact with omitempty AND redacting, for every value of every shape *)
Lemma encoder_exact_and_redacting_l v : x_wf v ->
  (forall p, cv_get p (Some (encode_x v)) = option_map encode_x (x_get_vis p v)) /\
  (forall s, In s (cv_scalars (encode_x v)) -> s = redacted \/ In s (x_plains v)).
Proof. intros Hw. split; [now apply encoder_exact_l|apply encoder_no_secret_l]. Qed.

Lemma marshal_fails_iff_l v : marshal_x v = None <-> x_bad v = true.
Proof. unfold marshal_x. destruct (x_bad v); split; congruence. Qed.
