(* C13/Model.v — executable model of configuration validation and strict decoding
   (opentelemetry-collector, pinned tree).  Gallina only, no proofs.

   Part 1  walk          confmap/xconfmap/config.go   validate / callValidateIfPossible / pathError
   Part 2  cfg_*         otelcol/config.go Config.Validate, service/pipelines/config.go
                         Config.Validate + PipelineConfig.Validate, service/telemetry/config.go
                         Config.Validate, and the tree xconfmap.Validate walks for *otelcol.Config
   Part 3  decode keys   confmap/confmap.go decodeConfig as configured (ErrorUnused, case-sensitive
                         names, squash, remain), i.e. which key paths a type descriptor accepts.   *)
From Verif Require Import Common.Base.
From Coq Require Import String Ascii DecimalString.

Definition path := list string.

(* strconv.Itoa on a non-negative index *)
Definition itoa (n : nat) : string := NilEmpty.string_of_uint (Nat.to_uint n).

Definition str_mem (s : string) (l : list string) : bool := existsb (String.eqb s) l.

(* =====================================================================================
   Part 1 — the validation walk.

   A [vtree] is the shape of a Go value as [validate]'s [switch v.Kind()] sees it.  Every node
   that is not a pointer/interface carries the verdict of [callValidateIfPossible] on it:
   [None] = the type has no Validate (neither on T nor on *T) or Validate returned nil,
   [Some e] = Validate returned error e.
     VInvalid          reflect.Invalid   (Elem of a nil pointer / nil interface)
     VPtr t            reflect.Ptr, reflect.Interface:  return validate(v.Elem())
     VStruct v fs      reflect.Struct; a field is (exported?, fieldName(field), value)
     VSeq v es         reflect.Slice, reflect.Array
     VMap v kvs        reflect.Map; an entry is (stringifyMapKey(key), key, value)
     VLeaf v           default: every other kind                                           *)
Inductive vtree (E : Type) : Type :=
| VInvalid
| VPtr (t : vtree E)
| VStruct (v : option E) (fs : list (bool * string * vtree E))
| VSeq (v : option E) (es : list (vtree E))
| VMap (v : option E) (kvs : list (string * vtree E * vtree E))
| VLeaf (v : option E).
Arguments VInvalid {E}.
Arguments VPtr {E} t.
Arguments VStruct {E} v fs.
Arguments VSeq {E} v es.
Arguments VMap {E} v kvs.
Arguments VLeaf {E} v.

(* errs = append(errs, pathError{err: err.err, path: append(err.path, seg)}) for every sub-error;
   Go stores the path innermost-first and prints it reversed; the model keeps it root-first. *)
Definition pre {E} (seg : string) (l : list (path * E)) : list (path * E) :=
  map (fun pe => (seg :: fst pe, snd pe)) l.

Definition here {E} (v : option E) : list (path * E) :=
  match v with Some e => [([], e)] | None => [] end.

Fixpoint walk {E} (t : vtree E) : list (path * E) :=
  match t with
  | VInvalid => []
  | VPtr t' => walk t'
  | VStruct v fs =>
      here v ++
      (fix go (fs : list (bool * string * vtree E)) : list (path * E) :=
         match fs with
         | [] => []
         | (ex, name, sub) :: r => (if ex then pre name (walk sub) else []) ++ go r
         end) fs
  | VSeq v es =>
      here v ++
      (fix go (i : nat) (es : list (vtree E)) : list (path * E) :=
         match es with
         | [] => []
         | e :: r => pre (itoa i) (walk e) ++ go (S i) r
         end) 0 es
  | VMap v kvs =>
      here v ++
      (fix go (kvs : list (string * vtree E * vtree E)) : list (path * E) :=
         match kvs with
         | [] => []
         | (k, kt, vt) :: r => (pre k (walk kt) ++ pre k (walk vt)) ++ go r
         end) kvs
  | VLeaf v => here v
  end.

(* pathError.Error(): "a::b::c: msg", or "msg" at the root *)
Fixpoint join_path (p : path) : string :=
  match p with
  | [] => EmptyString
  | [s] => s
  | s :: r => String.append s (String.append "::" (join_path r))
  end.

Definition render (pe : path * string) : string :=
  match fst pe with
  | [] => snd pe
  | p => String.append (join_path p) (String.append ": " (snd pe))
  end.

(* xconfmap.Validate: errors.Join of everything the walk found; nil iff nothing was found *)
Definition validate_ok {E} (t : vtree E) : bool :=
  match walk t with [] => true | _ => false end.

(* =====================================================================================
   Part 2 — reference, ambiguity and pipeline-shape rules.                                *)

Inductive verr : Type :=
| EUser (msg : string)                      (* a component config's own Validate error *)
(* otelcol.Config.Validate *)
| EEmpty | ENoReceivers | ENoExporters
| EAmbigExp (cid : string) | EAmbigRecv (cid : string)
| EExtRef (ref : string)
| ERecvRef (pid ref : string) | EProcRef (pid ref : string) | EExpRef (pid ref : string)
(* pipelines.Config.Validate *)
| ENoPipelines | EProfilesGate (pid : string) | EUnknownSignal (pid sig : string)
(* pipelines.PipelineConfig.Validate *)
| EPipeNoRecv | EPipeNoExp | EDupProc (ref : string)
(* telemetry.Config.Validate *)
| ETelNoReaders | ETelViews.

Record pipe : Type := mkPipe {
  pp_id : string;            (* pipeline.ID.String() *)
  pp_sig : string;           (* pipeline.ID.Signal().String() *)
  pp_recv : list string;     (* component.ID.String() of each reference, in order *)
  pp_proc : list string;
  pp_exp : list string }.

(* a component section: id -> config; [None] = the map holds a nil component.Config *)
Definition section := list (string * option (vtree verr)).

Record topcfg : Type := mkCfg {
  c_recv : section; c_exp : section; c_proc : section; c_conn : section; c_ext : section;
  c_svc_ext : list string;
  c_pipes : list pipe;
  c_tel_level : Z;           (* configtelemetry.Level: -1 none, 0 basic, 1 normal, 2 detailed *)
  c_tel_readers : nat;       (* len(Metrics.Readers) *)
  c_tel_views : bool }.      (* Metrics.Views != nil *)

(* feature gates service.AllowNoPipelines, service.profilesSupport *)
Record gates : Type := mkGates { g_nopipe : bool; g_profiles : bool }.

Definition keys (s : section) : list string := map fst s.
(* _, ok := m[id] *)
Definition has (k : string) (s : section) : bool := str_mem k (keys s).
(* m[id] != nil  (used for extensions and processors) *)
Definition has_nonnil (k : string) (s : section) : bool :=
  existsb (fun e => String.eqb k (fst e) && match snd e with Some _ => true | None => false end) s.

Fixpoint first_some {A B} (f : A -> option B) (l : list A) : option B :=
  match l with
  | [] => None
  | x :: r => match f x with Some b => Some b | None => first_some f r end
  end.

Fixpoint filter_some {A B} (f : A -> option B) (l : list A) : list B :=
  match l with
  | [] => []
  | x :: r => match f x with Some b => b :: filter_some f r | None => filter_some f r end
  end.

Definition is_nil {A} (l : list A) : bool := match l with [] => true | _ => false end.

(* body of `for connID := range cfg.Connectors` *)
Definition conn_err (c : topcfg) (cid : string) : option verr :=
  if has cid c.(c_exp) then Some (EAmbigExp cid)
  else if has cid c.(c_recv) then Some (EAmbigRecv cid)
  else None.

Definition ext_err (c : topcfg) (ref : string) : option verr :=
  if has_nonnil ref c.(c_ext) then None else Some (EExtRef ref).

(* body of `for pipelineID, pipeline := range cfg.Service.Pipelines` *)
Definition pipe_ref_err (c : topcfg) (p : pipe) : option verr :=
  match first_some (fun r => if has r c.(c_recv) || has r c.(c_conn) then None
                             else Some (ERecvRef p.(pp_id) r)) p.(pp_recv) with
  | Some e => Some e
  | None =>
    match first_some (fun r => if has_nonnil r c.(c_proc) then None
                               else Some (EProcRef p.(pp_id) r)) p.(pp_proc) with
    | Some e => Some e
    | None => first_some (fun r => if has r c.(c_exp) || has r c.(c_conn) then None
                                   else Some (EExpRef p.(pp_id) r)) p.(pp_exp)
    end
  end.

(* otelcol.Config.Validate returns the FIRST error it meets; two of its loops range over Go maps
   (connectors, pipelines), whose order is unspecified.  [cfg_candidates] is the set of errors
   it can return: the implementation returns nil iff the set is empty, else one member. *)
Definition cfg_candidates (g : gates) (c : topcfg) : list verr :=
  if is_nil c.(c_recv) && is_nil c.(c_exp) && is_nil c.(c_proc) && is_nil c.(c_conn) && is_nil c.(c_ext)
  then [EEmpty]
  else if negb g.(g_nopipe) && is_nil c.(c_recv) then [ENoReceivers]
  else if negb g.(g_nopipe) && is_nil c.(c_exp) then [ENoExporters]
  else match filter_some (conn_err c) (keys c.(c_conn)) with
       | (_ :: _) as l => l
       | [] => match first_some (ext_err c) c.(c_svc_ext) with
               | Some e => [e]
               | None => filter_some (pipe_ref_err c) c.(c_pipes)
               end
       end.

(* the deterministic reading: first candidate in the listed (sorted) order *)
Definition cfg_validate (g : gates) (c : topcfg) : option verr := hd_error (cfg_candidates g c).

Definition signal_err (g : gates) (p : pipe) : option verr :=
  if String.eqb p.(pp_sig) "traces" || String.eqb p.(pp_sig) "metrics" || String.eqb p.(pp_sig) "logs" then None
  else if String.eqb p.(pp_sig) "profiles" then
         (if g.(g_profiles) then None else Some (EProfilesGate p.(pp_id)))
  else Some (EUnknownSignal p.(pp_id) p.(pp_sig)).

(* pipelines.Config.Validate (ranges over a Go map as well) *)
Definition pipes_candidates (g : gates) (c : topcfg) : list verr :=
  if negb g.(g_nopipe) && is_nil c.(c_pipes) then [ENoPipelines]
  else filter_some (signal_err g) c.(c_pipes).

Fixpoint first_dup (seen : list string) (l : list string) : option string :=
  match l with
  | [] => None
  | x :: r => if str_mem x seen then Some x else first_dup (x :: seen) r
  end.

(* pipelines.PipelineConfig.Validate *)
Definition pipe_shape_err (p : pipe) : option verr :=
  if is_nil p.(pp_recv) then Some EPipeNoRecv
  else if is_nil p.(pp_exp) then Some EPipeNoExp
  else option_map EDupProc (first_dup [] p.(pp_proc)).

(* telemetry.Config.Validate *)
Definition tel_err (c : topcfg) : option verr :=
  if negb (Z.eqb c.(c_tel_level) (-1)) && Nat.eqb c.(c_tel_readers) 0 then Some ETelNoReaders
  else if c.(c_tel_views) && negb (Z.eqb c.(c_tel_level) 2) then Some ETelViews
  else None.

(* The value tree xconfmap.Validate(cfg *otelcol.Config) walks.  component.ID / pipeline.ID are
   structs with unexported fields only and no Validate.  The sub-tree of service::telemetry
   below its own Validate is foreign (otelconf types) and carries no validators. *)
Definition id_node : vtree verr := VStruct None [(false, "typeVal"%string, VLeaf None); (false, "nameVal"%string, VLeaf None)].

Definition section_tree (s : section) : vtree verr :=
  VMap None (map (fun e => (fst e, id_node,
                            VPtr (match snd e with Some t => t | None => VInvalid end))) s).

Definition ids_tree (l : list string) : vtree verr := VSeq None (map (fun _ => id_node) l).

Definition pipe_tree (p : pipe) : vtree verr :=
  VPtr (VStruct (pipe_shape_err p)
          [(true, "receivers"%string, ids_tree p.(pp_recv));
           (true, "processors"%string, ids_tree p.(pp_proc));
           (true, "exporters"%string, ids_tree p.(pp_exp))]).

Definition tree_of (root pipes_v : option verr) (c : topcfg) : vtree verr :=
  VPtr (VStruct root
    [(true, "receivers"%string, section_tree c.(c_recv));
     (true, "exporters"%string, section_tree c.(c_exp));
     (true, "processors"%string, section_tree c.(c_proc));
     (true, "connectors"%string, section_tree c.(c_conn));
     (true, "extensions"%string, section_tree c.(c_ext));
     (true, "service"%string, VStruct None
        [(true, "telemetry"%string, VStruct (tel_err c) []);
         (true, "extensions"%string, ids_tree c.(c_svc_ext));
         (true, "pipelines"%string,
            VMap pipes_v (map (fun p => (p.(pp_id), id_node, pipe_tree p)) c.(c_pipes)))])]).

(* [r] is a possible return value of a first-error-over-a-map function with candidate set [cs] *)
Definition valid_pick (cs : list verr) (r : option verr) : Prop :=
  match r with None => cs = [] | Some e => In e cs end.

(* every possible result of xconfmap.Validate on the configuration *)
Definition outcome (g : gates) (c : topcfg) (errs : list (path * verr)) : Prop :=
  exists r p, valid_pick (cfg_candidates g c) r /\ valid_pick (pipes_candidates g c) p /\
              errs = walk (tree_of r p c).

(* the deterministic reading (first candidate in listed order) *)
Definition full_validate (g : gates) (c : topcfg) : list (path * verr) :=
  walk (tree_of (cfg_validate g c) (hd_error (pipes_candidates g c)) c).
