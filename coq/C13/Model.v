(* C13/Model.v — executable model of configuration validation and strict decoding
   (opentelemetry-collector, pinned tree).  Gallina only, no proofs.

   Part 1  walk          confmap/xconfmap/config.go   validate / callValidateIfPossible / pathError
   Part 2  cfg_*         otelcol/config.go Config.Validate, service/pipelines/config.go
                         Config.Validate + PipelineConfig.Validate, service/telemetry/config.go
                         Config.Validate, and the tree xconfmap.Validate walks for *otelcol.Config
   Part 3  decode keys   confmap/confmap.go decodeConfig as configured (ErrorUnused, case-sensitive
                         names, squash, remain), i.e. which key paths a type descriptor accepts.   *)
From Verif Require Import Common.Base.
From Coq Require Import String Ascii DecimalString.

Definition path := list string.

(* strconv.Itoa on a non-negative index *)
Definition itoa (n : nat) : string := NilEmpty.string_of_uint (Nat.to_uint n).

Definition str_mem (s : string) (l : list string) : bool := existsb (String.eqb s) l.

(* =====================================================================================
   Part 1 — the validation walk.

   A [vtree] is the shape of a Go value as [validate]'s [switch v.Kind()] sees it.  Every node
   that is not a pointer/interface carries the verdict of [callValidateIfPossible] on it:
   [None] = the type has no Validate (neither on T nor on *T) or Validate returned nil,
   [Some e] = Validate returned error e.
     VInvalid          reflect.Invalid   (Elem of a nil pointer / nil interface)
     VPtr t            reflect.Ptr, reflect.Interface:  return validate(v.Elem())
     VStruct v fs      reflect.Struct; a field is (exported?, fieldName(field), value)
     VSeq v es         reflect.Slice, reflect.Array
     VMap v kvs        reflect.Map; an entry is (stringifyMapKey(key), key, value)
     VLeaf v           default: every other kind                                           *)
Inductive vtree (E : Type) : Type :=
| VInvalid
| VPtr (t : vtree E)
| VStruct (v : option E) (fs : list (bool * string * vtree E))
| VSeq (v : option E) (es : list (vtree E))
| VMap (v : option E) (kvs : list (string * vtree E * vtree E))
| VLeaf (v : option E).
Arguments VInvalid {E}.
Arguments VPtr {E} t.
Arguments VStruct {E} v fs.
Arguments VSeq {E} v es.
Arguments VMap {E} v kvs.
Arguments VLeaf {E} v.

(* errs = append(errs, pathError{err: err.err, path: append(err.path, seg)}) for every sub-error;
   Go stores the path innermost-first and prints it reversed; the model keeps it root-first. *)
Definition pre {E} (seg : string) (l : list (path * E)) : list (path * E) :=
  map (fun pe => (seg :: fst pe, snd pe)) l.

Definition here {E} (v : option E) : list (path * E) :=
  match v with Some e => [([], e)] | None => [] end.

Fixpoint walk {E} (t : vtree E) : list (path * E) :=
  match t with
  | VInvalid => []
  | VPtr t' => walk t'
  | VStruct v fs =>
      here v ++
      (fix go (fs : list (bool * string * vtree E)) : list (path * E) :=
         match fs with
         | [] => []
         | (ex, name, sub) :: r => (if ex then pre name (walk sub) else []) ++ go r
         end) fs
  | VSeq v es =>
      here v ++
      (fix go (i : nat) (es : list (vtree E)) : list (path * E) :=
         match es with
         | [] => []
         | e :: r => pre (itoa i) (walk e) ++ go (S i) r
         end) 0 es
  | VMap v kvs =>
      here v ++
      (fix go (kvs : list (string * vtree E * vtree E)) : list (path * E) :=
         match kvs with
         | [] => []
         | (k, kt, vt) :: r => (pre k (walk kt) ++ pre k (walk vt)) ++ go r
         end) kvs
  | VLeaf v => here v
  end.

(* pathError.Error(): "a::b::c: msg", or "msg" at the root *)
Fixpoint join_path (p : path) : string :=
  match p with
  | [] => EmptyString
  | [s] => s
  | s :: r => String.append s (String.append "::" (join_path r))
  end.

Definition render (pe : path * string) : string :=
  match fst pe with
  | [] => snd pe
  | p => String.append (join_path p) (String.append ": " (snd pe))
  end.

(* xconfmap.Validate: errors.Join of everything the walk found; nil iff nothing was found *)
Definition validate_ok {E} (t : vtree E) : bool :=
  match walk t with [] => true | _ => false end.

(* =====================================================================================
   Part 2 — reference, ambiguity and pipeline-shape rules.                                *)

Inductive verr : Type :=
| EUser (msg : string)                      (* a component config's own Validate error *)
(* otelcol.Config.Validate *)
| EEmpty | ENoReceivers | ENoExporters
| EAmbigExp (cid : string) | EAmbigRecv (cid : string)
| EExtRef (ref : string)
| ERecvRef (pid ref : string) | EProcRef (pid ref : string) | EExpRef (pid ref : string)
(* pipelines.Config.Validate *)
| ENoPipelines | EProfilesGate (pid : string) | EUnknownSignal (pid sig : string)
(* pipelines.PipelineConfig.Validate *)
| EPipeNoRecv | EPipeNoExp | EDupProc (ref : string)
(* telemetry.Config.Validate *)
| ETelNoReaders | ETelViews.

Record pipe : Type := mkPipe {
  pp_id : string;            (* pipeline.ID.String() *)
  pp_sig : string;           (* pipeline.ID.Signal().String() *)
  pp_recv : list string;     (* component.ID.String() of each reference, in order *)
  pp_proc : list string;
  pp_exp : list string }.

(* a component section: id -> config; [None] = the map holds a nil component.Config *)
Definition section := list (string * option (vtree verr)).

Record topcfg : Type := mkCfg {
  c_recv : section; c_exp : section; c_proc : section; c_conn : section; c_ext : section;
  c_svc_ext : list string;
  c_pipes : list pipe;
  c_tel_level : Z;           (* configtelemetry.Level: -1 none, 0 basic, 1 normal, 2 detailed *)
  c_tel_readers : nat;       (* len(Metrics.Readers) *)
  c_tel_views : bool }.      (* Metrics.Views != nil *)

(* feature gates service.AllowNoPipelines, service.profilesSupport *)
Record gates : Type := mkGates { g_nopipe : bool; g_profiles : bool }.

Definition keys (s : section) : list string := map fst s.
(* _, ok := m[id] *)
Definition has (k : string) (s : section) : bool := str_mem k (keys s).
(* m[id] != nil  (used for extensions and processors) *)
Definition has_nonnil (k : string) (s : section) : bool :=
  existsb (fun e => String.eqb k (fst e) && match snd e with Some _ => true | None => false end) s.

Fixpoint first_some {A B} (f : A -> option B) (l : list A) : option B :=
  match l with
  | [] => None
  | x :: r => match f x with Some b => Some b | None => first_some f r end
  end.

Fixpoint filter_some {A B} (f : A -> option B) (l : list A) : list B :=
  match l with
  | [] => []
  | x :: r => match f x with Some b => b :: filter_some f r | None => filter_some f r end
  end.

Definition is_nil {A} (l : list A) : bool := match l with [] => true | _ => false end.

(* body of `for connID := range cfg.Connectors` *)
Definition conn_err (c : topcfg) (cid : string) : option verr :=
  if has cid c.(c_exp) then Some (EAmbigExp cid)
  else if has cid c.(c_recv) then Some (EAmbigRecv cid)
  else None.

Definition ext_err (c : topcfg) (ref : string) : option verr :=
  if has_nonnil ref c.(c_ext) then None else Some (EExtRef ref).

(* body of `for pipelineID, pipeline := range cfg.Service.Pipelines` *)
Definition pipe_ref_err (c : topcfg) (p : pipe) : option verr :=
  match first_some (fun r => if has r c.(c_recv) || has r c.(c_conn) then None
                             else Some (ERecvRef p.(pp_id) r)) p.(pp_recv) with
  | Some e => Some e
  | None =>
    match first_some (fun r => if has_nonnil r c.(c_proc) then None
                               else Some (EProcRef p.(pp_id) r)) p.(pp_proc) with
    | Some e => Some e
    | None => first_some (fun r => if has r c.(c_exp) || has r c.(c_conn) then None
                                   else Some (EExpRef p.(pp_id) r)) p.(pp_exp)
    end
  end.

(* otelcol.Config.Validate returns the FIRST error it meets; two of its loops range over Go maps
   (connectors, pipelines), whose order is unspecified.  [cfg_candidates] is the set of errors
   it can return: the implementation returns nil iff the set is empty, else one member. *)
Definition cfg_candidates (g : gates) (c : topcfg) : list verr :=
  if is_nil c.(c_recv) && is_nil c.(c_exp) && is_nil c.(c_proc) && is_nil c.(c_conn) && is_nil c.(c_ext)
  then [EEmpty]
  else if negb g.(g_nopipe) && is_nil c.(c_recv) then [ENoReceivers]
  else if negb g.(g_nopipe) && is_nil c.(c_exp) then [ENoExporters]
  else match filter_some (conn_err c) (keys c.(c_conn)) with
       | (_ :: _) as l => l
       | [] => match first_some (ext_err c) c.(c_svc_ext) with
               | Some e => [e]
               | None => filter_some (pipe_ref_err c) c.(c_pipes)
               end
       end.

(* the deterministic reading: first candidate in the listed (sorted) order *)
Definition cfg_validate (g : gates) (c : topcfg) : option verr := hd_error (cfg_candidates g c).

Definition signal_err (g : gates) (p : pipe) : option verr :=
  if String.eqb p.(pp_sig) "traces" || String.eqb p.(pp_sig) "metrics" || String.eqb p.(pp_sig) "logs" then None
  else if String.eqb p.(pp_sig) "profiles" then
         (if g.(g_profiles) then None else Some (EProfilesGate p.(pp_id)))
  else Some (EUnknownSignal p.(pp_id) p.(pp_sig)).

(* pipelines.Config.Validate (ranges over a Go map as well) *)
Definition pipes_candidates (g : gates) (c : topcfg) : list verr :=
  if negb g.(g_nopipe) && is_nil c.(c_pipes) then [ENoPipelines]
  else filter_some (signal_err g) c.(c_pipes).

Fixpoint first_dup (seen : list string) (l : list string) : option string :=
  match l with
  | [] => None
  | x :: r => if str_mem x seen then Some x else first_dup (x :: seen) r
  end.

(* pipelines.PipelineConfig.Validate *)
Definition pipe_shape_err (p : pipe) : option verr :=
  if is_nil p.(pp_recv) then Some EPipeNoRecv
  else if is_nil p.(pp_exp) then Some EPipeNoExp
  else option_map EDupProc (first_dup [] p.(pp_proc)).

(* telemetry.Config.Validate *)
Definition tel_err (c : topcfg) : option verr :=
  if negb (Z.eqb c.(c_tel_level) (-1)) && Nat.eqb c.(c_tel_readers) 0 then Some ETelNoReaders
  else if c.(c_tel_views) && negb (Z.eqb c.(c_tel_level) 2) then Some ETelViews
  else None.

(* The value tree xconfmap.Validate(cfg *otelcol.Config) walks.  component.ID / pipeline.ID are
   structs with unexported fields only and no Validate.  The sub-tree of service::telemetry
   below its own Validate is foreign (otelconf types) and carries no validators. *)
Definition id_node : vtree verr := VStruct None [(false, "typeVal"%string, VLeaf None); (false, "nameVal"%string, VLeaf None)].

Definition section_tree (s : section) : vtree verr :=
  VMap None (map (fun e => (fst e, id_node,
                            VPtr (match snd e with Some t => t | None => VInvalid end))) s).

Definition ids_tree (l : list string) : vtree verr := VSeq None (map (fun _ => id_node) l).

Definition pipe_tree (p : pipe) : vtree verr :=
  VPtr (VStruct (pipe_shape_err p)
          [(true, "receivers"%string, ids_tree p.(pp_recv));
           (true, "processors"%string, ids_tree p.(pp_proc));
           (true, "exporters"%string, ids_tree p.(pp_exp))]).

Definition tree_of (root pipes_v : option verr) (c : topcfg) : vtree verr :=
  VPtr (VStruct root
    [(true, "receivers"%string, section_tree c.(c_recv));
     (true, "exporters"%string, section_tree c.(c_exp));
     (true, "processors"%string, section_tree c.(c_proc));
     (true, "connectors"%string, section_tree c.(c_conn));
     (true, "extensions"%string, section_tree c.(c_ext));
     (true, "service"%string, VStruct None
        [(true, "telemetry"%string, VStruct (tel_err c) []);
         (true, "extensions"%string, ids_tree c.(c_svc_ext));
         (true, "pipelines"%string,
            VMap pipes_v (map (fun p => (p.(pp_id), id_node, pipe_tree p)) c.(c_pipes)))])]).

(* [r] is a possible return value of a first-error-over-a-map function with candidate set [cs] *)
Definition valid_pick (cs : list verr) (r : option verr) : Prop :=
  match r with None => cs = [] | Some e => In e cs end.

(* every possible result of xconfmap.Validate on the configuration *)
Definition outcome (g : gates) (c : topcfg) (errs : list (path * verr)) : Prop :=
  exists r p, valid_pick (cfg_candidates g c) r /\ valid_pick (pipes_candidates g c) p /\
              errs = walk (tree_of r p c).

(* the deterministic reading (first candidate in listed order) *)
Definition full_validate (g : gates) (c : topcfg) : list (path * verr) :=
  walk (tree_of (cfg_validate g c) (hd_error (pipes_candidates g c)) c).

(* =====================================================================================
   Part 3 — strict decoding: which keys a type descriptor accepts.

   confmap.decodeConfig configures mapstructure with ErrorUnused = true, TagName "mapstructure",
   MatchName = exact string equality and no weak typing.  mapstructure.decodeStructFromMap then
   works level by level: the fields of the struct — with the fields of every `,squash` member
   spliced into the same level, recursively — are matched against the keys of the input map by
   exact name; every key matched by no field is "unused" and, unless the struct has a `,remain`
   field, reported as  '<path>' has invalid keys: k1, k2 .  The value under a matched key is
   decoded with the field's type: pointers are allocated, slices decoded element-wise (path
   segment [i]), maps entry-wise (path segment [key]).  A struct with a custom Unmarshal method
   (all built-in ones call conf.Unmarshal(cfg) strictly first) accepts the same keys; only the
   way the path is printed restarts there, which the harness undoes by concatenating the
   "error decoding '<name>'" frames.

     TLeaf        scalar kinds, text-unmarshaled types, interface values, foreign sub-trees:
                  consumes its value whole, no keys below it are checked
     TPtr t       pointer (allocated when the key is written)
     TSlice t     slice / array
     TMap t       map with string-like keys
     TStruct rem fs   struct; rem = it has a `,remain` field; a field is (key, squash?, type)   *)
Inductive tdesc : Type :=
| TLeaf
| TPtr (t : tdesc)
| TSlice (t : tdesc)
| TMap (t : tdesc)
| TStruct (rem : bool) (fs : list (string * bool * tdesc)).

(* configuration values as the YAML provider yields them *)
Inductive cv : Type :=
| CNull
| CScalar (s : string)
| CList (l : list cv)
| CMap (kvs : list (string * cv)).

(* the field list of one struct level after squash flattening (fields of `,squash` members are
   spliced in, recursively); [] for anything that is not a struct *)
Fixpoint flat_of (t : tdesc) : list (string * tdesc) :=
  match t with
  | TStruct _ fs =>
      (fix go (fs : list (string * bool * tdesc)) : list (string * tdesc) :=
         match fs with
         | [] => []
         | (k, sq, t') :: r => (if sq then flat_of t' else [(k, t')]) ++ go r
         end) fs
  | _ => []
  end.

(* the level has a `,remain` field (its own or a squashed member's): every key is accepted *)
Fixpoint remain_of (t : tdesc) : bool :=
  match t with
  | TStruct rem fs =>
      (fix go (fs : list (string * bool * tdesc)) : bool :=
         match fs with
         | [] => rem
         | (_, sq, t') :: r => (if sq then remain_of t' else false) || go r
         end) fs
  | _ => false
  end.

Fixpoint lookup {A} (k : string) (l : list (string * A)) : option A :=
  match l with
  | [] => None
  | (k', a) :: r => if String.eqb k k' then Some a else lookup k r
  end.

Fixpoint strip (t : tdesc) : tdesc := match t with TPtr t' => strip t' | _ => t end.

(* what one written key of a struct level contributes *)
Definition key_unused (rm : bool) (k : string) (sub : option (list (path * string))) : list (path * string) :=
  match sub with
  | Some l => pre k l
  | None => if rm then [] else [([], k)]
  end.

(* unused t v: every (path of the struct level, key) that ErrorUnused reports when the value [v]
   is decoded into a target of type [t].  Values that do not fit the type (a scalar where a
   struct is expected, ...) fail with a type error instead, which is not modelled: [] . *)
Fixpoint unused (t : tdesc) (v : cv) {struct v} : list (path * string) :=
  match strip t, v with
  | TSlice t', CList l =>
      (fix go (i : nat) (l : list cv) : list (path * string) :=
         match l with
         | [] => []
         | x :: r => pre (itoa i) (unused t' x) ++ go (S i) r
         end) 0 l
  | TMap t', CMap kvs =>
      (fix go (kvs : list (string * cv)) : list (path * string) :=
         match kvs with
         | [] => []
         | (k, x) :: r => pre k (unused t' x) ++ go r
         end) kvs
  | TStruct rem fs, CMap kvs =>
      (fix go (kvs : list (string * cv)) : list (path * string) :=
         match kvs with
         | [] => []
         | (k, x) :: r =>
             key_unused (remain_of (TStruct rem fs)) k
               (option_map (fun t' => unused t' x) (lookup k (flat_of (TStruct rem fs)))) ++ go r
         end) kvs
  | _, _ => []
  end.

(* decodeConfig succeeds as far as ErrorUnused is concerned *)
Definition decode_strict_ok (t : tdesc) (v : cv) : bool :=
  match unused t v with [] => true | _ => false end.

(* side condition checked on every dumped descriptor: within one flattened struct level no key
   is offered twice (otherwise which field receives the value depends on declaration order) *)
Fixpoint nodup_str (l : list string) : bool :=
  match l with
  | [] => true
  | x :: r => negb (str_mem x r) && nodup_str r
  end.

Fixpoint squash_keys_disjoint (t : tdesc) : bool :=
  match t with
  | TLeaf => true
  | TPtr t' | TSlice t' | TMap t' => squash_keys_disjoint t'
  | TStruct rem fs =>
      nodup_str (map fst (flat_of (TStruct rem fs))) &&
      (fix go (fs : list (string * bool * tdesc)) : bool :=
         match fs with
         | [] => true
         | (_, _, t') :: r => squash_keys_disjoint t' && go r
         end) fs
  end.

(* number of struct levels (= insertion points for an unknown key) of a descriptor *)
Fixpoint struct_levels (t : tdesc) : nat :=
  match t with
  | TLeaf => 0
  | TPtr t' | TSlice t' | TMap t' => struct_levels t'
  | TStruct _ fs =>
      1 + (fix go (fs : list (string * bool * tdesc)) : nat :=
             match fs with
             | [] => 0
             | (_, sq, t') :: r => (if sq then struct_levels t' - 1 else struct_levels t') + go r
             end) fs
  end.

(* =====================================================================================
   Part 4 — faithfulness: factory defaults overlaid by exactly the written keys.

   configunmarshaler.Configs.Unmarshal creates factory.CreateDefaultConfig() and decodes the
   component's section INTO it; mapstructure only touches the fields whose key is present in the
   input map (a null value leaves the field alone) and recurses into nested structs the same way.
   [tv] is the typed configuration restricted to what the property observes: plain leaves (bool,
   integers, floats, strings, durations, rendered canonically) under struct nesting, flattened
   through `,squash`, through non-nil pointers.  Slices, maps, text-unmarshaled and foreign values
   are outside this part (replaced whole by mapstructure; covered by the harness oracle only). *)
Inductive tv : Type :=
| VSc (s : string)
| VRec (fs : list (string * tv)).

Definition cv_lookup (k : string) (m : option cv) : option cv :=
  match m with
  | Some (CMap kvs) => lookup k kvs
  | _ => None
  end.

Fixpoint overlay (d : tv) (m : option cv) {struct d} : tv :=
  match d with
  | VSc s0 => match m with Some (CScalar s) => VSc s | _ => VSc s0 end
  | VRec fs =>
      VRec ((fix go (fs : list (string * tv)) : list (string * tv) :=
               match fs with
               | [] => []
               | (k, dv) :: r => (k, overlay dv (cv_lookup k m)) :: go r
               end) fs)
  end.

Fixpoint tv_get (p : path) (v : tv) : option tv :=
  match p with
  | [] => Some v
  | k :: r => match v with VRec fs => opt_bind (lookup k fs) (tv_get r) | VSc _ => None end
  end.

Fixpoint cv_get (p : path) (m : option cv) : option cv :=
  match p with
  | [] => m
  | k :: r => cv_get r (cv_lookup k m)
  end.

(* The component-specific Unmarshal methods that do more than the strict decode (read from the
   code; see Instances.known_custom), as explicit special rules applied after the overlay:
     otlpreceiver.Config     a protocol section that is not written becomes nil
     queuebatch.Config       writing the deprecated `blocking` sets `block_on_overflow` too, but only
                             when `block_on_overflow` itself is not written (fix a5b2af88a; before
                             it the alias also overwrote a written sibling, see Witness.v)
   (otlpexporter.Config's `batcher` switch and the URL-path sanitising of the OTLP receiver are
   kept out of the generated configurations and are not modelled.) *)
Inductive crule : Type :=
| RDropUnset (at_ : path) (k : string)
| RCopyIfSet (at_ : path) (from to : string).

Fixpoint tv_update (p : path) (f : list (string * tv) -> list (string * tv)) (v : tv) : tv :=
  match v with
  | VSc s => VSc s
  | VRec fs =>
      match p with
      | [] => VRec (f fs)
      | k :: r => VRec (map (fun e => if String.eqb (fst e) k then (fst e, tv_update r f (snd e)) else e) fs)
      end
  end.

Definition is_set (p : path) (k : string) (m : option cv) : bool :=
  match cv_lookup k (cv_get p m) with Some _ => true | None => false end.

Definition apply_rule (m : option cv) (v : tv) (r : crule) : tv :=
  match r with
  | RDropUnset p k =>
      if is_set p k m then v
      else tv_update p (filter (fun e => negb (String.eqb (fst e) k))) v
  | RCopyIfSet p from to =>
      if is_set p from m && negb (is_set p to m) then
        tv_update p (fun fs => match lookup from fs with
                               | Some x => map (fun e => if String.eqb (fst e) to then (to, x) else e) fs
                               | None => fs
                               end) v
      else v
  end.

Definition rules_of (name : string) : list crule :=
  if String.eqb name "receivers/otlp" then [RDropUnset ["protocols"%string] "grpc"; RDropUnset ["protocols"%string] "http"]
  else if String.eqb name "exporters/otlp" || String.eqb name "exporters/otlphttp"
       then [RCopyIfSet ["sending_queue"%string] "blocking" "block_on_overflow"]
  else [].

Definition decode_model (name : string) (d : tv) (m : cv) : tv :=
  fold_left (apply_rule (Some m)) (rules_of name) (overlay d (Some m)).

(* =====================================================================================
   Part 5 — the effective configuration: confmap.Conf.Marshal (confmap/internal/mapstructure/
   encoder.go) on the typed configuration, as handed to ConfigWatcher extensions.

   The encoder walks the typed value by kind: a struct becomes a map keyed by the mapstructure
   names (squash spliced in), a map a map, a slice a list, and EVERY value — also map values and
   slice elements — first goes through the encode hooks; TextMarshalerHookFunc turns any
   encoding.TextMarshaler into its text, which for configopaque.String is the constant
   "[REDACTED]".  [ev] is the typed configuration restricted to what the property observes:
   plain scalars, opaque scalars, string maps / string lists (plain or opaque), struct nesting.
   (omitempty, non-string leaves' rendering and Marshaler hooks are outside this part.) *)
Inductive ev : Type :=
| EPlain (s : string)
| EOpaque (s : string)
| EStrMap (opaque : bool) (kvs : list (string * string))
| EStrList (opaque : bool) (l : list string)
| ERec (fs : list (string * ev)).

Definition redacted : string := "[REDACTED]".

Definition enc_str (opaque : bool) (s : string) : cv := CScalar (if opaque then redacted else s).

Fixpoint encode (v : ev) : cv :=
  match v with
  | EPlain s => CScalar s
  | EOpaque _ => CScalar redacted
  | EStrMap o kvs => CMap (map (fun kv => (fst kv, enc_str o (snd kv))) kvs)
  | EStrList o l => CList (map (enc_str o) l)
  | ERec fs =>
      CMap ((fix go (fs : list (string * ev)) : list (string * cv) :=
               match fs with
               | [] => []
               | (k, x) :: r => (k, encode x) :: go r
               end) fs)
  end.

(* every scalar that occurs anywhere in a configuration value *)
Fixpoint cv_scalars (c : cv) : list string :=
  match c with
  | CNull => []
  | CScalar s => [s]
  | CList l => (fix go (l : list cv) : list string :=
                  match l with [] => [] | x :: r => cv_scalars x ++ go r end) l
  | CMap kvs => (fix go (kvs : list (string * cv)) : list string :=
                   match kvs with [] => [] | (_, x) :: r => cv_scalars x ++ go r end) kvs
  end.

(* the non-secret scalars of a typed configuration *)
Fixpoint ev_plains (v : ev) : list string :=
  match v with
  | EPlain s => [s]
  | EOpaque _ => []
  | EStrMap o kvs => if o then [] else map snd kvs
  | EStrList o l => if o then [] else l
  | ERec fs => (fix go (fs : list (string * ev)) : list string :=
                  match fs with [] => [] | (_, x) :: r => ev_plains x ++ go r end) fs
  end.

Fixpoint ev_get (p : path) (v : ev) : option ev :=
  match p with
  | [] => Some v
  | k :: r => match v with ERec fs => opt_bind (lookup k fs) (ev_get r) | _ => None end
  end.

(* =====================================================================================
   Part 6 — kinds: what happens to a written value whose kind does not fit its field.

   confmap.decodeConfig sets WeaklyTypedInput = false.  mapstructure then decodes by the kind of
   the TARGET (decodeBool / decodeString / decodeInt / decodeUint / decodeFloat / decodeSlice /
   decodeStruct), after the hook chain (of which StringToSliceHookFunc(",") and
   StringToTimeDurationHookFunc matter for the kinds covered here):
     bool    <- bool only
     string  <- string only
     int     <- int, uint, and float WITHOUT a fractional part (confmap's fractionToIntegerHookFunc,
                fix 91bc960c3, rejects a float with a fraction for every integer kind; before it
                mapstructure's int64(f) truncated it silently)
     uint    <- the same, negative values rejected
     float   <- int, uint, float
     duration (int64 + hook)  <- string through time.ParseDuration, otherwise as int (ns)
     []string <- list; a string is split on "," by the hook ("" gives the empty list)
     struct  <- map only ("expected a map, got ...")
   null leaves the field alone.  Everything else is the error
     '<key path>' expected type '<T>', got unconvertible type '<U>', value: '<v>' .            *)
Inductive lkind : Type := KBool | KInt | KUint | KFloat | KString | KDuration | KStrSlice | KStruct.

(* what the user wrote: a float is (integer part towards zero, has a non-zero fraction?) *)
Inductive wv : Type :=
| WNull | WBool (b : bool) | WInt (z : Z) | WFloat (whole : Z) (frac : bool) | WStr (s : string)
| WList | WMap.

Inductive dres : Type :=
| DErr                                (* rejected, error names the key *)
| DKeep                               (* field left alone *)
| DBool (b : bool)
| DNum (z : Z) (frac : bool)          (* numeric value: integer part, has a fraction? *)
| DStr (s : string)
| DList (l : list string)
| DOther.                             (* decoded structurally (list into slice, map into struct, duration text): other parts *)

(* strings.Split(s, ",") *)
Fixpoint split_comma_aux (s : string) (cur : string) : list string :=
  match s with
  | EmptyString => [cur]
  | String c r =>
      if Ascii.eqb c ","%char then cur :: split_comma_aux r EmptyString
      else split_comma_aux r (String.append cur (String c EmptyString))
  end.
Definition split_comma (s : string) : list string :=
  match s with EmptyString => [] | _ => split_comma_aux s EmptyString end.

Definition decode_num (unsigned : bool) (w : wv) : dres :=
  match w with
  | WInt z => if unsigned && (z <? 0)%Z then DErr else DNum z false
  | WFloat _ true => DErr                                                    (* fractionToIntegerHookFunc *)
  | WFloat z false => if unsigned && (z <? 0)%Z then DErr else DNum z false
  | _ => DErr
  end.

Definition decode_leaf (k : lkind) (w : wv) : dres :=
  match w with
  | WNull => DKeep
  | _ =>
    match k with
    | KBool => match w with WBool b => DBool b | _ => DErr end
    | KString => match w with WStr s => DStr s | _ => DErr end
    | KInt => decode_num false w
    | KUint => decode_num true w
    | KDuration => match w with WStr _ => DOther | _ => decode_num false w end
    | KFloat => match w with WInt z => DNum z false | WFloat z f => DNum z f | _ => DErr end
    | KStrSlice => match w with WStr s => DList (split_comma s) | WList => DOther | _ => DErr end
    | KStruct => match w with WMap => DOther | _ => DErr end
    end
  end.

(* =====================================================================================
   Part 7 — omitempty in the effective configuration and the round trip.

   encodeStruct skips a field when its tag says `omitempty` and reflect's IsZero holds for the
   value (a nested struct is zero when all its fields are).  [otv] is the typed configuration as
   in Part 4 (plain leaves under struct nesting, flattened through squash) with, per node, the
   omitempty flag of its field and, per leaf, whether the value is the zero value of its type.
   Decoding the encoding INTO the factory defaults is [overlay (o_strip defaults)]. *)
Inductive otv : Type :=
| OSc (omit zero : bool) (s : string)
| ORec (omit : bool) (fs : list (string * otv))
| ONil (omit : bool).     (* a nil pointer to a struct: encode returns nil, the key is written with null *)

(* the typed projection has no entry for a nil section *)
Fixpoint o_strip (v : otv) : tv :=
  match v with
  | OSc _ _ s => VSc s
  | ORec _ fs => VRec ((fix go (fs : list (string * otv)) : list (string * tv) :=
                          match fs with
                          | [] => []
                          | (k, x) :: r => match x with ONil _ => go r | _ => (k, o_strip x) :: go r end
                          end) fs)
  | ONil _ => VRec []
  end.

Fixpoint o_zero (v : otv) : bool :=
  match v with
  | OSc _ z _ => z
  | ORec _ fs => (fix go (fs : list (string * otv)) : bool :=
                    match fs with [] => true | (_, x) :: r => o_zero x && go r end) fs
  | ONil _ => true
  end.

Definition o_omit (v : otv) : bool := match v with OSc o _ _ => o | ORec o _ => o | ONil o => o end.

(* the field is left out of the effective configuration *)
Definition o_omitted (v : otv) : bool := o_omit v && o_zero v.

Fixpoint encode_o (v : otv) : cv :=
  match v with
  | OSc _ _ s => CScalar s
  | ONil _ => CNull
  | ORec _ fs =>
      CMap ((fix go (fs : list (string * otv)) : list (string * cv) :=
               match fs with
               | [] => []
               | (k, x) :: r => if o_omitted x then go r else (k, encode_o x) :: go r
               end) fs)
  end.

(* =====================================================================================
   Part 8 — instances: configunmarshaler.Configs.Unmarshal decodes a whole section
   (receivers:, exporters:, ...).  For every key `type[/name]` of the section it takes the
   factory of the type, creates the factory defaults and decodes THAT entry's own body
   (conf.Sub(id.String())) into them.  [sec] is the section as written, [d] the defaults of
   the component type (all instances here are of one type, [name] its schema entry). *)
Definition decode_section (name : string) (d : tv) (sec : list (string * cv)) : list (string * tv) :=
  map (fun e => (fst e, decode_model name d (snd e))) sec.

(* =====================================================================================
   Part 9 — handing the effective configuration to the ConfigWatcher extensions
   (service/extensions/extensions.go NotifyConfig): for each extension in start order that
   implements ConfigWatcher a FRESH clone confmap.NewFromStringMap(conf.ToStringMap()) is
   made and handed over; the extension owns it and may change it (Merge).  An extension is
   [None] (no ConfigWatcher) or [Some muts], the merges it performs on what it was handed. *)
Fixpoint cv_set (p : path) (x : cv) (c : cv) : cv :=
  match p with
  | [] => x
  | k :: r =>
      let kvs := match c with CMap kvs => kvs | _ => [] end in
      let old := match lookup k kvs with Some o => o | None => CNull end in
      CMap ((k, cv_set r x old) :: filter (fun e => negb (String.eqb (fst e) k)) kvs)
  end.

Definition apply_muts (muts : list (path * cv)) (c : cv) : cv :=
  fold_left (fun acc m => cv_set (fst m) (snd m) acc) muts c.

(* state: the collector's conf; output: what each watcher was handed (at the time of the call)
   and what it holds after its own merges *)
Fixpoint notify (conf : cv) (exts : list (option (list (path * cv)))) : list (cv * cv) * cv :=
  match exts with
  | [] => ([], conf)
  | None :: r => notify conf r
  | Some muts :: r =>
      let clone := conf in                       (* a fresh deep copy: same value, no sharing *)
      let '(rest, conf') := notify conf r in     (* the merges go to the clone, conf is untouched *)
      ((clone, apply_muts muts clone) :: rest, conf')
  end.

(* =====================================================================================
   Part 10 — the encoder, all shapes in one model (encoder.go encode / encodeStruct /
   encodeSlice / encodeMap / encodeHook with confmap.encoderConfig's hooks).
     XNil            nil pointer or nil interface: encode returns nil
     XPtr v          non-nil pointer or interface: encode(value.Elem()); for omitempty it is NOT zero,
                     even when it points to a zero value
     XLeaf z s       scalar, or a TextMarshaler that is not opaque (its text s); z = reflect IsZero
     XOpaque z s     configopaque-like TextMarshaler: the marker, whatever the secret s is
     XList n l       slice (n = it is nil): element-wise
     XArray l        array: encoded element by element like a slice (fix b32d82269; before it an array
                     fell into the default branch and its elements kept their Go types); elements
                     are (opaque?, zero?, text)
     XMap n kvs      map: keys must encode to strings (string kinds, TextMarshaler keys), anything
                     else makes the whole Marshal fail (errNonStringEncodedKey)
     XStruct fs      fields (name, omitempty?, value): skipped when omitempty and IsZero, or when
                     the name is "-".  (squash members are flattened by the harness as before) *)
Inductive xkey : Type := KStr (s : string) | KText (s : string) | KBad.

Inductive xv : Type :=
| XNil
| XPtr (v : xv)      (* a NON-nil pointer or interface: transparent for encode, but never IsZero *)
| XLeaf (zero : bool) (s : string)
| XOpaque (zero : bool) (s : string)
| XList (isnil : bool) (l : list xv)
| XArray (l : list (bool * bool * string))
| XMap (isnil : bool) (kvs : list (xkey * xv))
| XStruct (fs : list (string * bool * xv)).

Definition key_str (k : xkey) : string := match k with KStr s | KText s => s | KBad => "<non-string key>" end.
Definition key_bad (k : xkey) : bool := match k with KBad => true | _ => false end.

Fixpoint x_zero (v : xv) : bool :=
  match v with
  | XNil => true
  | XPtr _ => false
  | XLeaf z _ | XOpaque z _ => z
  | XList n _ | XMap n _ => n
  | XArray l => forallb (fun e : bool * bool * string => snd (fst e)) l
  | XStruct fs => (fix go (fs : list (string * bool * xv)) : bool :=
                     match fs with [] => true | (_, _, x) :: r => x_zero x && go r end) fs
  end.

Definition x_skipped (name : string) (omit : bool) (x : xv) : bool :=
  String.eqb name "-" || (omit && x_zero x).

Fixpoint encode_x (v : xv) : cv :=
  match v with
  | XNil => CNull
  | XPtr v' => encode_x v'
  | XLeaf _ s => CScalar s
  | XOpaque _ _ => CScalar redacted
  | XList _ l => CList ((fix go (l : list xv) : list cv :=
                           match l with [] => [] | x :: r => encode_x x :: go r end) l)
  | XArray l => CList (map (fun e : bool * bool * string => CScalar (if fst (fst e) then redacted else snd e)) l)
  | XMap _ kvs => CMap ((fix go (kvs : list (xkey * xv)) : list (string * cv) :=
                           match kvs with [] => [] | (k, x) :: r => (key_str k, encode_x x) :: go r end) kvs)
  | XStruct fs => CMap ((fix go (fs : list (string * bool * xv)) : list (string * cv) :=
                           match fs with
                           | [] => []
                           | (n, o, x) :: r => if x_skipped n o x then go r else (n, encode_x x) :: go r
                           end) fs)
  end.

(* Marshal fails: a key that does not encode to a string is met while encoding (not inside a
   skipped field) *)
Fixpoint x_bad (v : xv) : bool :=
  match v with
  | XNil | XLeaf _ _ | XOpaque _ _ | XArray _ => false
  | XPtr v' => x_bad v'
  | XList _ l => (fix go (l : list xv) : bool := match l with [] => false | x :: r => x_bad x || go r end) l
  | XMap _ kvs => (fix go (kvs : list (xkey * xv)) : bool :=
                     match kvs with [] => false | (k, x) :: r => key_bad k || x_bad x || go r end) kvs
  | XStruct fs => (fix go (fs : list (string * bool * xv)) : bool :=
                     match fs with
                     | [] => false
                     | (n, o, x) :: r => (if x_skipped n o x then false else x_bad x) || go r
                     end) fs
  end.

Definition marshal_x (v : xv) : option cv := if x_bad v then None else Some (encode_x v).

(* the non-secret scalars of a value *)
Fixpoint x_plains (v : xv) : list string :=
  match v with
  | XNil | XOpaque _ _ => []
  | XPtr v' => x_plains v'
  | XLeaf _ s => [s]
  | XList _ l => (fix go (l : list xv) : list string := match l with [] => [] | x :: r => x_plains x ++ go r end) l
  | XArray l => map snd (filter (fun e : bool * bool * string => negb (fst (fst e))) l)
  | XMap _ kvs => (fix go (kvs : list (xkey * xv)) : list string :=
                     match kvs with [] => [] | (_, x) :: r => x_plains x ++ go r end) kvs
  | XStruct fs => (fix go (fs : list (string * bool * xv)) : list string :=
                     match fs with [] => [] | (_, _, x) :: r => x_plains x ++ go r end) fs
  end.

(* =====================================================================================
   Part 11 — (re)loading: otelcol/collector.go setupConfigurationComponents, run at start-up and
   again by reloadConfiguration on every configuration change event / SIGHUP.  Each run gets the
   typed configuration from the provider and does
       conf := confmap.New();  conf.Marshal(cfg)
   i.e. MERGES the encoding into a FRESH Conf, and hands that Conf to the service (-> NotifyConfig).
   Conf.Merge is koanf's merge: maps are merged recursively, anything else is overwritten. *)
Fixpoint cv_merge (old new : cv) {struct new} : cv :=
  match new with
  | CMap kn =>
      match old with
      | CMap ko =>
          CMap (filter (fun e => negb (existsb (fun f => String.eqb (fst e) (fst f)) kn)) ko ++
                (fix go (kn : list (string * cv)) : list (string * cv) :=
                   match kn with
                   | [] => []
                   | (k, x) :: r => (k, match lookup k ko with Some o => cv_merge o x | None => x end) :: go r
                   end) kn)
      | _ => new
      end
  | _ => new
  end.

(* one load: the effective configuration of a typed configuration whose encoding is [enc] *)
Definition load_effective (enc : cv) : cv := cv_merge (CMap []) enc.

(* a history of loads (start-up, then reloads): nothing is carried from one load to the next *)
Definition run_loads (encs : list cv) : list cv := map load_effective encs.

(* a load whose configuration does not validate (xconfmap.Validate fails in
   setupConfigurationComponents) is refused: nothing is handed to the service; a refused RELOAD makes
   Collector.Run return the error, so no later load happens in that run.  A history entry is
   (valid?, encoding). *)
Fixpoint run_loads_v (h : list (bool * cv)) : list cv :=
  match h with
  | [] => []
  | (true, e) :: r => load_effective e :: run_loads_v r
  | (false, _) :: _ => []
  end.

(* configunmarshaler.Configs.Unmarshal: the type of an id `type[/name]` must have a factory; the first
   id (in the iteration order of a Go map: any) whose type has none makes the load fail naming it *)
Definition type_of_id (id : string) : string :=
  match String.index 0 "/" id with
  | Some n => String.substring 0 n id
  | None => id
  end.

Definition unknown_type_ids (known : list string) (ids : list string) : list string :=
  filter (fun id => negb (str_mem (type_of_id id) known)) ids.
