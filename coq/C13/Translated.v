(* C13/Translated.v — obligations tying hand-written model definitions to what translator T1
   (tools/go2coq) reads from the Go source NOW.  A change of the translated function changes
   Generated/C13Telemetry.v / C13Levels.v and breaks a named obligation here. *)
From Verif Require Import Common.Base C13.Model Generated.C13Telemetry Generated.C13Levels.
From Coq Require Import String.

(* the two error returns of telemetry.Config.Validate, identified by probing the generated function
   (their text carries a source line number, which is not part of the obligation) *)
Definition tel_lbl_readers : option string := telemetry_validate 0 0 true.
Definition tel_lbl_views : option string := telemetry_validate 0 1 false.

Lemma tel_labels_distinct_l : tel_lbl_readers <> None /\ tel_lbl_views <> None /\ tel_lbl_readers <> tel_lbl_views.
Proof. vm_compute. repeat split; discriminate. Qed.

(* Model.tel_err IS service/telemetry Config.Validate, on the whole domain *)
Lemma tel_err_is_translated_l c :
  telemetry_validate (c_tel_level c) (Z.of_nat (c_tel_readers c)) (negb (c_tel_views c)) =
  match tel_err c with
  | None => None
  | Some ETelNoReaders => tel_lbl_readers
  | Some ETelViews => tel_lbl_views
  | Some _ => None
  end.
Proof.
  unfold tel_err, telemetry_validate, tel_lbl_readers, tel_lbl_views.
  destruct (c_tel_readers c) as [|n]; destruct (c_tel_views c);
    destruct (Z.eqb (c_tel_level c) (-1)); destruct (Z.eqb (c_tel_level c) 2); reflexivity.
Qed.

(* the level encoding the model and the harness use *)
Lemma levels_l : lvl_LevelNone = (-1)%Z /\ lvl_LevelBasic = 0%Z /\ lvl_LevelNormal = 1%Z /\ lvl_LevelDetailed = 2%Z.
Proof. repeat split; reflexivity. Qed.
