(* C13/Proofs2.v — reference, ambiguity and pipeline-shape rules (otelcol.Config.Validate,
   pipelines.Config.Validate, PipelineConfig.Validate, telemetry.Config.Validate) are exact:
   no error iff the configuration is well-formed; every error names an entry that really is
   offending; and the whole xconfmap.Validate(cfg) is empty iff everything is well-formed. *)
From Verif Require Import Common.Base C13.Model C13.Spec C13.Proofs1.
From Coq Require Import String.

(* ---- generic list helpers --------------------------------------------------------------- *)
Lemma first_some_none {A B} (f : A -> option B) l :
  first_some f l = None <-> forall x, In x l -> f x = None.
Proof.
  induction l as [|a l IH]; cbn.
  - split; [intros _ x []|reflexivity].
  - destruct (f a) eqn:Ea.
    + split; [discriminate|]. intros H. specialize (H a (or_introl eq_refl)). congruence.
    + rewrite IH. split.
      * intros H x [<-|Hx]; auto.
      * intros H x Hx. apply H. now right.
Qed.

Lemma first_some_some {A B} (f : A -> option B) l b :
  first_some f l = Some b -> exists x, In x l /\ f x = Some b.
Proof.
  induction l as [|a l IH]; cbn; [discriminate|].
  destruct (f a) eqn:Ea.
  - intros H. inversion H; subst. exists a. auto.
  - intros H. destruct (IH H) as [x [Hx Hf]]. exists x. auto.
Qed.

Lemma in_filter_some {A B} (f : A -> option B) l b :
  In b (filter_some f l) <-> exists x, In x l /\ f x = Some b.
Proof.
  induction l as [|a l IH]; cbn.
  - split; [intros []|intros (?&[]&_)].
  - destruct (f a) eqn:Ea; cbn; rewrite ?IH; split.
    + intros [<-|(x&Hx&Hf)]; [exists a; auto|exists x; auto].
    + intros (x&[<-|Hx]&Hf); [left; congruence|right; exists x; auto].
    + intros (x&Hx&Hf). exists x. auto.
    + intros (x&[<-|Hx]&Hf); [congruence|exists x; auto].
Qed.

Lemma filter_some_nil {A B} (f : A -> option B) l :
  filter_some f l = [] <-> forall x, In x l -> f x = None.
Proof.
  split.
  - intros H x Hx. destruct (f x) eqn:E; [|reflexivity].
    assert (Hi : In b (filter_some f l)) by (apply in_filter_some; eauto).
    rewrite H in Hi. destruct Hi.
  - intros H. destruct (filter_some f l) as [|b r] eqn:E; [reflexivity|].
    assert (Hi : In b (filter_some f l)) by (rewrite E; now left).
    apply in_filter_some in Hi. destruct Hi as (x&Hx&Hf). rewrite (H x Hx) in Hf. discriminate.
Qed.

Lemma is_nil_true {A} (l : list A) : is_nil l = true <-> l = [].
Proof. destruct l; cbn; split; congruence. Qed.

Lemma is_nil_false {A} (l : list A) : is_nil l = false <-> l <> [].
Proof. destruct l; cbn; split; congruence. Qed.

Lemma str_mem_in s l : str_mem s l = true <-> In s l.
Proof.
  unfold str_mem. rewrite existsb_exists. split.
  - intros (x&Hx&He). apply String.eqb_eq in He. now subst.
  - intros H. exists s. split; [assumption|apply String.eqb_refl].
Qed.

Lemma has_defined k s : has k s = true <-> defined k s.
Proof. apply str_mem_in. Qed.

Lemma has_false k s : has k s = false <-> ~ defined k s.
Proof. rewrite <- has_defined. destruct (has k s); split; congruence. Qed.

Lemma has_nonnil_defined k s : has_nonnil k s = true <-> defined_nonnil k s.
Proof.
  unfold has_nonnil, defined_nonnil. rewrite existsb_exists. split.
  - intros ([k' [t|]]&Hin&He); cbn in He; apply andb_true_iff in He; destruct He as [He Hs]; [|discriminate].
    apply String.eqb_eq in He. subst. eauto.
  - intros (t&Hin). exists (k, Some t). split; [assumption|]. cbn. now rewrite String.eqb_refl.
Qed.

Lemma has_nonnil_false k s : has_nonnil k s = false <-> ~ defined_nonnil k s.
Proof. rewrite <- has_nonnil_defined. destruct (has_nonnil k s); split; congruence. Qed.

(* ---- PipelineConfig.Validate ------------------------------------------------------------- *)
Lemma first_dup_none seen l :
  first_dup seen l = None <-> NoDup l /\ forall x, In x l -> ~ In x seen.
Proof.
  revert seen. induction l as [|a l IH]; intros seen; cbn.
  - split; [intros _; split; [constructor|intros x []]|reflexivity].
  - destruct (str_mem a seen) eqn:Em.
    + split; [discriminate|]. intros [_ H]. apply str_mem_in in Em. exfalso. exact (H a (or_introl eq_refl) Em).
    + rewrite IH. assert (Hns : ~ In a seen) by (rewrite <- str_mem_in; congruence). split.
      * intros [Hnd H]. split.
        -- constructor; [|assumption]. intros Ha. apply (H a Ha). now left.
        -- intros x [<-|Hx]; [assumption|]. intros Hs. apply (H x Hx). now right.
      * intros [Hnd H]. inversion Hnd as [|? ? Hna Hnd']; subst. split; [assumption|].
        intros x Hx [<-|Hs]; [contradiction|]. apply (H x (or_intror Hx) Hs).
Qed.

Lemma first_dup_some seen l r :
  first_dup seen l = Some r ->
  (exists j, nth_error l j = Some r /\ In r seen) \/ duplicated r l.
Proof.
  revert seen. induction l as [|a l IH]; intros seen; cbn; [discriminate|].
  destruct (str_mem a seen) eqn:Em.
  - intros H. inversion H; subst. left. exists 0. split; [reflexivity|now apply str_mem_in].
  - intros H. destruct (IH _ H) as [(j&Hn&[<-|Hs])|(i&j&Hij&Hi&Hj)].
    + right. exists 0, (S j). split; [lia|]. auto.
    + left. exists (S j). auto.
    + right. exists (S i), (S j). split; [lia|]. auto.
Qed.

Lemma pipe_shape_none_iff p : pipe_shape_err p = None <-> wf_shape p.
Proof.
  unfold pipe_shape_err, wf_shape.
  destruct (is_nil (pp_recv p)) eqn:Er.
  { apply is_nil_true in Er. split; [discriminate|]. intros [H _]. contradiction. }
  destruct (is_nil (pp_exp p)) eqn:Ee.
  { apply is_nil_true in Ee. split; [discriminate|]. intros (_&H&_). contradiction. }
  apply is_nil_false in Er, Ee.
  destruct (first_dup [] (pp_proc p)) eqn:Ed; cbn.
  - split; [discriminate|]. intros (_&_&Hnd).
    assert (first_dup [] (pp_proc p) = None) as Hn by (apply first_dup_none; split; [assumption|intros x _ []]).
    congruence.
  - apply first_dup_none in Ed. destruct Ed as [Hnd _]. split; auto.
Qed.

Lemma pipe_shape_names p e :
  pipe_shape_err p = Some e ->
  match e with
  | EPipeNoRecv => pp_recv p = []
  | EPipeNoExp => pp_exp p = []
  | EDupProc r => duplicated r (pp_proc p)
  | _ => False
  end.
Proof.
  unfold pipe_shape_err.
  destruct (is_nil (pp_recv p)) eqn:Er.
  { intros H. inversion H; subst. now apply is_nil_true. }
  destruct (is_nil (pp_exp p)) eqn:Ee.
  { intros H. inversion H; subst. now apply is_nil_true. }
  destruct (first_dup [] (pp_proc p)) eqn:Ed; cbn; [|discriminate].
  intros H. inversion H; subst. apply first_dup_some in Ed.
  destruct Ed as [(j&_&[])|Hd]. exact Hd.
Qed.

(* a processor listed twice is always rejected (whatever else the pipeline contains, as long as
   it has receivers and exporters — otherwise the emptiness error comes first) *)
Lemma dup_proc_rejected p r :
  duplicated r (pp_proc p) -> pipe_shape_err p <> None.
Proof.
  intros (i&j&Hij&Hi&Hj) Hn. apply pipe_shape_none_iff in Hn. destruct Hn as (_&_&Hnd).
  rewrite NoDup_nth_error in Hnd. assert (i = j); [|lia].
  apply Hnd; [apply nth_error_Some; congruence|congruence].
Qed.

(* ---- telemetry.Config.Validate ----------------------------------------------------------- *)
Lemma tel_err_none_iff c : tel_err c = None <-> wf_tel c.
Proof.
  unfold tel_err, wf_tel.
  destruct (Z.eqb_spec (c_tel_level c) (-1)) as [E1|E1];
  destruct (Nat.eqb_spec (c_tel_readers c) 0) as [E2|E2];
  destruct (c_tel_views c) eqn:E3;
  destruct (Z.eqb_spec (c_tel_level c) 2) as [E4|E4]; cbn; split; try discriminate; try tauto;
  try (intros [H1 H2]; try (specialize (H2 eq_refl)); try (specialize (H1 E1)); congruence);
  try (intros _; split; intros; congruence).
Qed.

(* ---- otelcol.Config.Validate ------------------------------------------------------------- *)
Lemma conn_err_none c cid :
  conn_err c cid = None <-> ~ defined cid (c_exp c) /\ ~ defined cid (c_recv c).
Proof.
  unfold conn_err. destruct (has cid (c_exp c)) eqn:E1.
  { apply has_defined in E1. split; [discriminate|tauto]. }
  destruct (has cid (c_recv c)) eqn:E2.
  { apply has_defined in E2. split; [discriminate|tauto]. }
  apply has_false in E1, E2. tauto.
Qed.

Lemma ext_err_none c r : ext_err c r = None <-> defined_nonnil r (c_ext c).
Proof.
  unfold ext_err. destruct (has_nonnil r (c_ext c)) eqn:E.
  - apply has_nonnil_defined in E. tauto.
  - apply has_nonnil_false in E. split; [discriminate|contradiction].
Qed.

Lemma pipe_ref_err_none c p :
  pipe_ref_err c p = None <->
  (forall r, In r (pp_recv p) -> defined r (c_recv c) \/ defined r (c_conn c)) /\
  (forall r, In r (pp_proc p) -> defined_nonnil r (c_proc c)) /\
  (forall r, In r (pp_exp p) -> defined r (c_exp c) \/ defined r (c_conn c)).
Proof.
  unfold pipe_ref_err.
  set (fr := fun r => if has r (c_recv c) || has r (c_conn c) then None else Some (ERecvRef (pp_id p) r)).
  set (fp := fun r => if has_nonnil r (c_proc c) then None else Some (EProcRef (pp_id p) r)).
  set (fe := fun r => if has r (c_exp c) || has r (c_conn c) then None else Some (EExpRef (pp_id p) r)).
  assert (Hr : forall r, fr r = None <-> defined r (c_recv c) \/ defined r (c_conn c)).
  { intros r. unfold fr. destruct (has r (c_recv c) || has r (c_conn c)) eqn:E.
    - apply orb_true_iff in E. rewrite !has_defined in E. tauto.
    - apply orb_false_iff in E. rewrite !has_false in E. split; [discriminate|tauto]. }
  assert (Hp : forall r, fp r = None <-> defined_nonnil r (c_proc c)).
  { intros r. unfold fp. destruct (has_nonnil r (c_proc c)) eqn:E.
    - apply has_nonnil_defined in E. tauto.
    - apply has_nonnil_false in E. split; [discriminate|contradiction]. }
  assert (He : forall r, fe r = None <-> defined r (c_exp c) \/ defined r (c_conn c)).
  { intros r. unfold fe. destruct (has r (c_exp c) || has r (c_conn c)) eqn:E.
    - apply orb_true_iff in E. rewrite !has_defined in E. tauto.
    - apply orb_false_iff in E. rewrite !has_false in E. split; [discriminate|tauto]. }
  destruct (first_some fr (pp_recv p)) eqn:E1.
  { split; [discriminate|]. intros (H&_&_). apply first_some_some in E1. destruct E1 as (x&Hx&Hf).
    apply H, Hr in Hx. congruence. }
  destruct (first_some fp (pp_proc p)) eqn:E2.
  { split; [discriminate|]. intros (_&H&_). apply first_some_some in E2. destruct E2 as (x&Hx&Hf).
    apply H, Hp in Hx. congruence. }
  rewrite first_some_none in E1, E2. rewrite first_some_none. split.
  - intros E3. repeat split; intros r Hin; [apply Hr|apply Hp|apply He]; auto.
  - intros (H1&H2&H3) x Hx. apply He. auto.
Qed.

Lemma pipe_ref_err_names c p e :
  pipe_ref_err c p = Some e ->
  match e with
  | ERecvRef pid r => pid = pp_id p /\ In r (pp_recv p) /\ ~ defined r (c_recv c) /\ ~ defined r (c_conn c)
  | EProcRef pid r => pid = pp_id p /\ In r (pp_proc p) /\ ~ defined_nonnil r (c_proc c)
  | EExpRef pid r => pid = pp_id p /\ In r (pp_exp p) /\ ~ defined r (c_exp c) /\ ~ defined r (c_conn c)
  | _ => False
  end.
Proof.
  unfold pipe_ref_err.
  destruct (first_some _ (pp_recv p)) eqn:E1.
  { intros H. inversion H; subst. apply first_some_some in E1. destruct E1 as (x&Hx&Hf).
    destruct (has x (c_recv c) || has x (c_conn c)) eqn:E; [discriminate|]. inversion Hf; subst.
    apply orb_false_iff in E. rewrite !has_false in E. tauto. }
  destruct (first_some _ (pp_proc p)) eqn:E2.
  { intros H. inversion H; subst. apply first_some_some in E2. destruct E2 as (x&Hx&Hf).
    destruct (has_nonnil x (c_proc c)) eqn:E; [discriminate|]. inversion Hf; subst.
    apply has_nonnil_false in E. tauto. }
  intros E3. apply first_some_some in E3. destruct E3 as (x&Hx&Hf).
  destruct (has x (c_exp c) || has x (c_conn c)) eqn:E; [discriminate|]. inversion Hf; subst.
  apply orb_false_iff in E. rewrite !has_false in E. tauto.
Qed.

Lemma cfg_candidates_nil_iff g c :
  cfg_candidates g c = [] <-> wf_nonempty g c /\ wf_refs c.
Proof.
  unfold cfg_candidates, wf_nonempty, wf_refs.
  destruct (is_nil (c_recv c) && is_nil (c_exp c) && is_nil (c_proc c) && is_nil (c_conn c) && is_nil (c_ext c)) eqn:E0.
  { repeat (apply andb_true_iff in E0; destruct E0 as [E0 ?]). rewrite is_nil_true in *.
    split; [discriminate|]. intros [[Hq _] _]. tauto. }
  assert (Hne : ~ (c_recv c = [] /\ c_exp c = [] /\ c_proc c = [] /\ c_conn c = [] /\ c_ext c = [])).
  { intros (H1&H2&H3&H4&H5). rewrite H1, H2, H3, H4, H5 in E0. discriminate. }
  destruct (negb (g_nopipe g) && is_nil (c_recv c)) eqn:E1.
  { apply andb_true_iff in E1. destruct E1 as [Eg Er]. apply negb_true_iff in Eg. apply is_nil_true in Er.
    split; [discriminate|]. intros [[_ H] _]. destruct (H Eg). contradiction. }
  destruct (negb (g_nopipe g) && is_nil (c_exp c)) eqn:E2.
  { apply andb_true_iff in E2. destruct E2 as [Eg Er]. apply negb_true_iff in Eg. apply is_nil_true in Er.
    split; [discriminate|]. intros [[_ H] _]. destruct (H Eg). contradiction. }
  assert (Hg : g_nopipe g = false -> c_recv c <> [] /\ c_exp c <> []).
  { intros Hg. rewrite Hg in E1, E2. cbn in E1, E2. apply is_nil_false in E1. apply is_nil_false in E2. auto. }
  destruct (filter_some (conn_err c) (keys (c_conn c))) as [|e0 l0] eqn:E3.
  2:{ cbv beta iota. split; [discriminate|]. intros [_ (H&_&_)].
      assert (filter_some (conn_err c) (keys (c_conn c)) = []) as Hn.
      { apply filter_some_nil. intros x Hx. apply conn_err_none. apply H. exact Hx. }
      congruence. }
  rewrite filter_some_nil in E3.
  destruct (first_some (ext_err c) (c_svc_ext c)) eqn:E4.
  { split; [discriminate|]. intros [_ (_&H&_)]. apply first_some_some in E4. destruct E4 as (x&Hx&Hf).
    apply H, ext_err_none in Hx. congruence. }
  rewrite first_some_none in E4. rewrite filter_some_nil. split.
  - intros E5. split; [auto|]. split; [|split].
    + intros cid Hc. apply conn_err_none. apply E3. exact Hc.
    + intros r Hr. apply ext_err_none. auto.
    + intros p Hp. apply pipe_ref_err_none. auto.
  - intros [_ (_&_&H)] p Hp. apply pipe_ref_err_none. auto.
Qed.

Lemma cfg_candidates_offending g c e :
  In e (cfg_candidates g c) -> offending g c e.
Proof.
  unfold cfg_candidates.
  destruct (is_nil (c_recv c) && is_nil (c_exp c) && is_nil (c_proc c) && is_nil (c_conn c) && is_nil (c_ext c)) eqn:E0.
  { intros [<-|[]]. repeat (apply andb_true_iff in E0; destruct E0 as [E0 ?]). rewrite is_nil_true in *. cbn. auto. }
  destruct (negb (g_nopipe g) && is_nil (c_recv c)) eqn:E1.
  { intros [<-|[]]. apply andb_true_iff in E1. destruct E1 as [Eg Er]. apply negb_true_iff in Eg. apply is_nil_true in Er. cbn. auto. }
  destruct (negb (g_nopipe g) && is_nil (c_exp c)) eqn:E2.
  { intros [<-|[]]. apply andb_true_iff in E2. destruct E2 as [Eg Er]. apply negb_true_iff in Eg. apply is_nil_true in Er. cbn. auto. }
  destruct (filter_some (conn_err c) (keys (c_conn c))) as [|e0 l0] eqn:E3.
  2:{ cbv beta iota. rewrite <- E3. intros Hin. apply in_filter_some in Hin. destruct Hin as (cid&Hc&Hf).
      unfold conn_err in Hf. destruct (has cid (c_exp c)) eqn:Ha.
      - inversion Hf; subst. cbn. apply has_defined in Ha. auto.
      - destruct (has cid (c_recv c)) eqn:Hb; [|discriminate]. inversion Hf; subst. cbn.
        apply has_defined in Hb. auto. }
  destruct (first_some (ext_err c) (c_svc_ext c)) eqn:E4.
  { intros [<-|[]]. apply first_some_some in E4. destruct E4 as (x&Hx&Hf). unfold ext_err in Hf.
    destruct (has_nonnil x (c_ext c)) eqn:Ha; [discriminate|]. inversion Hf; subst. cbn.
    apply has_nonnil_false in Ha. auto. }
  intros Hin. apply in_filter_some in Hin. destruct Hin as (p&Hp&Hf).
  pose proof (pipe_ref_err_names _ _ _ Hf) as Hn.
  destruct e; try contradiction; cbn.
  - destruct Hn as (->&H1&H2&H3). exists p. auto.
  - destruct Hn as (->&H1&H2). exists p. auto.
  - destruct Hn as (->&H1&H2&H3). exists p. auto.
Qed.

(* an identifier shared by a connector and an exporter or receiver is always rejected, as soon
   as the earlier whole-file checks pass *)
Lemma ambiguous_rejected g c cid :
  defined cid (c_conn c) -> (defined cid (c_exp c) \/ defined cid (c_recv c)) ->
  cfg_candidates g c <> [].
Proof.
  intros Hc Ha Hn. apply cfg_candidates_nil_iff in Hn. destruct Hn as [_ (H&_&_)].
  destruct (H cid Hc). tauto.
Qed.

Lemma dangling_rejected g c p r :
  In p (c_pipes c) ->
  (In r (pp_recv p) /\ ~ defined r (c_recv c) /\ ~ defined r (c_conn c)) \/
  (In r (pp_proc p) /\ ~ defined_nonnil r (c_proc c)) \/
  (In r (pp_exp p) /\ ~ defined r (c_exp c) /\ ~ defined r (c_conn c)) ->
  cfg_candidates g c <> [].
Proof.
  intros Hp Hd Hn. apply cfg_candidates_nil_iff in Hn. destruct Hn as [_ (_&_&H)].
  destruct (H p Hp) as (H1&H2&H3).
  destruct Hd as [(Hi&Ha&Hb)|[(Hi&Ha)|(Hi&Ha&Hb)]].
  - destruct (H1 r Hi); contradiction.
  - apply Ha. auto.
  - destruct (H3 r Hi); contradiction.
Qed.

Lemma dangling_ext_rejected g c r :
  In r (c_svc_ext c) -> ~ defined_nonnil r (c_ext c) -> cfg_candidates g c <> [].
Proof.
  intros Hi Hd Hn. apply cfg_candidates_nil_iff in Hn. destruct Hn as [_ (_&H&_)]. auto.
Qed.

(* ---- pipelines.Config.Validate ----------------------------------------------------------- *)
Lemma signal_err_none g p : signal_err g p = None <-> signal_ok g p.
Proof.
  unfold signal_err, signal_ok.
  destruct (String.eqb_spec (pp_sig p) "traces"); [cbn; tauto|].
  destruct (String.eqb_spec (pp_sig p) "metrics"); [cbn; tauto|].
  destruct (String.eqb_spec (pp_sig p) "logs"); [cbn; tauto|]. cbn.
  destruct (String.eqb_spec (pp_sig p) "profiles").
  - destruct (g_profiles g); split; try discriminate; try tauto.
    intros [?|[?|[?|[_ ?]]]]; congruence.
  - split; [discriminate|]. tauto.
Qed.

Lemma pipes_candidates_nil_iff g c : pipes_candidates g c = [] <-> wf_pipes g c.
Proof.
  unfold pipes_candidates, wf_pipes.
  destruct (negb (g_nopipe g) && is_nil (c_pipes c)) eqn:E.
  - apply andb_true_iff in E. destruct E as [Eg En]. apply negb_true_iff in Eg. apply is_nil_true in En.
    split; [discriminate|]. intros [H _]. exfalso. exact (H Eg En).
  - rewrite filter_some_nil. split.
    + intros H. split.
      * intros Hg. rewrite Hg in E. cbn in E. now apply is_nil_false.
      * intros p Hp. apply signal_err_none. auto.
    + intros [_ H] p Hp. apply signal_err_none. auto.
Qed.

Lemma pipes_candidates_offending g c e : In e (pipes_candidates g c) -> offending g c e.
Proof.
  unfold pipes_candidates.
  destruct (negb (g_nopipe g) && is_nil (c_pipes c)) eqn:E.
  - intros [<-|[]]. apply andb_true_iff in E. destruct E as [Eg En]. apply negb_true_iff in Eg.
    apply is_nil_true in En. cbn. auto.
  - intros Hin. apply in_filter_some in Hin. destruct Hin as (p&Hp&Hf).
    assert (Hns : ~ signal_ok g p) by (rewrite <- signal_err_none; congruence).
    unfold signal_err in Hf.
    destruct (String.eqb (pp_sig p) "traces" || String.eqb (pp_sig p) "metrics" || String.eqb (pp_sig p) "logs"); [discriminate|].
    destruct (String.eqb (pp_sig p) "profiles").
    + destruct (g_profiles g); [discriminate|]. inversion Hf; subst. cbn. exists p. auto.
    + inversion Hf; subst. cbn. exists p. auto.
Qed.

(* ---- the whole xconfmap.Validate on a pointer to otelcol.Config ---------------------------------------- *)
Lemma walk_id_node : walk id_node = [].
Proof. reflexivity. Qed.

Lemma walk_ids_tree l : walk (ids_tree l) = [].
Proof.
  unfold ids_tree. rewrite walk_seq. cbn [here app]. generalize 0.
  induction l as [|a l IH]; intros i; cbn [map walk_elems]; [reflexivity|].
  rewrite IH. reflexivity.
Qed.

Definition opt_tree (o : option (vtree verr)) : vtree verr :=
  VPtr (match o with Some t => t | None => VInvalid end).

Lemma walk_section_nil (s : section) :
  walk (section_tree s) = [] <-> forall k t, In (k, Some t) s -> walk t = [].
Proof.
  unfold section_tree. rewrite walk_map. cbn [here app]. induction s as [|[k o] s IH]; cbn [map walk_entries].
  - split; [intros _ k t []|reflexivity].
  - cbn [fst snd]. rewrite walk_id_node. cbn [pre map app]. cbn [walk].
    split.
    + intros H. apply app_eq_nil in H. destruct H as [H1 H2].
      intros k' t' [Heq|Hin].
      * inversion Heq; subst. unfold pre in H1. apply map_eq_nil in H1. exact H1.
      * destruct IH as [IH1 _]. specialize (IH1 H2). eauto.
    + intros H.
      assert (Ha : pre k (walk match o with Some t => t | None => VInvalid end) = []).
      { destruct o as [t|]; [|reflexivity]. rewrite (H k t (or_introl eq_refl)). reflexivity. }
      rewrite Ha. cbn [app].
      destruct IH as [_ IH2]. apply IH2. intros k' t' Hin. apply (H k' t'). now right.
Qed.

Lemma walk_ptr {E} (t : vtree E) : walk (VPtr t) = walk t.
Proof. reflexivity. Qed.

Lemma walk_pipe_tree p : walk (pipe_tree p) = here (pipe_shape_err p).
Proof.
  unfold pipe_tree. rewrite walk_ptr.
  rewrite walk_struct. cbn [walk_fields]. rewrite !walk_ids_tree. cbn. now rewrite app_nil_r.
Qed.

Lemma walk_pipes_map pv ps :
  walk (VMap pv (map (fun p => (pp_id p, id_node, pipe_tree p)) ps)) = [] <->
  pv = None /\ forall p, In p ps -> pipe_shape_err p = None.
Proof.
  rewrite walk_map. split.
  - intros H. apply app_eq_nil in H. destruct H as [H1 H2]. split.
    + destruct pv; [discriminate|reflexivity].
    + induction ps as [|a ps IH]; [intros p []|]. cbn [map walk_entries] in H2.
      apply app_eq_nil in H2. destruct H2 as [H2 H3]. apply app_eq_nil in H2. destruct H2 as [_ H2].
      rewrite walk_pipe_tree in H2. intros p [<-|Hp]; [|auto].
      destruct (pipe_shape_err a); [discriminate|reflexivity].
  - intros [-> H]. cbn [here app]. induction ps as [|a ps IH]; [reflexivity|].
    cbn [map walk_entries]. rewrite walk_id_node, walk_pipe_tree, (H a (or_introl eq_refl)). cbn.
    apply IH. intros p Hp. apply H. now right.
Qed.

Lemma walk_tree_of_nil r pv c :
  walk (tree_of r pv c) = [] <->
  r = None /\ pv = None /\ tel_err c = None /\
  (forall p, In p (c_pipes c) -> pipe_shape_err p = None) /\
  (forall s k t, In s (sections c) -> In (k, Some t) s -> walk t = []).
Proof.
  unfold tree_of. rewrite walk_ptr.
  match goal with |- walk (VStruct r ?fs) = [] <-> _ => rewrite (walk_struct r fs) end.
  cbn [walk_fields].
  match goal with |- context [walk (VStruct None ?fs)] => rewrite (walk_struct None fs) end.
  cbn [walk_fields here].
  match goal with |- context [walk (VStruct (tel_err c) ?fs)] => rewrite (walk_struct (tel_err c) fs) end.
  cbn [walk_fields]. rewrite walk_ids_tree. cbn [pre map app]. rewrite !app_nil_r.
  unfold sections. split.
  - intros H.
    apply app_eq_nil in H. destruct H as [Hr H].
    apply app_eq_nil in H. destruct H as [H1 H].
    apply app_eq_nil in H. destruct H as [H2 H].
    apply app_eq_nil in H. destruct H as [H3 H].
    apply app_eq_nil in H. destruct H as [H4 H].
    apply app_eq_nil in H. destruct H as [H5 H].
    apply map_eq_nil in H1, H2, H3, H4, H5, H.
    apply app_eq_nil in H. destruct H as [Ht Hp].
    apply map_eq_nil in Ht, Hp. apply walk_pipes_map in Hp. destruct Hp as [Hpv Hps].
    rewrite walk_section_nil in H1, H2, H3, H4, H5.
    split; [destruct r; [discriminate|reflexivity]|]. split; [assumption|].
    split; [destruct (tel_err c); [discriminate|reflexivity]|]. split; [assumption|].
    intros s k t [<-|[<-|[<-|[<-|[<-|[]]]]]] Hin; eauto.
  - intros (->&->&Ht&Hps&Hs). rewrite Ht. cbn [here app map].
    assert (Hsec : forall s, In s [c_recv c; c_exp c; c_proc c; c_conn c; c_ext c] -> walk (section_tree s) = []).
    { intros s Hin. apply walk_section_nil. intros k t Hk. eapply Hs; eauto. }
    rewrite !Hsec by (cbn; tauto). cbn [pre map app].
    assert (Hp : walk (VMap None (map (fun p => (pp_id p, id_node, pipe_tree p)) (c_pipes c))) = []).
    { apply walk_pipes_map. auto. }
    rewrite Hp. reflexivity.
Qed.

Lemma valid_pick_none cs : valid_pick cs None <-> cs = [].
Proof. reflexivity. Qed.

(* central: on every possible run (whatever order the Go maps iterate in) the loaded
   configuration passes validation iff it is well-formed *)
Lemma outcome_nil_iff_wf g c errs :
  outcome g c errs -> (errs = [] <-> wf g c).
Proof.
  intros (r&pv&Hr&Hpv&->). rewrite walk_tree_of_nil. unfold wf. split.
  - intros (->&->&Ht&Hps&Hs). cbn in Hr, Hpv.
    apply cfg_candidates_nil_iff in Hr. destruct Hr as [Hne Hrefs].
    apply pipes_candidates_nil_iff in Hpv.
    split; [exact Hne|]. split; [exact Hrefs|]. split; [exact Hpv|]. split; [|split].
    + intros p Hp. apply pipe_shape_none_iff. auto.
    + now apply tel_err_none_iff.
    + intros s k t Hs' Hk. apply validate_ok_iff_clean. unfold validate_ok. now rewrite (Hs s k t Hs' Hk).
  - intros (Hne&Hrefs&Hpipes&Hshape&Htel&Hcomp).
    assert (Hc : cfg_candidates g c = []) by (apply cfg_candidates_nil_iff; auto).
    assert (Hp : pipes_candidates g c = []) by (apply pipes_candidates_nil_iff; auto).
    split; [|split; [|split; [|split]]].
    + destruct r as [e|]; [|reflexivity]. cbn in Hr. rewrite Hc in Hr. destruct Hr.
    + destruct pv as [e|]; [|reflexivity]. cbn in Hpv. rewrite Hp in Hpv. destruct Hpv.
    + now apply tel_err_none_iff.
    + intros p Hin. apply pipe_shape_none_iff. auto.
    + intros s k t Hs Hk. specialize (Hcomp s k t Hs Hk). apply validate_ok_iff_clean in Hcomp.
      unfold validate_ok in Hcomp. destruct (walk t); [reflexivity|discriminate].
Qed.

(* the deterministic reading is one of the outcomes *)
Lemma full_validate_outcome g c : outcome g c (full_validate g c).
Proof.
  exists (cfg_validate g c), (hd_error (pipes_candidates g c)). repeat split.
  - unfold cfg_validate. destruct (cfg_candidates g c); cbn; auto.
  - destruct (pipes_candidates g c); cbn; auto.
Qed.

(* every root-level error of any outcome names an offending entry *)
Lemma outcome_root_offending g c errs e :
  outcome g c errs -> In ([], e) errs -> offending g c e \/ False.
Proof.
  intros (r&pv&Hr&Hpv&->) Hin. left.
  unfold tree_of in Hin. rewrite walk_ptr in Hin.
  match type of Hin with In _ (walk (VStruct r ?fs)) => rewrite (walk_struct r fs) in Hin end.
  apply in_app_iff in Hin. destruct Hin as [Hin|Hin].
  - apply in_here in Hin. destruct Hin as [_ ->]. cbn in Hr. now apply cfg_candidates_offending.
  - apply in_walk_fields in Hin. destruct Hin as (n&s&q&_&Hp&_). discriminate.
Qed.
