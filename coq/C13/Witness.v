(* C13/Witness.v — non-vacuity examples (vm_compute). *)
From Verif Require Import Common.Base C13.Model C13.Spec C13.Proofs1 C13.Proofs2.
From Coq Require Import String.
Open Scope string_scope.

(* a failing validator three levels down, below valid parents, through a pointer, a slice, a map
   and past an unexported field holding another failing validator that must NOT be reported *)
Definition w1 : vtree string :=
  VPtr (VStruct None
    [(true, "receivers", VMap None
        [("otlp", VLeaf None, VPtr (VStruct None
            [(true, "protocols", VStruct None
                [(true, "grpc", VPtr (VStruct (Some "bad endpoint") []))]);
             (false, "hidden", VLeaf (Some "never seen"))]))]);
     (true, "list", VSeq None [VLeaf None; VLeaf (Some "second")])]).

Example w1_walk : walk w1 = [(["receivers"; "otlp"; "protocols"; "grpc"], "bad endpoint"); (["list"; "1"], "second")].
Proof. vm_compute. reflexivity. Qed.

Example w1_reach : reach w1 ["receivers"; "otlp"; "protocols"; "grpc"] (Some "bad endpoint").
Proof. apply walk_sound_l. vm_compute. auto. Qed.

Example w1_render : map render (walk w1) = ["receivers::otlp::protocols::grpc: bad endpoint"; "list::1: second"].
Proof. vm_compute. reflexivity. Qed.

(* a well-formed configuration *)
Definition g0 := mkGates false false.
Definition c_ok : topcfg :=
  mkCfg [("otlp", Some (VStruct None []))] [("debug", Some (VStruct None []))]
        [("batch", Some (VStruct None []))] [] [("zpages", Some (VStruct None []))]
        ["zpages"]
        [mkPipe "traces" "traces" ["otlp"] ["batch"] ["debug"]]
        0 1 false.

Example c_ok_valid : full_validate g0 c_ok = [].
Proof. vm_compute. reflexivity. Qed.

Example c_ok_wf : wf g0 c_ok.
Proof. apply (outcome_nil_iff_wf g0 c_ok (full_validate g0 c_ok) (full_validate_outcome g0 c_ok)). vm_compute. reflexivity. Qed.

(* variants: dangling reference, duplicate processor, ambiguous id, empty pipeline *)
Definition c_dangling := mkCfg (c_recv c_ok) (c_exp c_ok) (c_proc c_ok) [] (c_ext c_ok) ["zpages"]
  [mkPipe "traces" "traces" ["otlp"; "nop"] ["batch"] ["debug"]] 0 1 false.
Example c_dangling_err : full_validate g0 c_dangling = [([], ERecvRef "traces" "nop")].
Proof. vm_compute. reflexivity. Qed.

Definition c_dup := mkCfg (c_recv c_ok) (c_exp c_ok) (c_proc c_ok) [] (c_ext c_ok) ["zpages"]
  [mkPipe "traces" "traces" ["otlp"] ["batch"; "batch"] ["debug"]] 0 1 false.
Example c_dup_err : full_validate g0 c_dup = [(["service"; "pipelines"; "traces"], EDupProc "batch")].
Proof. vm_compute. reflexivity. Qed.

Definition c_ambig := mkCfg (c_recv c_ok) (c_exp c_ok) (c_proc c_ok) [("otlp", Some (VStruct None []))] (c_ext c_ok) ["zpages"]
  (c_pipes c_ok) 0 1 false.
Example c_ambig_err : full_validate g0 c_ambig = [([], EAmbigRecv "otlp")].
Proof. vm_compute. reflexivity. Qed.

Definition c_norecv := mkCfg (c_recv c_ok) (c_exp c_ok) (c_proc c_ok) [] (c_ext c_ok) ["zpages"]
  [mkPipe "traces" "traces" [] [] ["debug"]] 0 1 false.
Example c_norecv_err : full_validate g0 c_norecv = [(["service"; "pipelines"; "traces"], EPipeNoRecv)].
Proof. vm_compute. reflexivity. Qed.

(* an invalid nested component setting below valid parents, together with a dangling reference:
   both are reported *)
Definition c_nested := mkCfg [("otlp", Some (VStruct None [(true, "protocols", VStruct None [(true, "grpc", VPtr (VStruct (Some (EUser "bad")) []))])]))]
  (c_exp c_ok) (c_proc c_ok) [] (c_ext c_ok) ["zz"] (c_pipes c_ok) 0 1 false.
Example c_nested_err : full_validate g0 c_nested =
  [([], EExtRef "zz"); (["receivers"; "otlp"; "protocols"; "grpc"], EUser "bad")].
Proof. vm_compute. reflexivity. Qed.

Example dup_witness : duplicated "batch" ["batch"; "batch"].
Proof. exists 0, 1. repeat split; auto. Qed.
