(* C13/Witness.v — non-vacuity examples (vm_compute). *)
From Verif Require Import Common.Base C13.Model C13.Spec C13.Proofs1 C13.Proofs2 C13.Proofs3 C13.Proofs4 C13.Proofs5 C13.Proofs6 C13.Proofs7 C13.Proofs8 C13.Proofs9 C13.Proofs10 C13.Proofs11 C13.ProofsC C13.ProofsL C13.Checkers C13.Harness C13.Instances.
From Verif Require Import Generated.C13CfgSchema.
From Coq Require Import String.
Open Scope string_scope.

(* a failing validator three levels down, below valid parents, through a pointer, a slice, a map
   and past an unexported field holding another failing validator that must NOT be reported *)
Definition w1 : vtree string :=
  VPtr (VStruct None
    [(true, "receivers", VMap None
        [("otlp", VLeaf None, VPtr (VStruct None
            [(true, "protocols", VStruct None
                [(true, "grpc", VPtr (VStruct (Some "bad endpoint") []))]);
             (false, "hidden", VLeaf (Some "never seen"))]))]);
     (true, "list", VSeq None [VLeaf None; VLeaf (Some "second")])]).

Example w1_walk : walk w1 = [(["receivers"; "otlp"; "protocols"; "grpc"], "bad endpoint"); (["list"; "1"], "second")].
Proof. vm_compute. reflexivity. Qed.

Example w1_reach : reach w1 ["receivers"; "otlp"; "protocols"; "grpc"] (Some "bad endpoint").
Proof. apply walk_sound_l. vm_compute. auto. Qed.

Example w1_render : map render (walk w1) = ["receivers::otlp::protocols::grpc: bad endpoint"; "list::1: second"].
Proof. vm_compute. reflexivity. Qed.

(* a well-formed configuration *)
Definition g0 := mkGates false false.
Definition c_ok : topcfg :=
  mkCfg [("otlp", Some (VStruct None []))] [("debug", Some (VStruct None []))]
        [("batch", Some (VStruct None []))] [] [("zpages", Some (VStruct None []))]
        ["zpages"]
        [mkPipe "traces" "traces" ["otlp"] ["batch"] ["debug"]]
        0 1 false.

Example c_ok_valid : full_validate g0 c_ok = [].
Proof. vm_compute. reflexivity. Qed.

Example c_ok_wf : wf g0 c_ok.
Proof. apply (outcome_nil_iff_wf g0 c_ok (full_validate g0 c_ok) (full_validate_outcome g0 c_ok)). vm_compute. reflexivity. Qed.

(* variants: dangling reference, duplicate processor, ambiguous id, empty pipeline *)
Definition c_dangling := mkCfg (c_recv c_ok) (c_exp c_ok) (c_proc c_ok) [] (c_ext c_ok) ["zpages"]
  [mkPipe "traces" "traces" ["otlp"; "nop"] ["batch"] ["debug"]] 0 1 false.
Example c_dangling_err : full_validate g0 c_dangling = [([], ERecvRef "traces" "nop")].
Proof. vm_compute. reflexivity. Qed.

Definition c_dup := mkCfg (c_recv c_ok) (c_exp c_ok) (c_proc c_ok) [] (c_ext c_ok) ["zpages"]
  [mkPipe "traces" "traces" ["otlp"] ["batch"; "batch"] ["debug"]] 0 1 false.
Example c_dup_err : full_validate g0 c_dup = [(["service"; "pipelines"; "traces"], EDupProc "batch")].
Proof. vm_compute. reflexivity. Qed.

Definition c_ambig := mkCfg (c_recv c_ok) (c_exp c_ok) (c_proc c_ok) [("otlp", Some (VStruct None []))] (c_ext c_ok) ["zpages"]
  (c_pipes c_ok) 0 1 false.
Example c_ambig_err : full_validate g0 c_ambig = [([], EAmbigRecv "otlp")].
Proof. vm_compute. reflexivity. Qed.

Definition c_norecv := mkCfg (c_recv c_ok) (c_exp c_ok) (c_proc c_ok) [] (c_ext c_ok) ["zpages"]
  [mkPipe "traces" "traces" [] [] ["debug"]] 0 1 false.
Example c_norecv_err : full_validate g0 c_norecv = [(["service"; "pipelines"; "traces"], EPipeNoRecv)].
Proof. vm_compute. reflexivity. Qed.

(* an invalid nested component setting below valid parents, together with a dangling reference:
   both are reported *)
Definition c_nested := mkCfg [("otlp", Some (VStruct None [(true, "protocols", VStruct None [(true, "grpc", VPtr (VStruct (Some (EUser "bad")) []))])]))]
  (c_exp c_ok) (c_proc c_ok) [] (c_ext c_ok) ["zz"] (c_pipes c_ok) 0 1 false.
Example c_nested_err : full_validate g0 c_nested =
  [([], EExtRef "zz"); (["receivers"; "otlp"; "protocols"; "grpc"], EUser "bad")].
Proof. vm_compute. reflexivity. Qed.

Example dup_witness : duplicated "batch" ["batch"; "batch"].
Proof. exists 0, 1. repeat split; auto. Qed.

(* ---- strict decoding ---------------------------------------------------------------------- *)
(* a descriptor with a squashed member, a pointer, a slice of structs and a map of structs *)
Definition t1 : tdesc :=
  TStruct false [("Embedded", true, TStruct false [("endpoint", false, TLeaf)]);
                 ("tls", false, TPtr (TStruct false [("ca_file", false, TLeaf)]));
                 ("list", false, TSlice (TStruct false [("id", false, TLeaf)]));
                 ("m", false, TMap (TStruct false [("x", false, TLeaf)]))].

Definition v1 : cv :=
  CMap [("endpoint", CScalar "a:1"); ("tls", CMap [("ca_file", CScalar "f"); ("oops", CScalar "1")]);
        ("list", CList [CMap [("id", CScalar "1")]; CMap [("idd", CScalar "2")]]);
        ("m", CMap [("k", CMap [("y", CNull)])]); ("Embedded", CNull)].

Example v1_unused : unused t1 v1 = [(["tls"], "oops"); (["list"; "1"], "idd"); (["m"; "k"], "y"); ([], "Embedded")].
Proof. vm_compute. reflexivity. Qed.

Example v1_unk : unk t1 v1 ["list"; "1"] "idd".
Proof. apply unused_sound_l. vm_compute. auto. Qed.

Example v1_rejected : decode_strict_ok t1 v1 = false.
Proof. vm_compute. reflexivity. Qed.

Example v1_ok : decode_strict_ok t1 (CMap [("endpoint", CScalar "a:1"); ("tls", CMap [("ca_file", CScalar "f")])]) = true.
Proof. vm_compute. reflexivity. Qed.

(* a `,remain` level accepts everything *)
Example remain_accepts : unused (TStruct true [("a", false, TLeaf)]) (CMap [("zzz", CScalar "1")]) = [].
Proof. vm_compute. reflexivity. Qed.

(* the schema dumped from the tree is not empty and has struct levels to insert into *)
Example schema_levels : (fold_right (fun e n => struct_levels (snd e) + n) 0 schema >= 40)%nat.
Proof. vm_compute. repeat constructor. Qed.

(* ---- faithfulness ------------------------------------------------------------------------- *)
Definition d1 : tv :=
  VRec [("timeout", VSc "5000000000");
        ("sending_queue", VRec [("enabled", VSc "true"); ("queue_size", VSc "1000")])].
Definition m1 : option cv := Some (CMap [("sending_queue", CMap [("queue_size", CScalar "7")])]).

Example d1_overlay : overlay d1 m1 =
  VRec [("timeout", VSc "5000000000"); ("sending_queue", VRec [("enabled", VSc "true"); ("queue_size", VSc "7")])].
Proof. vm_compute. reflexivity. Qed.

Example d1_written : leaf_at d1 ["sending_queue"; "queue_size"] "1000" /\ written m1 ["sending_queue"; "queue_size"] "7".
Proof. split; reflexivity. Qed.

Example d1_unwritten : leaf_at d1 ["sending_queue"; "enabled"] "true" /\ unwritten m1 ["sending_queue"; "enabled"].
Proof. split; [reflexivity|left; reflexivity]. Qed.

(* the OTLP receiver rule: an unwritten protocol section becomes nil *)
Example otlp_protocol_rule :
  decode_model "receivers/otlp"
    (VRec [("protocols", VRec [("grpc", VRec [("endpoint", VSc "a")]); ("http", VRec [("endpoint", VSc "b")])])])
    (CMap [("protocols", CMap [("http", CNull)])])
  = VRec [("protocols", VRec [("http", VRec [("endpoint", VSc "b")])])].
Proof. vm_compute. reflexivity. Qed.

(* ---- documentation: the blocking rule BEFORE fix a5b2af88a (known finding C13-BLOCKING-OVERRIDES,
   now repaired).  The old rule copied `blocking` whenever it was set and thereby overwrote a
   written sibling; the current rule (Model.apply_rule) does not. *)
Definition apply_rule_old_blocking (m : option cv) (v : tv) : tv :=
  if is_set ["sending_queue"] "blocking" m then
    tv_update ["sending_queue"]
      (fun fs => match lookup "blocking" fs with
                 | Some x => map (fun e => if String.eqb (fst e) "block_on_overflow" then ("block_on_overflow", x) else e) fs
                 | None => fs
                 end) v
  else v.

Definition d_q : tv := VRec [("sending_queue", VRec [("enabled", VSc "true"); ("block_on_overflow", VSc "false"); ("blocking", VSc "false")])].
Definition m_q : cv := CMap [("sending_queue", CMap [("block_on_overflow", CScalar "true"); ("blocking", CScalar "false")])].

Example old_rule_overrode_written_sibling :
  tv_get ["sending_queue"; "block_on_overflow"] (apply_rule_old_blocking (Some m_q) (overlay d_q (Some m_q))) = Some (VSc "false").
Proof. vm_compute. reflexivity. Qed.

Example new_rule_keeps_written_sibling :
  tv_get ["sending_queue"; "block_on_overflow"] (decode_model "exporters/otlp" d_q m_q) = Some (VSc "true").
Proof. vm_compute. reflexivity. Qed.

(* the alias still works when block_on_overflow is not written *)
Example new_rule_alias :
  tv_get ["sending_queue"; "block_on_overflow"]
    (decode_model "exporters/otlp" d_q (CMap [("sending_queue", CMap [("blocking", CScalar "true")])])) = Some (VSc "true").
Proof. vm_compute. reflexivity. Qed.

(* ---- effective configuration -------------------------------------------------------------- *)
Definition e1 : ev :=
  ERec [("endpoint", EPlain "a:1");
        ("headers", EStrMap true [("Authorization", "token-1"); ("X-K", "token-2")]);
        ("tls", ERec [("key_pem", EOpaque "pem"); ("ca_file", EPlain "f")]);
        ("metadata_keys", EStrList false ["a"; "b"])].

Example e1_encode : encode e1 =
  CMap [("endpoint", CScalar "a:1");
        ("headers", CMap [("Authorization", CScalar "[REDACTED]"); ("X-K", CScalar "[REDACTED]")]);
        ("tls", CMap [("key_pem", CScalar "[REDACTED]"); ("ca_file", CScalar "f")]);
        ("metadata_keys", CList [CScalar "a"; CScalar "b"])].
Proof. vm_compute. reflexivity. Qed.

Example e1_no_token : ~ In "token-1" (cv_scalars (encode e1)).
Proof. vm_compute. intuition discriminate. Qed.

Example e1_hyp : ev_get ["headers"] e1 = Some (EStrMap true [("Authorization", "token-1"); ("X-K", "token-2")]).
Proof. reflexivity. Qed.

(* ---- kinds, omitempty, round trip ---------------------------------------------------------- *)
Example kinds_1 : decode_leaf KInt (WStr "7") = DErr /\ decode_leaf KBool (WInt 1) = DErr /\
                  decode_leaf KString (WBool true) = DErr /\ decode_leaf KStruct (WStr "x") = DErr /\
                  decode_leaf KUint (WInt (-3)) = DErr /\ decode_leaf KStrSlice (WInt 3) = DErr.
Proof. repeat split. Qed.
Example kinds_2 : decode_leaf KStrSlice (WStr "a,b,,c") = DList ["a"; "b"; ""; "c"] /\ decode_leaf KStrSlice (WStr "") = DList [].
Proof. vm_compute. split; reflexivity. Qed.
Example kinds_3 : decode_leaf KInt (WFloat 11 true) = DErr /\ decode_leaf KInt (WFloat 11 false) = DNum 11 false.  (* 11.5 rejected, 11.0 accepted *)
Proof. split; reflexivity. Qed.
Example kinds_hyp : family_mismatch KInt (WStr "7") = true.
Proof. reflexivity. Qed.

Definition od : otv := ORec false [("endpoint", OSc true true ""); ("write_buffer_size", OSc true false "524288");
                                   ("tls", ORec true [("insecure", OSc false true "false")])].
Definition ov1 : otv := ORec false [("endpoint", OSc true false "a:1"); ("write_buffer_size", OSc true false "9");
                                    ("tls", ORec true [("insecure", OSc false true "false")])].
Example ov1_encode : encode_o ov1 = CMap [("endpoint", CScalar "a:1"); ("write_buffer_size", CScalar "9")].
Proof. vm_compute. reflexivity. Qed.
Lemma nodup3 (a b c : string) : a <> b -> a <> c -> b <> c -> NoDup [a; b; c].
Proof. intros. repeat constructor; cbn; intuition congruence. Qed.
Example ov1_compat : compat od ov1.
Proof.
  apply C_rec; [cbn; apply nodup3; discriminate|].
  apply Forall2_cons; [cbn; split; [reflexivity|split; [constructor|discriminate]]|].
  apply Forall2_cons; [cbn; split; [reflexivity|split; [constructor|discriminate]]|].
  apply Forall2_cons; [|apply Forall2_nil].
  cbn. split; [reflexivity|]. split; [|reflexivity].
  apply C_rec; [cbn; repeat constructor; intros []|].
  apply Forall2_cons; [|apply Forall2_nil]. cbn. split; [reflexivity|split; [constructor|discriminate]].
Qed.
Example ov1_wf : o_wf ov1.
Proof.
  apply W_rec; [cbn; apply nodup3; discriminate|].
  repeat (apply Forall_cons || apply Forall_nil); cbn; try constructor.
  - cbn. repeat constructor. intros [].
  - repeat constructor.
Qed.
Example ov1_round : overlay (o_strip od) (Some (encode_o ov1)) = o_strip ov1.
Proof. vm_compute. reflexivity. Qed.

(* ---- reloads, unknown types, checkers ----------------------------------------------------------- *)
Definition enc_a : cv := CMap [("exporters", CMap [("nop", CNull); ("nop/extra", CNull)])].
Definition enc_b : cv := CMap [("exporters", CMap [("nop", CNull)])].
Example reload_w1 : run_loads_v [(true, enc_a); (true, enc_b)] = [enc_a; enc_b].
Proof. vm_compute. reflexivity. Qed.
Example reload_w2 : run_loads_v [(true, enc_a); (false, enc_b); (true, enc_a)] = [enc_a].
Proof. vm_compute. reflexivity. Qed.
Example reload_w3 : cv_get ["exporters"; "nop/extra"] (Some enc_b) = None.   (* hypothesis of reload_removed_key_absent *)
Proof. reflexivity. Qed.
Example types_w1 : unknown_type_ids ["nop"; "otlp"] ["nop"; "nop/2"; "nopp"; "otlp/x"; "otlpp/x"] = ["nopp"; "otlpp/x"].
Proof. vm_compute. reflexivity. Qed.
Example checker_w1 : walk_complete_b w1 [] = false /\ walk_complete_b w1 (walk w1) = true /\ walk_sound_b w1 [(["x"], "y")] = false.
Proof. vm_compute. repeat split. Qed.
Example checker_w2 : unknown_named_b t1 v1 [] = false /\ unknown_named_b t1 v1 (unused t1 v1) = true.
Proof. vm_compute. split; reflexivity. Qed.
Example checker_w3 : wf_b g0 c_ok = true /\ wf_b g0 c_dangling = false.
Proof. vm_compute. split; reflexivity. Qed.
Example checker_w4 : no_secret_b (ev_plains e1) (encode e1) = true /\ no_secret_b (ev_plains e1) (CMap [("headers", CMap [("Authorization", CScalar "token-1")])]) = false.
Proof. vm_compute. split; reflexivity. Qed.

(* ---- link theorem: non-vacuity ---------------------------------------------------------------------- *)
Definition link_case : vcase := CFaith "exporters/otlp" d1 (CMap [("sending_queue", CMap [("queue_size", CScalar "7")])]) (VRec []).
Example link_case_wf : case_wf link_case.
Proof. repeat constructor; cbn; intuition discriminate. Qed.
Example link_case_model_ok : prop_ok (observe_model link_case) = true.
Proof. vm_compute. reflexivity. Qed.
Example link_case_bad_observation : prop_ok link_case = false.   (* the checker is not trivially true *)
Proof. vm_compute. reflexivity. Qed.
Example cv_both_order : cv_both (CMap [("a", CScalar "1"); ("b", CNull)]) (CMap [("b", CNull); ("a", CScalar "1")]) = true.
Proof. vm_compute. reflexivity. Qed.
